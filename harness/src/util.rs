//! Shared helpers: deterministic PRNG, hex, panic capture, per-run statistics.
use std::collections::{BTreeMap, HashSet};
use std::hash::{Hash, Hasher};

#[derive(Clone)]
pub struct Rng(pub u64);
impl Rng {
    pub fn new(seed: u64) -> Self {
        Rng(seed ^ 0x9E37_79B9_7F4A_7C15)
    }
    pub fn next(&mut self) -> u64 {
        self.0 = self.0.wrapping_add(0x9E37_79B9_7F4A_7C15);
        let mut z = self.0;
        z = (z ^ (z >> 30)).wrapping_mul(0xBF58_476D_1CE4_E5B9);
        z = (z ^ (z >> 27)).wrapping_mul(0x94D0_49BB_1331_11EB);
        z ^ (z >> 31)
    }
    /// uniform in 0..n (n > 0)
    pub fn below(&mut self, n: u64) -> u64 {
        self.next() % n
    }
    pub fn range(&mut self, lo: u64, hi_incl: u64) -> u64 {
        lo + self.below(hi_incl - lo + 1)
    }
    pub fn chance(&mut self, num: u64, den: u64) -> bool {
        self.below(den) < num
    }
    pub fn byte(&mut self) -> u8 {
        self.next() as u8
    }
    pub fn bytes(&mut self, n: usize) -> Vec<u8> {
        (0..n).map(|_| self.byte()).collect()
    }
    pub fn pick<'a, T>(&mut self, xs: &'a [T]) -> &'a T {
        &xs[self.below(xs.len() as u64) as usize]
    }
    pub fn key(&mut self) -> [u8; 32] {
        let mut k = [0u8; 32];
        for b in k.iter_mut() {
            *b = self.byte();
        }
        k
    }
}

pub fn hex(b: &[u8]) -> String {
    if b.is_empty() {
        return "-".to_string();
    }
    let mut s = String::with_capacity(b.len() * 2);
    for x in b {
        s.push_str(&format!("{:02x}", x));
    }
    s
}

pub fn unhex(s: &str) -> Vec<u8> {
    if s == "-" {
        return vec![];
    }
    let b = s.as_bytes();
    assert!(b.len() % 2 == 0, "odd hex string");
    (0..b.len() / 2)
        .map(|i| u8::from_str_radix(&s[2 * i..2 * i + 2], 16).expect("hex"))
        .collect()
}

/// Run `f`, mapping a panic to `None`.
pub fn guarded<T>(f: impl FnOnce() -> T) -> Option<T> {
    std::panic::catch_unwind(std::panic::AssertUnwindSafe(f)).ok()
}

/// Properties say "returns an error", not which: every `err|CODE` in an observation becomes `err` in the
/// compared part, and the codes are moved behind the ` | ` separator, where they are a fidelity note.
pub fn demote_codes(line: &str) -> String {
    let mut main = String::new();
    let mut codes: Vec<String> = vec![];
    let mut rest = line;
    while let Some(i) = rest.find("err|") {
        main.push_str(&rest[..i + 3]);
        let after = &rest[i + 4..];
        let n = after.find(|c: char| !c.is_ascii_alphanumeric()).unwrap_or(after.len());
        codes.push(after[..n].to_string());
        rest = &after[n..];
    }
    main.push_str(rest);
    if codes.is_empty() { main } else { format!("{main} | {}", codes.join(",")) }
}

/// Bytes placed at a chosen offset (0..=7) from an 8-aligned address.
pub struct Placed { buf: Vec<u64>, off: usize, len: usize }
impl Placed {
    pub fn new(data: &[u8], off: usize) -> Placed {
        let mut buf = vec![0u64; (data.len() + off) / 8 + 2];
        let bytes: &mut [u8] = bytemuck::cast_slice_mut(&mut buf[..]);
        bytes[off..off + data.len()].copy_from_slice(data);
        Placed { buf, off, len: data.len() }
    }
    pub fn get(&self) -> &[u8] { &bytemuck::cast_slice::<u64, u8>(&self.buf[..])[self.off..self.off + self.len] }
}

pub fn silence_panics() {
    if std::env::var("VERIF_SHOW_PANICS").is_ok() {
        return;
    }
    std::panic::set_hook(Box::new(|_| {}));
}

#[derive(Default)]
pub struct Stats {
    pub evaluations: u64,
    pub nontrivial: HashSet<u64>,
    pub hist: BTreeMap<String, u64>,
    pub samples: Vec<String>,
    pub oracle_fail: u64,
}
impl Stats {
    pub fn bump(&mut self, key: &str) {
        *self.hist.entry(key.to_string()).or_insert(0) += 1;
    }
    pub fn nontrivial_case(&mut self, text: &str) {
        let mut h = std::collections::hash_map::DefaultHasher::new();
        text.hash(&mut h);
        self.nontrivial.insert(h.finish());
    }
    pub fn sample(&mut self, text: &str) {
        if self.samples.len() < 6 {
            let mut t = text.to_string();
            if t.len() > 400 {
                t.truncate(400);
                t.push_str("…");
            }
            self.samples.push(t);
        }
    }
    pub fn to_json(&self) -> String {
        let hist: Vec<String> = self
            .hist
            .iter()
            .map(|(k, v)| format!("{}:{}", serde_json::to_string(k).unwrap(), v))
            .collect();
        let samples: Vec<String> = self
            .samples
            .iter()
            .map(|s| serde_json::to_string(s).unwrap())
            .collect();
        format!(
            "{{\"evaluations\":{},\"distinct_nontrivial\":{},\"oracle_fail\":{},\"histogram\":{{{}}},\"samples\":[{}]}}",
            self.evaluations,
            self.nontrivial.len(),
            self.oracle_fail,
            hist.join(","),
            samples.join(",")
        )
    }
}

/// Output of running a list of case lines through the implementation and the oracle.
#[derive(Default)]
pub struct RunOut {
    pub impl_lines: Vec<String>,
    pub oracle_lines: Vec<String>,
    pub stats: Stats,
}
impl RunOut {
    pub fn push(&mut self, impl_line: String, oracle: Result<(), String>) {
        self.stats.evaluations += 1;
        self.impl_lines.push(impl_line);
        match oracle {
            Ok(()) => self.oracle_lines.push("PASS".to_string()),
            Err(e) => {
                self.stats.oracle_fail += 1;
                self.oracle_lines.push(format!("FAIL {}", e.replace('\n', " ")))
            }
        }
    }
}

/// Short, stable name of a ProgramError (fidelity note after ` | `).
pub fn err_code(e: &solana_program_error::ProgramError) -> String {
    use solana_program_error::ProgramError as P;
    match e {
        P::Custom(c) => format!("c{c}"),
        P::InvalidArgument => "InvalidArgument".into(),
        P::InvalidInstructionData => "InvalidInstructionData".into(),
        P::InvalidAccountData => "InvalidAccountData".into(),
        P::AccountDataTooSmall => "AccountDataTooSmall".into(),
        P::ArithmeticOverflow => "ArithmeticOverflow".into(),
        P::InvalidRealloc => "InvalidRealloc".into(),
        other => format!("{:?}", other),
    }
}
