//! TRANSLATOR: syn-parses /repo's current sources and regenerates the table-like part of the
//! Lean model (constants, offsets, program ids, error enums, macro constants) under
//! /verif/lean/SplModel/Generated/.  Extracts data only, never control flow.  Fails closed:
//! if an item cannot be located the process exits non-zero and writes nothing stale.
//!
//!   extract <repo-root> <out-dir>
use std::collections::BTreeMap;
use std::fmt::Write as _;
use std::path::{Path, PathBuf};

type Consts = BTreeMap<String, syn::Expr>;

fn parse_file(p: &Path) -> syn::File {
    let src = std::fs::read_to_string(p).unwrap_or_else(|e| fail(&format!("cannot read {}: {e}", p.display())));
    syn::parse_file(&src).unwrap_or_else(|e| fail(&format!("cannot parse {}: {e}", p.display())))
}

/// Fail closed — but only the group (one generated file) being produced: `main` runs every group on its own
/// and reports which ones failed, so that a source change the translator cannot read breaks the tie of the
/// properties that depend on that file and of no others.
fn fail(msg: &str) -> ! {
    std::panic::panic_any(msg.to_string());
}

/// Collect `const` items (also inside inline modules and inherent impls), keyed by name
/// (module-qualified names are also recorded as `mod::NAME`).
fn collect_consts(items: &[syn::Item], prefix: &str, out: &mut Consts) {
    for it in items {
        match it {
            syn::Item::Const(c) => {
                out.insert(format!("{prefix}{}", c.ident), (*c.expr).clone());
            }
            syn::Item::Mod(m) => {
                if let Some((_, items)) = &m.content {
                    collect_consts(items, &format!("{prefix}{}::", m.ident), out);
                }
            }
            syn::Item::Impl(i) => {
                if i.trait_.is_none() {
                    if let syn::Type::Path(tp) = &*i.self_ty {
                        let ty = tp.path.segments.last().unwrap().ident.to_string();
                        for ii in &i.items {
                            if let syn::ImplItem::Const(c) = ii {
                                out.insert(format!("{prefix}{ty}::{}", c.ident), c.expr.clone());
                            }
                        }
                    }
                }
            }
            _ => {}
        }
    }
}

/// Evaluate a constant integer expression (literals, + - * / << >>, parentheses, casts,
/// references to other collected constants, `size_of::<uN>()`).
fn eval(e: &syn::Expr, env: &Consts) -> Option<i128> {
    use syn::{BinOp, Expr, Lit};
    match e {
        Expr::Lit(l) => match &l.lit {
            Lit::Int(i) => i.base10_parse::<i128>().ok(),
            Lit::Byte(b) => Some(b.value() as i128),
            _ => None,
        },
        Expr::Paren(p) => eval(&p.expr, env),
        Expr::Group(g) => eval(&g.expr, env),
        Expr::Cast(c) => eval(&c.expr, env),
        Expr::Unary(u) => match u.op {
            syn::UnOp::Neg(_) => eval(&u.expr, env).map(|x| -x),
            _ => None,
        },
        Expr::Binary(b) => {
            let l = eval(&b.left, env)?;
            let r = eval(&b.right, env)?;
            match b.op {
                BinOp::Add(_) => Some(l + r),
                BinOp::Sub(_) => Some(l - r),
                BinOp::Mul(_) => Some(l * r),
                BinOp::Div(_) => Some(l / r),
                BinOp::Shl(_) => Some(l << r),
                BinOp::Shr(_) => Some(l >> r),
                _ => None,
            }
        }
        Expr::Path(p) => {
            let name = p.path.segments.last()?.ident.to_string();
            let e = env.get(&name)?;
            eval(e, env)
        }
        Expr::Call(c) => {
            // size_of::<T>() / mem::size_of::<T>()
            if let Expr::Path(p) = &*c.func {
                let seg = p.path.segments.last()?;
                if seg.ident == "size_of" {
                    if let syn::PathArguments::AngleBracketed(a) = &seg.arguments {
                        if let Some(syn::GenericArgument::Type(syn::Type::Path(t))) = a.args.first() {
                            return match t.path.segments.last()?.ident.to_string().as_str() {
                                "u8" | "i8" => Some(1),
                                "u16" | "i16" => Some(2),
                                "u32" | "i32" => Some(4),
                                "u64" | "i64" => Some(8),
                                "u128" | "i128" => Some(16),
                                _ => None,
                            };
                        }
                    }
                }
            }
            None
        }
        _ => None,
    }
}

fn const_val(env: &Consts, name: &str, file: &str) -> i128 {
    let e = env.get(name).unwrap_or_else(|| fail(&format!("const {name} not found in {file}")));
    eval(e, env).unwrap_or_else(|| fail(&format!("const {name} in {file}: expression not evaluable")))
}

/// First `declare_id!("…")` at the given module path ("" = top level).
fn declare_id(items: &[syn::Item], modpath: &[&str], file: &str) -> [u8; 32] {
    let mut items = items;
    for m in modpath {
        let mut found = None;
        for it in items {
            if let syn::Item::Mod(md) = it {
                if md.ident == m {
                    found = md.content.as_ref().map(|c| &c.1);
                }
            }
        }
        items = found.unwrap_or_else(|| fail(&format!("module {m} not found in {file}")));
    }
    for it in items {
        if let syn::Item::Macro(m) = it {
            if m.mac.path.segments.last().map(|s| s.ident == "declare_id").unwrap_or(false) {
                let lit: syn::LitStr = m.mac.parse_body().unwrap_or_else(|_| fail(&format!("declare_id! argument in {file}")));
                return base58_32(&lit.value()).unwrap_or_else(|| fail(&format!("declare_id! in {file}: not a 32-byte base58 key")));
            }
        }
    }
    fail(&format!("declare_id! not found in {file}"))
}

fn base58_32(s: &str) -> Option<[u8; 32]> {
    const A: &[u8] = b"123456789ABCDEFGHJKLMNPQRSTUVWXYZabcdefghijkmnopqrstuvwxyz";
    let mut num = vec![0u8; 0]; // big-endian base-256 digits
    for c in s.bytes() {
        let mut carry = A.iter().position(|&x| x == c)? as u32;
        for d in num.iter_mut().rev() {
            let v = (*d as u32) * 58 + carry;
            *d = (v & 0xff) as u8;
            carry = v >> 8;
        }
        while carry > 0 {
            num.insert(0, (carry & 0xff) as u8);
            carry >>= 8;
        }
    }
    let zeros = s.bytes().take_while(|&c| c == b'1').count();
    let mut out = vec![0u8; zeros];
    out.extend(num);
    if out.len() != 32 {
        return None;
    }
    let mut k = [0u8; 32];
    k.copy_from_slice(&out);
    Some(k)
}

fn lean_bytes(b: &[u8]) -> String {
    let v: Vec<String> = b.iter().map(|x| x.to_string()).collect();
    format!("[{}]", v.join(", "))
}

fn write_if_changed(path: &PathBuf, content: &str) {
    if let Ok(old) = std::fs::read_to_string(path) {
        if old == content {
            return;
        }
    }
    std::fs::write(path, content).unwrap_or_else(|e| fail(&format!("write {}: {e}", path.display())));
    eprintln!("extract: regenerated {}", path.display());
}

fn gen_token(repo: &Path, out: &Path) {
    let f_tok = repo.join("generic-token/src/token.rs");
    let f_22 = repo.join("generic-token/src/token_2022.rs");
    let tok = parse_file(&f_tok);
    let t22 = parse_file(&f_22);
    let mut env = Consts::new();
    collect_consts(&tok.items, "", &mut env);
    let mut env22 = Consts::new();
    collect_consts(&t22.items, "", &mut env22);
    let mut s = String::new();
    writeln!(s, "-- GENERATED by /verif/harness `extract` from /repo/generic-token/src/{{token,token_2022}}.rs — do not edit").unwrap();
    writeln!(s, "import SplModel.Basic\nnamespace Gen.Token").unwrap();
    for name in [
        "SPL_TOKEN_ACCOUNT_MINT_OFFSET",
        "SPL_TOKEN_ACCOUNT_OWNER_OFFSET",
        "SPL_TOKEN_ACCOUNT_AMOUNT_OFFSET",
        "SPL_TOKEN_ACCOUNT_STATE_OFFSET",
        "SPL_TOKEN_ACCOUNT_LENGTH",
        "SPL_TOKEN_MINT_SUPPLY_OFFSET",
        "SPL_TOKEN_MINT_DECIMALS_OFFSET",
        "SPL_TOKEN_MINT_IS_INITIALIZED_OFFSET",
        "SPL_TOKEN_MINT_LENGTH",
    ] {
        writeln!(s, "def {name} : Nat := {}", const_val(&env, name, "token.rs")).unwrap();
    }
    for name in ["ACCOUNTTYPE_ACCOUNT", "ACCOUNTTYPE_MINT", "SPL_TOKEN_MULTISIG_LENGTH"] {
        writeln!(s, "def {name} : Nat := {}", const_val(&env22, name, "token_2022.rs")).unwrap();
    }
    // widths used by the unchecked getters: `PUBKEY_BYTES` (solana-pubkey) and size_of::<u64>()
    writeln!(s, "def PUBKEY_BYTES : Nat := 32").unwrap();
    writeln!(s, "def U64_BYTES : Nat := 8").unwrap();
    writeln!(s, "def TOKEN_ID : Bytes := {}", lean_bytes(&declare_id(&tok.items, &[], "token.rs"))).unwrap();
    writeln!(s, "def TOKEN_2022_ID : Bytes := {}", lean_bytes(&declare_id(&t22.items, &[], "token_2022.rs"))).unwrap();
    // the native mint: its id and the canned 82-byte account data (a byte-array literal)
    writeln!(s, "def NATIVE_MINT_ID : Bytes := {}", lean_bytes(&declare_id(&tok.items, &["native_mint"], "token.rs"))).unwrap();
    let arr = env.get("native_mint::ACCOUNT_DATA").unwrap_or_else(|| fail("const native_mint::ACCOUNT_DATA not found in token.rs"));
    let bytes: Vec<u8> = match arr {
        syn::Expr::Array(a) => a.elems.iter().map(|e| {
            let v = eval(e, &env).unwrap_or_else(|| fail("native_mint::ACCOUNT_DATA: element not evaluable"));
            if !(0..=255).contains(&v) { fail("native_mint::ACCOUNT_DATA: element out of byte range") }
            v as u8
        }).collect(),
        _ => fail("native_mint::ACCOUNT_DATA is not an array literal"),
    };
    writeln!(s, "def NATIVE_MINT_ACCOUNT_DATA : Bytes := {}", lean_bytes(&bytes)).unwrap();
    writeln!(s, "end Gen.Token").unwrap();
    write_if_changed(&out.join("TokenConsts.lean"), &s);
}

/// Find a free function or an inherent/trait method named `name` anywhere in the file.
fn find_fn_block(file: &syn::File, name: &str) -> Option<syn::Block> {
    use syn::visit::Visit;
    struct V<'a> { name: &'a str, found: Option<syn::Block> }
    impl<'ast, 'a> Visit<'ast> for V<'a> {
        fn visit_item_fn(&mut self, f: &'ast syn::ItemFn) {
            if f.sig.ident == self.name && self.found.is_none() { self.found = Some((*f.block).clone()); }
            syn::visit::visit_item_fn(self, f);
        }
        fn visit_impl_item_fn(&mut self, f: &'ast syn::ImplItemFn) {
            if f.sig.ident == self.name && self.found.is_none() { self.found = Some(f.block.clone()); }
            syn::visit::visit_impl_item_fn(self, f);
        }
    }
    let mut v = V { name, found: None };
    v.visit_file(file);
    v.found
}

/// All `expr[lo..hi]` index expressions with literal bounds inside a block: (lo, hi) with
/// `None` for an omitted bound.
fn literal_slices(block: &syn::Block) -> Vec<(Option<i128>, Option<i128>)> {
    use syn::visit::Visit;
    struct V { out: Vec<(Option<i128>, Option<i128>)> }
    impl<'ast> Visit<'ast> for V {
        fn visit_expr_index(&mut self, e: &'ast syn::ExprIndex) {
            if let syn::Expr::Range(r) = &*e.index {
                let env = Consts::new();
                let lo = r.start.as_ref().map(|x| eval(x, &env));
                let hi = r.end.as_ref().map(|x| eval(x, &env));
                let ok = lo.as_ref().map_or(true, |x| x.is_some()) && hi.as_ref().map_or(true, |x| x.is_some());
                if ok && matches!(r.limits, syn::RangeLimits::HalfOpen(_)) {
                    self.out.push((lo.flatten(), hi.flatten()));
                }
            }
            syn::visit::visit_expr_index(self, e);
        }
    }
    let mut v = V { out: vec![] };
    v.visit_block(block);
    v.out
}

/// String-literal argument of the first `.method("…")` call in the file.
fn method_str_arg(file: &syn::File, method: &str) -> Option<String> {
    use syn::visit::Visit;
    struct V<'a> { m: &'a str, found: Option<String> }
    impl<'ast, 'a> Visit<'ast> for V<'a> {
        fn visit_expr_method_call(&mut self, e: &'ast syn::ExprMethodCall) {
            if e.method == self.m && self.found.is_none() {
                if let Some(syn::Expr::Lit(l)) = e.args.first() {
                    if let syn::Lit::Str(s) = &l.lit { self.found = Some(s.value()); }
                }
            }
            syn::visit::visit_expr_method_call(self, e);
        }
    }
    let mut v = V { m: method, found: None };
    v.visit_file(file);
    v.found
}

fn lean_str(s: &str) -> String {
    let mut o = String::from("\"");
    for c in s.chars() {
        match c {
            '"' => o.push_str("\\\""),
            '\\' => o.push_str("\\\\"),
            '\n' => o.push_str("\\n"),
            '\r' => o.push_str("\\r"),
            '\t' => o.push_str("\\t"),
            c if (c as u32) < 0x20 || c as u32 == 0x7f => o.push_str(&format!("\\x{:02x}", c as u32)),
            c => o.push(c),
        }
    }
    o.push('"');
    o
}

fn gen_disc(repo: &Path, out: &Path) {
    let f_d = parse_file(&repo.join("discriminator/src/discriminator.rs"));
    let f_syn = parse_file(&repo.join("discriminator-syn/src/lib.rs"));
    let f_parser = parse_file(&repo.join("discriminator-syn/src/parser.rs"));
    let mut env = Consts::new();
    collect_consts(&f_d.items, "", &mut env);
    let length = const_val(&env, "ArrayDiscriminator::LENGTH", "discriminator.rs");
    let rt = find_fn_block(&f_d, "new_with_hash_input").unwrap_or_else(|| fail("new_with_hash_input not found"));
    let rt_sl = literal_slices(&rt);
    let ct = find_fn_block(&f_syn, "get_discriminator_bytes").unwrap_or_else(|| fail("get_discriminator_bytes not found"));
    let ct_sl = literal_slices(&ct);
    let pick = |v: &Vec<(Option<i128>, Option<i128>)>, what: &str| -> i128 {
        if v.len() != 1 { fail(&format!("{what}: expected exactly one literal slice of the hash, found {}", v.len())); }
        match v[0] {
            (None, Some(hi)) | (Some(0), Some(hi)) => hi,
            (lo, hi) => fail(&format!("{what}: hash slice is [{lo:?}..{hi:?}], not a prefix; the model only describes a prefix slice")),
        }
    };
    let attr = method_str_arg(&f_parser, "is_ident").unwrap_or_else(|| fail("attribute name (is_ident) not found in parser.rs"));
    let mut s = String::new();
    writeln!(s, "-- GENERATED by /verif/harness `extract` from /repo/discriminator/src/discriminator.rs and /repo/discriminator-syn/src/lib.rs — do not edit").unwrap();
    writeln!(s, "namespace Gen.Disc").unwrap();
    writeln!(s, "def LENGTH : Nat := {length}").unwrap();
    writeln!(s, "def RT_SLICE_END : Nat := {}", pick(&rt_sl, "new_with_hash_input")).unwrap();
    writeln!(s, "def CT_SLICE_END : Nat := {}", pick(&ct_sl, "get_discriminator_bytes")).unwrap();
    writeln!(s, "def ATTR_NAME : String := {}", lean_str(&attr)).unwrap();
    writeln!(s, "end Gen.Disc").unwrap();
    write_if_changed(&out.join("DiscConsts.lean"), &s);
}

fn const_str(items: &[syn::Item], name: &str, file: &str) -> String {
    for it in items {
        if let syn::Item::Const(c) = it {
            if c.ident == name {
                if let syn::Expr::Lit(l) = &*c.expr {
                    if let syn::Lit::Str(s) = &l.lit { return s.value(); }
                }
            }
        }
    }
    fail(&format!("string const {name} not found in {file}"))
}

/// String literal passed to `String::from("…")` inside the named function (the default message).
fn string_from_literal(block: &syn::Block) -> Vec<String> {
    use syn::visit::Visit;
    struct V { out: Vec<String> }
    impl<'ast> Visit<'ast> for V {
        fn visit_expr_call(&mut self, e: &'ast syn::ExprCall) {
            if let syn::Expr::Path(p) = &*e.func {
                let segs: Vec<String> = p.path.segments.iter().map(|s| s.ident.to_string()).collect();
                if segs == ["String", "from"] {
                    if let Some(syn::Expr::Lit(l)) = e.args.first() {
                        if let syn::Lit::Str(s) = &l.lit { self.out.push(s.value()); }
                    }
                }
            }
            syn::visit::visit_expr_call(self, e);
        }
    }
    let mut v = V { out: vec![] };
    v.visit_block(block);
    v.out
}

fn gen_err_consts(repo: &Path, out: &Path) {
    let f = parse_file(&repo.join("program-error-derive/src/macro_impl.rs"));
    let mut env = Consts::new();
    collect_consts(&f.items, "", &mut env);
    let ns = const_str(&f.items, "SPL_ERROR_HASH_NAMESPACE", "macro_impl.rs");
    let min = const_val(&env, "SPL_ERROR_HASH_MIN_VALUE", "macro_impl.rs");
    let blk = find_fn_block(&f, "u32_from_hash").unwrap_or_else(|| fail("u32_from_hash not found"));
    let sl = literal_slices(&blk);
    if sl.len() != 1 { fail(&format!("u32_from_hash: expected one literal slice of the hash, found {}", sl.len())); }
    let (lo, hi) = match sl[0] { (Some(lo), Some(hi)) => (lo, hi), (None, Some(hi)) => (0, hi), _ => fail("u32_from_hash: open-ended hash slice") };
    let ts = find_fn_block(&f, "to_str").unwrap_or_else(|| fail("to_str not found"));
    let defaults = string_from_literal(&ts);
    if defaults.len() != 1 { fail(&format!("to_str: expected one String::from(\"…\") default message, found {}", defaults.len())); }
    let mut s = String::new();
    writeln!(s, "-- GENERATED by /verif/harness `extract` from /repo/program-error-derive/src/macro_impl.rs — do not edit").unwrap();
    writeln!(s, "namespace Gen.Err").unwrap();
    writeln!(s, "def NAMESPACE : String := {}", lean_str(&ns)).unwrap();
    writeln!(s, "def MIN_VALUE : Nat := {min}").unwrap();
    writeln!(s, "def HASH_LO : Nat := {lo}").unwrap();
    writeln!(s, "def HASH_HI : Nat := {hi}").unwrap();
    writeln!(s, "def DEFAULT_MESSAGE : String := {}", lean_str(&defaults[0])).unwrap();
    writeln!(s, "end Gen.Err").unwrap();
    write_if_changed(&out.join("ErrConsts.lean"), &s);
}

/// One hand-written library error enum: variants (name, explicit discriminant, `#[error]` texts)
/// and the arms of its hand-written `ToStr::to_str` match.
fn lib_enum(repo: &Path, rel: &str, name: &str) -> String {
    let f = parse_file(&repo.join(rel));
    let env = Consts::new();
    let en = f.items.iter().find_map(|it| match it { syn::Item::Enum(e) if e.ident == name => Some(e), _ => None })
        .unwrap_or_else(|| fail(&format!("enum {name} not found in {rel}")));
    let mut s = String::new();
    writeln!(s, "def {name} : ProgErr.EnumDesc := {{ name := {}, variants := [", lean_str(name)).unwrap();
    let mut first = true;
    for v in &en.variants {
        if !matches!(v.fields, syn::Fields::Unit) { fail(&format!("{name}::{} is not a unit variant", v.ident)); }
        let disc = match &v.discriminant {
            Some((_, e)) => format!("some {}", eval(e, &env).unwrap_or_else(|| fail(&format!("{name}::{}: discriminant not evaluable", v.ident)))),
            None => "none".to_string(),
        };
        let mut attrs = vec![];
        for a in &v.attrs {
            if a.path().is_ident("error") {
                match a.parse_args::<syn::LitStr>() {
                    Ok(l) => attrs.push(format!("some {}", lean_str(&l.value()))),
                    Err(_) => attrs.push("none".to_string()),
                }
            }
        }
        writeln!(s, "  {}{{ name := {}, disc := {}, errAttrs := [{}] }}", if first { "" } else { ", " }, lean_str(&v.ident.to_string()), disc, attrs.join(", ")).unwrap();
        first = false;
    }
    writeln!(s, "] }}").unwrap();
    // hand-written to_str arms
    let mut arms: Vec<(String, String)> = vec![];
    let mut found = false;
    for it in &f.items {
        if let syn::Item::Impl(im) = it {
            let is_tostr = im.trait_.as_ref().map_or(false, |(_, p, _)| p.segments.last().map_or(false, |s| s.ident == "ToStr"));
            let for_name = matches!(&*im.self_ty, syn::Type::Path(tp) if tp.path.segments.last().map_or(false, |s| s.ident == name));
            if is_tostr && for_name {
                for ii in &im.items {
                    if let syn::ImplItem::Fn(func) = ii {
                        if func.sig.ident == "to_str" {
                            found = true;
                            use syn::visit::Visit;
                            struct V<'a> { arms: &'a mut Vec<(String, String)> }
                            impl<'ast, 'a> Visit<'ast> for V<'a> {
                                fn visit_arm(&mut self, a: &'ast syn::Arm) {
                                    let pat = match &a.pat {
                                        syn::Pat::Path(p) => p.path.segments.last().map(|s| s.ident.to_string()),
                                        syn::Pat::Ident(i) => Some(i.ident.to_string()),
                                        _ => None,
                                    };
                                    fn lit_of(e: &syn::Expr) -> Option<String> {
                                        match e {
                                            syn::Expr::Lit(l) => if let syn::Lit::Str(s) = &l.lit { Some(s.value()) } else { None },
                                            syn::Expr::Block(b) if b.block.stmts.len() == 1 => match &b.block.stmts[0] { syn::Stmt::Expr(e, None) => lit_of(e), _ => None },
                                            syn::Expr::Paren(p) => lit_of(&p.expr),
                                            _ => None,
                                        }
                                    }
                                    match (pat, lit_of(&a.body)) {
                                        (Some(p), Some(l)) => self.arms.push((p, l)),
                                        _ => fail("to_str: match arm is not `Enum::Variant => \"literal\"`"),
                                    }
                                }
                            }
                            V { arms: &mut arms }.visit_block(&func.block);
                        }
                    }
                }
            }
        }
    }
    if !found { fail(&format!("impl ToStr for {name} not found in {rel}")); }
    writeln!(s, "def {name}_toStrArms : List (String × String) := [").unwrap();
    for (i, (p, l)) in arms.iter().enumerate() {
        writeln!(s, "  {}({}, {})", if i == 0 { "" } else { ", " }, lean_str(p), lean_str(l)).unwrap();
    }
    writeln!(s, "]").unwrap();
    s
}

fn gen_error_enums(repo: &Path, out: &Path) {
    let mut s = String::new();
    writeln!(s, "-- GENERATED by /verif/harness `extract` from /repo/{{type-length-value,list-view,tlv-account-resolution}}/src/error.rs — do not edit").unwrap();
    writeln!(s, "import SplModel.ProgramError\nnamespace Gen.LibErr").unwrap();
    s.push_str(&lib_enum(repo, "type-length-value/src/error.rs", "TlvError"));
    s.push_str(&lib_enum(repo, "list-view/src/error.rs", "ListViewError"));
    s.push_str(&lib_enum(repo, "tlv-account-resolution/src/error.rs", "AccountResolutionError"));
    writeln!(s, "end Gen.LibErr").unwrap();
    write_if_changed(&out.join("ErrorEnums.lean"), &s);
}

fn gen_tlv(repo: &Path, out: &Path) {
    let f_d = parse_file(&repo.join("discriminator/src/discriminator.rs"));
    let f_l = parse_file(&repo.join("type-length-value/src/length.rs"));
    let f_e = parse_file(&repo.join("type-length-value/src/error.rs"));
    let mut env = Consts::new();
    collect_consts(&f_d.items, "", &mut env);
    let dl = const_val(&env, "ArrayDiscriminator::LENGTH", "discriminator.rs");
    // pub struct Length(PodUxx);
    let mut lw = None;
    for it in &f_l.items {
        if let syn::Item::Struct(st) = it {
            if st.ident == "Length" {
                if let syn::Fields::Unnamed(u) = &st.fields {
                    if let Some(syn::Type::Path(tp)) = u.unnamed.first().map(|f| &f.ty) {
                        lw = match tp.path.segments.last().unwrap().ident.to_string().as_str() {
                            "PodU16" => Some(2), "PodU32" => Some(4), "PodU64" => Some(8), "PodU128" => Some(16), _ => None,
                        };
                    }
                }
            }
        }
    }
    let lw = lw.unwrap_or_else(|| fail("struct Length(PodUxx) not found in length.rs"));
    // TlvError discriminants
    let en = f_e.items.iter().find_map(|it| match it { syn::Item::Enum(e) if e.ident == "TlvError" => Some(e), _ => None })
        .unwrap_or_else(|| fail("enum TlvError not found"));
    let mut next: i128 = 0;
    let mut codes = std::collections::BTreeMap::new();
    for v in &en.variants {
        if let Some((_, e)) = &v.discriminant { next = eval(e, &Consts::new()).unwrap_or_else(|| fail("TlvError discriminant")); }
        codes.insert(v.ident.to_string(), next);
        next += 1;
    }
    let get = |n: &str| *codes.get(n).unwrap_or_else(|| fail(&format!("TlvError::{n} not found")));
    let mut s = String::new();
    writeln!(s, "-- GENERATED by /verif/harness `extract` from /repo/discriminator/src/discriminator.rs and /repo/type-length-value/src/length.rs — do not edit").unwrap();
    writeln!(s, "namespace Gen.Tlv").unwrap();
    writeln!(s, "def DISC_LEN : Nat := {dl}").unwrap();
    writeln!(s, "def LEN_WIDTH : Nat := {lw}").unwrap();
    writeln!(s, "def TYPE_NOT_FOUND : Nat := {}", get("TypeNotFound")).unwrap();
    writeln!(s, "def TYPE_ALREADY_EXISTS : Nat := {}", get("TypeAlreadyExists")).unwrap();
    writeln!(s, "end Gen.Tlv").unwrap();
    write_if_changed(&out.join("TlvConsts.lean"), &s);
}

fn gen_resolution(repo: &Path, out: &Path) {
    let f = parse_file(&repo.join("tlv-account-resolution/src/account.rs"));
    let mut env = Consts::new();
    collect_consts(&f.items, "", &mut env);
    let top = const_val(&env, "U8_TOP_BIT", "account.rs");
    let mut s = String::new();
    writeln!(s, "-- GENERATED by /verif/harness `extract` from /repo/tlv-account-resolution/src/account.rs — do not edit").unwrap();
    writeln!(s, "namespace Gen.Resolution\ndef U8_TOP_BIT : Nat := {top}\nend Gen.Resolution").unwrap();
    write_if_changed(&out.join("ResolutionConsts.lean"), &s);
}

fn main() {
    let args: Vec<String> = std::env::args().collect();
    if args.len() != 3 {
        eprintln!("usage: extract <repo-root> <out-dir>");
        std::process::exit(2);
    }
    let repo = PathBuf::from(&args[1]);
    let out = PathBuf::from(&args[2]);
    std::fs::create_dir_all(&out).unwrap();
    std::panic::set_hook(Box::new(|_| {}));
    let groups: Vec<(&str, &str, fn(&Path, &Path))> = vec![
        ("token", "TokenConsts.lean", gen_token),
        ("disc", "DiscConsts.lean", gen_disc),
        ("tlv", "TlvConsts.lean", gen_tlv),
        ("resolution", "ResolutionConsts.lean", gen_resolution),
        ("err_consts", "ErrConsts.lean", gen_err_consts),
        ("error_enums", "ErrorEnums.lean", gen_error_enums),
        ("token_fns", "TokenFns.lean", gen_token_fns),
        ("seed_sizes", "SeedConsts.lean", gen_seed_sizes),
        ("seed_tags", "FormatConsts.lean", gen_seed_tags),
        ("listview_fns", "ListViewFns.lean", gen_listview_fns),
    ];
    let mut failed = false;
    for (name, file, g) in groups {
        let (r2, o2) = (repo.clone(), out.clone());
        match std::panic::catch_unwind(move || g(&r2, &o2)) {
            Ok(()) => println!("group {name} {file} ok"),
            Err(e) => {
                failed = true;
                let msg = e.downcast_ref::<String>().cloned().or_else(|| e.downcast_ref::<&str>().map(|s| s.to_string())).unwrap_or_else(|| "panic".into());
                println!("group {name} {file} FAILED: {}", msg.replace('\n', " "));
            }
        }
    }
    std::process::exit(if failed { 3 } else { 0 });
}
// ---------------------------------------------------------------------------------------------
// Boolean predicates of generic-token, translated expression by expression into the small Lean
// embedding `SplModel/RustExpr.lean` (`Generated/TokenFns.lean`).  Only the expression forms that
// occur are supported; anything else fails closed, so a rewrite into an unsupported form breaks the
// tie (reported as such) instead of silently keeping a stale model.
// ---------------------------------------------------------------------------------------------

struct FnCtx<'a> {
    module: &'a str,                 // "token" | "token_2022" | "lib"
    slices: Vec<String>,             // parameters of type &[u8]
    nats: Vec<String>,               // parameters of type usize / u8
    keys: Vec<String>,               // parameters of type &Pubkey
    consts: &'a std::collections::BTreeSet<String>, // names available in Gen.Token
    fns: &'a std::collections::BTreeMap<String, String>, // rust path (joined by ::) -> Lean name
}

fn path_str(p: &syn::Path) -> String {
    p.segments.iter().map(|s| s.ident.to_string()).collect::<Vec<_>>().join("::")
}

fn unparen(e: &syn::Expr) -> &syn::Expr {
    match e {
        syn::Expr::Paren(p) => unparen(&p.expr),
        syn::Expr::Group(g) => unparen(&g.expr),
        syn::Expr::Reference(r) => unparen(&r.expr),
        _ => e,
    }
}

/// a numeric (usize / u8) expression -> Lean term of type `Res Nat`
fn tr_num(e: &syn::Expr, cx: &FnCtx) -> String {
    let e = unparen(e);
    match e {
        syn::Expr::Lit(l) => match &l.lit {
            syn::Lit::Int(i) => format!("(RX.lit {})", i.base10_parse::<u128>().unwrap_or_else(|_| fail("integer literal"))),
            _ => fail("unsupported literal in a numeric position"),
        },
        syn::Expr::Path(p) => {
            let name = p.path.segments.last().unwrap().ident.to_string();
            if cx.nats.contains(&name) || cx.consts.contains(&name) {
                format!("(RX.lit {name})")
            } else {
                fail(&format!("numeric name `{name}` is neither a parameter nor an extracted constant"))
            }
        }
        syn::Expr::MethodCall(m) if m.method == "len" && m.args.is_empty() => {
            format!("(RX.len {})", tr_slice(&m.receiver, cx))
        }
        syn::Expr::Index(ix) => format!("(RX.index {} {})", tr_slice(&ix.expr, cx), tr_num(&ix.index, cx)),
        // *x.get(i).unwrap_or(&d)
        syn::Expr::Unary(u) if matches!(u.op, syn::UnOp::Deref(_)) => {
            if let syn::Expr::MethodCall(m) = unparen(&u.expr) {
                if m.method == "unwrap_or" && m.args.len() == 1 {
                    if let syn::Expr::MethodCall(g) = unparen(&m.receiver) {
                        if g.method == "get" && g.args.len() == 1 {
                            return format!("(RX.getOr {} {} {})", tr_slice(&g.receiver, cx), tr_num(&g.args[0], cx), tr_num(&m.args[0], cx));
                        }
                    }
                }
            }
            fail("unsupported dereference in a numeric position")
        }
        _ => fail(&format!("unsupported numeric expression form in {}", cx.module)),
    }
}

fn tr_slice(e: &syn::Expr, cx: &FnCtx) -> String {
    match unparen(e) {
        syn::Expr::Path(p) => {
            let name = p.path.segments.last().unwrap().ident.to_string();
            if cx.slices.contains(&name) { name } else { fail(&format!("`{name}` is not a byte-slice parameter")) }
        }
        _ => fail("unsupported byte-slice expression"),
    }
}

fn is_bool_op(op: &syn::BinOp) -> bool { matches!(op, syn::BinOp::And(_) | syn::BinOp::Or(_)) }

/// a program-id expression: `*program_id` or `token::id()` -> Lean term of type `Bytes`
fn tr_key(e: &syn::Expr, cx: &FnCtx) -> Option<String> {
    match unparen(e) {
        syn::Expr::Unary(u) if matches!(u.op, syn::UnOp::Deref(_)) => {
            if let syn::Expr::Path(p) = unparen(&u.expr) {
                let n = p.path.segments.last().unwrap().ident.to_string();
                if cx.keys.contains(&n) { return Some(n); }
            }
            None
        }
        syn::Expr::Call(c) if c.args.is_empty() => {
            if let syn::Expr::Path(p) = &*c.func {
                return match path_str(&p.path).as_str() {
                    "token::id" => Some("TOKEN_ID".into()),
                    "token_2022::id" => Some("TOKEN_2022_ID".into()),
                    _ => None,
                };
            }
            None
        }
        _ => None,
    }
}

/// a boolean expression -> Lean term of type `Res Bool`
fn tr_bool(e: &syn::Expr, cx: &FnCtx) -> String {
    let e = unparen(e);
    match e {
        syn::Expr::Binary(b) if is_bool_op(&b.op) => {
            let f = if matches!(b.op, syn::BinOp::And(_)) { "RX.and" } else { "RX.or" };
            format!("({f} {} (fun _ => {}))", tr_bool(&b.left, cx), tr_bool(&b.right, cx))
        }
        syn::Expr::Binary(b) => {
            if let (Some(l), Some(r)) = (tr_key(&b.left, cx), tr_key(&b.right, cx)) {
                return match b.op {
                    syn::BinOp::Eq(_) => format!("(RX.eqBytes {l} {r})"),
                    syn::BinOp::Ne(_) => format!("(RX.not (RX.eqBytes {l} {r}))"),
                    _ => fail("unsupported comparison of program ids"),
                };
            }
            let f = match b.op {
                syn::BinOp::Eq(_) => "RX.eq", syn::BinOp::Ne(_) => "RX.ne", syn::BinOp::Lt(_) => "RX.lt",
                syn::BinOp::Le(_) => "RX.le", syn::BinOp::Gt(_) => "RX.gt", syn::BinOp::Ge(_) => "RX.ge",
                _ => fail("unsupported binary operator in a predicate"),
            };
            format!("({f} {} {})", tr_num(&b.left, cx), tr_num(&b.right, cx))
        }
        syn::Expr::Unary(u) if matches!(u.op, syn::UnOp::Not(_)) => format!("(RX.not {})", tr_bool(&u.expr, cx)),
        syn::Expr::Lit(l) => match &l.lit {
            syn::Lit::Bool(b) => format!("(Res.ok {})", b.value),
            _ => fail("unsupported literal in a boolean position"),
        },
        syn::Expr::If(i) => {
            let Some((_, els)) = &i.else_branch else { fail("`if` without `else` in a boolean position") };
            format!("(RX.ifB {} (fun _ => {}) (fun _ => {}))", tr_bool(&i.cond, cx), tr_block(&i.then_branch, cx), tr_else(els, cx))
        }
        syn::Expr::Block(b) => tr_block(&b.block, cx),
        syn::Expr::Return(r) => tr_bool(r.expr.as_ref().unwrap_or_else(|| fail("bare return")), cx),
        syn::Expr::Call(c) => {
            let syn::Expr::Path(p) = &*c.func else { fail("unsupported call") };
            let key = path_str(&p.path);
            // unqualified names resolve inside the current module first, then in `token` (what token_2022 imports)
            let lean = cx.fns.get(&format!("{}::{}", cx.module, key)).or_else(|| cx.fns.get(&key)).or_else(|| cx.fns.get(&format!("token::{key}")))
                .unwrap_or_else(|| fail(&format!("call to `{key}` in {}: not one of the translated functions", cx.module)));
            let args: Vec<String> = c.args.iter().map(|a| match unparen(a) {
                syn::Expr::Path(p) => {
                    let n = p.path.segments.last().unwrap().ident.to_string();
                    if cx.slices.contains(&n) || cx.nats.contains(&n) || cx.consts.contains(&n) || cx.keys.contains(&n) { n } else { fail(&format!("argument `{n}` of `{key}`")) }
                }
                _ => fail("unsupported argument form"),
            }).collect();
            format!("({lean} {})", args.join(" "))
        }
        _ => fail(&format!("unsupported boolean expression form in {}", cx.module)),
    }
}

fn tr_else(e: &syn::Expr, cx: &FnCtx) -> String {
    match e {
        syn::Expr::Block(b) => tr_block(&b.block, cx),
        other => tr_bool(other, cx),
    }
}

/// does the block always leave the function (`return …;` as its last statement)?
fn returns(block: &syn::Block) -> Option<&syn::Expr> {
    match block.stmts.last()? {
        syn::Stmt::Expr(syn::Expr::Return(r), _) if block.stmts.len() == 1 => r.expr.as_deref(),
        _ => None,
    }
}

/// a block of a boolean function: `let x = <numeric>;`, `if c { return e; }` (early return), then a tail expression
fn tr_block(block: &syn::Block, cx: &FnCtx) -> String {
    fn go(stmts: &[syn::Stmt], cx: &FnCtx) -> String {
        let Some((first, rest)) = stmts.split_first() else { fail("block without a value") };
        match first {
            syn::Stmt::Expr(e, None) if rest.is_empty() => tr_bool(e, cx),
            syn::Stmt::Expr(syn::Expr::Return(r), Some(_)) if rest.is_empty() => tr_bool(r.expr.as_ref().unwrap_or_else(|| fail("bare return")), cx),
            syn::Stmt::Expr(syn::Expr::If(i), _) if i.else_branch.is_none() => {
                let ret = returns(&i.then_branch).unwrap_or_else(|| fail("`if` statement that is not an early return"));
                format!("(RX.ifB {} (fun _ => {}) (fun _ => {}))", tr_bool(&i.cond, cx), tr_bool(ret, cx), go(rest, cx))
            }
            syn::Stmt::Local(l) => {
                let syn::Pat::Ident(id) = &l.pat else { fail("unsupported `let` pattern") };
                let init = l.init.as_ref().unwrap_or_else(|| fail("`let` without a value"));
                let name = id.ident.to_string();
                let mut nats = cx.nats.clone();
                let val = tr_num(&init.expr, cx);
                nats.push(name.clone());
                let cx2 = FnCtx { module: cx.module, slices: cx.slices.clone(), nats, keys: cx.keys.clone(), consts: cx.consts, fns: cx.fns };
                format!("(RX.bindN {val} (fun {name} => {}))", go(rest, &cx2))
            }
            _ => fail(&format!("unsupported statement form in {}", cx.module)),
        }
    }
    go(&block.stmts, cx)
}

fn single_expr(block: &syn::Block, what: &str) -> syn::Expr {
    if block.stmts.len() != 1 { fail(&format!("{what}: body is not a single expression")) }
    match &block.stmts[0] {
        syn::Stmt::Expr(e, None) => e.clone(),
        _ => fail(&format!("{what}: body is not a single tail expression")),
    }
}

fn params(sig: &syn::Signature, what: &str) -> (Vec<String>, Vec<String>, Vec<String>, String) {
    let (mut slices, mut nats, mut keys, mut binder) = (vec![], vec![], vec![], String::new());
    for a in &sig.inputs {
        let syn::FnArg::Typed(t) = a else { fail(&format!("{what}: receiver parameter")) };
        let syn::Pat::Ident(id) = &*t.pat else { fail(&format!("{what}: parameter pattern")) };
        let name = id.ident.to_string();
        let ty = quote_type(&t.ty);
        match ty.as_str() {
            "&[u8]" => { slices.push(name.clone()); binder.push_str(&format!(" ({name} : Bytes)")); }
            "usize" | "u8" => { nats.push(name.clone()); binder.push_str(&format!(" ({name} : Nat)")); }
            "&Pubkey" => { keys.push(name.clone()); binder.push_str(&format!(" ({name} : Bytes)")); }
            other => fail(&format!("{what}: parameter type `{other}` is not supported")),
        }
    }
    (slices, nats, keys, binder)
}

fn quote_type(t: &syn::Type) -> String {
    match t {
        syn::Type::Reference(r) => format!("&{}", quote_type(&r.elem)),
        syn::Type::Slice(s) => format!("[{}]", quote_type(&s.elem)),
        syn::Type::Path(p) => p.path.segments.last().unwrap().ident.to_string(),
        _ => "?".into(),
    }
}

fn find_free_fn<'a>(f: &'a syn::File, name: &str) -> Option<&'a syn::ItemFn> {
    f.items.iter().find_map(|it| match it { syn::Item::Fn(x) if x.sig.ident == name => Some(x), _ => None })
}

fn find_impl_fn<'a>(f: &'a syn::File, ty: &str, name: &str) -> Option<&'a syn::ImplItemFn> {
    for it in &f.items {
        if let syn::Item::Impl(i) = it {
            if let syn::Type::Path(tp) = &*i.self_ty {
                if tp.path.segments.last().unwrap().ident == ty {
                    for ii in &i.items {
                        if let syn::ImplItem::Fn(m) = ii { if m.sig.ident == name { return Some(m); } }
                    }
                }
            }
        }
    }
    None
}

fn gen_token_fns(repo: &Path, out: &Path) {
    let tok = parse_file(&repo.join("generic-token/src/token.rs"));
    let t22 = parse_file(&repo.join("generic-token/src/token_2022.rs"));
    let lib = parse_file(&repo.join("generic-token/src/lib.rs"));
    let consts: std::collections::BTreeSet<String> = [
        "SPL_TOKEN_ACCOUNT_MINT_OFFSET", "SPL_TOKEN_ACCOUNT_OWNER_OFFSET", "SPL_TOKEN_ACCOUNT_AMOUNT_OFFSET", "SPL_TOKEN_ACCOUNT_STATE_OFFSET",
        "SPL_TOKEN_ACCOUNT_LENGTH", "SPL_TOKEN_MINT_SUPPLY_OFFSET", "SPL_TOKEN_MINT_DECIMALS_OFFSET", "SPL_TOKEN_MINT_IS_INITIALIZED_OFFSET",
        "SPL_TOKEN_MINT_LENGTH", "ACCOUNTTYPE_ACCOUNT", "ACCOUNTTYPE_MINT", "SPL_TOKEN_MULTISIG_LENGTH",
    ].iter().map(|s| s.to_string()).collect();
    // rust path -> Lean name, in emission (dependency) order
    let plan: Vec<(&str, &syn::File, Option<&str>, &str)> = vec![
        ("token", &tok, None, "is_initialized_token_data"),
        ("token", &tok, None, "is_initialized_account"),
        ("token", &tok, None, "is_initialized_mint"),
        ("token", &tok, Some("Account"), "valid_account_data"),
        ("token", &tok, Some("Mint"), "valid_account_data"),
        ("token_2022", &t22, Some("Account"), "valid_account_data"),
        ("token_2022", &t22, Some("Mint"), "valid_account_data"),
        ("lib", &lib, None, "is_known_spl_token_id"),
    ];
    let mut fns = std::collections::BTreeMap::new();
    for (m, _, ty, f) in &plan {
        let rust = match ty { Some(t) => format!("{m}::{t}::{f}"), None => format!("{m}::{f}") };
        let lean = match ty { Some(t) => format!("{m}_{t}_{f}"), None => format!("{m}_{f}") };
        fns.insert(rust, lean);
    }
    let mut s = String::new();
    writeln!(s, "-- GENERATED by /verif/harness `extract` from /repo/generic-token/src/{{token,token_2022,lib}}.rs — do not edit").unwrap();
    writeln!(s, "-- every boolean predicate below is the source expression, translated form by form (see SplModel/RustExpr.lean)").unwrap();
    writeln!(s, "import SplModel.RustExpr\nimport SplModel.Generated.TokenConsts\nnamespace Gen.TokenFns\nopen Gen.Token\n").unwrap();
    for (m, file, ty, f) in &plan {
        let what = match ty { Some(t) => format!("{m}::{t}::{f}"), None => format!("{m}::{f}") };
        let (sig, block) = match ty {
            Some(t) => { let x = find_impl_fn(file, t, f).unwrap_or_else(|| fail(&format!("fn {what} not found"))); (x.sig.clone(), x.block.clone()) }
            None => { let x = find_free_fn(file, f).unwrap_or_else(|| fail(&format!("fn {what} not found"))); (x.sig.clone(), (*x.block).clone()) }
        };
        let (slices, nats, keys, binder) = params(&sig, &what);
        let cx = FnCtx { module: m, slices, nats, keys, consts: &consts, fns: &fns };
        let body = tr_block(&block, &cx);
        writeln!(s, "/-- `{what}` -/\ndef {}{binder} : Res Bool :=\n  {body}\n", fns[&what]).unwrap();
    }
    writeln!(s, "end Gen.TokenFns").unwrap();
    write_if_changed(&out.join("TokenFns.lean"), &s);
}

// ---------------------------------------------------------------------------------------------
// Packed sizes of seed / key-data configs: the arms of the two `tlv_size` functions, evaluated.
// ---------------------------------------------------------------------------------------------
fn variant_of(p: &syn::Pat) -> Option<String> {
    match p {
        syn::Pat::Path(x) => Some(x.path.segments.last()?.ident.to_string()),
        syn::Pat::Struct(x) => Some(x.path.segments.last()?.ident.to_string()),
        syn::Pat::TupleStruct(x) => Some(x.path.segments.last()?.ident.to_string()),
        syn::Pat::Reference(r) => variant_of(&r.pat),
        _ => None,
    }
}

/// (variant, value) for every arm of `impl <ty> { fn tlv_size }`; an arm whose body is not a constant
/// expression must be `<something>.saturating_add(<const>)` and yields the constant (the per-item overhead).
fn size_arms(file: &syn::File, ty: &str, what: &str) -> Vec<(String, i128, bool)> {
    let f = find_impl_fn(file, ty, "tlv_size").unwrap_or_else(|| fail(&format!("{what}: fn tlv_size not found")));
    let body = single_expr(&f.block, what);
    let syn::Expr::Match(m) = unparen(&body) else { fail(&format!("{what}: tlv_size is not a single match")) };
    let env = Consts::new();
    let mut out = vec![];
    for arm in &m.arms {
        let v = variant_of(&arm.pat).unwrap_or_else(|| fail(&format!("{what}: match arm pattern")));
        if let Some(n) = eval(&arm.body, &env) {
            out.push((v, n, false));
        } else {
            // a length-dependent size: exactly one `saturating_add(<const>)` / `checked_add(<const>)` somewhere in the arm (directly,
            // or inside an `and_then` closure of a checked chain that ends in `unwrap_or(u8::MAX)`): the constant is the overhead
            struct Adds<'e> { found: Vec<&'e syn::Expr> }
            impl<'ast> syn::visit::Visit<'ast> for Adds<'ast> {
                fn visit_expr_method_call(&mut self, mc: &'ast syn::ExprMethodCall) {
                    if (mc.method == "saturating_add" || mc.method == "checked_add") && mc.args.len() == 1 { self.found.push(&mc.args[0]); }
                    syn::visit::visit_expr_method_call(self, mc);
                }
            }
            use syn::visit::Visit;
            let mut a = Adds { found: vec![] };
            a.visit_expr(&arm.body);
            if a.found.len() == 1 {
                let n = eval(a.found[0], &env).unwrap_or_else(|| fail(&format!("{what}: overhead of {v} not constant")));
                out.push((v, n, true));
            } else {
                fail(&format!("{what}: arm {v} is neither a constant nor a length plus one constant overhead (saturating_add / checked_add)"))
            }
        }
    }
    out
}

fn gen_seed_sizes(repo: &Path, out: &Path) {
    let seeds = parse_file(&repo.join("tlv-account-resolution/src/seeds.rs"));
    let kd = parse_file(&repo.join("tlv-account-resolution/src/pubkey_data.rs"));
    let mut s = String::new();
    writeln!(s, "-- GENERATED by /verif/harness `extract` from /repo/tlv-account-resolution/src/{{seeds,pubkey_data}}.rs — do not edit").unwrap();
    writeln!(s, "-- the arms of `Seed::tlv_size` and `PubkeyData::tlv_size`, constant expressions evaluated").unwrap();
    writeln!(s, "namespace Gen.Seeds").unwrap();
    let want = [("Uninitialized", "SEED_SIZE_UNINITIALIZED"), ("Literal", "SEED_LITERAL_OVERHEAD"), ("InstructionData", "SEED_SIZE_INSTRUCTION_DATA"),
                ("AccountKey", "SEED_SIZE_ACCOUNT_KEY"), ("AccountData", "SEED_SIZE_ACCOUNT_DATA")];
    let arms = size_arms(&seeds, "Seed", "Seed::tlv_size");
    if arms.len() != want.len() { fail("Seed::tlv_size: unexpected number of arms") }
    for (v, name) in want {
        let a = arms.iter().find(|x| x.0 == v).unwrap_or_else(|| fail(&format!("Seed::tlv_size: no arm for {v}")));
        if a.2 != (v == "Literal") { fail(&format!("Seed::tlv_size: arm {v} has an unexpected shape")) }
        writeln!(s, "def {name} : Nat := {}", a.1).unwrap();
    }
    let want = [("Uninitialized", "KD_SIZE_UNINITIALIZED"), ("InstructionData", "KD_SIZE_INSTRUCTION_DATA"), ("AccountData", "KD_SIZE_ACCOUNT_DATA")];
    let arms = size_arms(&kd, "PubkeyData", "PubkeyData::tlv_size");
    if arms.len() != want.len() { fail("PubkeyData::tlv_size: unexpected number of arms") }
    for (v, name) in want {
        let a = arms.iter().find(|x| x.0 == v).unwrap_or_else(|| fail(&format!("PubkeyData::tlv_size: no arm for {v}")));
        if a.2 { fail(&format!("PubkeyData::tlv_size: arm {v} is not a constant")) }
        writeln!(s, "def {name} : Nat := {}", a.1).unwrap();
    }
    writeln!(s, "end Gen.Seeds").unwrap();
    write_if_changed(&out.join("SeedConsts.lean"), &s);
}

// ---------------------------------------------------------------------------------------------
// Tag bytes of the seed / key-data micro-format (what `pack` writes at dst[0], which literal `unpack`
// dispatches on for each variant), the 32-byte limit, and the arm order of `ExtraAccountMeta::resolve`.
// ---------------------------------------------------------------------------------------------
struct VariantFinder<'a> { ty: &'a str, variants: &'a [&'a str], found: Option<String> }
impl<'ast, 'a> syn::visit::Visit<'ast> for VariantFinder<'a> {
    fn visit_path(&mut self, p: &'ast syn::Path) {
        if self.found.is_none() && p.segments.len() == 2 {
            let (a, b) = (p.segments[0].ident.to_string(), p.segments[1].ident.to_string());
            if (a == "Self" || a == self.ty) && self.variants.contains(&b.as_str()) { self.found = Some(b); }
        }
        syn::visit::visit_path(self, p);
    }
}

fn variant_in_expr(e: &syn::Expr, file: &syn::File, ty: &str, variants: &[&str]) -> Option<String> {
    use syn::visit::Visit;
    let mut f = VariantFinder { ty, variants, found: None };
    f.visit_expr(e);
    if f.found.is_some() { return f.found; }
    // `1 => unpack_seed_literal(rest)`: look inside the called free function
    if let syn::Expr::Call(c) = unparen(e) {
        if let syn::Expr::Path(p) = &*c.func {
            if let Some(func) = find_free_fn(file, &p.path.segments.last()?.ident.to_string()) {
                let mut f = VariantFinder { ty, variants, found: None };
                f.visit_block(&func.block);
                return f.found;
            }
        }
    }
    None
}

/// the first `match` (anywhere in the block: statement, `let` initialiser, nested block) whose scrutinee mentions the name
fn find_match<'a>(block: &'a syn::Block, scrutinee_mentions: &str) -> Option<&'a syn::ExprMatch> {
    find_match_by(block, &|m: &syn::ExprMatch| expr_idents(&m.expr).iter().any(|i| i == scrutinee_mentions))
}

fn find_match_by<'a>(block: &'a syn::Block, pred: &dyn Fn(&syn::ExprMatch) -> bool) -> Option<&'a syn::ExprMatch> {
    struct V<'a, 'p> { pred: &'p dyn Fn(&syn::ExprMatch) -> bool, found: Option<&'a syn::ExprMatch> }
    impl<'a, 'p> syn::visit::Visit<'a> for V<'a, 'p> {
        fn visit_expr_match(&mut self, m: &'a syn::ExprMatch) {
            if self.found.is_none() && (self.pred)(m) { self.found = Some(m); }
            if self.found.is_none() { syn::visit::visit_expr_match(self, m); }
        }
        fn visit_expr_closure(&mut self, _c: &'a syn::ExprClosure) {}   // not inside closures
    }
    use syn::visit::Visit;
    let mut v = V { pred, found: None };
    v.visit_block(block);
    v.found
}

/// the tag a `match` arm of an `unpack` function dispatches on: a literal pattern (`1 => …` on the first byte) or a slice
/// pattern whose first element is one literal (`[1, index, ..] => …` on the bytes)
fn arm_tag(p: &syn::Pat) -> Option<i128> {
    match p {
        syn::Pat::Lit(l) => eval(&syn::Expr::Lit(l.clone()), &Consts::new()),
        syn::Pat::Slice(sl) => match sl.elems.first()? { syn::Pat::Lit(l) => eval(&syn::Expr::Lit(l.clone()), &Consts::new()), _ => None },
        syn::Pat::Paren(pp) => arm_tag(&pp.pat),
        _ => None,
    }
}

fn expr_idents(e: &syn::Expr) -> Vec<String> {
    struct V(Vec<String>);
    impl<'ast> syn::visit::Visit<'ast> for V { fn visit_ident(&mut self, i: &'ast proc_macro2::Ident) { self.0.push(i.to_string()); } }
    use syn::visit::Visit;
    let mut v = V(vec![]);
    v.visit_expr(e);
    v.0
}

/// the literal assigned to `dst[0]` in a block
fn tag_written(b: &syn::Expr) -> Option<i128> {
    let syn::Expr::Block(blk) = unparen(b) else { return None };
    for st in &blk.block.stmts {
        if let syn::Stmt::Expr(syn::Expr::Assign(a), _) = st {
            if let syn::Expr::Index(ix) = &*a.left {
                if eval(&ix.index, &Consts::new()) == Some(0) { return eval(&a.right, &Consts::new()); }
            }
        }
    }
    None
}

fn all_variants<'a>(file: &'a syn::File, ty: &str) -> Vec<&'a str> {
    // leaked strings: the extractor is a short-lived process
    for it in &file.items { if let syn::Item::Enum(e) = it { if e.ident == ty { return e.variants.iter().map(|v| &*Box::leak(v.ident.to_string().into_boxed_str())).collect(); } } }
    vec![]
}

fn tags_of(file: &syn::File, ty: &str, variants: &[&str], what: &str) -> Vec<(String, i128, i128)> {
    let pack = find_impl_fn(file, ty, "pack").unwrap_or_else(|| fail(&format!("{what}::pack not found")));
    let unpack = find_impl_fn(file, ty, "unpack").unwrap_or_else(|| fail(&format!("{what}::unpack not found")));
    let pm = find_match(&pack.block, "self").unwrap_or_else(|| fail(&format!("{what}::pack: no match on self")));
    let um = find_match_by(&unpack.block, &|m: &syn::ExprMatch| m.arms.iter().filter(|a| arm_tag(&a.pat).is_some()).count() >= 2)
        .unwrap_or_else(|| fail(&format!("{what}::unpack: no match on the discriminator byte")));
    let mut out = vec![];
    for v in variants {
        let parm = pm.arms.iter().find(|a| variant_of(&a.pat).as_deref() == Some(*v)).unwrap_or_else(|| fail(&format!("{what}::pack: no arm for {v}")));
        let written = if *v == "Uninitialized" { 0 } else { tag_written(&parm.body).unwrap_or_else(|| fail(&format!("{what}::pack: arm {v} does not assign dst[0] a constant"))) };
        let mut read = None;
        for a in &um.arms {
            if let Some(n) = arm_tag(&a.pat) {
                if variant_in_expr(&a.body, file, ty, variants).as_deref() == Some(*v) { read = Some(n); }
            }
        }
        out.push((v.to_string(), written, read.unwrap_or_else(|| fail(&format!("{what}::unpack: no literal arm produces {v}")))));
    }
    // every literal arm of unpack must be accounted for
    // every tagged arm that builds a value must be accounted for (no further variant, no second tag for one variant)
    let lits = um.arms.iter().filter(|a| arm_tag(&a.pat).is_some() && variant_in_expr(&a.body, file, ty, &all_variants(file, ty)).is_some()).count();
    if lits != variants.len() { fail(&format!("{what}::unpack has {lits} tagged arms that build a value, expected {}", variants.len())) }
    out
}

/// a pattern over one byte `x` -> the condition under which it matches
fn pat_cond(p: &syn::Pat, env: &Consts) -> Option<String> {
    let num = |e: &syn::Expr| -> Option<String> {
        if let syn::Expr::Path(pp) = e { let n = path_str(&pp.path); if n == "u8::MAX" { return Some("255".into()); } if n == "U8_TOP_BIT" { return Some("U8_TOP_BIT".into()); } }
        eval(e, env).map(|v| v.to_string())
    };
    match p {
        syn::Pat::Lit(l) => Some(format!("(RX.eq (RX.lit x) (RX.lit {}))", eval(&syn::Expr::Lit(l.clone()), env)?)),
        syn::Pat::Paren(pp) => pat_cond(&pp.pat, env),
        syn::Pat::Ident(id) => pat_cond(&id.subpat.as_ref()?.1, env),
        syn::Pat::Path(pp) => { let n = path_str(&pp.path); if n == "U8_TOP_BIT" { Some("(RX.eq (RX.lit x) (RX.lit U8_TOP_BIT))".into()) } else { None } }
        syn::Pat::Or(o) => {
            let mut cs: Vec<String> = vec![];
            for c in &o.cases { cs.push(pat_cond(c, env)?); }
            let mut acc = cs.pop()?;
            while let Some(c) = cs.pop() { acc = format!("(RX.or {c} (fun _ => {acc}))"); }
            Some(acc)
        }
        syn::Pat::Range(r) => {
            if !matches!(r.limits, syn::RangeLimits::Closed(_)) { return None; }
            let lo = num(r.start.as_ref()?)?; let hi = num(r.end.as_ref()?)?;
            Some(format!("(RX.and (RX.ge (RX.lit x) (RX.lit {lo})) (fun _ => (RX.le (RX.lit x) (RX.lit {hi}))))"))
        }
        _ => None,
    }
}

fn gen_seed_tags(repo: &Path, out: &Path) {
    let seeds = parse_file(&repo.join("tlv-account-resolution/src/seeds.rs"));
    let kd = parse_file(&repo.join("tlv-account-resolution/src/pubkey_data.rs"));
    let acct = parse_file(&repo.join("tlv-account-resolution/src/account.rs"));
    let mut s = String::new();
    writeln!(s, "-- GENERATED by /verif/harness `extract` from /repo/tlv-account-resolution/src/{{seeds,pubkey_data,account}}.rs — do not edit").unwrap();
    writeln!(s, "-- tag bytes: what `pack` writes at dst[0] and which literal arm of `unpack` yields each variant; arm order of `resolve`").unwrap();
    writeln!(s, "import SplModel.RustExpr\nnamespace Gen.Format").unwrap();
    let up = |v: &str| { let mut o = String::new(); for (i, c) in v.chars().enumerate() { if c.is_uppercase() && i > 0 { o.push('_'); } o.push(c.to_ascii_uppercase()); } o };
    for (v, w, r) in tags_of(&seeds, "Seed", &["Uninitialized", "Literal", "InstructionData", "AccountKey", "AccountData"], "Seed") {
        writeln!(s, "def SEED_PACK_TAG_{} : Nat := {w}\ndef SEED_UNPACK_TAG_{} : Nat := {r}", up(&v), up(&v)).unwrap();
    }
    for (v, w, r) in tags_of(&kd, "PubkeyData", &["Uninitialized", "InstructionData", "AccountData"], "PubkeyData") {
        writeln!(s, "def KD_PACK_TAG_{} : Nat := {w}\ndef KD_UNPACK_TAG_{} : Nat := {r}", up(&v), up(&v)).unwrap();
    }
    // ExtraAccountMeta::resolve: `match self.discriminator { <lit> => …, x if <guard> => …, _ => … }` -> index of the arm taken
    let res = find_impl_fn(&acct, "ExtraAccountMeta", "resolve").unwrap_or_else(|| fail("ExtraAccountMeta::resolve not found"));
    let m = find_match(&res.block, "discriminator").unwrap_or_else(|| fail("ExtraAccountMeta::resolve: no match on the discriminator"));
    let consts: std::collections::BTreeSet<String> = ["U8_TOP_BIT".to_string()].into_iter().collect();
    let fns = std::collections::BTreeMap::new();
    let mut arms: Vec<String> = vec![];
    let mut kinds: Vec<String> = vec![];
    for a in &m.arms {
        let cond = match &a.pat {
            syn::Pat::Lit(l) => format!("(RX.eq (RX.lit x) (RX.lit {}))", eval(&syn::Expr::Lit(l.clone()), &Consts::new()).unwrap_or_else(|| fail("resolve: literal pattern"))),
            // `x @ (1 | LO..=HI)`, `1 | LO..=HI`, `LO..=HI`: a pattern over literals, constants and inclusive ranges (no guard)
            p if a.guard.is_none() && !matches!(p, syn::Pat::Wild(_)) && !matches!(p, syn::Pat::Ident(i) if i.subpat.is_none()) => {
                let mut env = Consts::new(); collect_consts(&acct.items, "", &mut env);
                pat_cond(p, &env).unwrap_or_else(|| fail("resolve: unsupported pattern"))
            }
            syn::Pat::Ident(id) => {
                let (_, g) = a.guard.as_ref().unwrap_or_else(|| fail("resolve: binding pattern without a guard"));
                // the bound name stands for the scrutinee
                let cx = FnCtx { module: "account", slices: vec![], nats: vec![id.ident.to_string()], keys: vec![], consts: &consts, fns: &fns };
                tr_bool(g, &cx).replace(&format!("(RX.lit {})", id.ident), "(RX.lit x)")
            }
            syn::Pat::Wild(_) => "(Res.ok true)".to_string(),
            _ => fail("resolve: unsupported pattern"),
        };
        arms.push(format!("(fun _ => {cond})"));
        // what the arm does, recognised by the resolver it calls
        let ids = expr_idents(&a.body);
        kinds.push(if ids.iter().any(|i| i == "resolve_pda") { "1" } else if ids.iter().any(|i| i == "resolve_key_data") { "2" }
            else if ids.iter().any(|i| i == "try_from") { "0" } else if ids.iter().any(|i| i == "Err") { "3" } else { fail("resolve: arm of unknown kind") }.to_string());
    }
    writeln!(s, "def U8_TOP_BIT : Nat := {}", const_val(&{ let mut e = Consts::new(); collect_consts(&acct.items, "", &mut e); e }, "U8_TOP_BIT", "account.rs")).unwrap();
    writeln!(s, "/-- guards of the arms of `match self.discriminator` in `ExtraAccountMeta::resolve`, in source order -/").unwrap();
    writeln!(s, "def resolveArmGuards (x : Nat) : List (Unit → Res Bool) :=\n  [{}]", arms.join(",\n   ")).unwrap();
    writeln!(s, "/-- what each arm does: 0 = fixed address, 1 = PDA, 2 = key from data, 3 = rejected -/").unwrap();
    writeln!(s, "def resolveArmKinds : List Nat := [{}]", kinds.join(", ")).unwrap();
    writeln!(s, "end Gen.Format").unwrap();
    write_if_changed(&out.join("FormatConsts.lean"), &s);
}

// ---------------------------------------------------------------------------------------------
// ListView layout arithmetic (`header_padding`, `size_of`, `calculate_layout`): functions returning
// `Result<usize, ProgramError>` (or a `Layout` of two ranges), translated statement by statement.
// The element and prefix types enter only through `size_of::<T>()`, `align_of::<T>()`, `size_of::<L>()`,
// `align_of::<L>()`, which become the parameters `sizeT alignT sizeL alignL`.
// ---------------------------------------------------------------------------------------------
struct LvCtx<'a> { nats: Vec<String>, errs: &'a std::collections::BTreeMap<String, i128>, fns: &'a [&'a str] }

fn generic_arg(seg: &syn::PathSegment) -> Option<String> {
    if let syn::PathArguments::AngleBracketed(a) = &seg.arguments {
        if let Some(syn::GenericArgument::Type(syn::Type::Path(t))) = a.args.first() {
            return Some(t.path.segments.last()?.ident.to_string());
        }
    }
    None
}

fn lv_num(e: &syn::Expr, cx: &LvCtx) -> String {
    let e = unparen(e);
    match e {
        syn::Expr::Lit(l) => match &l.lit {
            syn::Lit::Int(i) => format!("(RX.lit {})", i.base10_parse::<u128>().unwrap_or_else(|_| fail("integer literal"))),
            _ => fail("list-view: unsupported literal"),
        },
        syn::Expr::Path(p) => {
            let name = p.path.segments.last().unwrap().ident.to_string();
            if cx.nats.contains(&name) { format!("(RX.lit {name})") } else { fail(&format!("list-view: unknown numeric name `{name}`")) }
        }
        syn::Expr::Call(c) => {
            let syn::Expr::Path(p) = &*c.func else { fail("list-view: unsupported call") };
            let seg = p.path.segments.last().unwrap();
            match (seg.ident.to_string().as_str(), generic_arg(seg).as_deref()) {
                ("size_of", Some("T")) => "(RX.lit sizeT)".into(),
                ("size_of", Some("L")) => "(RX.lit sizeL)".into(),
                ("align_of", Some("T")) => "(RX.lit alignT)".into(),
                ("align_of", Some("L")) => "(RX.lit alignL)".into(),
                (other, _) => fail(&format!("list-view: unsupported call `{other}`")),
            }
        }
        // Self::header_padding()?
        syn::Expr::Try(t) => {
            if let syn::Expr::Call(c) = unparen(&t.expr) {
                if let syn::Expr::Path(p) = &*c.func {
                    let f = p.path.segments.last().unwrap().ident.to_string();
                    if cx.fns.contains(&f.as_str()) && c.args.is_empty() { return format!("({f} sizeT alignT sizeL alignL)"); }
                }
            }
            fail("list-view: unsupported `?` expression")
        }
        syn::Expr::MethodCall(m) if m.args.len() == 1 => {
            let f = match m.method.to_string().as_str() {
                "wrapping_rem" => "RX.wrappingRem", "wrapping_sub" => "RX.wrappingSub", "saturating_add" => "RX.saturatingAdd",
                other => fail(&format!("list-view: unsupported numeric method `{other}`")),
            };
            format!("({f} {} {})", lv_num(&m.receiver, cx), lv_num(&m.args[0], cx))
        }
        _ => fail("list-view: unsupported numeric expression form"),
    }
}

fn lv_bool(e: &syn::Expr, cx: &LvCtx) -> String {
    let e = unparen(e);
    match e {
        syn::Expr::Binary(b) if is_bool_op(&b.op) => {
            let f = if matches!(b.op, syn::BinOp::And(_)) { "RX.and" } else { "RX.or" };
            format!("({f} {} (fun _ => {}))", lv_bool(&b.left, cx), lv_bool(&b.right, cx))
        }
        syn::Expr::Binary(b) => {
            let f = match b.op {
                syn::BinOp::Eq(_) => "RX.eq", syn::BinOp::Ne(_) => "RX.ne", syn::BinOp::Lt(_) => "RX.lt",
                syn::BinOp::Le(_) => "RX.le", syn::BinOp::Gt(_) => "RX.gt", syn::BinOp::Ge(_) => "RX.ge",
                _ => fail("list-view: unsupported comparison"),
            };
            format!("({f} {} {})", lv_num(&b.left, cx), lv_num(&b.right, cx))
        }
        _ => fail("list-view: unsupported condition form"),
    }
}

fn lv_err(e: &syn::Expr, cx: &LvCtx) -> String {
    let e = unparen(e);
    // `X.into()`
    let inner = match e { syn::Expr::MethodCall(m) if m.method == "into" && m.args.is_empty() => unparen(&m.receiver), other => other };
    let syn::Expr::Path(p) = inner else { fail("list-view: unsupported error expression") };
    let segs: Vec<String> = p.path.segments.iter().map(|s| s.ident.to_string()).collect();
    match (segs.first().map(|s| s.as_str()), segs.last().map(|s| s.as_str())) {
        (Some("ProgramError"), Some("InvalidArgument")) => "Err.invalidArgument".into(),
        (Some("ProgramError"), Some("ArithmeticOverflow")) => "Err.arithmeticOverflow".into(),
        (Some("ProgramError"), Some("InvalidAccountData")) => "Err.invalidAccountData".into(),
        (Some("ListViewError"), Some(v)) => format!("(Err.custom {})", cx.errs.get(v).unwrap_or_else(|| fail(&format!("ListViewError::{v} not found")))),
        _ => fail(&format!("list-view: unsupported error `{}`", segs.join("::"))),
    }
}

/// an `Option<usize>` chain: checked_mul / checked_add / and_then(|x| …)
fn lv_opt(e: &syn::Expr, cx: &LvCtx) -> String {
    let e = unparen(e);
    let syn::Expr::MethodCall(m) = e else { fail("list-view: unsupported Option expression") };
    match m.method.to_string().as_str() {
        "checked_mul" => format!("(RX.checkedMul {} {})", lv_num(&m.receiver, cx), lv_num(&m.args[0], cx)),
        "checked_add" => format!("(RX.checkedAdd {} {})", lv_num(&m.receiver, cx), lv_num(&m.args[0], cx)),
        "and_then" => {
            let syn::Expr::Closure(c) = unparen(&m.args[0]) else { fail("list-view: and_then without a closure") };
            let syn::Pat::Ident(id) = &c.inputs[0] else { fail("list-view: closure parameter") };
            let mut nats = cx.nats.clone();
            nats.push(id.ident.to_string());
            let cx2 = LvCtx { nats, errs: cx.errs, fns: cx.fns };
            format!("(RX.andThen {} (fun {} => {}))", lv_opt(&m.receiver, cx), id.ident, lv_opt(&c.body, &cx2))
        }
        other => fail(&format!("list-view: unsupported Option method `{other}`")),
    }
}

/// the value a function returns: Ok(…) / Err(…) / if-else / an Option chain closed by ok_or_else
fn lv_ret(e: &syn::Expr, cx: &LvCtx) -> String {
    let e = unparen(e);
    match e {
        syn::Expr::Return(r) => lv_ret(r.expr.as_ref().unwrap_or_else(|| fail("bare return")), cx),
        syn::Expr::Call(c) => {
            let syn::Expr::Path(p) = &*c.func else { fail("list-view: unsupported call in return position") };
            match p.path.segments.last().unwrap().ident.to_string().as_str() {
                "Ok" => match unparen(&c.args[0]) {
                    // Ok(Layout { length_range: a..b, data_range: c..d }) -> the four bounds, in field order
                    syn::Expr::Struct(s) => {
                        let mut bounds = vec![];
                        for f in &s.fields {
                            let syn::Expr::Range(r) = unparen(&f.expr) else { fail("list-view: Layout field is not a range") };
                            bounds.push(lv_num(r.start.as_ref().unwrap_or_else(|| fail("open range")), cx));
                            bounds.push(lv_num(r.end.as_ref().unwrap_or_else(|| fail("open range")), cx));
                        }
                        format!("(RX.okList [{}])", bounds.join(", "))
                    }
                    other => lv_num(other, cx),
                },
                "Err" => format!("(Res.err {})", lv_err(&c.args[0], cx)),
                other => fail(&format!("list-view: unsupported return value `{other}(…)`")),
            }
        }
        syn::Expr::If(i) => {
            let Some((_, els)) = &i.else_branch else { fail("list-view: `if` without else in return position") };
            let els_s = match &**els { syn::Expr::Block(b) => lv_block(&b.block.stmts, cx), other => lv_ret(other, cx) };
            format!("(RX.ifN {} (fun _ => {}) (fun _ => {}))", lv_bool(&i.cond, cx), lv_block(&i.then_branch.stmts, cx), els_s)
        }
        syn::Expr::MethodCall(m) if m.method == "ok_or_else" || m.method == "ok_or" => {
            let err = match unparen(&m.args[0]) { syn::Expr::Closure(c) => lv_err(&c.body, cx), other => lv_err(other, cx) };
            format!("(RX.okOrElse {} {err})", lv_opt(&m.receiver, cx))
        }
        _ => fail("list-view: unsupported expression in return position"),
    }
}

fn lv_block(stmts: &[syn::Stmt], cx: &LvCtx) -> String {
    let Some((first, rest)) = stmts.split_first() else { fail("list-view: block without a value") };
    match first {
        syn::Stmt::Expr(e, _) if rest.is_empty() => lv_ret(e, cx),
        syn::Stmt::Expr(syn::Expr::If(i), _) if i.else_branch.is_none() => {
            let ret = returns(&i.then_branch).unwrap_or_else(|| fail("list-view: `if` statement that is not an early return"));
            format!("(RX.ifN {} (fun _ => {}) (fun _ => {}))", lv_bool(&i.cond, cx), lv_ret(ret, cx), lv_block(rest, cx))
        }
        syn::Stmt::Local(l) => {
            let syn::Pat::Ident(id) = &l.pat else { fail("list-view: unsupported `let` pattern") };
            let init = l.init.as_ref().unwrap_or_else(|| fail("`let` without a value"));
            let val = lv_num(&init.expr, cx);
            let mut nats = cx.nats.clone();
            nats.push(id.ident.to_string());
            let cx2 = LvCtx { nats, errs: cx.errs, fns: cx.fns };
            format!("(RX.bindNN {val} (fun {} => {}))", id.ident, lv_block(rest, &cx2))
        }
        _ => fail("list-view: unsupported statement form"),
    }
}

fn gen_listview_fns(repo: &Path, out: &Path) {
    let lv = parse_file(&repo.join("list-view/src/list_view.rs"));
    let errs_file = parse_file(&repo.join("list-view/src/error.rs"));
    // ListViewError discriminants (`e as u32`): explicit or previous + 1
    let mut errs = std::collections::BTreeMap::new();
    for it in &errs_file.items {
        if let syn::Item::Enum(e) = it {
            if e.ident == "ListViewError" {
                let mut next: i128 = 0;
                for v in &e.variants {
                    if let Some((_, d)) = &v.discriminant { next = eval(d, &Consts::new()).unwrap_or_else(|| fail("ListViewError discriminant")); }
                    errs.insert(v.ident.to_string(), next);
                    next += 1;
                }
            }
        }
    }
    if errs.is_empty() { fail("enum ListViewError not found") }
    let mut s = String::new();
    writeln!(s, "-- GENERATED by /verif/harness `extract` from /repo/list-view/src/list_view.rs — do not edit").unwrap();
    writeln!(s, "-- the layout arithmetic of ListView<T, L>, statement by statement; T and L enter only through their size and alignment").unwrap();
    writeln!(s, "import SplModel.RustExpr\nnamespace Gen.ListViewFns\n").unwrap();
    let order = ["header_padding", "size_of", "calculate_layout"];
    for (k, f) in order.iter().enumerate() {
        let item = find_impl_fn(&lv, "ListView", f).unwrap_or_else(|| fail(&format!("ListView::{f} not found")));
        let mut nats = vec![];
        let mut binder = String::new();
        for a in &item.sig.inputs {
            let syn::FnArg::Typed(t) = a else { fail("list-view: receiver parameter") };
            let syn::Pat::Ident(id) = &*t.pat else { fail("list-view: parameter pattern") };
            if quote_type(&t.ty) != "usize" { fail(&format!("ListView::{f}: parameter type")) }
            nats.push(id.ident.to_string());
            binder.push_str(&format!(" ({} : Nat)", id.ident));
        }
        let cx = LvCtx { nats, errs: &errs, fns: &order[..k] };
        let ty = if *f == "calculate_layout" { "Res (List Nat)" } else { "Res Nat" };
        writeln!(s, "/-- `ListView::<T, L>::{f}` -/\ndef {f} (sizeT alignT sizeL alignL : Nat){binder} : {ty} :=\n  {}\n", lv_block(&item.block.stmts, &cx)).unwrap();
    }
    writeln!(s, "end Gen.ListViewFns").unwrap();
    write_if_changed(&out.join("ListViewFns.lean"), &s);
}
