//! TRANSLATOR: syn-parses /repo's current sources and regenerates the table-like part of the
//! Lean model (constants, offsets, program ids, error enums, macro constants) under
//! /verif/lean/SplModel/Generated/.  Extracts data only, never control flow.  Fails closed:
//! if an item cannot be located the process exits non-zero and writes nothing stale.
//!
//!   extract <repo-root> <out-dir>
use std::collections::BTreeMap;
use std::fmt::Write as _;
use std::path::{Path, PathBuf};

type Consts = BTreeMap<String, syn::Expr>;

fn parse_file(p: &Path) -> syn::File {
    let src = std::fs::read_to_string(p).unwrap_or_else(|e| fail(&format!("cannot read {}: {e}", p.display())));
    syn::parse_file(&src).unwrap_or_else(|e| fail(&format!("cannot parse {}: {e}", p.display())))
}

fn fail(msg: &str) -> ! {
    eprintln!("extract: {msg}");
    std::process::exit(3);
}

/// Collect `const` items (also inside inline modules and inherent impls), keyed by name
/// (module-qualified names are also recorded as `mod::NAME`).
fn collect_consts(items: &[syn::Item], prefix: &str, out: &mut Consts) {
    for it in items {
        match it {
            syn::Item::Const(c) => {
                out.insert(format!("{prefix}{}", c.ident), (*c.expr).clone());
            }
            syn::Item::Mod(m) => {
                if let Some((_, items)) = &m.content {
                    collect_consts(items, &format!("{prefix}{}::", m.ident), out);
                }
            }
            syn::Item::Impl(i) => {
                if i.trait_.is_none() {
                    if let syn::Type::Path(tp) = &*i.self_ty {
                        let ty = tp.path.segments.last().unwrap().ident.to_string();
                        for ii in &i.items {
                            if let syn::ImplItem::Const(c) = ii {
                                out.insert(format!("{prefix}{ty}::{}", c.ident), c.expr.clone());
                            }
                        }
                    }
                }
            }
            _ => {}
        }
    }
}

/// Evaluate a constant integer expression (literals, + - * / << >>, parentheses, casts,
/// references to other collected constants, `size_of::<uN>()`).
fn eval(e: &syn::Expr, env: &Consts) -> Option<i128> {
    use syn::{BinOp, Expr, Lit};
    match e {
        Expr::Lit(l) => match &l.lit {
            Lit::Int(i) => i.base10_parse::<i128>().ok(),
            Lit::Byte(b) => Some(b.value() as i128),
            _ => None,
        },
        Expr::Paren(p) => eval(&p.expr, env),
        Expr::Group(g) => eval(&g.expr, env),
        Expr::Cast(c) => eval(&c.expr, env),
        Expr::Unary(u) => match u.op {
            syn::UnOp::Neg(_) => eval(&u.expr, env).map(|x| -x),
            _ => None,
        },
        Expr::Binary(b) => {
            let l = eval(&b.left, env)?;
            let r = eval(&b.right, env)?;
            match b.op {
                BinOp::Add(_) => Some(l + r),
                BinOp::Sub(_) => Some(l - r),
                BinOp::Mul(_) => Some(l * r),
                BinOp::Div(_) => Some(l / r),
                BinOp::Shl(_) => Some(l << r),
                BinOp::Shr(_) => Some(l >> r),
                _ => None,
            }
        }
        Expr::Path(p) => {
            let name = p.path.segments.last()?.ident.to_string();
            let e = env.get(&name)?;
            eval(e, env)
        }
        Expr::Call(c) => {
            // size_of::<T>() / mem::size_of::<T>()
            if let Expr::Path(p) = &*c.func {
                let seg = p.path.segments.last()?;
                if seg.ident == "size_of" {
                    if let syn::PathArguments::AngleBracketed(a) = &seg.arguments {
                        if let Some(syn::GenericArgument::Type(syn::Type::Path(t))) = a.args.first() {
                            return match t.path.segments.last()?.ident.to_string().as_str() {
                                "u8" | "i8" => Some(1),
                                "u16" | "i16" => Some(2),
                                "u32" | "i32" => Some(4),
                                "u64" | "i64" => Some(8),
                                "u128" | "i128" => Some(16),
                                _ => None,
                            };
                        }
                    }
                }
            }
            None
        }
        _ => None,
    }
}

fn const_val(env: &Consts, name: &str, file: &str) -> i128 {
    let e = env.get(name).unwrap_or_else(|| fail(&format!("const {name} not found in {file}")));
    eval(e, env).unwrap_or_else(|| fail(&format!("const {name} in {file}: expression not evaluable")))
}

/// First `declare_id!("…")` at the given module path ("" = top level).
fn declare_id(items: &[syn::Item], modpath: &[&str], file: &str) -> [u8; 32] {
    let mut items = items;
    for m in modpath {
        let mut found = None;
        for it in items {
            if let syn::Item::Mod(md) = it {
                if md.ident == m {
                    found = md.content.as_ref().map(|c| &c.1);
                }
            }
        }
        items = found.unwrap_or_else(|| fail(&format!("module {m} not found in {file}")));
    }
    for it in items {
        if let syn::Item::Macro(m) = it {
            if m.mac.path.segments.last().map(|s| s.ident == "declare_id").unwrap_or(false) {
                let lit: syn::LitStr = m.mac.parse_body().unwrap_or_else(|_| fail(&format!("declare_id! argument in {file}")));
                return base58_32(&lit.value()).unwrap_or_else(|| fail(&format!("declare_id! in {file}: not a 32-byte base58 key")));
            }
        }
    }
    fail(&format!("declare_id! not found in {file}"))
}

fn base58_32(s: &str) -> Option<[u8; 32]> {
    const A: &[u8] = b"123456789ABCDEFGHJKLMNPQRSTUVWXYZabcdefghijkmnopqrstuvwxyz";
    let mut num = vec![0u8; 0]; // big-endian base-256 digits
    for c in s.bytes() {
        let mut carry = A.iter().position(|&x| x == c)? as u32;
        for d in num.iter_mut().rev() {
            let v = (*d as u32) * 58 + carry;
            *d = (v & 0xff) as u8;
            carry = v >> 8;
        }
        while carry > 0 {
            num.insert(0, (carry & 0xff) as u8);
            carry >>= 8;
        }
    }
    let zeros = s.bytes().take_while(|&c| c == b'1').count();
    let mut out = vec![0u8; zeros];
    out.extend(num);
    if out.len() != 32 {
        return None;
    }
    let mut k = [0u8; 32];
    k.copy_from_slice(&out);
    Some(k)
}

fn lean_bytes(b: &[u8]) -> String {
    let v: Vec<String> = b.iter().map(|x| x.to_string()).collect();
    format!("[{}]", v.join(", "))
}

fn write_if_changed(path: &PathBuf, content: &str) {
    if let Ok(old) = std::fs::read_to_string(path) {
        if old == content {
            return;
        }
    }
    std::fs::write(path, content).unwrap_or_else(|e| fail(&format!("write {}: {e}", path.display())));
    eprintln!("extract: regenerated {}", path.display());
}

fn gen_token(repo: &Path, out: &Path) {
    let f_tok = repo.join("generic-token/src/token.rs");
    let f_22 = repo.join("generic-token/src/token_2022.rs");
    let tok = parse_file(&f_tok);
    let t22 = parse_file(&f_22);
    let mut env = Consts::new();
    collect_consts(&tok.items, "", &mut env);
    let mut env22 = Consts::new();
    collect_consts(&t22.items, "", &mut env22);
    let mut s = String::new();
    writeln!(s, "-- GENERATED by /verif/harness `extract` from /repo/generic-token/src/{{token,token_2022}}.rs — do not edit").unwrap();
    writeln!(s, "import SplModel.Basic\nnamespace Gen.Token").unwrap();
    for name in [
        "SPL_TOKEN_ACCOUNT_MINT_OFFSET",
        "SPL_TOKEN_ACCOUNT_OWNER_OFFSET",
        "SPL_TOKEN_ACCOUNT_AMOUNT_OFFSET",
        "SPL_TOKEN_ACCOUNT_STATE_OFFSET",
        "SPL_TOKEN_ACCOUNT_LENGTH",
        "SPL_TOKEN_MINT_SUPPLY_OFFSET",
        "SPL_TOKEN_MINT_DECIMALS_OFFSET",
        "SPL_TOKEN_MINT_IS_INITIALIZED_OFFSET",
        "SPL_TOKEN_MINT_LENGTH",
    ] {
        writeln!(s, "def {name} : Nat := {}", const_val(&env, name, "token.rs")).unwrap();
    }
    for name in ["ACCOUNTTYPE_ACCOUNT", "ACCOUNTTYPE_MINT", "SPL_TOKEN_MULTISIG_LENGTH"] {
        writeln!(s, "def {name} : Nat := {}", const_val(&env22, name, "token_2022.rs")).unwrap();
    }
    // widths used by the unchecked getters: `PUBKEY_BYTES` (solana-pubkey) and size_of::<u64>()
    writeln!(s, "def PUBKEY_BYTES : Nat := 32").unwrap();
    writeln!(s, "def U64_BYTES : Nat := 8").unwrap();
    writeln!(s, "def TOKEN_ID : Bytes := {}", lean_bytes(&declare_id(&tok.items, &[], "token.rs"))).unwrap();
    writeln!(s, "def TOKEN_2022_ID : Bytes := {}", lean_bytes(&declare_id(&t22.items, &[], "token_2022.rs"))).unwrap();
    // the native mint: its id and the canned 82-byte account data (a byte-array literal)
    writeln!(s, "def NATIVE_MINT_ID : Bytes := {}", lean_bytes(&declare_id(&tok.items, &["native_mint"], "token.rs"))).unwrap();
    let arr = env.get("native_mint::ACCOUNT_DATA").unwrap_or_else(|| fail("const native_mint::ACCOUNT_DATA not found in token.rs"));
    let bytes: Vec<u8> = match arr {
        syn::Expr::Array(a) => a.elems.iter().map(|e| {
            let v = eval(e, &env).unwrap_or_else(|| fail("native_mint::ACCOUNT_DATA: element not evaluable"));
            if !(0..=255).contains(&v) { fail("native_mint::ACCOUNT_DATA: element out of byte range") }
            v as u8
        }).collect(),
        _ => fail("native_mint::ACCOUNT_DATA is not an array literal"),
    };
    writeln!(s, "def NATIVE_MINT_ACCOUNT_DATA : Bytes := {}", lean_bytes(&bytes)).unwrap();
    writeln!(s, "end Gen.Token").unwrap();
    write_if_changed(&out.join("TokenConsts.lean"), &s);
}

/// Find a free function or an inherent/trait method named `name` anywhere in the file.
fn find_fn_block(file: &syn::File, name: &str) -> Option<syn::Block> {
    use syn::visit::Visit;
    struct V<'a> { name: &'a str, found: Option<syn::Block> }
    impl<'ast, 'a> Visit<'ast> for V<'a> {
        fn visit_item_fn(&mut self, f: &'ast syn::ItemFn) {
            if f.sig.ident == self.name && self.found.is_none() { self.found = Some((*f.block).clone()); }
            syn::visit::visit_item_fn(self, f);
        }
        fn visit_impl_item_fn(&mut self, f: &'ast syn::ImplItemFn) {
            if f.sig.ident == self.name && self.found.is_none() { self.found = Some(f.block.clone()); }
            syn::visit::visit_impl_item_fn(self, f);
        }
    }
    let mut v = V { name, found: None };
    v.visit_file(file);
    v.found
}

/// All `expr[lo..hi]` index expressions with literal bounds inside a block: (lo, hi) with
/// `None` for an omitted bound.
fn literal_slices(block: &syn::Block) -> Vec<(Option<i128>, Option<i128>)> {
    use syn::visit::Visit;
    struct V { out: Vec<(Option<i128>, Option<i128>)> }
    impl<'ast> Visit<'ast> for V {
        fn visit_expr_index(&mut self, e: &'ast syn::ExprIndex) {
            if let syn::Expr::Range(r) = &*e.index {
                let env = Consts::new();
                let lo = r.start.as_ref().map(|x| eval(x, &env));
                let hi = r.end.as_ref().map(|x| eval(x, &env));
                let ok = lo.as_ref().map_or(true, |x| x.is_some()) && hi.as_ref().map_or(true, |x| x.is_some());
                if ok && matches!(r.limits, syn::RangeLimits::HalfOpen(_)) {
                    self.out.push((lo.flatten(), hi.flatten()));
                }
            }
            syn::visit::visit_expr_index(self, e);
        }
    }
    let mut v = V { out: vec![] };
    v.visit_block(block);
    v.out
}

/// String-literal argument of the first `.method("…")` call in the file.
fn method_str_arg(file: &syn::File, method: &str) -> Option<String> {
    use syn::visit::Visit;
    struct V<'a> { m: &'a str, found: Option<String> }
    impl<'ast, 'a> Visit<'ast> for V<'a> {
        fn visit_expr_method_call(&mut self, e: &'ast syn::ExprMethodCall) {
            if e.method == self.m && self.found.is_none() {
                if let Some(syn::Expr::Lit(l)) = e.args.first() {
                    if let syn::Lit::Str(s) = &l.lit { self.found = Some(s.value()); }
                }
            }
            syn::visit::visit_expr_method_call(self, e);
        }
    }
    let mut v = V { m: method, found: None };
    v.visit_file(file);
    v.found
}

fn lean_str(s: &str) -> String {
    let mut o = String::from("\"");
    for c in s.chars() {
        match c {
            '"' => o.push_str("\\\""),
            '\\' => o.push_str("\\\\"),
            '\n' => o.push_str("\\n"),
            '\r' => o.push_str("\\r"),
            '\t' => o.push_str("\\t"),
            c if (c as u32) < 0x20 || c as u32 == 0x7f => o.push_str(&format!("\\x{:02x}", c as u32)),
            c => o.push(c),
        }
    }
    o.push('"');
    o
}

fn gen_disc(repo: &Path, out: &Path) {
    let f_d = parse_file(&repo.join("discriminator/src/discriminator.rs"));
    let f_syn = parse_file(&repo.join("discriminator-syn/src/lib.rs"));
    let f_parser = parse_file(&repo.join("discriminator-syn/src/parser.rs"));
    let mut env = Consts::new();
    collect_consts(&f_d.items, "", &mut env);
    let length = const_val(&env, "ArrayDiscriminator::LENGTH", "discriminator.rs");
    let rt = find_fn_block(&f_d, "new_with_hash_input").unwrap_or_else(|| fail("new_with_hash_input not found"));
    let rt_sl = literal_slices(&rt);
    let ct = find_fn_block(&f_syn, "get_discriminator_bytes").unwrap_or_else(|| fail("get_discriminator_bytes not found"));
    let ct_sl = literal_slices(&ct);
    let pick = |v: &Vec<(Option<i128>, Option<i128>)>, what: &str| -> i128 {
        if v.len() != 1 { fail(&format!("{what}: expected exactly one literal slice of the hash, found {}", v.len())); }
        match v[0] {
            (None, Some(hi)) | (Some(0), Some(hi)) => hi,
            (lo, hi) => fail(&format!("{what}: hash slice is [{lo:?}..{hi:?}], not a prefix; the model only describes a prefix slice")),
        }
    };
    let attr = method_str_arg(&f_parser, "is_ident").unwrap_or_else(|| fail("attribute name (is_ident) not found in parser.rs"));
    let mut s = String::new();
    writeln!(s, "-- GENERATED by /verif/harness `extract` from /repo/discriminator/src/discriminator.rs and /repo/discriminator-syn/src/lib.rs — do not edit").unwrap();
    writeln!(s, "namespace Gen.Disc").unwrap();
    writeln!(s, "def LENGTH : Nat := {length}").unwrap();
    writeln!(s, "def RT_SLICE_END : Nat := {}", pick(&rt_sl, "new_with_hash_input")).unwrap();
    writeln!(s, "def CT_SLICE_END : Nat := {}", pick(&ct_sl, "get_discriminator_bytes")).unwrap();
    writeln!(s, "def ATTR_NAME : String := {}", lean_str(&attr)).unwrap();
    writeln!(s, "end Gen.Disc").unwrap();
    write_if_changed(&out.join("DiscConsts.lean"), &s);
}

fn const_str(items: &[syn::Item], name: &str, file: &str) -> String {
    for it in items {
        if let syn::Item::Const(c) = it {
            if c.ident == name {
                if let syn::Expr::Lit(l) = &*c.expr {
                    if let syn::Lit::Str(s) = &l.lit { return s.value(); }
                }
            }
        }
    }
    fail(&format!("string const {name} not found in {file}"))
}

/// String literal passed to `String::from("…")` inside the named function (the default message).
fn string_from_literal(block: &syn::Block) -> Vec<String> {
    use syn::visit::Visit;
    struct V { out: Vec<String> }
    impl<'ast> Visit<'ast> for V {
        fn visit_expr_call(&mut self, e: &'ast syn::ExprCall) {
            if let syn::Expr::Path(p) = &*e.func {
                let segs: Vec<String> = p.path.segments.iter().map(|s| s.ident.to_string()).collect();
                if segs == ["String", "from"] {
                    if let Some(syn::Expr::Lit(l)) = e.args.first() {
                        if let syn::Lit::Str(s) = &l.lit { self.out.push(s.value()); }
                    }
                }
            }
            syn::visit::visit_expr_call(self, e);
        }
    }
    let mut v = V { out: vec![] };
    v.visit_block(block);
    v.out
}

fn gen_err_consts(repo: &Path, out: &Path) {
    let f = parse_file(&repo.join("program-error-derive/src/macro_impl.rs"));
    let mut env = Consts::new();
    collect_consts(&f.items, "", &mut env);
    let ns = const_str(&f.items, "SPL_ERROR_HASH_NAMESPACE", "macro_impl.rs");
    let min = const_val(&env, "SPL_ERROR_HASH_MIN_VALUE", "macro_impl.rs");
    let blk = find_fn_block(&f, "u32_from_hash").unwrap_or_else(|| fail("u32_from_hash not found"));
    let sl = literal_slices(&blk);
    if sl.len() != 1 { fail(&format!("u32_from_hash: expected one literal slice of the hash, found {}", sl.len())); }
    let (lo, hi) = match sl[0] { (Some(lo), Some(hi)) => (lo, hi), (None, Some(hi)) => (0, hi), _ => fail("u32_from_hash: open-ended hash slice") };
    let ts = find_fn_block(&f, "to_str").unwrap_or_else(|| fail("to_str not found"));
    let defaults = string_from_literal(&ts);
    if defaults.len() != 1 { fail(&format!("to_str: expected one String::from(\"…\") default message, found {}", defaults.len())); }
    let mut s = String::new();
    writeln!(s, "-- GENERATED by /verif/harness `extract` from /repo/program-error-derive/src/macro_impl.rs — do not edit").unwrap();
    writeln!(s, "namespace Gen.Err").unwrap();
    writeln!(s, "def NAMESPACE : String := {}", lean_str(&ns)).unwrap();
    writeln!(s, "def MIN_VALUE : Nat := {min}").unwrap();
    writeln!(s, "def HASH_LO : Nat := {lo}").unwrap();
    writeln!(s, "def HASH_HI : Nat := {hi}").unwrap();
    writeln!(s, "def DEFAULT_MESSAGE : String := {}", lean_str(&defaults[0])).unwrap();
    writeln!(s, "end Gen.Err").unwrap();
    write_if_changed(&out.join("ErrConsts.lean"), &s);
}

/// One hand-written library error enum: variants (name, explicit discriminant, `#[error]` texts)
/// and the arms of its hand-written `ToStr::to_str` match.
fn lib_enum(repo: &Path, rel: &str, name: &str) -> String {
    let f = parse_file(&repo.join(rel));
    let env = Consts::new();
    let en = f.items.iter().find_map(|it| match it { syn::Item::Enum(e) if e.ident == name => Some(e), _ => None })
        .unwrap_or_else(|| fail(&format!("enum {name} not found in {rel}")));
    let mut s = String::new();
    writeln!(s, "def {name} : ProgErr.EnumDesc := {{ name := {}, variants := [", lean_str(name)).unwrap();
    let mut first = true;
    for v in &en.variants {
        if !matches!(v.fields, syn::Fields::Unit) { fail(&format!("{name}::{} is not a unit variant", v.ident)); }
        let disc = match &v.discriminant {
            Some((_, e)) => format!("some {}", eval(e, &env).unwrap_or_else(|| fail(&format!("{name}::{}: discriminant not evaluable", v.ident)))),
            None => "none".to_string(),
        };
        let mut attrs = vec![];
        for a in &v.attrs {
            if a.path().is_ident("error") {
                match a.parse_args::<syn::LitStr>() {
                    Ok(l) => attrs.push(format!("some {}", lean_str(&l.value()))),
                    Err(_) => attrs.push("none".to_string()),
                }
            }
        }
        writeln!(s, "  {}{{ name := {}, disc := {}, errAttrs := [{}] }}", if first { "" } else { ", " }, lean_str(&v.ident.to_string()), disc, attrs.join(", ")).unwrap();
        first = false;
    }
    writeln!(s, "] }}").unwrap();
    // hand-written to_str arms
    let mut arms: Vec<(String, String)> = vec![];
    let mut found = false;
    for it in &f.items {
        if let syn::Item::Impl(im) = it {
            let is_tostr = im.trait_.as_ref().map_or(false, |(_, p, _)| p.segments.last().map_or(false, |s| s.ident == "ToStr"));
            let for_name = matches!(&*im.self_ty, syn::Type::Path(tp) if tp.path.segments.last().map_or(false, |s| s.ident == name));
            if is_tostr && for_name {
                for ii in &im.items {
                    if let syn::ImplItem::Fn(func) = ii {
                        if func.sig.ident == "to_str" {
                            found = true;
                            use syn::visit::Visit;
                            struct V<'a> { arms: &'a mut Vec<(String, String)> }
                            impl<'ast, 'a> Visit<'ast> for V<'a> {
                                fn visit_arm(&mut self, a: &'ast syn::Arm) {
                                    let pat = match &a.pat {
                                        syn::Pat::Path(p) => p.path.segments.last().map(|s| s.ident.to_string()),
                                        syn::Pat::Ident(i) => Some(i.ident.to_string()),
                                        _ => None,
                                    };
                                    fn lit_of(e: &syn::Expr) -> Option<String> {
                                        match e {
                                            syn::Expr::Lit(l) => if let syn::Lit::Str(s) = &l.lit { Some(s.value()) } else { None },
                                            syn::Expr::Block(b) if b.block.stmts.len() == 1 => match &b.block.stmts[0] { syn::Stmt::Expr(e, None) => lit_of(e), _ => None },
                                            syn::Expr::Paren(p) => lit_of(&p.expr),
                                            _ => None,
                                        }
                                    }
                                    match (pat, lit_of(&a.body)) {
                                        (Some(p), Some(l)) => self.arms.push((p, l)),
                                        _ => fail("to_str: match arm is not `Enum::Variant => \"literal\"`"),
                                    }
                                }
                            }
                            V { arms: &mut arms }.visit_block(&func.block);
                        }
                    }
                }
            }
        }
    }
    if !found { fail(&format!("impl ToStr for {name} not found in {rel}")); }
    writeln!(s, "def {name}_toStrArms : List (String × String) := [").unwrap();
    for (i, (p, l)) in arms.iter().enumerate() {
        writeln!(s, "  {}({}, {})", if i == 0 { "" } else { ", " }, lean_str(p), lean_str(l)).unwrap();
    }
    writeln!(s, "]").unwrap();
    s
}

fn gen_error_enums(repo: &Path, out: &Path) {
    let mut s = String::new();
    writeln!(s, "-- GENERATED by /verif/harness `extract` from /repo/{{type-length-value,list-view,tlv-account-resolution}}/src/error.rs — do not edit").unwrap();
    writeln!(s, "import SplModel.ProgramError\nnamespace Gen.LibErr").unwrap();
    s.push_str(&lib_enum(repo, "type-length-value/src/error.rs", "TlvError"));
    s.push_str(&lib_enum(repo, "list-view/src/error.rs", "ListViewError"));
    s.push_str(&lib_enum(repo, "tlv-account-resolution/src/error.rs", "AccountResolutionError"));
    writeln!(s, "end Gen.LibErr").unwrap();
    write_if_changed(&out.join("ErrorEnums.lean"), &s);
}

fn gen_tlv(repo: &Path, out: &Path) {
    let f_d = parse_file(&repo.join("discriminator/src/discriminator.rs"));
    let f_l = parse_file(&repo.join("type-length-value/src/length.rs"));
    let f_e = parse_file(&repo.join("type-length-value/src/error.rs"));
    let mut env = Consts::new();
    collect_consts(&f_d.items, "", &mut env);
    let dl = const_val(&env, "ArrayDiscriminator::LENGTH", "discriminator.rs");
    // pub struct Length(PodUxx);
    let mut lw = None;
    for it in &f_l.items {
        if let syn::Item::Struct(st) = it {
            if st.ident == "Length" {
                if let syn::Fields::Unnamed(u) = &st.fields {
                    if let Some(syn::Type::Path(tp)) = u.unnamed.first().map(|f| &f.ty) {
                        lw = match tp.path.segments.last().unwrap().ident.to_string().as_str() {
                            "PodU16" => Some(2), "PodU32" => Some(4), "PodU64" => Some(8), "PodU128" => Some(16), _ => None,
                        };
                    }
                }
            }
        }
    }
    let lw = lw.unwrap_or_else(|| fail("struct Length(PodUxx) not found in length.rs"));
    // TlvError discriminants
    let en = f_e.items.iter().find_map(|it| match it { syn::Item::Enum(e) if e.ident == "TlvError" => Some(e), _ => None })
        .unwrap_or_else(|| fail("enum TlvError not found"));
    let mut next: i128 = 0;
    let mut codes = std::collections::BTreeMap::new();
    for v in &en.variants {
        if let Some((_, e)) = &v.discriminant { next = eval(e, &Consts::new()).unwrap_or_else(|| fail("TlvError discriminant")); }
        codes.insert(v.ident.to_string(), next);
        next += 1;
    }
    let get = |n: &str| *codes.get(n).unwrap_or_else(|| fail(&format!("TlvError::{n} not found")));
    let mut s = String::new();
    writeln!(s, "-- GENERATED by /verif/harness `extract` from /repo/discriminator/src/discriminator.rs and /repo/type-length-value/src/length.rs — do not edit").unwrap();
    writeln!(s, "namespace Gen.Tlv").unwrap();
    writeln!(s, "def DISC_LEN : Nat := {dl}").unwrap();
    writeln!(s, "def LEN_WIDTH : Nat := {lw}").unwrap();
    writeln!(s, "def TYPE_NOT_FOUND : Nat := {}", get("TypeNotFound")).unwrap();
    writeln!(s, "def TYPE_ALREADY_EXISTS : Nat := {}", get("TypeAlreadyExists")).unwrap();
    writeln!(s, "end Gen.Tlv").unwrap();
    write_if_changed(&out.join("TlvConsts.lean"), &s);
}

fn gen_resolution(repo: &Path, out: &Path) {
    let f = parse_file(&repo.join("tlv-account-resolution/src/account.rs"));
    let mut env = Consts::new();
    collect_consts(&f.items, "", &mut env);
    let top = const_val(&env, "U8_TOP_BIT", "account.rs");
    let mut s = String::new();
    writeln!(s, "-- GENERATED by /verif/harness `extract` from /repo/tlv-account-resolution/src/account.rs — do not edit").unwrap();
    writeln!(s, "namespace Gen.Resolution\ndef U8_TOP_BIT : Nat := {top}\nend Gen.Resolution").unwrap();
    write_if_changed(&out.join("ResolutionConsts.lean"), &s);
}

fn main() {
    let args: Vec<String> = std::env::args().collect();
    if args.len() != 3 {
        eprintln!("usage: extract <repo-root> <out-dir>");
        std::process::exit(2);
    }
    let repo = PathBuf::from(&args[1]);
    let out = PathBuf::from(&args[2]);
    std::fs::create_dir_all(&out).unwrap();
    gen_token(&repo, &out);
    gen_disc(&repo, &out);
    gen_tlv(&repo, &out);
    gen_resolution(&repo, &out);
    gen_err_consts(&repo, &out);
    gen_error_enums(&repo, &out);
}
