//! TRANSLATOR: syn-parses /repo's current sources and regenerates the table-like part of the
//! Lean model (constants, offsets, program ids, error enums, macro constants) under
//! /verif/lean/SplModel/Generated/.  Extracts data only, never control flow.  Fails closed:
//! if an item cannot be located the process exits non-zero and writes nothing stale.
//!
//!   extract <repo-root> <out-dir>
use std::collections::BTreeMap;
use std::fmt::Write as _;
use std::path::{Path, PathBuf};

type Consts = BTreeMap<String, syn::Expr>;

fn parse_file(p: &Path) -> syn::File {
    let src = std::fs::read_to_string(p).unwrap_or_else(|e| fail(&format!("cannot read {}: {e}", p.display())));
    syn::parse_file(&src).unwrap_or_else(|e| fail(&format!("cannot parse {}: {e}", p.display())))
}

fn fail(msg: &str) -> ! {
    eprintln!("extract: {msg}");
    std::process::exit(3);
}

/// Collect `const` items (also inside inline modules and inherent impls), keyed by name
/// (module-qualified names are also recorded as `mod::NAME`).
fn collect_consts(items: &[syn::Item], prefix: &str, out: &mut Consts) {
    for it in items {
        match it {
            syn::Item::Const(c) => {
                out.insert(format!("{prefix}{}", c.ident), (*c.expr).clone());
            }
            syn::Item::Mod(m) => {
                if let Some((_, items)) = &m.content {
                    collect_consts(items, &format!("{prefix}{}::", m.ident), out);
                }
            }
            syn::Item::Impl(i) => {
                if i.trait_.is_none() {
                    if let syn::Type::Path(tp) = &*i.self_ty {
                        let ty = tp.path.segments.last().unwrap().ident.to_string();
                        for ii in &i.items {
                            if let syn::ImplItem::Const(c) = ii {
                                out.insert(format!("{prefix}{ty}::{}", c.ident), c.expr.clone());
                            }
                        }
                    }
                }
            }
            _ => {}
        }
    }
}

/// Evaluate a constant integer expression (literals, + - * / << >>, parentheses, casts,
/// references to other collected constants, `size_of::<uN>()`).
fn eval(e: &syn::Expr, env: &Consts) -> Option<i128> {
    use syn::{BinOp, Expr, Lit};
    match e {
        Expr::Lit(l) => match &l.lit {
            Lit::Int(i) => i.base10_parse::<i128>().ok(),
            Lit::Byte(b) => Some(b.value() as i128),
            _ => None,
        },
        Expr::Paren(p) => eval(&p.expr, env),
        Expr::Group(g) => eval(&g.expr, env),
        Expr::Cast(c) => eval(&c.expr, env),
        Expr::Unary(u) => match u.op {
            syn::UnOp::Neg(_) => eval(&u.expr, env).map(|x| -x),
            _ => None,
        },
        Expr::Binary(b) => {
            let l = eval(&b.left, env)?;
            let r = eval(&b.right, env)?;
            match b.op {
                BinOp::Add(_) => Some(l + r),
                BinOp::Sub(_) => Some(l - r),
                BinOp::Mul(_) => Some(l * r),
                BinOp::Div(_) => Some(l / r),
                BinOp::Shl(_) => Some(l << r),
                BinOp::Shr(_) => Some(l >> r),
                _ => None,
            }
        }
        Expr::Path(p) => {
            let name = p.path.segments.last()?.ident.to_string();
            let e = env.get(&name)?;
            eval(e, env)
        }
        Expr::Call(c) => {
            // size_of::<T>() / mem::size_of::<T>()
            if let Expr::Path(p) = &*c.func {
                let seg = p.path.segments.last()?;
                if seg.ident == "size_of" {
                    if let syn::PathArguments::AngleBracketed(a) = &seg.arguments {
                        if let Some(syn::GenericArgument::Type(syn::Type::Path(t))) = a.args.first() {
                            return match t.path.segments.last()?.ident.to_string().as_str() {
                                "u8" | "i8" => Some(1),
                                "u16" | "i16" => Some(2),
                                "u32" | "i32" => Some(4),
                                "u64" | "i64" => Some(8),
                                "u128" | "i128" => Some(16),
                                _ => None,
                            };
                        }
                    }
                }
            }
            None
        }
        _ => None,
    }
}

fn const_val(env: &Consts, name: &str, file: &str) -> i128 {
    let e = env.get(name).unwrap_or_else(|| fail(&format!("const {name} not found in {file}")));
    eval(e, env).unwrap_or_else(|| fail(&format!("const {name} in {file}: expression not evaluable")))
}

/// First `declare_id!("…")` at the given module path ("" = top level).
fn declare_id(items: &[syn::Item], modpath: &[&str], file: &str) -> [u8; 32] {
    let mut items = items;
    for m in modpath {
        let mut found = None;
        for it in items {
            if let syn::Item::Mod(md) = it {
                if md.ident == m {
                    found = md.content.as_ref().map(|c| &c.1);
                }
            }
        }
        items = found.unwrap_or_else(|| fail(&format!("module {m} not found in {file}")));
    }
    for it in items {
        if let syn::Item::Macro(m) = it {
            if m.mac.path.segments.last().map(|s| s.ident == "declare_id").unwrap_or(false) {
                let lit: syn::LitStr = m.mac.parse_body().unwrap_or_else(|_| fail(&format!("declare_id! argument in {file}")));
                return base58_32(&lit.value()).unwrap_or_else(|| fail(&format!("declare_id! in {file}: not a 32-byte base58 key")));
            }
        }
    }
    fail(&format!("declare_id! not found in {file}"))
}

fn base58_32(s: &str) -> Option<[u8; 32]> {
    const A: &[u8] = b"123456789ABCDEFGHJKLMNPQRSTUVWXYZabcdefghijkmnopqrstuvwxyz";
    let mut num = vec![0u8; 0]; // big-endian base-256 digits
    for c in s.bytes() {
        let mut carry = A.iter().position(|&x| x == c)? as u32;
        for d in num.iter_mut().rev() {
            let v = (*d as u32) * 58 + carry;
            *d = (v & 0xff) as u8;
            carry = v >> 8;
        }
        while carry > 0 {
            num.insert(0, (carry & 0xff) as u8);
            carry >>= 8;
        }
    }
    let zeros = s.bytes().take_while(|&c| c == b'1').count();
    let mut out = vec![0u8; zeros];
    out.extend(num);
    if out.len() != 32 {
        return None;
    }
    let mut k = [0u8; 32];
    k.copy_from_slice(&out);
    Some(k)
}

fn lean_bytes(b: &[u8]) -> String {
    let v: Vec<String> = b.iter().map(|x| x.to_string()).collect();
    format!("[{}]", v.join(", "))
}

fn write_if_changed(path: &PathBuf, content: &str) {
    if let Ok(old) = std::fs::read_to_string(path) {
        if old == content {
            return;
        }
    }
    std::fs::write(path, content).unwrap_or_else(|e| fail(&format!("write {}: {e}", path.display())));
    eprintln!("extract: regenerated {}", path.display());
}

fn gen_token(repo: &Path, out: &Path) {
    let f_tok = repo.join("generic-token/src/token.rs");
    let f_22 = repo.join("generic-token/src/token_2022.rs");
    let tok = parse_file(&f_tok);
    let t22 = parse_file(&f_22);
    let mut env = Consts::new();
    collect_consts(&tok.items, "", &mut env);
    let mut env22 = Consts::new();
    collect_consts(&t22.items, "", &mut env22);
    let mut s = String::new();
    writeln!(s, "-- GENERATED by /verif/harness `extract` from /repo/generic-token/src/{{token,token_2022}}.rs — do not edit").unwrap();
    writeln!(s, "import SplModel.Basic\nnamespace Gen.Token").unwrap();
    for name in [
        "SPL_TOKEN_ACCOUNT_MINT_OFFSET",
        "SPL_TOKEN_ACCOUNT_OWNER_OFFSET",
        "SPL_TOKEN_ACCOUNT_AMOUNT_OFFSET",
        "SPL_TOKEN_ACCOUNT_STATE_OFFSET",
        "SPL_TOKEN_ACCOUNT_LENGTH",
        "SPL_TOKEN_MINT_SUPPLY_OFFSET",
        "SPL_TOKEN_MINT_DECIMALS_OFFSET",
        "SPL_TOKEN_MINT_IS_INITIALIZED_OFFSET",
        "SPL_TOKEN_MINT_LENGTH",
    ] {
        writeln!(s, "def {name} : Nat := {}", const_val(&env, name, "token.rs")).unwrap();
    }
    for name in ["ACCOUNTTYPE_ACCOUNT", "ACCOUNTTYPE_MINT", "SPL_TOKEN_MULTISIG_LENGTH"] {
        writeln!(s, "def {name} : Nat := {}", const_val(&env22, name, "token_2022.rs")).unwrap();
    }
    // widths used by the unchecked getters: `PUBKEY_BYTES` (solana-pubkey) and size_of::<u64>()
    writeln!(s, "def PUBKEY_BYTES : Nat := 32").unwrap();
    writeln!(s, "def U64_BYTES : Nat := 8").unwrap();
    writeln!(s, "def TOKEN_ID : Bytes := {}", lean_bytes(&declare_id(&tok.items, &[], "token.rs"))).unwrap();
    writeln!(s, "def TOKEN_2022_ID : Bytes := {}", lean_bytes(&declare_id(&t22.items, &[], "token_2022.rs"))).unwrap();
    writeln!(s, "end Gen.Token").unwrap();
    write_if_changed(&out.join("TokenConsts.lean"), &s);
}

fn main() {
    let args: Vec<String> = std::env::args().collect();
    if args.len() != 3 {
        eprintln!("usage: extract <repo-root> <out-dir>");
        std::process::exit(2);
    }
    let repo = PathBuf::from(&args[1]);
    let out = PathBuf::from(&args[2]);
    std::fs::create_dir_all(&out).unwrap();
    gen_token(&repo, &out);
}
