//! Developer tool: brute-force enum names whose hashed error-code start (nonce 0) has a given value,
//! e.g. exactly the minimum 7000 (accepted at nonce 0) or 6999 (rejected, so the nonce advances).
//!   findname <target-value> [<how many>] [<upper bound>]   (with an upper bound: any value in target..=upper, printed with the value)
use sha2::{Digest, Sha256};
use std::sync::atomic::{AtomicU64, Ordering};
fn main() {
    let args: Vec<String> = std::env::args().collect();
    let target: u32 = args[1].parse().unwrap();
    let want: u64 = args.get(2).map(|s| s.parse().unwrap()).unwrap_or(1);
    let upper: u32 = args.get(3).map(|s| s.parse().unwrap()).unwrap_or(target);
    let found = std::sync::Arc::new(AtomicU64::new(0));
    let threads = 16u64;
    let hs: Vec<_> = (0..threads)
        .map(|t| {
            let found = found.clone();
            std::thread::spawn(move || {
                let mut k = t;
                while found.load(Ordering::Relaxed) < want {
                    let name = format!("Bnd{k}");
                    let mut h = Sha256::new_with_prefix(format!("spl_program_error:{name}").as_bytes());
                    h.update(0u32.to_le_bytes());
                    let d = u32::from_le_bytes(h.finalize()[13..17].try_into().unwrap());
                    if d >= target && d <= upper {
                        println!("{name} {d}");
                        found.fetch_add(1, Ordering::Relaxed);
                    }
                    k += threads;
                }
            })
        })
        .collect();
    for h in hs {
        h.join().unwrap();
    }
}
