//! spl-verif-harness: correspondence + oracle driver.
//!   harness gen <PROP> <tier> <seed> <outdir> [corpus files…]
//!       writes <outdir>/cases.txt (corpus first, then generated), impl.txt, oracle.txt, stats.json
//!   harness run <PROP> <cases-file> <outdir>
//!       runs an existing case file (replay / search) and writes impl.txt, oracle.txt, stats.json
mod props;
mod util;

use std::io::Write;

fn write_lines(path: &std::path::Path, lines: &[String]) {
    let mut f = std::io::BufWriter::new(std::fs::File::create(path).expect("create"));
    for l in lines {
        f.write_all(l.as_bytes()).unwrap();
        f.write_all(b"\n").unwrap();
    }
}

fn main() {
    let args: Vec<String> = std::env::args().collect();
    if args.len() < 5 {
        eprintln!("usage: harness gen <PROP> <tier> <seed> <outdir> [corpus…] | harness run <PROP> <cases> <outdir>");
        std::process::exit(2);
    }
    util::silence_panics();
    let mode = args[1].as_str();
    let prop = args[2].as_str();
    let (cases, outdir): (Vec<String>, String) = match mode {
        "gen" => {
            let tier = args[3].as_str();
            let seed: u64 = args[4].parse().expect("seed");
            let outdir = args[5].clone();
            let mut cases = Vec::new();
            for c in &args[6..] {
                let txt = std::fs::read_to_string(c).expect("corpus file");
                for l in txt.lines() {
                    if !l.trim().is_empty() && !l.starts_with('#') {
                        cases.push(l.to_string());
                    }
                }
            }
            let mut rng = util::Rng::new(seed);
            cases.extend(props::generate(prop, tier, &mut rng));
            (cases, outdir)
        }
        "run" => {
            let txt = std::fs::read_to_string(&args[3]).expect("cases file");
            let cases = txt
                .lines()
                .filter(|l| !l.trim().is_empty() && !l.starts_with('#'))
                .map(|s| s.to_string())
                .collect();
            (cases, args[4].clone())
        }
        _ => {
            eprintln!("unknown mode");
            std::process::exit(2);
        }
    };
    let dir = std::path::Path::new(&outdir);
    std::fs::create_dir_all(dir).unwrap();
    let out = props::run(prop, &cases);
    assert_eq!(out.impl_lines.len(), cases.len(), "one impl line per case line");
    assert_eq!(out.oracle_lines.len(), cases.len(), "one oracle line per case line");
    write_lines(&dir.join("cases.txt"), &cases);
    write_lines(&dir.join("impl.txt"), &out.impl_lines);
    write_lines(&dir.join("oracle.txt"), &out.oracle_lines);
    std::fs::write(dir.join("stats.json"), out.stats.to_json()).unwrap();
}
