//! spl-verif-harness: correspondence + oracle driver.
//!   harness gen <PROP> <tier> <seed> <outdir> [corpus files…]
//!       writes <outdir>/cases.txt (corpus first, then generated), impl.txt, oracle.txt, stats.json
//!   harness run <PROP> <cases-file> <outdir>
//!       runs an existing case file (replay / search) and writes impl.txt, oracle.txt, stats.json
mod props;
mod util;

use std::io::Write;

fn write_lines(path: &std::path::Path, lines: &[String]) {
    let mut f = std::io::BufWriter::new(std::fs::File::create(path).expect("create"));
    for l in lines {
        f.write_all(l.as_bytes()).unwrap();
        f.write_all(b"\n").unwrap();
    }
}

/// Run the cases; if the harness's own reference code panics (the implementation behaved in a way the
/// shadow cannot follow — that is itself a failure of the property, not of the run), fall back to
/// evaluating block by block (a single line, or one `B … E` history) so that exactly the offending
/// block is reported as an oracle failure and everything else is still evaluated.
fn run_resilient(prop: &str, cases: &[String]) -> util::RunOut {
    if let Some(out) = util::guarded(|| props::run(prop, cases)) {
        return out;
    }
    let mut total = util::RunOut::default();
    let mut i = 0;
    while i < cases.len() {
        let mut j = i + 1;
        if cases[i].starts_with("B ") {
            while j < cases.len() && !cases[j].starts_with("B ") {
                j += 1;
                if cases[j - 1] == "E" || cases[j - 1].starts_with("E ") {
                    break;
                }
            }
        }
        let block = &cases[i..j];
        match util::guarded(|| props::run(prop, block)) {
            Some(out) if out.impl_lines.len() == block.len() && out.oracle_lines.len() == block.len() => {
                total.impl_lines.extend(out.impl_lines);
                total.oracle_lines.extend(out.oracle_lines);
                total.stats.evaluations += out.stats.evaluations;
                total.stats.oracle_fail += out.stats.oracle_fail;
                total.stats.nontrivial.extend(out.stats.nontrivial);
                for (k, v) in out.stats.hist {
                    *total.stats.hist.entry(k).or_insert(0) += v;
                }
                for smp in out.stats.samples {
                    total.stats.sample(&smp);
                }
            }
            _ => {
                for _ in block {
                    total.push(
                        "harness-panic".to_string(),
                        Err("the reference (shadow) evaluation of this case panicked: the implementation behaved in a way the reference cannot follow".to_string()),
                    );
                }
                total.stats.bump("harness-panic");
            }
        }
        i = j;
    }
    total
}

fn main() {
    let args: Vec<String> = std::env::args().collect();
    if args.len() < 5 {
        eprintln!("usage: harness gen <PROP> <tier> <seed> <outdir> [corpus…] | harness run <PROP> <cases> <outdir>");
        std::process::exit(2);
    }
    util::silence_panics();
    let mode = args[1].as_str();
    let prop = args[2].as_str();
    let (cases, outdir): (Vec<String>, String) = match mode {
        "gen" => {
            let tier = args[3].as_str();
            let seed: u64 = args[4].parse().expect("seed");
            let outdir = args[5].clone();
            let mut cases = Vec::new();
            for c in &args[6..] {
                let txt = std::fs::read_to_string(c).expect("corpus file");
                for l in txt.lines() {
                    if !l.trim().is_empty() && !l.starts_with('#') {
                        cases.push(l.to_string());
                    }
                }
            }
            let mut rng = util::Rng::new(seed);
            cases.extend(props::generate(prop, tier, &mut rng));
            (cases, outdir)
        }
        "run" => {
            let txt = std::fs::read_to_string(&args[3]).expect("cases file");
            let cases = txt
                .lines()
                .filter(|l| !l.trim().is_empty() && !l.starts_with('#'))
                .map(|s| s.to_string())
                .collect();
            (cases, args[4].clone())
        }
        _ => {
            eprintln!("unknown mode");
            std::process::exit(2);
        }
    };
    let dir = std::path::Path::new(&outdir);
    std::fs::create_dir_all(dir).unwrap();
    let out = run_resilient(prop, &cases);
    assert_eq!(out.impl_lines.len(), cases.len(), "one impl line per case line");
    assert_eq!(out.oracle_lines.len(), cases.len(), "one oracle line per case line");
    write_lines(&dir.join("cases.txt"), &cases);
    write_lines(&dir.join("impl.txt"), &out.impl_lines);
    write_lines(&dir.join("oracle.txt"), &out.oracle_lines);
    std::fs::write(dir.join("stats.json"), out.stats.to_json()).unwrap();
}
