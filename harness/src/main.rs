//! spl-verif-harness: correspondence + oracle driver.
//!   harness gen <PROP> <tier> <seed> <outdir> [corpus files…]
//!       writes <outdir>/cases.txt (corpus first, then generated), impl.txt, oracle.txt, stats.json
//!   harness run <PROP> <cases-file> <outdir>
//!       runs an existing case file (replay / search) and writes impl.txt, oracle.txt, stats.json
mod props;
mod util;

use std::io::Write;

fn write_lines(path: &std::path::Path, lines: &[String]) {
    let mut f = std::io::BufWriter::new(std::fs::File::create(path).expect("create"));
    for l in lines {
        f.write_all(l.as_bytes()).unwrap();
        f.write_all(b"\n").unwrap();
    }
}

/// Split the case lines into replayable blocks: a single stateless line, or one `B … E` history.
fn split_blocks(cases: &[String]) -> Vec<(usize, usize)> {
    let mut v = Vec::new();
    let mut i = 0;
    while i < cases.len() {
        let mut j = i + 1;
        if cases[i].starts_with("B ") {
            while j < cases.len() && !cases[j].starts_with("B ") {
                j += 1;
                if cases[j - 1] == "E" || cases[j - 1].starts_with("E ") {
                    break;
                }
            }
        }
        v.push((i, j));
        i = j;
    }
    v
}

/// Run the cases block by block in a worker thread, with a watchdog.
///  * If the harness's own reference code panics on a block (the implementation behaved in a way the
///    shadow cannot follow — itself a failure of the property, not of the run), exactly that block is
///    reported as an oracle failure and everything else is still evaluated.
///  * If a block does not finish within `VERIF_CASE_TIMEOUT` seconds (default 120) the implementation
///    does not terminate on it (the reference code has no unbounded loops): the block is reported as an
///    oracle failure, the remaining blocks are marked `skipped-after-hang` (the check does not compare
///    them), and the process exits with the hung thread abandoned.
fn run_resilient(prop: &str, cases: &[String]) -> util::RunOut {
    let blocks = split_blocks(cases);
    let limit = std::time::Duration::from_secs(
        std::env::var("VERIF_CASE_TIMEOUT").ok().and_then(|s| s.parse().ok()).unwrap_or(120),
    );
    let (tx, rx) = std::sync::mpsc::channel::<(usize, Option<util::RunOut>)>();
    let shared: std::sync::Arc<Vec<String>> = std::sync::Arc::new(cases.to_vec());
    let (prop_s, blocks_w, cases_w) = (prop.to_string(), blocks.clone(), shared.clone());
    std::thread::Builder::new()
        .stack_size(512 << 20)
        .spawn(move || {
            for (k, (i, j)) in blocks_w.iter().enumerate() {
                let r = util::guarded(|| props::run(&prop_s, &cases_w[*i..*j]));
                if tx.send((k, r)).is_err() {
                    return;
                }
            }
        })
        .expect("spawn worker");
    let mut total = util::RunOut::default();
    for (k, (i, j)) in blocks.iter().enumerate() {
        let n = j - i;
        match rx.recv_timeout(limit) {
            Ok((kk, Some(out))) if kk == k && out.impl_lines.len() == n && out.oracle_lines.len() == n => {
                total.impl_lines.extend(out.impl_lines);
                total.oracle_lines.extend(out.oracle_lines);
                total.stats.evaluations += out.stats.evaluations;
                total.stats.oracle_fail += out.stats.oracle_fail;
                total.stats.nontrivial.extend(out.stats.nontrivial);
                for (key, v) in out.stats.hist {
                    *total.stats.hist.entry(key).or_insert(0) += v;
                }
                for smp in out.stats.samples {
                    total.stats.sample(&smp);
                }
            }
            Ok(_) => {
                for _ in 0..n {
                    total.push(
                        "harness-panic".to_string(),
                        Err("the reference (shadow) evaluation of this case panicked: the implementation behaved in a way the reference cannot follow".to_string()),
                    );
                }
                total.stats.bump("harness-panic");
            }
            Err(_) => {
                for _ in 0..n {
                    total.push("hang".to_string(), Err(format!("the implementation did not terminate on this case within {} s", limit.as_secs())));
                }
                total.stats.bump("hang");
                for (i2, j2) in &blocks[k + 1..] {
                    for _ in *i2..*j2 {
                        total.impl_lines.push("skipped-after-hang".to_string());
                        total.oracle_lines.push("PASS".to_string());
                    }
                }
                break;
            }
        }
    }
    total
}

fn main() {
    let args: Vec<String> = std::env::args().collect();
    if args.len() < 5 {
        eprintln!("usage: harness gen <PROP> <tier> <seed> <outdir> [corpus…] | harness run <PROP> <cases> <outdir>");
        std::process::exit(2);
    }
    util::silence_panics();
    let mode = args[1].as_str();
    let prop = args[2].as_str();
    let (cases, outdir): (Vec<String>, String) = match mode {
        "gen" => {
            let tier = args[3].as_str();
            let seed: u64 = args[4].parse().expect("seed");
            let outdir = args[5].clone();
            let mut cases = Vec::new();
            for c in &args[6..] {
                let txt = std::fs::read_to_string(c).expect("corpus file");
                for l in txt.lines() {
                    if !l.trim().is_empty() && !l.starts_with('#') {
                        cases.push(l.to_string());
                    }
                }
            }
            let mut rng = util::Rng::new(seed);
            cases.extend(props::generate(prop, tier, &mut rng));
            (cases, outdir)
        }
        "run" => {
            let txt = std::fs::read_to_string(&args[3]).expect("cases file");
            let cases = txt
                .lines()
                .filter(|l| !l.trim().is_empty() && !l.starts_with('#'))
                .map(|s| s.to_string())
                .collect();
            (cases, args[4].clone())
        }
        _ => {
            eprintln!("unknown mode");
            std::process::exit(2);
        }
    };
    let dir = std::path::Path::new(&outdir);
    std::fs::create_dir_all(dir).unwrap();
    // written first: if the implementation brings the whole process down (stack overflow, abort) the
    // orchestrator still has the cases and bisects them
    write_lines(&dir.join("cases.txt"), &cases);
    let out = run_resilient(prop, &cases);
    assert_eq!(out.impl_lines.len(), cases.len(), "one impl line per case line");
    assert_eq!(out.oracle_lines.len(), cases.len(), "one oracle line per case line");
    write_lines(&dir.join("cases.txt"), &cases);
    write_lines(&dir.join("impl.txt"), &out.impl_lines);
    write_lines(&dir.join("oracle.txt"), &out.oracle_lines);
    std::fs::write(dir.join("stats.json"), out.stats.to_json()).unwrap();
    // leave explicitly: a hung worker thread must not keep the process alive
    std::process::exit(0);
}
