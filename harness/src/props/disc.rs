//! C18 — discriminators: run-time path, compile-time path (discriminator-syn in-process on
//! attribute *source text*), conversions.
use crate::util::*;
use sha2::{Digest, Sha256};
use spl_discriminator::ArrayDiscriminator;
use spl_discriminator_syn::SplDiscriminateBuilder;

/// Run the real derive builder on `#[discriminator_hash_input(<lit>)] struct S;` and return the
/// bytes of the byte-string literal it emits.
pub fn derive_bytes(item_src: &str) -> Result<Vec<u8>, String> {
    let item: syn::Item = syn::parse_str(item_src).map_err(|e| format!("syn: {e}"))?;
    let builder = match item {
        syn::Item::Struct(s) => SplDiscriminateBuilder::try_from(s).map_err(|e| format!("builder: {e}"))?,
        syn::Item::Enum(e) => SplDiscriminateBuilder::try_from(e).map_err(|e| format!("builder: {e}"))?,
        _ => return Err("not a struct/enum".into()),
    };
    let ts = proc_macro2::TokenStream::from(&builder);
    fn find(ts: proc_macro2::TokenStream, out: &mut Vec<Vec<u8>>) {
        for t in ts {
            match t {
                proc_macro2::TokenTree::Group(g) => find(g.stream(), out),
                proc_macro2::TokenTree::Literal(l) => {
                    if let Ok(syn::Lit::ByteStr(b)) = syn::parse_str::<syn::Lit>(&l.to_string()) {
                        out.push(b.value());
                    }
                }
                _ => {}
            }
        }
    }
    let mut v = vec![];
    find(ts, &mut v);
    if v.len() == 1 { Ok(v.pop().unwrap()) } else { Err(format!("{} byte-string literals in the derive output", v.len())) }
}

/// The same through the builder's `syn::parse::Parse` impl (what the proc-macro entry point uses) and
/// its `ToTokens` impl.
pub fn derive_bytes_via_parse(item_src: &str) -> Result<Vec<u8>, String> {
    let builder: SplDiscriminateBuilder = syn::parse_str(item_src).map_err(|e| format!("parse: {e}"))?;
    let mut ts = proc_macro2::TokenStream::new();
    quote::ToTokens::to_tokens(&builder, &mut ts);
    let mut v = vec![];
    fn find(ts: proc_macro2::TokenStream, out: &mut Vec<Vec<u8>>) {
        for t in ts {
            match t {
                proc_macro2::TokenTree::Group(g) => find(g.stream(), out),
                proc_macro2::TokenTree::Literal(l) => {
                    if let Ok(syn::Lit::ByteStr(b)) = syn::parse_str::<syn::Lit>(&l.to_string()) { out.push(b.value()); }
                }
                _ => {}
            }
        }
    }
    find(ts, &mut v);
    if v.len() == 1 { Ok(v.pop().unwrap()) } else { Err(format!("{} byte-string literals in the derive output", v.len())) }
}

pub fn derive_tokens(item_src: &str) -> Result<String, String> {
    let item: syn::Item = syn::parse_str(item_src).map_err(|e| format!("syn: {e}"))?;
    let builder = match item {
        syn::Item::Struct(s) => SplDiscriminateBuilder::try_from(s).map_err(|e| format!("builder: {e}"))?,
        syn::Item::Enum(e) => SplDiscriminateBuilder::try_from(e).map_err(|e| format!("builder: {e}"))?,
        _ => return Err("not a struct/enum".into()),
    };
    Ok(proc_macro2::TokenStream::from(&builder).to_string())
}

pub fn run(cases: &[String]) -> RunOut {
    let mut out = RunOut::default();
    for line in cases {
        let t: Vec<&str> = line.split_whitespace().collect();
        let (impl_line, err): (String, Option<String>) = match t[0] {
            "hash" => {
                let s = String::from_utf8(unhex(t[1])).expect("utf8 string");
                let lit = String::from_utf8(unhex(t[2])).expect("utf8 literal source");
                let rt = guarded(|| ArrayDiscriminator::new_with_hash_input(&s));
                let item = format!("#[allow(dead_code)]\n#[discriminator_hash_input({lit})]\nstruct S;");
                let ct = guarded(|| derive_bytes(&item));
                let expect = Sha256::digest(s.as_bytes())[..8].to_vec();
                let mut err = None;
                // the item kind and the entry point must not matter: an enum, and the `Parse` / `ToTokens` route
                let item_enum = format!("#[discriminator_hash_input({lit})]\nenum E {{ A, B }}");
                let ct_enum = guarded(|| derive_bytes(&item_enum));
                let ct_parse = guarded(|| derive_bytes_via_parse(if t[1].len() % 4 == 0 { &item } else { &item_enum }));
                if ct_enum != ct || ct_parse != ct { err = Some("the derive output depends on the item kind or the entry point".to_string()); }
                // without the attribute the derive must fail (not invent a discriminator)
                if guarded(|| derive_bytes("struct S;")).map_or(true, |r| r.is_ok()) || guarded(|| derive_bytes_via_parse("enum E { A }")).map_or(true, |r| r.is_ok()) || guarded(|| derive_bytes_via_parse("fn f() {}")).map_or(true, |r| r.is_ok()) {
                    err = Some("the derive accepted an item without a hash-input attribute / an unsupported item".to_string());
                }
                let rt_s = match &rt { Some(d) => hex(d.as_slice()), None => { err = Some("run-time path panicked".to_string()); "panic".into() } };
                let ct_s = match &ct {
                    Some(Ok(b)) => hex(b),
                    Some(Err(e)) => { err = Some(format!("derive failed: {e}")); "err".into() }
                    None => { err = Some("derive panicked".into()); "panic".into() }
                };
                // generator sanity: the literal must denote s (else the case itself is wrong)
                match syn::parse_str::<syn::LitStr>(&lit) {
                    Ok(l) if l.value() == s => {}
                    _ => err = Some("GENERATOR: literal does not denote the string".into()),
                }
                // the run-time constructor on a buffer that is reused: same address and length, different text. The string is
                // all the function may depend on, not where it lives or what was hashed there before.
                {
                    let mut scratch = String::with_capacity(s.len() + 8);
                    scratch.push_str(&s);
                    let a = guarded(|| ArrayDiscriminator::new_with_hash_input(&scratch));
                    let rotated: String = { let mut cs: Vec<char> = s.chars().collect(); cs.rotate_left(1.min(s.chars().count())); cs.into_iter().collect() };
                    scratch.clear();
                    scratch.push_str(&rotated);
                    let b2 = guarded(|| ArrayDiscriminator::new_with_hash_input(&scratch));
                    let again = guarded(|| ArrayDiscriminator::new_with_hash_input(&s));
                    let want_rot = Sha256::digest(rotated.as_bytes())[..8].to_vec();
                    if a.map(|d| d.as_slice().to_vec()) != Some(expect.clone()) || again.map(|d| d.as_slice().to_vec()) != Some(expect.clone()) {
                        err = Some("run-time discriminator of the same string differs between calls".into());
                    }
                    if b2.map(|d| d.as_slice().to_vec()) != Some(want_rot) {
                        err = Some(format!("run-time discriminator of a string written over an earlier one in the same buffer (`{}` after `{}`) is not its SHA-256[..8]", rotated.escape_debug(), s.escape_debug()));
                    }
                }
                if err.is_none() {
                    if rt_s != hex(&expect) { err = Some(format!("run-time discriminator != SHA-256[..8] = {}", hex(&expect))); }
                    if ct_s != hex(&expect) { err = Some(format!("compile-time discriminator != SHA-256[..8] = {}", hex(&expect))); }
                }
                let nontriv = s.chars().any(|c| !c.is_ascii() ) || lit.contains('\\') || s.starts_with(char::is_whitespace) || s.ends_with(char::is_whitespace);
                if nontriv { out.stats.nontrivial_case(line); out.stats.sample(line); }
                out.stats.bump(if lit.starts_with('r') { "hash:raw" } else if lit.contains('\\') { "hash:cooked-esc" } else { "hash:plain" });
                (format!("rt={rt_s} ct={ct_s}"), err)
            }
            "conv" => match t[1] {
                "u64" => {
                    let n: u64 = t[2].parse().unwrap();
                    let d = ArrayDiscriminator::from(n);
                    let back: u64 = d.into();
                    let arr: [u8; 8] = d.into();
                    let mut err = None;
                    if arr != n.to_le_bytes() { err = Some("From<u64> is not little-endian".to_string()); }
                    if back != n { err = Some("u64 round trip".into()); }
                    if n > 1 { out.stats.nontrivial_case(line); out.stats.sample(line); }
                    out.stats.bump("conv:u64");
                    (format!("bytes={} back={}", hex(d.as_slice()), back), err)
                }
                "slice" => {
                    let b = unhex(t[2]);
                    let r = ArrayDiscriminator::try_from(&b[..]);
                    let mut err = None;
                    let mut borsh_note = "";
                    if r.is_ok() != (b.len() == 8) { err = Some("a slice converts iff it is exactly 8 bytes: violated".to_string()); }
                    if let Ok(d) = &r {
                        let a: [u8; 8] = (*d).into();
                        let r2: &[u8] = d.as_ref();
                        if d.as_slice() != &b[..] || a[..] != b[..] || r2 != &b[..] || ArrayDiscriminator::from(a) != *d { err = Some("lossy conversion".into()); }
                        // const constructor, array view and Borsh: all the identity on the 8 bytes
                        let r3: &[u8; 8] = d.as_ref();
                        if ArrayDiscriminator::new(a) != *d || r3 != &a { err = Some("new / AsRef<[u8; 8]> are not the identity".into()); }
                        // Borsh is not mentioned by the property: exercised for coverage, a difference is a fidelity note
                        let bo = borsh::to_vec(d).unwrap();
                        if bo != b || borsh::from_slice::<ArrayDiscriminator>(&bo).ok() != Some(*d) { borsh_note = " | note: borsh encoding is not the 8 bytes"; }
                    }
                    if !b.is_empty() { out.stats.nontrivial_case(line); }
                    out.stats.bump(if r.is_ok() { "conv:slice-ok" } else { "conv:slice-err" });
                    (match r { Ok(d) => format!("ok {}{borsh_note}", hex(d.as_slice())), Err(_) => "err".into() }, err)
                }
                _ => panic!("conv kind"),
            },
            other => panic!("unknown op {other}"),
        };
        out.push(impl_line, err.map_or(Ok(()), Err));
    }
    out
}

pub fn rand_char(rng: &mut Rng) -> char {
    loop {
        let cp = match rng.below(12) {
            0..=4 => rng.range(0x20, 0x7e) as u32,
            5 => *rng.pick(&[0x09u32, 0x0a, 0x0d, 0x20, 0x00, 0x22, 0x5c, 0x27, 0x7f, 0x7b, 0x7d, 0x23]),
            6 => rng.range(0x80, 0x2ff) as u32,
            7 => rng.range(0x300, 0x36f) as u32,      // combining marks
            8 => rng.range(0x370, 0xffff) as u32,
            9 => rng.range(0x10000, 0x10ffff) as u32,
            10 => *rng.pick(&[0xa0u32, 0x2028, 0x2029, 0xfeff, 0x200b, 0xd7ff, 0xe000, 0xfffd, 0x10ffff]),
            _ => rng.range(0, 0x1f) as u32,
        };
        if let Some(c) = char::from_u32(cp) { return c; }
    }
}

pub fn rand_string(rng: &mut Rng, max: usize) -> String {
    let n = match rng.below(10) { 0 => 0, 1 => 1, 2..=7 => rng.range(1, 24) as usize, _ => rng.range(0, max as u64) as usize };
    let mut s: String = (0..n).map(|_| rand_char(rng)).collect();
    if rng.chance(1, 4) { s.insert(0, *rng.pick(&[' ', '\t', '\n'])); }
    if rng.chance(1, 4) { s.push(*rng.pick(&[' ', '\t', '\n'])); }
    s
}

fn u_escape(c: char, rng: &mut Rng) -> String {
    let mut digits = format!("{:x}", c as u32);
    if rng.chance(1, 3) { digits = digits.to_uppercase(); }
    while digits.len() < 6 && rng.chance(1, 3) { digits.insert(0, '0'); }
    if rng.chance(1, 4) && digits.len() > 1 { let i = rng.range(1, digits.len() as u64) as usize; digits.insert(i, '_'); }
    format!("\\u{{{digits}}}")
}

/// Render `s` as the source text of a Rust string literal with random (valid) rendering choices.
pub fn render_literal(s: &str, rng: &mut Rng) -> String {
    let can_raw = !s.contains('\r');
    if can_raw && rng.chance(1, 4) {
        // raw string: need more #'s than any run of #'s following a quote
        let mut need = 0usize;
        let b: Vec<char> = s.chars().collect();
        for i in 0..b.len() {
            if b[i] == '"' {
                let mut k = 0;
                while i + 1 + k < b.len() && b[i + 1 + k] == '#' { k += 1; }
                need = need.max(k + 1);
            }
        }
        let n = need + rng.below(2) as usize;
        let p = "#".repeat(n);
        return format!("r{p}\"{s}\"{p}");
    }
    let mut o = String::from("\"");
    let chars: Vec<char> = s.chars().collect();
    for (i, &c) in chars.iter().enumerate() {
        let r = rng.below(10);
        match c {
            '"' => o.push_str(if r < 7 { "\\\"" } else { "\\x22" }),
            '\\' => o.push_str(if r < 7 { "\\\\" } else { "\\u{5c}" }),
            '\r' => o.push_str(if r < 5 { "\\r" } else { "\\x0d" }),     // bare CR is not allowed
            '\n' if r < 5 => o.push_str("\\n"),
            '\t' if r < 5 => o.push_str("\\t"),
            '\0' if r < 5 => o.push_str("\\0"),
            '\'' if r < 3 => o.push_str("\\'"),
            c if (c as u32) < 0x80 && r == 9 => o.push_str(&format!("\\x{:02x}", c as u32)),
            c if r == 8 => o.push_str(&u_escape(c, rng)),
            c => o.push(c),
        }
        // line continuation: only where the next char is not whitespace (it would be eaten)
        if rng.chance(1, 25) && i + 1 < chars.len() && !matches!(chars[i + 1], ' ' | '\t' | '\n' | '\r') {
            o.push_str(if rng.chance(1, 2) { "\\\n    " } else { "\\\r\n\t " });
        }
    }
    o.push('"');
    o
}

pub fn generate(tier: &str, rng: &mut Rng) -> Vec<String> {
    let thorough = tier == "thorough";
    let mut v = Vec::new();
    for s in ["", "a", "my_first_instruction", "global:my_second_instruction", " lead", "trail ", "\"q\"", "back\\slash", "é", "日本語", "😀", "a\u{301}", "\r\n", "{}", "#\"#"] {
        v.push(format!("hash {} {}", hex(s.as_bytes()), hex(render_literal(s, rng).as_bytes())));
        v.push(format!("hash {} {}", hex(s.as_bytes()), hex(format!("{:?}", s).replace("\\u{301}", "\u{301}").as_bytes())));
    }
    // lengths around the SHA-256 block / padding boundaries (55, 56, 64, 119, 120, …)
    for n in [54usize, 55, 56, 57, 62, 63, 64, 65, 118, 119, 120, 121, 127, 128, 129, 183, 184, 247, 248, 256] {
        let s: String = (0..n).map(|i| (b'a' + (i % 26) as u8) as char).collect();
        v.push(format!("hash {} {}", hex(s.as_bytes()), hex(format!("{:?}", s).as_bytes())));
    }
    for _ in 0..(if thorough { 200_000 } else { 2_500 }) {
        let max = if rng.chance(1, 50) { 4096 } else { 200 };
        let s = rand_string(rng, max);
        let lit = render_literal(&s, rng);
        v.push(format!("hash {} {}", hex(s.as_bytes()), hex(lit.as_bytes())));
    }
    for n in [0u64, 1, 255, 256, 0x0102030405060708, u64::MAX, u64::MAX - 1, 1 << 63] { v.push(format!("conv u64 {n}")); }
    for _ in 0..(if thorough { 20_000 } else { 500 }) { v.push(format!("conv u64 {}", rng.next() >> rng.below(64))); }
    for len in 0..=32usize {
        for _ in 0..(if len == 8 { 20 } else { 2 }) { v.push(format!("conv slice {}", hex(&rng.bytes(len)))); }
    }
    v
}
