//! C19 (library part) — TlvError, ListViewError, AccountResolutionError through their public
//! conversions, for codes around the enum's range and random codes.
use crate::util::*;
use solana_program_error::{ProgramError, ToStr};
use spl_list_view::ListViewError;
use spl_tlv_account_resolution::error::AccountResolutionError;
use spl_type_length_value::error::TlvError;

macro_rules! lib_case {
    ($E:ty, $code:expr) => {{
        let code: u32 = $code;
        let a = <$E>::try_from(code).ok();
        let b: Option<$E> = num_from_u32::<$E>(code);
        match a {
            Some(v) => {
                let disp = format!("{}", v);
                let ts = v.to_str().to_string();
                let name = format!("{:?}", v);
                let pe = ProgramError::from(v.clone());
                let mut err = None;
                if pe != ProgramError::Custom(code) { err = Some(format!("into ProgramError gives {:?}, expected Custom({code})", pe)); }
                if v.clone() as u32 != code { err = Some("looked-up variant has a different discriminant".to_string()); }
                if disp != ts { err = Some(format!("to_str `{ts}` differs from Display `{disp}`")); }
                if b.as_ref() != Some(&v) { err = Some("FromPrimitive disagrees with TryFrom<u32>".into()); }
                (format!("some {} code={} msg={} tostr={}", name, v as u32, hex(disp.as_bytes()), hex(ts.as_bytes())), err)
            }
            None => ("none".to_string(), if b.is_some() { Some("FromPrimitive finds a variant TryFrom<u32> does not".to_string()) } else { None }),
        }
    }};
}

fn num_from_u32<T: num_from::FromU32>(c: u32) -> Option<T> { T::from_u32_(c) }
mod num_from {
    pub trait FromU32: Sized { fn from_u32_(c: u32) -> Option<Self>; }
    // num_traits::FromPrimitive is derived on the three enums; reach it through the re-export
    impl FromU32 for spl_type_length_value::error::TlvError { fn from_u32_(c: u32) -> Option<Self> { spl_program_error::num_traits::FromPrimitive::from_u32(c) } }
    impl FromU32 for spl_list_view::ListViewError { fn from_u32_(c: u32) -> Option<Self> { spl_program_error::num_traits::FromPrimitive::from_u32(c) } }
    impl FromU32 for spl_tlv_account_resolution::error::AccountResolutionError { fn from_u32_(c: u32) -> Option<Self> { spl_program_error::num_traits::FromPrimitive::from_u32(c) } }
}

pub fn run(cases: &[String]) -> RunOut {
    let mut out = RunOut::default();
    let mut seen: std::collections::BTreeMap<String, Vec<(u32, String)>> = Default::default();
    for line in cases {
        let t: Vec<&str> = line.split_whitespace().collect();
        assert_eq!(t[0], "liberr");
        let code: u32 = t[2].parse().unwrap();
        let (s, err) = match t[1] {
            "TlvError" => lib_case!(TlvError, code),
            "ListViewError" => lib_case!(ListViewError, code),
            "AccountResolutionError" => lib_case!(AccountResolutionError, code),
            _ => panic!("enum"),
        };
        if s != "none" {
            out.stats.nontrivial_case(line);
            out.stats.sample(line);
            seen.entry(t[1].to_string()).or_default().push((code, s.clone()));
        }
        out.stats.bump(&format!("{}:{}", t[1], if s == "none" { "none" } else { "some" }));
        out.push(s, err.map_or(Ok(()), Err));
    }
    // cross-variant oracle: found codes of one enum are contiguous and distinct
    for (en, v) in seen.iter() {
        let mut codes: Vec<u32> = v.iter().map(|x| x.0).collect();
        codes.sort(); codes.dedup();
        if let (Some(lo), Some(hi)) = (codes.first(), codes.last()) {
            if (hi - lo) as usize + 1 != codes.len() {
                out.stats.oracle_fail += 1;
                if let Some(l) = out.oracle_lines.last_mut() { *l = format!("FAIL codes of {en} are not contiguous: {:?}", codes); }
            }
        }
    }
    out
}

pub fn generate(tier: &str, rng: &mut Rng) -> Vec<String> {
    let mut v = Vec::new();
    for (en, start, n) in [("TlvError", 1_202_666_432u32, 2u32), ("ListViewError", 0, 3), ("AccountResolutionError", 2_724_315_840, 20)] {
        let lo = start.saturating_sub(3);
        for c in lo..=start + n + 3 { v.push(format!("liberr {en} {c}")); }
        for c in [0u32, 1, 2, 3, 4, u32::MAX, u32::MAX - 1] { v.push(format!("liberr {en} {c}")); }
        for _ in 0..(if tier == "thorough" { 200_000 } else { 500 }) {
            let c = if rng.chance(1, 2) { start.wrapping_add(rng.below(64) as u32).wrapping_sub(16) } else { rng.next() as u32 };
            v.push(format!("liberr {en} {c}"));
        }
    }
    v
}
