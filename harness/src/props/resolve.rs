//! C05–C08, C12 — extra-account-meta resolution: `resolve`, constructors, the off-chain and CPI
//! helpers, `check_account_infos`, and `ExtraAccountMetaList::{init, update, size_of}`.
use crate::props::seeds::{fmt_seeds, parse_kd, parse_seeds, rand_seed};
use crate::props::tlv::{Tag, PALETTE};
use crate::util::*;
use solana_account_info::AccountInfo;
use solana_instruction::{AccountMeta, Instruction};
use solana_program_error::ProgramError;
use solana_pubkey::Pubkey;
use spl_tlv_account_resolution::{account::ExtraAccountMeta, pubkey_data::PubkeyData, seeds::Seed, state::ExtraAccountMetaList};
use spl_type_length_value::state::{TlvState, TlvStateBorrowed};

macro_rules! with_tag {
    ($idx:expr, $f:ident, $($arg:expr),*) => {
        match $idx {
            0 => $f::<{ PALETTE[0] }>($($arg),*), 1 => $f::<{ PALETTE[1] }>($($arg),*), 2 => $f::<{ PALETTE[2] }>($($arg),*), 3 => $f::<{ PALETTE[3] }>($($arg),*),
            4 => $f::<{ PALETTE[4] }>($($arg),*), 5 => $f::<{ PALETTE[5] }>($($arg),*), 6 => $f::<{ PALETTE[6] }>($($arg),*), 7 => $f::<{ PALETTE[7] }>($($arg),*),
            _ => panic!("tag index"),
        }
    };
}

pub struct Owned { pub key: Pubkey, pub owner: Pubkey, pub lamports: u64, pub data: Vec<u8>, pub s: bool, pub w: bool }

pub fn key_of(h: &str) -> Pubkey { Pubkey::new_from_array(unhex(h).try_into().expect("32-byte key")) }
fn b(x: &str) -> bool { x == "1" }
pub fn parse_metas(t: &str) -> Vec<AccountMeta> {
    if t == "-" { return vec![]; }
    t.split(',').map(|m| { let p: Vec<&str> = m.split(':').collect(); AccountMeta { pubkey: key_of(p[0]), is_signer: b(p[1]), is_writable: b(p[2]) } }).collect()
}
pub fn fmt_metas(v: &[AccountMeta]) -> String {
    if v.is_empty() { return "-".into(); }
    v.iter().map(|m| format!("{}:{}:{}", hex(m.pubkey.as_ref()), m.is_signer as u8, m.is_writable as u8)).collect::<Vec<_>>().join(",")
}
pub fn parse_owned(t: &str) -> Vec<Owned> {
    if t == "-" { return vec![]; }
    t.split(',').map(|m| { let p: Vec<&str> = m.split(':').collect(); Owned { key: key_of(p[0]), owner: Pubkey::default(), lamports: 0, data: unhex(p[3]), s: b(p[1]), w: b(p[2]) } }).collect()
}
pub fn infos_of<'a>(v: &'a mut [Owned]) -> Vec<AccountInfo<'a>> {
    v.iter_mut().map(|o| AccountInfo::new(&o.key, o.s, o.w, &mut o.lamports, &mut o.data[..], &o.owner, false)).collect()
}
fn parse_accts(t: &str) -> Vec<(Pubkey, Option<Vec<u8>>)> {
    if t == "-" { return vec![]; }
    t.split(',').map(|m| { let p: Vec<&str> = m.split(':').collect(); (key_of(p[0]), if p[1] == "~" { None } else { Some(unhex(p[1])) }) }).collect()
}
fn meta_of(b: &[u8]) -> ExtraAccountMeta { *bytemuck::from_bytes::<ExtraAccountMeta>(b) }
fn res_meta(r: &Option<Result<AccountMeta, ProgramError>>) -> String {
    match r { None => "panic".into(), Some(Ok(m)) => format!("ok {}:{}:{}", hex(m.pubkey.as_ref()), m.is_signer as u8, m.is_writable as u8), Some(Err(e)) => format!("err | {}", err_code(e)) }
}

/// independent statement of C05: what a config must resolve to
fn spec_resolve(m: &[u8], ix: &[u8], prog: &Pubkey, accts: &[(Pubkey, Option<Vec<u8>>)]) -> Option<(Pubkey, bool, bool)> {
    let (disc, cfg, s, w) = (m[0], &m[1..33], m[33] != 0, m[34] != 0);
    let key = match disc {
        0 => Pubkey::new_from_array(cfg.try_into().unwrap()),
        1 | 128..=255 => {
            let program = if disc == 1 { *prog } else { accts.get((disc - 128) as usize)?.0 };
            let mut seeds: Vec<Vec<u8>> = vec![];
            let mut i = 0usize;
            while i < 32 {
                match cfg[i] {
                    0 => break,
                    1 => { let n = *cfg.get(i + 1)? as usize; seeds.push(cfg.get(i + 2..i + 2 + n)?.to_vec()); i += 2 + n; }
                    2 => { let (a, n) = (*cfg.get(i + 1)? as usize, *cfg.get(i + 2)? as usize); seeds.push(ix.get(a..a + n)?.to_vec()); i += 3; }
                    3 => { let a = *cfg.get(i + 1)? as usize; seeds.push(accts.get(a)?.0.as_ref().to_vec()); i += 2; }
                    4 => { let (a, d, n) = (*cfg.get(i + 1)? as usize, *cfg.get(i + 2)? as usize, *cfg.get(i + 3)? as usize); seeds.push(accts.get(a)?.1.as_ref()?.get(d..d + n)?.to_vec()); i += 4; }
                    _ => return None,
                }
            }
            let refs: Vec<&[u8]> = seeds.iter().map(|x| &x[..]).collect();
            Pubkey::try_find_program_address(&refs, &program)?.0
        }
        2 => match cfg[0] {
            1 => { let a = cfg[1] as usize; Pubkey::new_from_array(ix.get(a..a + 32)?.try_into().unwrap()) }
            2 => { let (a, d) = (cfg[1] as usize, cfg[2] as usize); Pubkey::new_from_array(accts.get(a)?.1.as_ref()?.get(d..d + 32)?.try_into().unwrap()) }
            _ => return None,
        },
        _ => return None,
    };
    Some((key, s, w))
}

fn do_addix<const D: u64>(ix: &mut Instruction, fetch: &std::collections::HashMap<Pubkey, Option<Option<Vec<u8>>>>, stored: &[u8]) -> Result<(), ProgramError> {
    futures::executor::block_on(ExtraAccountMetaList::add_to_instruction::<Tag<D>, _, _>(ix, |k: Pubkey| {
        let r = fetch.get(&k).cloned().unwrap_or(Some(None));
        async move { match r { Some(d) => Ok(d), None => Err::<Option<Vec<u8>>, spl_tlv_account_resolution::state::AccountFetchError>("fetch failed".into()) } }
    }, stored))
}
fn do_addcpi<'a, const D: u64>(ix: &mut Instruction, infos: &mut Vec<AccountInfo<'a>>, stored: &[u8], pool: &[AccountInfo<'a>]) -> Result<(), ProgramError> {
    ExtraAccountMetaList::add_to_cpi_instruction::<Tag<D>>(ix, infos, stored, pool)
}
fn do_check<const D: u64>(infos: &[AccountInfo], ixdata: &[u8], prog: &Pubkey, stored: &[u8]) -> Result<(), ProgramError> {
    ExtraAccountMetaList::check_account_infos::<Tag<D>>(infos, ixdata, prog, stored)
}
fn do_init<const D: u64>(buf: &mut [u8], metas: &[ExtraAccountMeta]) -> Result<(), ProgramError> { ExtraAccountMetaList::init::<Tag<D>>(buf, metas) }
fn do_update<const D: u64>(buf: &mut [u8], metas: &[ExtraAccountMeta]) -> Result<(), ProgramError> { ExtraAccountMetaList::update::<Tag<D>>(buf, metas) }
fn do_read<const D: u64>(buf: &[u8]) -> Result<Vec<ExtraAccountMeta>, ProgramError> {
    let st = TlvStateBorrowed::unpack(buf)?;
    let l = ExtraAccountMetaList::unpack_with_tlv_state::<Tag<D>>(&st)?;
    Ok(l.iter().copied().collect())
}

fn parse_cfgs(t: &str) -> Vec<ExtraAccountMeta> { if t == "-" { vec![] } else { t.split(',').map(|h| meta_of(&unhex(h))).collect() } }
fn fmt_cfgs(v: &[ExtraAccountMeta]) -> String { if v.is_empty() { "-".into() } else { v.iter().map(|m| hex(bytemuck::bytes_of(m))).collect::<Vec<_>>().join(",") } }

fn unit_res(r: &Option<Result<(), ProgramError>>) -> String { match r { None => "panic".into(), Some(Ok(())) => "ok".into(), Some(Err(e)) => format!("err | {}", err_code(e)) } }

pub fn run(prop: &str, cases: &[String]) -> RunOut {
    let mut out = RunOut::default();
    let mut hist: Option<(Vec<u8>, std::collections::BTreeMap<usize, Vec<ExtraAccountMeta>>)> = None;
    let mut htext = String::new();
    let mut hstats = (0usize, false);
    for line in cases {
        let t: Vec<&str> = line.split_whitespace().collect();
        let mut err: Option<String> = None;
        let impl_line = match t[0] {
            "resolve" => {
                // resolve <meta35> <ixdata> <prog> <accts>
                let mb = unhex(t[1]); let m = meta_of(&mb); let ix = unhex(t[2]); let prog = key_of(t[3]); let accts = parse_accts(t[4]);
                let r = guarded(|| m.resolve(&ix, &prog, |i| accts.get(i).map(|(k, d)| (k, d.as_ref().map(|x| x.as_slice())))));
                let exp = spec_resolve(&mb, &ix, &prog, &accts);
                match (&r, &exp) {
                    (None, _) => err = Some("resolve panicked".into()),
                    (Some(Ok(am)), Some((k, s, w))) => if am.pubkey != *k || am.is_signer != *s || am.is_writable != *w { err = Some(format!("resolved to a different account than prescribed ({}:{}:{})", hex(k.as_ref()), *s as u8, *w as u8)); },
                    (Some(Ok(_)), None) => err = Some("resolution succeeded although a referenced index/range does not exist, the seeds cannot form a PDA or the kind is unknown".into()),
                    (Some(Err(_)), Some(_)) => err = Some("resolution failed although the config is resolvable".into()),
                    (Some(Err(_)), None) => {}
                }
                // the plain conversion `AccountMeta::try_from(&config)` is for fixed-address configs only; what it does with other kinds
                // is not resolution and not stated by the property: a note
                let conv_note = match guarded(|| AccountMeta::try_from(&meta_of(&mb)).is_ok()) { Some(okc) if okc != (mb[0] == 0) => " | note: AccountMeta::try_from(&ExtraAccountMeta) succeeds for a config that is not a fixed address, or fails for one that is", _ => "" };
                if matches!(mb[0], 0 | 1 | 2 | 128..=255) && (mb[0] == 0 || mb[1] != 0) { out.stats.nontrivial_case(line); out.stats.sample(line); }
                out.stats.bump(&format!("resolve:kind{}:{}", match mb[0] { 0 => "0", 1 => "1", 2 => "2", 128..=255 => "ext", _ => "bad" }, if matches!(r, Some(Ok(_))) { "ok" } else { "err" }));
                format!("{}{}", res_meta(&r), conv_note)
            }
            "ctor" => {
                let (s, w) = (b(t[t.len() - 2]), b(t[t.len() - 1]));
                // sibling conversions (by value / by reference) must store the same information
                let sibling: std::cell::RefCell<Option<(ExtraAccountMeta, &'static str)>> = std::cell::RefCell::new(None);
                let r: Option<Result<ExtraAccountMeta, ProgramError>> = guarded(|| match t[1] {
                    "key" => ExtraAccountMeta::new_with_pubkey(&key_of(t[2]), s, w),
                    "meta" => {
                        let am = AccountMeta { pubkey: key_of(t[2]), is_signer: s, is_writable: w };
                        let by_ref = ExtraAccountMeta::from(&am);
                        *sibling.borrow_mut() = Some((ExtraAccountMeta::from(am.clone()), "From<AccountMeta> by value"));
                        // and back (exercised for coverage; the property does not speak about this direction)
                        let _ = AccountMeta::try_from(&by_ref);
                        Ok(by_ref)
                    }
                    "info" => {
                        let mut o = vec![Owned { key: key_of(t[2]), owner: Pubkey::default(), lamports: 0, data: vec![], s, w }];
                        // the other fields of the account (executable, lamports, owner, data) are not part of a config: they vary
                        // with the key and must not influence what is stored
                        let kb = o[0].key.to_bytes();
                        o[0].lamports = kb[1] as u64; o[0].data = vec![kb[2]; (kb[3] % 5) as usize]; o[0].owner = Pubkey::new_from_array([kb[4]; 32]);
                        let executable = kb[0] % 2 == 1;
                        let i: Vec<AccountInfo> = o.iter_mut().map(|o| AccountInfo::new(&o.key, o.s, o.w, &mut o.lamports, &mut o.data[..], &o.owner, executable)).collect();
                        let by_ref = ExtraAccountMeta::from(&i[0]);
                        *sibling.borrow_mut() = Some((ExtraAccountMeta::from(i[0].clone()), "From<AccountInfo> by value"));
                        Ok(by_ref)
                    }
                    "seeds" => ExtraAccountMeta::new_with_seeds(&parse_seeds(t[2]), s, w),
                    "ext" => ExtraAccountMeta::new_external_pda_with_seeds(t[2].parse().unwrap(), &parse_seeds(t[3]), s, w),
                    "kd" => ExtraAccountMeta::new_with_pubkey_data(&parse_kd(t[2]), s, w),
                    _ => panic!("ctor kind"),
                });
                match &r {
                    None => err = Some("constructor panicked".into()),
                    Some(Ok(m)) => {
                        // a config built from a seed list / meta stores exactly that information
                        if let Some((sb, what)) = sibling.borrow().as_ref() {
                            if bool::from(sb.is_signer) != s || bool::from(sb.is_writable) != w || sb.discriminator != 0 || sb.address_config != key_of(t[2]).to_bytes() {
                                err = Some(format!("{what} does not store the key and flags it was given"));
                            }
                        }
                        if bool::from(m.is_signer) != s || bool::from(m.is_writable) != w || m.is_signer.0 > 1 || m.is_writable.0 > 1 { err = Some("constructor did not store the flags".into()); }
                        match t[1] {
                            "key" | "meta" | "info" => if m.discriminator != 0 || m.address_config != key_of(t[2]).to_bytes() { err = Some("fixed-address config does not store the key".into()); },
                            "seeds" => {
                                if m.discriminator != 1 || Seed::unpack_address_config(&m.address_config).ok() != Some(parse_seeds(t[2])) { err = Some("PDA config does not store the seed list".into()); }
                                let _ = AccountMeta::try_from(m);   // coverage only
                            }
                            "ext" => { let i: u8 = t[2].parse().unwrap(); if i >= 128 || m.discriminator != i + 128 || Seed::unpack_address_config(&m.address_config).ok() != Some(parse_seeds(t[3])) { err = Some("external PDA config does not store index + seeds".into()); } }
                            "kd" => if m.discriminator != 2 || PubkeyData::unpack(&m.address_config).ok() != Some(parse_kd(t[2])) { err = Some("key-data config does not store the key-data".into()); },
                            _ => {}
                        }
                    }
                    Some(Err(_)) => if t[1] == "ext" && t[2].parse::<u8>().unwrap() >= 128 {} else if matches!(t[1], "key" | "meta" | "info") { err = Some("fixed-address constructor failed".into()); },
                }
                out.stats.nontrivial_case(line);
                out.stats.bump(&format!("ctor:{}", t[1]));
                match &r { None => "panic".into(), Some(Ok(m)) => format!("ok {}", hex(bytemuck::bytes_of(m))), Some(Err(e)) => format!("err | {}", err_code(e)) }
            }
            "addix" | "addcpi" | "both" => {
                // addix  <tag> <stored> <prog> <ixdata> <metas> <fetch: key:data|~|!, …>
                // addcpi <tag> <stored> <prog> <ixdata> <metas> <initial infos> <pool infos>
                // both   <tag> <stored> <prog> <ixdata> <metas> <initial infos> <pool infos>   (fetcher = the infos' data)
                let tag: usize = t[1].parse().unwrap(); let stored = unhex(t[2]); let prog = key_of(t[3]); let ixdata = unhex(t[4]); let metas = parse_metas(t[5]);
                let mut ix_off = Instruction { program_id: prog, accounts: metas.clone(), data: ixdata.clone() };
                let mut ix_cpi = ix_off.clone();
                let mut fetch = std::collections::HashMap::new();
                let mut off_s = String::new(); let mut cpi_s = String::new();
                let mut init_owned = if t[0] != "addix" { parse_owned(t[6]) } else { vec![] };
                let mut pool_owned = if t[0] != "addix" { parse_owned(t[7]) } else { vec![] };
                if t[0] == "addix" {
                    if t[6] != "-" { for e in t[6].split(',') { let p: Vec<&str> = e.split(':').collect(); fetch.insert(key_of(p[0]), match p[1] { "~" => Some(None), "!" => None, h => Some(Some(unhex(h))) }); } }
                } else {
                    for o in init_owned.iter().chain(pool_owned.iter()) { fetch.entry(o.key).or_insert(Some(Some(o.data.clone()))); }
                }
                let cfgs: Option<Vec<ExtraAccountMeta>> = guarded(|| with_tag!(tag, do_read, &stored).ok()).flatten();
                if t[0] != "addcpi" {
                    let r = guarded(|| with_tag!(tag, do_addix, &mut ix_off, &fetch, &stored));
                    off_s = match &r { None => "panic".into(), Some(Ok(())) => format!("ok {}", fmt_metas(&ix_off.accounts)), Some(Err(e)) => format!("err left={} | {}", fmt_metas(&ix_off.accounts), err_code(e)) };
                    if r.is_none() { err = Some("add_to_instruction panicked".into()); }
                }
                let mut cpi_keys = String::new();
                if t[0] != "addix" {
                    let mut infos = infos_of(&mut init_owned);
                    let pool = infos_of(&mut pool_owned);
                    let n0 = infos.len();
                    let r = guarded(|| with_tag!(tag, do_addcpi, &mut ix_cpi, &mut infos, &stored, &pool));
                    cpi_keys = if infos.is_empty() { "-".into() } else { infos.iter().map(|i| hex(i.key.as_ref())).collect::<Vec<_>>().join(",") };
                    cpi_s = match &r { None => "panic".into(), Some(Ok(())) => format!("ok {} ; {}", fmt_metas(&ix_cpi.accounts), cpi_keys), Some(Err(e)) => format!("err left={} ; {} | {}", fmt_metas(&ix_cpi.accounts), cpi_keys, err_code(e)) };
                    if r.is_none() { err = Some("add_to_cpi_instruction panicked".into()); }
                    if let Some(_) = r {
                        // lockstep: one appended info per appended meta, same key — also for what a failed call has appended
                        // before it returned its error (a caller that handles the error still holds both vectors)
                        let app_m = &ix_cpi.accounts[metas.len().min(ix_cpi.accounts.len())..];
                        let app_i = &infos[n0.min(infos.len())..];
                        if app_m.len() != app_i.len() || app_m.iter().zip(app_i).any(|(m, i)| m.pubkey != *i.key) {
                            err = Some(format!("CPI helper{}: appended infos are not in lockstep with the appended metas", if matches!(r, Some(Ok(()))) { "" } else { " (after returning an error)" }));
                        }
                    }
                }
                // C06 / C08 clauses on whichever result succeeded
                for (res, ixr) in [(&off_s, &ix_off), (&cpi_s, &ix_cpi)] {
                    // "every account appended to an instruction by the helpers": also those a failing call appended before it
                    // returned its error; the privilege clauses are checked on them against the configs they come from
                    let failed_call = res.starts_with("err");
                    if res.starts_with("ok") || failed_call {
                        if ixr.accounts.len() < metas.len() || ixr.accounts[..metas.len()] != metas[..] { err = Some("pre-existing metas were changed".into()); continue; }
                        if let Some(cf) = &cfgs {
                            let app = &ixr.accounts[metas.len()..];
                            if !failed_call && app.len() != cf.len() { err = Some("not exactly one appended meta per stored config".into()); }
                            if failed_call && app.len() > cf.len() { err = Some("a failed call appended more metas than there are stored configs".into()); }
                            for (j, (m, c)) in app.iter().zip(cf.iter()).enumerate() {
                                let before = &ixr.accounts[..metas.len() + j];
                                let orig = &ixr.accounts[..metas.len()];
                                let cfg_w = c.is_writable.0 != 0;
                                if m.is_signer { err = Some(format!("an appended account is marked signer{}", if failed_call { " (left behind by a call that returned an error)" } else { "" })); }
                                if m.is_writable && !cfg_w { err = Some("an appended account is writable although its config is not".into()); }
                                let present_ro_only = before.iter().any(|x| x.pubkey == m.pubkey) && !before.iter().any(|x| x.pubkey == m.pubkey && x.is_writable);
                                let _ = orig;
                                if present_ro_only && m.is_writable { err = Some("an account present only read-only was appended writable".into()); }
                                let absent = !before.iter().any(|x| x.pubkey == m.pubkey);
                                let writable_somewhere = before.iter().any(|x| x.pubkey == m.pubkey && x.is_writable);
                                if cfg_w && (absent || writable_somewhere) && !m.is_writable { err = Some("a configured-writable account (absent or already writable) was de-escalated".into()); }
                            }
                        }
                    }
                }
                if t[0] == "both" {
                    let (o_ok, c_ok) = (off_s.starts_with("ok"), cpi_s.starts_with("ok"));
                    if o_ok && c_ok && fmt_metas(&ix_off.accounts) != fmt_metas(&ix_cpi.accounts) { err = Some("off-chain and CPI helpers appended different metas".into()); }
                    if c_ok && !o_ok { err = Some("CPI helper succeeded but the off-chain helper failed".into()); }
                    if o_ok && !c_ok {
                        // admissible only when the pool lacks an info for a resolved key
                        let missing = ix_off.accounts[metas.len()..].iter().any(|m| !pool_owned.iter().any(|p| p.key == m.pubkey));
                        if !missing { err = Some("off-chain helper succeeded but the CPI helper failed with a complete pool".into()); }
                    }
                }
                let n_app = cfgs.as_ref().map_or(0, |c| c.len());
                if n_app >= 2 || (n_app >= 1 && off_s.starts_with("ok") && ix_off.accounts[metas.len()..].iter().any(|m| metas.iter().any(|x| x.pubkey == m.pubkey))) { out.stats.nontrivial_case(line); out.stats.sample(line); }
                out.stats.bump(&format!("{}:{}{}", t[0], if off_s.starts_with("ok") { "O" } else { "o" }, if cpi_s.starts_with("ok") { "C" } else { "c" }));
                match t[0] { "addix" => off_s, "addcpi" => cpi_s, _ => {
                    // the error codes (fidelity notes) go behind both observations, so that the CPI half is compared too
                    let (om, on) = off_s.split_once(" | ").unwrap_or((&off_s, ""));
                    let (cm, cn) = cpi_s.split_once(" | ").unwrap_or((&cpi_s, ""));
                    if on.is_empty() && cn.is_empty() { format!("OFF {om} CPI {cm}") } else { format!("OFF {om} CPI {cm} | {on},{cn}") }
                } }
            }
            "checkc" => {
                // checkc <tag> <prog> <ixdata> <infos>: a list of fixed-address configs built FROM the provided account infos themselves
                // (`ExtraAccountMeta::from(&info)`, by reference or by value), stored with `init`, then validated against those very
                // accounts: "exactly the configured flags" are the accounts' own, so validation must accept — whatever else the
                // accounts carry (executable, lamports, owner, data)
                let tag: usize = t[1].parse().unwrap(); let prog = key_of(t[2]); let ixdata = unhex(t[3]);
                let mut owned = parse_owned(t[4]);
                for o in owned.iter_mut() { let kb = o.key.to_bytes(); o.lamports = kb[1] as u64; o.owner = Pubkey::new_from_array([kb[4]; 32]); }
                let exec: Vec<bool> = owned.iter().map(|o| o.key.to_bytes()[0] % 2 == 1).collect();
                let infos: Vec<AccountInfo> = owned.iter_mut().zip(exec.iter()).map(|(o, e)| AccountInfo::new(&o.key, o.s, o.w, &mut o.lamports, &mut o.data[..], &o.owner, *e)).collect();
                let cfgs: Vec<ExtraAccountMeta> = infos.iter().enumerate().map(|(i, inf)| if i % 2 == 0 { ExtraAccountMeta::from(inf) } else { ExtraAccountMeta::from(inf.clone()) }).collect();
                let mut buf = vec![0u8; ExtraAccountMetaList::size_of(cfgs.len()).unwrap()];
                let ini = guarded(|| with_tag!(tag, do_init, &mut buf[..], &cfgs));
                let r = guarded(|| with_tag!(tag, do_check, &infos, &ixdata, &prog, &buf));
                if !matches!(ini, Some(Ok(()))) { err = Some("init of a list built from account infos failed".into()); }
                match &r { None => err = Some("check_account_infos panicked".into()), Some(Err(_)) => err = Some("check_account_infos rejected the very accounts the configs were built from".into()), Some(Ok(())) => {} }
                if !cfgs.is_empty() { out.stats.nontrivial_case(line); }
                out.stats.bump("checkc");
                let c = unit_res(&r);
                format!("init={} check={}", unit_res(&ini).split(" | ").next().unwrap(), c)
            }
            "checkh" => {
                // checkh <tag> <stored> <new cfgs> <prog> <ixdata> <infos>: an `update` (that fails when the new list does not fit
                // the exact-size account, and then must leave the stored list alone) followed by validation against the list
                // that is stored THEN — the old one after a rejected update, the new one after an accepted one
                let tag: usize = t[1].parse().unwrap(); let mut buf = unhex(t[2]); let newc = parse_cfgs(t[3]); let prog = key_of(t[4]); let ixdata = unhex(t[5]);
                let old: Option<Vec<ExtraAccountMeta>> = guarded(|| with_tag!(tag, do_read, &buf).ok()).flatten();
                let up = guarded(|| with_tag!(tag, do_update, &mut buf[..], &newc));
                let mut owned = parse_owned(t[6]);
                let accts: Vec<(Pubkey, Option<Vec<u8>>)> = owned.iter().map(|o| (o.key, Some(o.data.clone()))).collect();
                let provided: Vec<AccountMeta> = owned.iter().map(|o| AccountMeta { pubkey: o.key, is_signer: o.s, is_writable: o.w }).collect();
                let infos = infos_of(&mut owned);
                let r = guarded(|| with_tag!(tag, do_check, &infos, &ixdata, &prog, &buf));
                if r.is_none() || up.is_none() { err = Some("update / check_account_infos panicked".into()); }
                let intended: Option<Vec<ExtraAccountMeta>> = if matches!(up, Some(Ok(()))) { Some(newc.clone()) } else { old };
                let expect_ok = match &intended {
                    None => false,
                    Some(cf) => cf.len() <= provided.len() && cf.iter().enumerate().all(|(i, c)| {
                        match spec_resolve(bytemuck::bytes_of(c), &ixdata, &prog, &accts) {
                            Some((k, s, w)) => { let p = &provided[provided.len() - cf.len() + i]; p.pubkey == k && p.is_signer == s && p.is_writable == w }
                            None => false,
                        }
                    }),
                };
                if let Some(rr) = &r { if rr.is_ok() != expect_ok { err = Some(format!("after {} update, check_account_infos {} although the trailing accounts {} the configs that are stored", if matches!(up, Some(Ok(()))) { "an accepted" } else { "a rejected" }, if rr.is_ok() { "accepted" } else { "rejected" }, if expect_ok { "match" } else { "do not match" })); } }
                if intended.as_ref().map_or(false, |c| !c.is_empty()) { out.stats.nontrivial_case(line); }
                out.stats.bump(&format!("checkh:{}:{}", if matches!(up, Some(Ok(()))) { "up-ok" } else { "up-err" }, match &r { Some(Ok(())) => "ok", Some(Err(_)) => "err", None => "panic" }));
                let (u, c) = (unit_res(&up), unit_res(&r));
                let (um, un) = u.split_once(" | ").unwrap_or((&u, "")); let (cm, cn) = c.split_once(" | ").unwrap_or((&c, ""));
                if un.is_empty() && cn.is_empty() { format!("up={um} check={cm}") } else { format!("up={um} check={cm} | {un},{cn}") }
            }
            "check" => {
                // check <tag> <stored> <prog> <ixdata> <infos>
                let tag: usize = t[1].parse().unwrap(); let stored = unhex(t[2]); let prog = key_of(t[3]); let ixdata = unhex(t[4]);
                let mut owned = parse_owned(t[5]);
                let accts: Vec<(Pubkey, Option<Vec<u8>>)> = owned.iter().map(|o| (o.key, Some(o.data.clone()))).collect();
                let provided: Vec<AccountMeta> = owned.iter().map(|o| AccountMeta { pubkey: o.key, is_signer: o.s, is_writable: o.w }).collect();
                let infos = infos_of(&mut owned);
                let r = guarded(|| with_tag!(tag, do_check, &infos, &ixdata, &prog, &stored));
                if r.is_none() { err = Some("check_account_infos panicked".into()); }
                // oracle: accepted iff the last N provided accounts are exactly the resolved configs
                let cfgs: Option<Vec<ExtraAccountMeta>> = guarded(|| with_tag!(tag, do_read, &stored).ok()).flatten();
                let expect_ok = match &cfgs {
                    None => false,
                    Some(cf) => cf.len() <= provided.len() && cf.iter().enumerate().all(|(i, c)| {
                        match spec_resolve(bytemuck::bytes_of(c), &ixdata, &prog, &accts) {
                            Some((k, s, w)) => { let p = &provided[provided.len() - cf.len() + i]; p.pubkey == k && p.is_signer == s && p.is_writable == w }
                            None => false,
                        }
                    }),
                };
                if let Some(rr) = &r { if rr.is_ok() != expect_ok { err = Some(format!("check_account_infos {} although the trailing accounts {} the resolved configs", if rr.is_ok() { "accepted" } else { "rejected" }, if expect_ok { "match" } else { "do not match" })); } }
                if cfgs.as_ref().map_or(false, |c| !c.is_empty()) { out.stats.nontrivial_case(line); out.stats.sample(line); }
                out.stats.bump(&format!("check:{}", match &r { Some(Ok(())) => "ok", Some(Err(_)) => "err", None => "panic" }));
                unit_res(&r)
            }
            "sizeof" => {
                let n: usize = t[1].parse().unwrap();
                let r = guarded(|| ExtraAccountMetaList::size_of(n));
                match &r { None => "panic".into(), Some(Ok(s)) => format!("ok {s}"), Some(Err(e)) => format!("err | {}", err_code(e)) }
            }
            "B" => { hist = Some((unhex(t[3]), Default::default())); htext = line.clone(); hstats = (0, false); "begin".into() }
            "O" => {
                // O init|update <tag> <cfgs>   |  O read <tag>
                let (buf, shadow) = hist.as_mut().expect("history");
                let tag: usize = t[2].parse().unwrap();
                htext.push_str(" ; "); htext.push_str(line);
                let before = buf.clone();
                let opened_before = TlvStateBorrowed::unpack(&before).is_ok();
                let s = match t[1] {
                    "init" | "update" => {
                        let cfgs = parse_cfgs(t[3]);
                        let r = guarded(|| if t[1] == "init" { with_tag!(tag, do_init, &mut buf[..], &cfgs) } else { with_tag!(tag, do_update, &mut buf[..], &cfgs) });
                        if r.is_none() { err = Some(format!("{} panicked", t[1])); }
                        let ok = matches!(r, Some(Ok(())));
                        if !ok && *buf != before { err = Some(format!("failed {} changed the account bytes", t[1])); }
                        if opened_before && TlvStateBorrowed::unpack(&buf[..]).is_err() { err = Some(format!("after {} a previously readable account no longer opens", t[1])); }
                        if t[1] == "init" && ok && shadow.contains_key(&tag) { err = Some("initialising the same instruction twice succeeded".into()); }
                        if t[1] == "update" && ok && !shadow.contains_key(&tag) { err = Some("updating a missing list succeeded".into()); }
                        if ok { if t[1] == "update" && shadow.get(&tag).map(|x| x.len()) != Some(cfgs.len()) { hstats.1 = true; } shadow.insert(tag, cfgs); }
                        // every list (this one and all others) reads back exactly
                        for (tg, exp) in shadow.iter() {
                            match guarded(|| with_tag!(*tg, do_read, &buf[..])) { Some(Ok(v)) if v == *exp => {}, _ => err = Some(format!("list of instruction {tg} does not read back exactly after {} of instruction {tag}", t[1])) }
                        }
                        hstats.0 = shadow.len().max(hstats.0);
                        format!("{} buf={}", unit_res(&r), hex(&buf[..]))
                    }
                    "read" => match guarded(|| with_tag!(tag, do_read, &buf[..])) { None => "panic".into(), Some(Ok(v)) => format!("ok {}", fmt_cfgs(&v)), Some(Err(e)) => format!("err | {}", err_code(&e)) },
                    _ => panic!("op"),
                };
                out.stats.bump(&format!("op:{}:{}", t[1], s.split(' ').next().unwrap()));
                s
            }
            "E" => { if hstats.0 >= 2 || hstats.1 { out.stats.nontrivial_case(&htext); out.stats.sample(&htext); } hist = None; "end".into() }
            other => panic!("unknown op {other}"),
        };
        out.push(impl_line, err.map_or(Ok(()), Err));
    }
    let _ = prop;
    out
}

// ---------------- generators ----------------
pub struct World { pub keys: Vec<[u8; 32]>, pub prog: [u8; 32] }
impl World {
    pub fn new(rng: &mut Rng) -> Self { World { keys: (0..6).map(|_| rng.key()).collect(), prog: rng.key() } }
    /// mostly one of the six world keys; now and then a fresh one, or an address with a meaning (the all-zero System Program id,
    /// all-ones): a config is 35 arbitrary bytes, and the all-zero one (kind 0, zero key, flags off) is "the System Program, read-only"
    pub fn key(&self, rng: &mut Rng) -> [u8; 32] { match rng.below(24) { 0..=19 => *rng.pick(&self.keys), 20 => [0u8; 32], 21 => [0xffu8; 32], _ => rng.key() } }
}

fn cfg_bytes(disc: u8, cfg: &[u8; 32], s: u8, w: u8) -> Vec<u8> { let mut v = vec![disc]; v.extend(cfg); v.push(s); v.push(w); v }

pub fn rand_cfg(rng: &mut Rng, world: &World, n_accts: usize, ixlen: usize) -> Vec<u8> {
    let flag = |rng: &mut Rng| if rng.chance(1, 12) { rng.byte() } else { rng.below(2) as u8 };
    let (s, w) = (flag(rng), flag(rng));
    let small = |rng: &mut Rng, n: usize| -> u8 { if rng.chance(5, 6) { rng.below(n as u64 + 2) as u8 } else { rng.byte() } };
    match rng.below(12) {
        0..=2 => cfg_bytes(0, &world.key(rng), s, w),
        3..=7 => {
            let n = match rng.below(6) { 0 => 0, 5 => rng.range(5, 16) as usize, _ => rng.range(1, 4) as usize };
            let mut seeds = vec![];
            for _ in 0..n {
                seeds.push(match rng.below(8) {
                    0..=1 => { let k = rng.below(10) as usize; Seed::Literal { bytes: rng.bytes(k) } }
                    2..=3 => { let i = if ixlen > 200 && rng.chance(1, 2) { rng.range(200, 255) as u8 } else { small(rng, ixlen) }; let l = match rng.below(6) { 5 => (255u8 - i).wrapping_add(rng.below(4) as u8), 0 => 32, 1 => 33, 2 => (ixlen as u8).saturating_sub(i), 3 => (ixlen as u8).saturating_sub(i).saturating_add(1), _ => rng.below(9) as u8 }; Seed::InstructionData { index: i, length: l } }
                    4..=5 => Seed::AccountKey { index: small(rng, n_accts) },
                    _ => { let di = if rng.chance(1, 3) { rng.range(220, 255) as u8 } else { rng.below(12) as u8 }; Seed::AccountData { account_index: small(rng, n_accts), data_index: di, length: match rng.below(5) { 0 => 32, 1 => 33, 2 => (255u8 - di).wrapping_add(rng.below(4) as u8), _ => rng.below(10) as u8 } } }
                });
            }
            let disc = if rng.chance(3, 4) { 1 } else { 128 + small(rng, n_accts) % 128 };
            match Seed::pack_into_address_config(&seeds) {
                Ok(c) => cfg_bytes(disc, &c, s, w),
                Err(_) => { let mut c = [0u8; 32]; for x in c.iter_mut() { *x = rng.below(6) as u8; } cfg_bytes(disc, &c, s, w) }
            }
        }
        8..=9 => {
            let kd = if rng.chance(1, 2) { PubkeyData::InstructionData { index: match rng.below(4) { 3 => rng.range(220, 255) as u8, 0 => (ixlen as u8).saturating_sub(32), 1 => (ixlen as u8).saturating_sub(31), _ => small(rng, ixlen) } } }
                else { PubkeyData::AccountData { account_index: small(rng, n_accts), data_index: if rng.chance(1, 3) { rng.range(220, 255) as u8 } else { rng.below(50) as u8 } } };
            cfg_bytes(2, &PubkeyData::pack_into_address_config(&kd).unwrap(), s, w)
        }
        10 => { let mut c = [0u8; 32]; for x in c.iter_mut() { *x = rng.byte(); } cfg_bytes(rng.byte(), &c, s, w) }
        _ => { let mut c = [0u8; 32]; for x in c.iter_mut() { *x = rng.below(5) as u8; } cfg_bytes(*rng.pick(&[1u8, 2, 3, 127, 128, 129, 255]), &c, s, w) }
    }
}

/// A config that resolves: every index and byte range it mentions exists when it is the `j`-th stored
/// config behind `nm` instruction accounts (`data_lens` = data lengths of those `nm` accounts).  Used for
/// the multi-config scenarios, where independently random configs would make almost every list fail at
/// its first or second entry and the later entries (and the index arithmetic between them) go unobserved.
/// a start index into `len >= 1` bytes of data that a one-byte field can hold: any, with a bias to the last
/// positions and to the top of the byte's range (224..=255), where index + length passes 255
fn hi_index(rng: &mut Rng, len: usize) -> usize {
    let top = len.min(256) - 1;
    match rng.below(4) { 0 => top - rng.below((top as u64).min(33) + 1) as usize, 1 if top >= 224 => rng.range(224, top as u64) as usize, _ => rng.below(top as u64 + 1) as usize }
}
/// a length 1..=32 that fits in the `room >= 1` bytes after the start, biased to the largest that fits
fn hi_len(rng: &mut Rng, room: usize) -> usize {
    let m = room.min(32);
    if rng.chance(1, 3) { m } else { rng.range(1, m as u64) as usize }
}
/// the start of a 32-byte key inside `len >= 32` bytes of data
fn hi_key_index(rng: &mut Rng, len: usize) -> usize {
    let top = (len - 32).min(255);
    match rng.below(3) { 0 => top, 1 => top - rng.below((top as u64).min(8) + 1) as usize, _ => rng.below(top as u64 + 1) as usize }
}
pub fn valid_cfg(rng: &mut Rng, world: &World, nm: usize, j: usize, ixlen: usize, data_lens: &[usize]) -> Vec<u8> {
    let (s, w) = (rng.below(2) as u8, rng.below(2) as u8);
    let n_prev = nm + j;
    let with_data: Vec<usize> = (0..nm).filter(|i| data_lens[*i] >= 1).collect();
    let with_key_data: Vec<usize> = (0..nm).filter(|i| data_lens[*i] >= 32).collect();
    match rng.below(10) {
        0..=2 => cfg_bytes(0, &world.key(rng), s, w),
        3..=7 => {
            let n = rng.range(0, 3) as usize;
            let mut seeds = vec![];
            let mut room = 32usize;
            for _ in 0..n {
                let seed = match rng.below(4) {
                    0 => { let k = rng.below(6) as usize; Seed::Literal { bytes: rng.bytes(k) } }
                    // zero-length arguments are legal seeds: an empty slice anywhere up to and including the end of the data,
                    // also of an account whose data is empty
                    1 if rng.chance(1, 6) => { let i = rng.below(ixlen.min(255) as u64 + 1) as usize; Seed::InstructionData { index: i as u8, length: 0 } }
                    3 if nm >= 1 && rng.chance(1, 4) => { let a = rng.below(nm.min(256) as u64) as usize; let d = rng.below(data_lens[a].min(255) as u64 + 1) as usize; Seed::AccountData { account_index: a as u8, data_index: d as u8, length: 0 } }
                    1 if ixlen >= 1 => { let i = hi_index(rng, ixlen); let l = hi_len(rng, ixlen - i); Seed::InstructionData { index: i as u8, length: l as u8 } }
                    2 if n_prev >= 1 => Seed::AccountKey { index: rng.below(n_prev as u64) as u8 },
                    3 if !with_data.is_empty() => { let a = *rng.pick(&with_data); let len = data_lens[a]; let d = hi_index(rng, len); let l = hi_len(rng, len - d); Seed::AccountData { account_index: a as u8, data_index: d as u8, length: l as u8 } }
                    _ => Seed::Literal { bytes: vec![7] },
                };
                let sz = match &seed { Seed::Literal { bytes } => 2 + bytes.len(), Seed::InstructionData { .. } => 3, Seed::AccountKey { .. } => 2, _ => 4 };
                if sz <= room { room -= sz; seeds.push(seed); }
            }
            let disc = if n_prev == 0 || rng.chance(3, 4) { 1 } else { 128 + rng.below(n_prev.min(100) as u64) as u8 };
            cfg_bytes(disc, &Seed::pack_into_address_config(&seeds).expect("valid seeds pack"), s, w)
        }
        _ => {
            let kd = if ixlen >= 32 && (with_key_data.is_empty() || rng.chance(1, 2)) { PubkeyData::InstructionData { index: hi_key_index(rng, ixlen) as u8 } }
                else if !with_key_data.is_empty() { let a = *rng.pick(&with_key_data); PubkeyData::AccountData { account_index: a as u8, data_index: hi_key_index(rng, data_lens[a]) as u8 } }
                else { return cfg_bytes(0, &world.key(rng), s, w) };
            cfg_bytes(2, &PubkeyData::pack_into_address_config(&kd).unwrap(), s, w)
        }
    }
}

fn rand_data(rng: &mut Rng) -> Vec<u8> { let n = match rng.below(9) { 0 => 0, 1 => 32, 2 => 33, 3 => rng.range(250, 300) as usize, 4 => *rng.pick(&[254usize, 255, 256, 257, 287, 288]), 5 => *rng.pick(&[509usize, 510, 511, 512, 520]), _ => rng.below(81) as usize }; rng.bytes(n) }

/// (program id, seed parts) whose canonical bump seed is 222: the 33 candidates with bump seeds 255..=223 all lie on the curve.
/// Found by brute force (about 2^28..2^30 candidates each); a derivation that gives up early, or counts wrongly, shows here.
pub fn deep_bump_witnesses() -> Vec<([u8; 32], Vec<Vec<u8>>)> {
    vec![
        ([5u8; 32], vec![225_687_307u64.to_le_bytes().to_vec()]),
        ([7u8; 32], vec![b"vault".to_vec(), 758_525_596u64.to_le_bytes().to_vec()]),
    ]
}

pub fn generate_c05(tier: &str, rng: &mut Rng) -> Vec<String> {
    let mut v = vec![];
    let n = if tier == "thorough" { 300_000 } else { 4_000 };
    for _ in 0..n {
        let world = World::new(rng);
        let na = rng.below(7) as usize;
        let ixdata = rand_data(rng);
        let accts: Vec<String> = (0..na).map(|_| { let k = world.key(rng); if rng.chance(1, 5) { format!("{}:~", hex(&k)) } else { format!("{}:{}", hex(&k), hex(&rand_data(rng))) } }).collect();
        let m = rand_cfg(rng, &world, na, ixdata.len());
        v.push(format!("resolve {} {} {} {}", hex(&m), hex(&ixdata), hex(&world.prog), if accts.is_empty() { "-".into() } else { accts.join(",") }));
    }
    // PDAs whose canonical bump seed lies deep (found by mining: 33 candidates 255..=223 are on the curve, the bump is 222):
    // the address is the one `find_program_address` gives however many candidates that takes. The seed bytes arrive as a
    // literal, as an instruction-data slice and as an account-data slice, under the executing and under an external program.
    for (prog, parts) in deep_bump_witnesses() {
        let whole: Vec<u8> = parts.concat();
        let other = [9u8; 32];
        let lits = Seed::pack_into_address_config(&parts.iter().map(|p| Seed::Literal { bytes: p.clone() }).collect::<Vec<_>>()).unwrap();
        let from_ix = Seed::pack_into_address_config(&[Seed::InstructionData { index: 3, length: whole.len() as u8 }]).unwrap();
        let from_acct = Seed::pack_into_address_config(&[Seed::AccountData { account_index: 0, data_index: 2, length: whole.len() as u8 }]).unwrap();
        let mut ixd = vec![1u8, 2, 3]; ixd.extend(&whole); ixd.extend([4u8, 5]);
        let mut ad = vec![8u8, 9]; ad.extend(&whole);
        let accts = format!("{}:{},{}:~", hex(&other), hex(&ad), hex(&prog));
        for (disc, exec) in [(1u8, prog), (129u8, other)] {
            for c in [&lits, &from_ix, &from_acct] {
                v.push(format!("resolve {} {} {} {}", hex(&cfg_bytes(disc, c, 0, 1)), hex(&ixd), hex(&exec), accts));
            }
        }
    }
    // the fixed-address config of every flag combination for the all-zero and the all-ones key (incl. the all-zero 35 bytes)
    for key in [[0u8; 32], [0xffu8; 32]] { for s in 0..2u8 { for w in 0..2u8 {
        v.push(format!("resolve {} - {} -", hex(&cfg_bytes(0, &key, s, w)), hex(&[3u8; 32])));
        v.push(format!("ctor key {} {s} {w}", hex(&key)));
        v.push(format!("ctor meta {} {s} {w}", hex(&key)));
        v.push(format!("ctor info {} {s} {w}", hex(&key)));
    } } }
    // boundary PDA cases: 16 two-byte seeds, 33-byte slices
    let world = World::new(rng);
    for n_seeds in [15usize, 16] {
        let c = Seed::pack_into_address_config(&vec![Seed::Literal { bytes: vec![] }; n_seeds]).unwrap();
        v.push(format!("resolve {} - {} -", hex(&cfg_bytes(1, &c, 0, 1)), hex(&world.prog)));
    }
    for l in [32u8, 33] {
        let c = Seed::pack_into_address_config(&[Seed::InstructionData { index: 0, length: l }]).unwrap();
        v.push(format!("resolve {} {} {} -", hex(&cfg_bytes(1, &c, 1, 0)), hex(&vec![7u8; 40]), hex(&world.prog)));
    }
    // constructors
    for _ in 0..(if tier == "thorough" { 20_000 } else { 600 }) {
        let (s, w) = (rng.below(2), rng.below(2));
        match rng.below(6) {
            0 => v.push(format!("ctor key {} {s} {w}", hex(&rng.key()))),
            1 => v.push(format!("ctor meta {} {s} {w}", hex(&rng.key()))),
            2 => v.push(format!("ctor info {} {s} {w}", hex(&rng.key()))),
            3 => { let n = rng.below(5) as usize; let seeds: Vec<Seed> = (0..n).map(|_| rand_seed(rng, 12)).collect(); v.push(format!("ctor seeds {} {s} {w}", fmt_seeds(&seeds))); }
            4 => { let n = rng.below(4) as usize; let seeds: Vec<Seed> = (0..n).map(|_| rand_seed(rng, 8)).collect(); let idx = *rng.pick(&[0u8, 1, 5, 126, 127, 128, 129, 255]); v.push(format!("ctor ext {idx} {} {s} {w}", fmt_seeds(&seeds))); }
            _ => { let kd = match rng.below(3) { 0 => "U".to_string(), 1 => format!("I:{}", rng.byte()), _ => format!("D:{}:{}", rng.byte(), rng.byte()) }; v.push(format!("ctor kd {kd} {s} {w}")); }
        }
    }
    v
}

/// a stored validation account holding `cfgs` for palette tag `tag` (built through the real API)
pub fn stored_for(tag: usize, cfgs: &[Vec<u8>], extra_space: usize) -> Vec<u8> {
    let metas: Vec<ExtraAccountMeta> = cfgs.iter().map(|c| meta_of(c)).collect();
    let size = ExtraAccountMetaList::size_of(metas.len()).unwrap() + extra_space;
    let mut buf = vec![0u8; size];
    with_tag!(tag, do_init, &mut buf[..], &metas).unwrap();
    buf
}

struct Scenario { tag: usize, stored: Vec<u8>, prog: [u8; 32], ixdata: Vec<u8>, metas: Vec<(usize, bool, bool)>, world: World, datas: Vec<Vec<u8>>, cfgs: Vec<Vec<u8>> }

fn scenario(rng: &mut Rng) -> Scenario {
    let world = World::new(rng);
    let datas: Vec<Vec<u8>> = (0..6).map(|_| rand_data(rng)).collect();
    // mostly small instructions; now and then a very wide one, so that the largest one-byte account indices
    // (…, 254, 255) refer to accounts that exist
    let wide = rng.chance(1, 30);
    let nm = if wide { rng.range(253, 259) as usize } else { rng.below(6) as usize };
    let metas: Vec<(usize, bool, bool)> = (0..nm).map(|_| (rng.below(6) as usize, rng.chance(1, 3), rng.chance(1, 2))).collect();
    // instruction data far beyond what a config can address (configs read bytes 0..=509): 10 KiB is the runtime's CPI limit,
    // 64 KiB a width boundary; nothing in the library depends on the size, and one scenario in 300 has it
    let ixdata = if rng.chance(1, 300) { let n = *rng.pick(&[10_240usize, 10_241, 65_535, 65_536, 70_000]); rng.bytes(n) } else { rand_data(rng) };
    let nc = match rng.below(6) { 0 => 0, 1 => 1, _ => rng.range(2, 5) as usize };
    // half of the scenarios: every config resolves (in-range references, incl. to accounts appended by earlier
    // configs); the other half: fixed keys mixed with boundary-heavy random configs
    let all_valid = rng.chance(1, 2);
    let data_lens: Vec<usize> = metas.iter().map(|(k, _, _)| datas[*k].len()).collect();
    let mut cfgs: Vec<Vec<u8>> = (0..nc).map(|j| {
        if all_valid { valid_cfg(rng, &world, nm, j, ixdata.len(), &data_lens) }
        else if rng.chance(1, 2) { let k = world.keys[rng.below(6) as usize]; cfg_bytes(0, &k, rng.below(2) as u8, rng.below(2) as u8) } else { rand_cfg(rng, &world, nm + nc, ixdata.len()) }
    }).collect();
    if wide && !cfgs.is_empty() {
        // a PDA whose seed is the key of one of the last addressable accounts
        let hi = (nm + cfgs.len() - 1).min(255);
        let idx = hi - rng.below(3.min(hi as u64 + 1)) as usize;
        let k = rng.below(cfgs.len() as u64) as usize;
        cfgs[k] = cfg_bytes(1, &Seed::pack_into_address_config(&[Seed::AccountKey { index: idx as u8 }]).unwrap(), rng.below(2) as u8, rng.below(2) as u8);
    }
    let tag = rng.below(8) as usize;
    let stored = stored_for(tag, &cfgs, if rng.chance(1, 3) { rng.below(20) as usize } else { 0 });
    Scenario { tag, stored, prog: world.prog, ixdata, metas, world, datas, cfgs }
}
fn metas_str(sc: &Scenario) -> String { if sc.metas.is_empty() { "-".into() } else { sc.metas.iter().map(|(k, s, w)| format!("{}:{}:{}", hex(&sc.world.keys[*k]), *s as u8, *w as u8)).collect::<Vec<_>>().join(",") } }
fn infos_str(sc: &Scenario, idx: &[(usize, bool, bool)]) -> String { if idx.is_empty() { "-".into() } else { idx.iter().map(|(k, s, w)| format!("{}:{}:{}:{}", hex(&sc.world.keys[*k]), *s as u8, *w as u8, hex(&sc.datas[*k]))).collect::<Vec<_>>().join(",") } }

/// The keys (with fresh random data) that the stored configs resolve to, computed by the independent
/// resolver: derived (PDA / key-from-data) addresses are not world keys, and a pool without them can
/// never let the CPI helper succeed — the agreement clause would then only ever be observed on
/// fixed-key lists.
fn derived_accounts(sc: &Scenario, rng: &mut Rng) -> Vec<(Pubkey, Vec<u8>)> {
    let prog = Pubkey::new_from_array(sc.prog);
    let mut table: Vec<(Pubkey, Option<Vec<u8>>)> = sc.metas.iter().map(|(k, _, _)| (Pubkey::new_from_array(sc.world.keys[*k]), Some(sc.datas[*k].clone()))).collect();
    let mut out: Vec<(Pubkey, Vec<u8>)> = vec![];
    for c in &sc.cfgs {
        let Some((key, _, _)) = guarded(|| spec_resolve(c, &sc.ixdata, &prog, &table)).flatten() else { break };
        // data: the world's data for a world key, the data already chosen for a repeated derived key, else fresh
        let data = if let Some(k) = sc.world.keys.iter().position(|w| *w == key.to_bytes()) { sc.datas[k].clone() }
            else if let Some((_, d)) = out.iter().find(|(k, _)| *k == key) { d.clone() }
            else { let d = rand_data(rng); out.push((key, d.clone())); d };
        table.push((key, Some(data)));
    }
    out
}

pub fn generate_c06_c08(prop: &str, tier: &str, rng: &mut Rng) -> Vec<String> {
    let mut v = vec![];
    let n = if tier == "thorough" { 120_000 } else { 2_500 };
    for _ in 0..n {
        let sc = scenario(rng);
        let mut stored = sc.stored.clone();
        if rng.chance(1, 30) && !stored.is_empty() { let i = rng.below(stored.len() as u64) as usize; stored[i] = rng.byte(); }
        // the pool: all six world accounts plus an account for every derived address the list resolves to
        // (complete), sometimes one removed or duplicated, in random order
        let derived = derived_accounts(&sc, rng);
        let mut pool: Vec<(usize, bool, bool)> = (0..6 + derived.len()).map(|k| (k, rng.chance(1, 4), rng.chance(1, 2))).collect();
        for i in (1..pool.len()).rev() { let j = rng.below(i as u64 + 1) as usize; pool.swap(i, j); }
        if rng.chance(1, 6) { pool.pop(); }
        if rng.chance(1, 5) { let d = pool[0]; pool.push(d); }
        let initial: Vec<(usize, bool, bool)> = sc.metas.clone();
        // world indices 0..5, derived accounts 6..
        let infos_str = |_sc: &Scenario, idx: &[(usize, bool, bool)]| -> String {
            if idx.is_empty() { return "-".into(); }
            idx.iter().map(|(k, s, w)| {
                let (key, data): (Vec<u8>, &Vec<u8>) = if *k < 6 { (sc.world.keys[*k].to_vec(), &sc.datas[*k]) } else { (derived[*k - 6].0.to_bytes().to_vec(), &derived[*k - 6].1) };
                format!("{}:{}:{}:{}", hex(&key), *s as u8, *w as u8, hex(data))
            }).collect::<Vec<_>>().join(",")
        };
        match prop {
            "C06" if rng.chance(1, 2) => {
                let fetch: Vec<String> = (0..6).map(|k| format!("{}:{}", hex(&sc.world.keys[k]), match rng.below(12) { 0 => "~".to_string(), 1 => "!".to_string(), _ => hex(&sc.datas[k]) })).collect();
                v.push(format!("addix {} {} {} {} {} {}", sc.tag, hex(&stored), hex(&sc.prog), hex(&sc.ixdata), metas_str(&sc), fetch.join(",")));
            }
            "C06" => v.push(format!("addcpi {} {} {} {} {} {} {}", sc.tag, hex(&stored), hex(&sc.prog), hex(&sc.ixdata), metas_str(&sc), infos_str(&sc, &initial), infos_str(&sc, &pool))),
            _ => v.push(format!("both {} {} {} {} {} {} {}", sc.tag, hex(&stored), hex(&sc.prog), hex(&sc.ixdata), metas_str(&sc), infos_str(&sc, &initial), infos_str(&sc, &pool))),
        }
    }
    v
}

pub fn generate_c07(tier: &str, rng: &mut Rng) -> Vec<String> {
    let mut v = vec![];
    let n = if tier == "thorough" { 30_000 } else { 1_200 };
    for _ in 0..n {
        let sc = scenario(rng);
        // build an accepted list: initial accounts, then each config resolved against the growing list
        let mut accts: Vec<(Pubkey, bool, bool, Vec<u8>)> = sc.metas.iter().map(|(k, s, w)| (Pubkey::new_from_array(sc.world.keys[*k]), *s, *w, sc.datas[*k].clone())).collect();
        let n0 = accts.len();
        // placeholders so that forward references resolve against the final list: iterate to a fixpoint (2 rounds)
        let mut resolved: Vec<(Pubkey, bool, bool, Vec<u8>)> = sc.cfgs.iter().map(|_| (Pubkey::new_from_array(rng.key()), false, false, vec![])).collect();
        for _ in 0..3 {
            let all: Vec<(Pubkey, Option<Vec<u8>>)> = accts.iter().chain(resolved.iter()).map(|a| (a.0, Some(a.3.clone()))).collect();
            for (i, c) in sc.cfgs.iter().enumerate() {
                if let Some((k, s, w)) = spec_resolve(c, &sc.ixdata, &Pubkey::new_from_array(sc.prog), &all) {
                    let data = sc.world.keys.iter().position(|x| *x == k.to_bytes()).map(|p| sc.datas[p].clone()).unwrap_or_default();
                    resolved[i] = (k, s, w, data);
                }
            }
        }
        accts.extend(resolved);
        let fmt = |a: &Vec<(Pubkey, bool, bool, Vec<u8>)>| if a.is_empty() { "-".to_string() } else { a.iter().map(|x| format!("{}:{}:{}:{}", hex(x.0.as_ref()), x.1 as u8, x.2 as u8, hex(&x.3))).collect::<Vec<_>>().join(",") };
        let base = format!("check {} {} {} {}", sc.tag, hex(&sc.stored), hex(&sc.prog), hex(&sc.ixdata));
        v.push(format!("{base} {}", fmt(&accts)));
        // every kind of single mutation
        if !accts.is_empty() {
            let i = if accts.len() > n0 && rng.chance(3, 4) { n0 + rng.below((accts.len() - n0) as u64) as usize } else { rng.below(accts.len() as u64) as usize };
            let mut m = accts.clone(); m[i].0 = Pubkey::new_from_array(rng.key()); v.push(format!("{base} {}", fmt(&m)));
            let mut m = accts.clone(); m[i].1 = !m[i].1; v.push(format!("{base} {}", fmt(&m)));
            let mut m = accts.clone(); m[i].2 = !m[i].2; v.push(format!("{base} {}", fmt(&m)));
            let mut m = accts.clone(); m.remove(i); v.push(format!("{base} {}", fmt(&m)));
            let mut m = accts.clone(); m.insert(i, (Pubkey::new_from_array(rng.key()), false, false, vec![])); v.push(format!("{base} {}", fmt(&m)));
            if accts.len() >= 2 { let j = rng.below(accts.len() as u64) as usize; let mut m = accts.clone(); m.swap(i, j); v.push(format!("{base} {}", fmt(&m))); }
            let mut m = accts.clone(); m.push((Pubkey::new_from_array(rng.key()), false, true, vec![1, 2, 3])); v.push(format!("{base} {}", fmt(&m)));
            // shorter than the config list
            let k = rng.below(sc.cfgs.len() as u64 + 1) as usize; let m: Vec<_> = accts.iter().take(k.min(accts.len())).cloned().collect(); v.push(format!("{base} {}", fmt(&m)));
        }
        if rng.chance(1, 8) {
            let k = rng.range(1, 5) as usize;
            let m: Vec<(Pubkey, bool, bool, Vec<u8>)> = (0..k).map(|_| (Pubkey::new_from_array(rng.key()), rng.chance(1, 2), rng.chance(1, 2), rng.bytes(3))).collect();
            v.push(format!("checkc {} {} {} {}", sc.tag, hex(&sc.prog), hex(&sc.ixdata), fmt(&m)));
        }
        if rng.chance(1, 3) && !sc.cfgs.is_empty() {
            // a rejected update (one config too many for the exact-size account) must leave the validation as it was; an
            // accepted one (same number of configs: the list now stored is the new one) changes it accordingly
            let more: Vec<Vec<u8>> = sc.cfgs.iter().cloned().chain(std::iter::once(cfg_bytes(0, &sc.world.keys[0], 0, 1))).collect();
            let same: Vec<Vec<u8>> = { let mut c = sc.cfgs.clone(); let i = rng.below(c.len() as u64) as usize; c[i] = cfg_bytes(0, &sc.world.keys[rng.below(6) as usize], rng.below(2) as u8, rng.below(2) as u8); c };
            let cf = |l: &Vec<Vec<u8>>| l.iter().map(|c| hex(c)).collect::<Vec<_>>().join(",");
            for newc in [&more, &same] {
                v.push(format!("checkh {} {} {} {} {} {}", sc.tag, hex(&sc.stored), cf(newc), hex(&sc.prog), hex(&sc.ixdata), fmt(&accts)));
                if accts.len() > n0 { let mut m = accts.clone(); let i = n0 + rng.below((accts.len() - n0) as u64) as usize; m[i].0 = Pubkey::new_from_array(rng.key()); v.push(format!("checkh {} {} {} {} {} {}", sc.tag, hex(&sc.stored), cf(newc), hex(&sc.prog), hex(&sc.ixdata), fmt(&m))); }
            }
            v.push(format!("checkh {} {} {} {} {} -", sc.tag, hex(&sc.stored), cf(&more), hex(&sc.prog), hex(&sc.ixdata)));
        }
        if rng.chance(1, 6) {
            // a config that refers to an account (the owning program of an external PDA, the account of a key or data seed, the
            // account a key is read from) at an index the provided list does NOT have is unresolvable: validation must reject
            // whatever stands at the trailing position — in particular the address a resolver would get by quietly falling back
            // (the same seeds under the executing program, the key of account 0, …)
            let k0 = rng.below(4) as usize;
            let initial: Vec<(Pubkey, bool, bool, Vec<u8>)> = (0..k0).map(|i| (Pubkey::new_from_array(sc.world.keys[i]), false, rng.chance(1, 2), sc.datas[i].clone())).collect();
            let nlit = rng.below(6) as usize; let lit = rng.bytes(nlit);
            let missing = (k0 + 1 + rng.below(3) as usize) as u8;   // beyond the initial accounts and the one trailing account
            let prog = Pubkey::new_from_array(sc.prog);
            let seeds_cfg = Seed::pack_into_address_config(&[Seed::Literal { bytes: lit.clone() }]).unwrap();
            let fallback = Pubkey::find_program_address(&[&lit[..]], &prog).0;
            let variants: Vec<(Vec<u8>, Pubkey)> = vec![
                (cfg_bytes(128 + missing, &seeds_cfg, 0, 1), fallback),
                (cfg_bytes(1, &Seed::pack_into_address_config(&[Seed::Literal { bytes: lit.clone() }, Seed::AccountKey { index: missing }]).unwrap(), 0, 0), fallback),
                (cfg_bytes(2, &PubkeyData::pack_into_address_config(&PubkeyData::AccountData { account_index: missing, data_index: 0 }).unwrap(), 0, 0), initial.first().map_or(fallback, |a| a.0)),
            ];
            for (cfg, key) in variants {
                let stored = stored_for(sc.tag, &[cfg], 0);
                let mut m = initial.clone(); m.push((key, false, true, vec![7u8; 40]));
                v.push(format!("check {} {} {} {} {}", sc.tag, hex(&stored), hex(&sc.prog), hex(&sc.ixdata), fmt(&m)));
                let mut m2 = initial.clone(); m2.push((key, false, false, vec![7u8; 40]));
                v.push(format!("check {} {} {} {} {}", sc.tag, hex(&stored), hex(&sc.prog), hex(&sc.ixdata), fmt(&m2)));
            }
        }
        if v.len() < 40 {
            // validation of a PDA config whose canonical bump seed lies deep (see `deep_bump_witnesses`): the prescribed account is
            // accepted, any other key rejected
            for (prog, parts) in deep_bump_witnesses() {
                let seeds_cfg = Seed::pack_into_address_config(&parts.iter().map(|p| Seed::Literal { bytes: p.clone() }).collect::<Vec<_>>()).unwrap();
                let refs: Vec<&[u8]> = parts.iter().map(|p| &p[..]).collect();
                let pda = Pubkey::find_program_address(&refs, &Pubkey::new_from_array(prog)).0;
                let stored = stored_for(sc.tag, &[cfg_bytes(1, &seeds_cfg, 0, 1)], 0);
                for key in [pda, Pubkey::new_from_array(rng.key())] {
                    let m = vec![(Pubkey::new_from_array(sc.world.keys[0]), false, false, vec![1u8, 2]), (key, false, true, vec![])];
                    v.push(format!("check {} {} {} {} {}", sc.tag, hex(&stored), hex(&prog), hex(&sc.ixdata), fmt(&m)));
                }
            }
        }
        if rng.chance(1, 10) {
            // malformed stored bytes
            let bad = match rng.below(3) { 0 => vec![1u8, 2, 3], 1 => { let mut s2 = sc.stored.clone(); let l = s2.len(); s2.truncate(rng.below(l as u64 + 1) as usize); s2 }, _ => rng.bytes(40) };
            v.push(format!("check {} {} {} {} {}", sc.tag, hex(&bad), hex(&sc.prog), hex(&sc.ixdata), fmt(&accts)));
        }
    }
    v
}

pub fn generate_c12(tier: &str, rng: &mut Rng) -> Vec<String> {
    let mut v = vec![];
    let n = if tier == "thorough" { 30_000 } else { 350 };
    for n_items in [0usize, 1, 2, 7, 100] { v.push(format!("sizeof {n_items}")); }
    v.push(format!("sizeof {}", usize::MAX / 35));
    for case in 0..n {
        let world = World::new(rng);
        let k = rng.range(1, 4) as usize; // instruction discriminators
        let lens: Vec<usize> = (0..k).map(|_| rng.below(7) as usize).collect();
        let exact: usize = lens.iter().map(|l| ExtraAccountMetaList::size_of(*l).unwrap()).sum();
        let mut size = match rng.below(6) { 0 => exact.saturating_sub(1), 1 => exact, 2 => exact + rng.below(12) as usize, _ => exact + rng.range(12, 120) as usize };
        let tight_extra = if rng.chance(1, 2) { rng.range(27, 34) } else { rng.below(9) } as usize;
        let tight = k >= 2 && rng.chance(1, 4);
        if tight { size = exact + tight_extra; }
        let start = if rng.chance(1, 15) { match rng.below(2) { 0 => vec![1u8, 2, 3], _ => rng.bytes(size.max(1)) } } else { vec![0u8; size] };
        v.push(format!("B {case} metalist {}", hex(&start)));
        let mut tags: Vec<usize> = (0..8).collect();
        for i in (1..8).rev() { let j = rng.below(i as u64 + 1) as usize; tags.swap(i, j); }
        let cfglist = |rng: &mut Rng, n: usize| -> String { if n == 0 { "-".into() } else { (0..n).map(|_| hex(&if rng.chance(1, 2) { let mut c = [0u8; 35]; for x in c.iter_mut() { *x = rng.byte(); } c.to_vec() } else { rand_cfg(rng, &world, 4, 10) })).collect::<Vec<_>>().join(",") } };
        // one history in four is aimed at the room check of a growing update of a list that is NOT the last one:
        // the account is 1..=8 (or 27..=34) bytes short of one more config, the last list ends in zero bytes (flags
        // 0/0, or an empty list) half of the time, and the first operations grow an earlier list by exactly one config
        let zero_tail = |s: String| -> String { if s == "-" { s } else { let mut s = s; let n = s.len(); s.replace_range(n - 4.., "0000"); s } };
        for (i, l) in lens.iter().enumerate() {
            let mut c = cfglist(rng, *l);
            if tight && i + 1 == k && rng.chance(1, 2) { c = zero_tail(c); }
            v.push(format!("O init {} {}", tags[i], c));
        }
        if tight {
            let which = rng.below(k as u64 - 1) as usize;
            v.push(format!("O update {} {}", tags[which], cfglist(rng, lens[which] + 1)));
            v.push(format!("O update {} {}", tags[which], cfglist(rng, lens[which])));
            if lens[which] > 0 { v.push(format!("O update {} {}", tags[which], cfglist(rng, lens[which] - 1))); v.push(format!("O update {} {}", tags[which], cfglist(rng, lens[which] + 1))); }
        }
        let nops = rng.range(2, 8);
        for _ in 0..nops {
            let tg = tags[rng.below((k + 1).min(8) as u64) as usize];
            match rng.below(5) {
                0 => { let l = rng.below(4) as usize; v.push(format!("O init {tg} {}", cfglist(rng, l))); }
                1..=3 => { let l = rng.below(8) as usize; v.push(format!("O update {tg} {}", cfglist(rng, l))); }
                _ => v.push(format!("O read {tg}")),
            }
        }
        for i in 0..k { v.push(format!("O read {}", tags[i])); }
        v.push("E".into());
    }
    v
}
