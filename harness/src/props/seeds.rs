//! C11 — seed and key-data address configs.
use crate::util::*;
use spl_tlv_account_resolution::{pubkey_data::PubkeyData, seeds::Seed};

pub fn fmt_seed(s: &Seed) -> String {
    match s {
        Seed::Uninitialized => "U".into(),
        Seed::Literal { bytes } => format!("L:{}", hex(bytes)),
        Seed::InstructionData { index, length } => format!("I:{index}:{length}"),
        Seed::AccountKey { index } => format!("K:{index}"),
        Seed::AccountData { account_index, data_index, length } => format!("D:{account_index}:{data_index}:{length}"),
    }
}
pub fn fmt_seeds(v: &[Seed]) -> String {
    if v.is_empty() { "-".into() } else { v.iter().map(fmt_seed).collect::<Vec<_>>().join(";") }
}
pub fn parse_seed(t: &str) -> Seed {
    let p: Vec<&str> = t.split(':').collect();
    match p[0] {
        "U" => Seed::Uninitialized,
        "L" => Seed::Literal { bytes: unhex(p[1]) },
        "I" => Seed::InstructionData { index: p[1].parse().unwrap(), length: p[2].parse().unwrap() },
        "K" => Seed::AccountKey { index: p[1].parse().unwrap() },
        "D" => Seed::AccountData { account_index: p[1].parse().unwrap(), data_index: p[2].parse().unwrap(), length: p[3].parse().unwrap() },
        _ => panic!("seed token {t}"),
    }
}
pub fn parse_seeds(t: &str) -> Vec<Seed> {
    if t == "-" { vec![] } else { t.split(';').map(parse_seed).collect() }
}
fn spec_size(s: &Seed) -> usize {
    match s {
        Seed::Uninitialized => 0,
        Seed::Literal { bytes } => 2 + bytes.len(),
        Seed::InstructionData { .. } => 3,
        Seed::AccountKey { .. } => 2,
        Seed::AccountData { .. } => 4,
    }
}
fn spec_pack_one(s: &Seed) -> Vec<u8> {
    match s {
        Seed::Uninitialized => vec![],
        Seed::Literal { bytes } => { let mut v = vec![1, bytes.len() as u8]; v.extend(bytes); v }
        Seed::InstructionData { index, length } => vec![2, *index, *length],
        Seed::AccountKey { index } => vec![3, *index],
        Seed::AccountData { account_index, data_index, length } => vec![4, *account_index, *data_index, *length],
    }
}
pub fn fmt_kd(k: &PubkeyData) -> String {
    match k {
        PubkeyData::Uninitialized => "U".into(),
        PubkeyData::InstructionData { index } => format!("I:{index}"),
        PubkeyData::AccountData { account_index, data_index } => format!("D:{account_index}:{data_index}"),
    }
}
pub fn parse_kd(t: &str) -> PubkeyData {
    let p: Vec<&str> = t.split(':').collect();
    match p[0] {
        "U" => PubkeyData::Uninitialized,
        "I" => PubkeyData::InstructionData { index: p[1].parse().unwrap() },
        "D" => PubkeyData::AccountData { account_index: p[1].parse().unwrap(), data_index: p[2].parse().unwrap() },
        _ => panic!("kd token"),
    }
}

fn res_line<T>(r: &Option<Result<T, solana_program_error::ProgramError>>, f: impl Fn(&T) -> String) -> String {
    match r {
        None => "panic".into(),
        Some(Ok(v)) => format!("ok {}", f(v)),
        Some(Err(e)) => format!("err | {}", err_code(e)),
    }
}

pub fn run(cases: &[String]) -> RunOut {
    let mut out = RunOut::default();
    for line in cases {
        let t: Vec<&str> = line.split_whitespace().collect();
        let mut err: Option<String> = None;
        let impl_line = match t[0] {
            "packseeds" => {
                let seeds = parse_seeds(t[1]);
                let r = guarded(|| Seed::pack_into_address_config(&seeds));
                let total: usize = seeds.iter().map(spec_size).sum();
                let should_ok = !seeds.iter().any(|s| *s == Seed::Uninitialized) && total <= 32;
                match &r {
                    None => err = Some("pack_into_address_config panicked".into()),
                    Some(Ok(c)) => {
                        if !should_ok { err = Some("packing succeeded although the list has an uninitialised seed or exceeds 32 bytes".into()); }
                        let mut expect: Vec<u8> = seeds.iter().flat_map(spec_pack_one).collect();
                        expect.resize(32, 0);
                        if c.to_vec() != expect { err = Some(format!("packed bytes differ from the canonical layout {}", hex(&expect))); }
                        match guarded(|| Seed::unpack_address_config(c)) {
                            Some(Ok(back)) if back == seeds => {}
                            _ => err = Some("unpacking the packed config does not return the identical list".into()),
                        }
                    }
                    Some(Err(_)) => if should_ok { err = Some("packing failed although every seed is initialised and the sizes total <= 32".into()); },
                }
                if seeds.len() >= 2 || seeds.iter().any(|s| matches!(s, Seed::Literal { bytes } if bytes.len() >= 30)) { out.stats.nontrivial_case(line); out.stats.sample(line); }
                out.stats.bump(&format!("packseeds:{}", match &r { None => "panic", Some(Ok(_)) => "ok", Some(Err(_)) => "err" }));
                res_line(&r, |c| hex(c))
            }
            "unpackseeds" => {
                let c: [u8; 32] = unhex(t[1]).try_into().unwrap();
                let r = guarded(|| Seed::unpack_address_config(&c));
                match &r {
                    None => err = Some("unpack_address_config panicked".into()),
                    Some(Ok(seeds)) => {
                        let used: usize = seeds.iter().map(spec_size).sum();
                        let mut expect = c[..used.min(32)].to_vec();
                        expect.resize(32, 0);
                        match guarded(|| Seed::pack_into_address_config(seeds)) {
                            Some(Ok(p)) if p.to_vec() == expect => {}
                            _ => err = Some("re-packing the unpacked seeds does not reproduce the consumed prefix followed by zeros".into()),
                        }
                    }
                    Some(Err(_)) => {}
                }
                if (1..=4).contains(&c[0]) { out.stats.nontrivial_case(line); out.stats.sample(line); }
                out.stats.bump(&format!("unpackseeds:{}", match &r { None => "panic", Some(Ok(_)) => "ok", Some(Err(_)) => "err" }));
                res_line(&r, |s| fmt_seeds(s))
            }
            "packone" => {
                let seed = parse_seed(t[1]);
                let n: usize = t[2].parse().unwrap();
                let mut dst = vec![0u8; n];
                let r = guarded(|| seed.pack(&mut dst).map(|_| ()));
                // packing one seed into a caller-supplied slice is compared with the model; the property is about lists
                out.stats.bump("packone");
                let d = dst.clone();
                res_line(&r, move |_| hex(&d))
            }
            "unpackone" => {
                let b = unhex(t[1]);
                let r = guarded(|| Seed::unpack(&b));
                if r.is_none() { err = Some("Seed::unpack panicked".into()); }
                out.stats.bump("unpackone");
                res_line(&r, fmt_seed)
            }
            "kdpack" => {
                let k = parse_kd(t[1]);
                let r = guarded(|| PubkeyData::pack_into_address_config(&k));
                match &r {
                    None => err = Some("kd pack panicked".into()),
                    Some(Ok(c)) => {
                        if k == PubkeyData::Uninitialized { err = Some("uninitialised key-data packs".into()); }
                        match guarded(|| PubkeyData::unpack(c)) { Some(Ok(b)) if b == k => {}, _ => err = Some("key-data pack/unpack is not the identity".into()) }
                        let exp: Vec<u8> = match &k { PubkeyData::InstructionData { index } => vec![1, *index], PubkeyData::AccountData { account_index, data_index } => vec![2, *account_index, *data_index], _ => vec![] };
                        if c[..exp.len()] != exp[..] || c[exp.len()..].iter().any(|&x| x != 0) { err = Some("key-data layout is not canonical / unused bytes not zero".into()); }
                    }
                    Some(Err(_)) => if k != PubkeyData::Uninitialized { err = Some("initialised key-data fails to pack".into()); },
                }
                let mut kd_note = "";
                // PubkeyData::pack into a caller-supplied slice: exact size only, never a panic
                let want = match &k { PubkeyData::InstructionData { .. } => 2usize, PubkeyData::AccountData { .. } => 3, _ => usize::MAX };
                for n in 0..=5usize {
                    let mut dst = vec![0xeeu8; n];
                    // (slice-level helper, exercised for coverage; the property is about pack_into_address_config)
                    match guarded(|| k.pack(&mut dst)) {
                        None => kd_note = " | note: PubkeyData::pack panicked on a caller-supplied slice",
                        Some(Ok(())) => if n != want { kd_note = " | note: PubkeyData::pack accepted a destination of the wrong size" },
                        Some(Err(_)) => if n == want { kd_note = " | note: PubkeyData::pack rejected an exact-size destination" },
                    }
                }
                if k != PubkeyData::Uninitialized { out.stats.nontrivial_case(line); }
                out.stats.bump("kdpack");
                format!("{}{kd_note}", res_line(&r, |c| hex(c)))
            }
            "kdunpack" => {
                let b = unhex(t[1]);
                let r = guarded(|| PubkeyData::unpack(&b));
                match &r {
                    None => err = Some("kd unpack panicked".into()),
                    Some(Ok(k)) if *k != PubkeyData::Uninitialized => {
                        let used = k.tlv_size() as usize;
                        let mut expect = b[..used].to_vec();
                        expect.resize(32, 0);
                        match guarded(|| PubkeyData::pack_into_address_config(k)) { Some(Ok(p)) if p.to_vec() == expect => {}, _ => err = Some("re-packing key-data does not reproduce the consumed prefix".into()) }
                    }
                    _ => {}
                }
                if !b.is_empty() && (1..=2).contains(&b[0]) { out.stats.nontrivial_case(line); }
                out.stats.bump(&format!("kdunpack:{}", match &r { None => "panic", Some(Ok(_)) => "ok", Some(Err(_)) => "err" }));
                res_line(&r, fmt_kd)
            }
            other => panic!("unknown op {other}"),
        };
        out.push(impl_line, err.map_or(Ok(()), Err));
    }
    out
}

pub fn rand_seed(rng: &mut Rng, max_lit: usize) -> Seed {
    match rng.below(10) {
        0..=3 => { let n = rng.below(max_lit as u64 + 1) as usize; Seed::Literal { bytes: rng.bytes(n) } }
        4..=5 => Seed::InstructionData { index: rng.byte(), length: rng.byte() },
        6..=7 => Seed::AccountKey { index: rng.byte() },
        8 => Seed::AccountData { account_index: rng.byte(), data_index: rng.byte(), length: rng.byte() },
        _ => if rng.chance(1, 4) { Seed::Uninitialized } else { Seed::AccountKey { index: 0 } },
    }
}

pub fn generate(tier: &str, rng: &mut Rng) -> Vec<String> {
    let thorough = tier == "thorough";
    let mut v = Vec::new();
    // all literal lengths 0..=300, alone and behind a 2-byte seed
    for n in 0..=300usize {
        let lit = Seed::Literal { bytes: vec![(n % 251) as u8 + 1; n] };
        v.push(format!("packseeds {}", fmt_seeds(&[lit.clone()])));
        if n <= 40 || (250..=260).contains(&n) {
            v.push(format!("packseeds {}", fmt_seeds(&[Seed::AccountKey { index: 7 }, lit.clone()])));
            for d in [0usize, 1, 2, 31, 32, 33, n + 1, n + 2, n + 3, 255, 256] { v.push(format!("packone {} {}", fmt_seed(&lit), d)); }
        }
    }
    // every kind at the end of an exactly-32-byte list, and one byte over
    for last in [Seed::InstructionData { index: 1, length: 2 }, Seed::AccountKey { index: 3 }, Seed::AccountData { account_index: 1, data_index: 2, length: 3 }, Seed::Literal { bytes: vec![9; 2] }] {
        let sz = spec_size(&last);
        for over in [0usize, 1] {
            let fill = 32 - sz + over;
            let seeds = vec![Seed::Literal { bytes: vec![5; fill - 2] }, last.clone()];
            v.push(format!("packseeds {}", fmt_seeds(&seeds)));
        }
    }
    v.push("packseeds -".into());
    v.push(format!("packseeds {}", fmt_seeds(&vec![Seed::AccountKey { index: 1 }; 16])));
    v.push(format!("packseeds {}", fmt_seeds(&vec![Seed::AccountKey { index: 1 }; 17])));
    v.push(format!("packseeds {}", fmt_seeds(&vec![Seed::Literal { bytes: vec![] }; 16])));
    for pos in 0..4 {
        let mut s = vec![Seed::AccountKey { index: 1 }; 3];
        s.insert(pos, Seed::Uninitialized);
        v.push(format!("packseeds {}", fmt_seeds(&s)));
    }
    for k in [Seed::Uninitialized, Seed::InstructionData { index: 1, length: 2 }, Seed::AccountKey { index: 3 }, Seed::AccountData { account_index: 1, data_index: 2, length: 3 }] {
        for d in 0..=6usize { v.push(format!("packone {} {}", fmt_seed(&k), d)); }
    }
    for _ in 0..(if thorough { 400_000 } else { 3_000 }) {
        let n = match rng.below(8) { 0 => 0, 1 => 1, 7 => rng.range(8, 18) as usize, _ => rng.range(2, 7) as usize };
        let max_lit = if rng.chance(1, 10) { 40 } else { 12 };
        let seeds: Vec<Seed> = (0..n).map(|_| rand_seed(rng, max_lit)).collect();
        v.push(format!("packseeds {}", fmt_seeds(&seeds)));
    }
    // unpack: every kind byte x every value of the byte after it (a length, an index), at the start, behind one seed and
    // at the very end of the array, over a zero / 0xff / counting remainder — the extreme parameter bytes a random array
    // almost never pairs with a valid kind byte
    for d in [0u8, 1, 2, 3, 4, 5, 255] {
        for b in 0..=255u8 {
            if !thorough && !(b < 40 || b > 250 || b % 16 == 0) { continue; }
            for fill in [0u8, 255, 7] {
                for pos in [0usize, 2, 29, 30, 31] {
                    let mut c = [0u8; 32];
                    if pos > 0 { c[0] = 3; c[1] = 9; for x in c[2..pos].iter_mut() { *x = 0; } }
                    if pos >= 29 { // fill the front with one literal so that the pair sits at a seed boundary
                        c[0] = 1; c[1] = (pos - 2) as u8; for (i, x) in c[2..pos].iter_mut().enumerate() { *x = i as u8 + 1; }
                    }
                    c[pos] = d;
                    if pos + 1 < 32 { c[pos + 1] = b; }
                    for x in c[(pos + 2).min(32)..].iter_mut() { *x = fill; }
                    v.push(format!("unpackseeds {}", hex(&c)));
                    if pos == 0 { v.push(format!("unpackone {}", hex(&c))); v.push(format!("unpackone {}", hex(&c[..2]))); }
                }
            }
        }
    }
    // unpack: random arrays, structured arrays (valid packings with garbage tails / mutated bytes)
    for _ in 0..(if thorough { 800_000 } else { 4_000 }) {
        let mut c = [0u8; 32];
        match rng.below(4) {
            0 => { for b in c.iter_mut() { *b = rng.byte(); } }
            1 => { for b in c.iter_mut() { *b = rng.below(6) as u8; } }
            _ => {
                let n = rng.range(0, 8) as usize;
                let seeds: Vec<Seed> = (0..n).map(|_| rand_seed(rng, 10)).filter(|s| *s != Seed::Uninitialized).collect();
                let mut bytes: Vec<u8> = seeds.iter().flat_map(spec_pack_one).collect();
                bytes.truncate(32);
                c[..bytes.len()].copy_from_slice(&bytes);
                if rng.chance(1, 3) { for i in bytes.len()..32 { if rng.chance(1, 2) { c[i] = rng.byte(); } } }
                if rng.chance(1, 3) { let i = rng.below(32) as usize; c[i] = rng.below(8) as u8; }
            }
        }
        v.push(format!("unpackseeds {}", hex(&c)));
        if rng.chance(1, 10) {
            let l = rng.below(33) as usize;
            v.push(format!("unpackone {}", hex(&c[..l])));
        }
    }
    // key-data: exhaustive over both u8 parameters in the thorough tier
    v.push("kdpack U".into());
    let step = if thorough { 1 } else { 17 };
    for a in (0..=255u32).step_by(step) {
        v.push(format!("kdpack I:{a}"));
        for d in (0..=255u32).step_by(step) { v.push(format!("kdpack D:{a}:{d}")); }
    }
    // every prefix (lengths 0..=32) of structured and random key-data arrays
    for _ in 0..(if thorough { 5_000 } else { 200 }) {
        let mut c = [0u8; 32];
        c[0] = rng.below(4) as u8; c[1] = rng.byte(); c[2] = rng.byte();
        if rng.chance(1, 3) { for b in c[3..].iter_mut() { *b = rng.byte(); } }
        for l in [0usize, 1, 2, 3, 4, 31, 32] { v.push(format!("kdunpack {}", hex(&c[..l]))); }
    }
    v
}
