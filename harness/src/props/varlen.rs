//! C15 — variable-length TLV values over an account in the runtime's serialized layout, and the
//! derived Borsh packer.
use crate::props::tlv::{Raw, Tag, PALETTE};
use crate::util::*;
use borsh::{BorshDeserialize, BorshSerialize};
use solana_account_info::AccountInfo;
use solana_program_error::ProgramError;
use solana_pubkey::Pubkey;
use spl_discriminator::SplDiscriminate;
use spl_type_length_value::state::{realloc_and_pack_variable_len_with_repetition, TlvState, TlvStateBorrowed, TlvStateMut};
use spl_type_length_value::variable_len_pack::VariableLenPack;
use spl_type_length_value::SplBorshVariableLenPack;

macro_rules! with_tag {
    ($idx:expr, $f:ident, $($arg:expr),*) => {
        match $idx {
            0 => $f::<{ PALETTE[0] }>($($arg),*), 1 => $f::<{ PALETTE[1] }>($($arg),*), 2 => $f::<{ PALETTE[2] }>($($arg),*), 3 => $f::<{ PALETTE[3] }>($($arg),*),
            4 => $f::<{ PALETTE[4] }>($($arg),*), 5 => $f::<{ PALETTE[5] }>($($arg),*), 6 => $f::<{ PALETTE[6] }>($($arg),*), 7 => $f::<{ PALETTE[7] }>($($arg),*),
            _ => panic!("tag index"),
        }
    };
}

/// An account laid out as the runtime serializes it:
/// [pad 4][original_data_len u32][key 32][owner 32][lamports u64][data_len u64][data …][10 KiB spare]
pub struct RtAccount { mem: Vec<u64> }
const KEY_OFF: usize = 8;
const OWNER_OFF: usize = 40;
const LAMPORTS_OFF: usize = 72;
const LEN_OFF: usize = 80;
const DATA_OFF: usize = 88;
impl RtAccount {
    pub fn new(data: &[u8], orig_len: usize) -> Self {
        let total = DATA_OFF + orig_len.max(data.len()) + 10240 + 64;
        let mut mem = vec![0u64; total / 8 + 2];
        let p = mem.as_mut_ptr() as *mut u8;
        unsafe {
            *(p.add(4) as *mut u32) = orig_len as u32;
            *(p.add(LEN_OFF) as *mut u64) = data.len() as u64;
            std::ptr::copy_nonoverlapping(data.as_ptr(), p.add(DATA_OFF), data.len());
        }
        RtAccount { mem }
    }
    pub fn data_len(&self) -> usize { unsafe { *((self.mem.as_ptr() as *const u8).add(LEN_OFF) as *const u64) as usize } }
    pub fn data(&self) -> Vec<u8> { let p = self.mem.as_ptr() as *const u8; unsafe { std::slice::from_raw_parts(p.add(DATA_OFF), self.data_len()).to_vec() } }
    pub fn info(&mut self) -> AccountInfo<'_> {
        let len = self.data_len();
        let p = self.mem.as_mut_ptr() as *mut u8;
        unsafe {
            let key = &*(p.add(KEY_OFF) as *const Pubkey);
            let owner = &*(p.add(OWNER_OFF) as *const Pubkey);
            let lamports = &mut *(p.add(LAMPORTS_OFF) as *mut u64);
            let data = std::slice::from_raw_parts_mut(p.add(DATA_OFF), len);
            AccountInfo::new(key, false, true, lamports, data, owner, false)
        }
    }
}

fn e(r: &ProgramError) -> String { format!("err|{}", err_code(r)) }

fn op_rpack<const D: u64>(acct: &mut RtAccount, rep: usize, v: &[u8]) -> Result<(), ProgramError> {
    let info = acct.info();
    if rep == 0 && v.len() % 2 == 0 {
        spl_type_length_value::state::realloc_and_pack_first_variable_len::<Raw<D>>(&info, &Raw::<D>(v.to_vec()))
    } else {
        realloc_and_pack_variable_len_with_repetition::<Raw<D>>(&info, &Raw::<D>(v.to_vec()), rep)
    }
}
fn op_allocpack<const D: u64>(buf: &mut [u8], allow: bool, v: &[u8]) -> Result<usize, ProgramError> {
    let mut st = TlvStateMut::unpack(buf)?;
    st.alloc_and_pack_variable_len_entry(&Raw::<D>(v.to_vec()), allow)
}
fn op_get<const D: u64>(buf: &[u8], rep: usize) -> Result<Vec<u8>, ProgramError> {
    let st = TlvStateBorrowed::unpack(buf)?;
    Ok(st.get_variable_len_value_with_repetition::<Raw<D>>(rep)?.0)
}

// ---- derived Borsh packers (struct, enum, generic with inline bounds) ----
#[derive(Clone, Debug, PartialEq, BorshSerialize, BorshDeserialize, SplDiscriminate, SplBorshVariableLenPack)]
#[discriminator_hash_input("verif::s1")]
pub struct S1 { a: u8, b: u64, s: String, v: Vec<u8>, o: Option<u32> }
#[derive(Clone, Debug, PartialEq, BorshSerialize, BorshDeserialize, SplDiscriminate, SplBorshVariableLenPack)]
#[discriminator_hash_input("verif::e1")]
pub enum E1 { A, B(u16), C { x: String, y: Option<u8> } }
#[derive(Clone, Debug, PartialEq, BorshSerialize, BorshDeserialize, SplDiscriminate, SplBorshVariableLenPack)]
#[discriminator_hash_input("verif::g1")]
pub struct G1<T> where T: BorshSerialize + BorshDeserialize { t: T, n: u32 }
// (generic items with inline bounds / const parameters are exercised in the macro-lab, where a
// compile failure is attributed to the item instead of breaking the whole harness)

fn bpack<V: VariableLenPack + BorshSerialize + PartialEq + std::fmt::Debug>(v: &V, slot: usize) -> (String, Option<String>) {
    let mut err = None;
    let expect = borsh::to_vec(v).unwrap();
    let plen = v.get_packed_len();
    let mut buf = vec![0xEEu8; slot];
    let pr = guarded(|| v.pack_into_slice(&mut buf));
    let s_len = match &plen { Ok(n) => format!("{n}"), Err(x) => e(x) };
    if plen.as_ref().ok() != Some(&expect.len()) { err = Some("get_packed_len is not the Borsh length".to_string()); }
    let s_pack = match &pr { None => "panic".to_string(), Some(Ok(())) => "ok".into(), Some(Err(_)) => "err".into() };
    let fits = expect.len() <= slot;
    match &pr {
        None => err = Some("pack_into_slice panicked".into()),
        Some(r) => {
            if r.is_ok() != fits { err = Some("pack_into_slice succeeds iff the value fits the slot: violated".into()); }
            let k = expect.len().min(slot);
            if buf[..k] != expect[..k] { err = Some("pack_into_slice did not write exactly the Borsh bytes".into()); }
            if buf[k..].iter().any(|&x| x != 0xEE) { err = Some("pack_into_slice wrote beyond the encoded length".into()); }
        }
    }
    let un = if fits { match guarded(|| V::unpack_from_slice(&buf)) { Some(Ok(x)) => { if x != *v { err = Some("unpack_from_slice of an oversized slot did not return the value".into()); } "ok".to_string() } Some(Err(x)) => { err = Some("unpack_from_slice failed on a slot holding the value".into()); e(&x) } None => { err = Some("unpack_from_slice panicked".into()); "panic".into() } } } else { "-".to_string() };
    (format!("len={s_len} pack={s_pack} slot={} unpack={un}", hex(&buf)), err)
}

pub fn run(cases: &[String]) -> RunOut {
    let mut out = RunOut::default();
    let mut acct: Option<RtAccount> = None;
    let mut shadow: Vec<(usize, Vec<u8>)> = vec![];
    let mut free0 = 0usize;
    let mut text = String::new();
    let mut interesting = false;
    for line in cases {
        let t: Vec<&str> = line.split_whitespace().collect();
        let mut err: Option<String> = None;
        let impl_line = match t[0] {
            "bpack" => {
                let slot: usize = t[t.len() - 1].parse().unwrap();
                let opt = |s: &str| -> Option<u64> { if s == "~" { None } else { Some(s.parse().unwrap()) } };
                let (s, er) = match t[1] {
                    "S1" => bpack(&S1 { a: t[2].parse().unwrap(), b: t[3].parse().unwrap(), s: String::from_utf8(unhex(t[4])).unwrap(), v: unhex(t[5]), o: opt(t[6]).map(|x| x as u32) }, slot),
                    "E1" => match t[2] { "A" => bpack(&E1::A, slot), "B" => bpack(&E1::B(t[3].parse().unwrap()), slot), _ => bpack(&E1::C { x: String::from_utf8(unhex(t[3])).unwrap(), y: opt(t[4]).map(|x| x as u8) }, slot) },
                    "G1" => bpack(&G1::<String> { t: String::from_utf8(unhex(t[2])).unwrap(), n: t[3].parse().unwrap() }, slot),
                    _ => panic!("bpack type"),
                };
                err = er;
                out.stats.nontrivial_case(line); out.stats.sample(line);
                out.stats.bump(&format!("bpack:{}", t[1]));
                s
            }
            "B" => {
                let n: usize = t[3].parse().unwrap();
                acct = Some(RtAccount::new(&vec![0u8; n], n));
                shadow.clear(); free0 = n; text = line.clone(); interesting = false;
                "begin".into()
            }
            "O" => {
                let a = acct.as_mut().unwrap();
                text.push_str(" ; "); text.push_str(line);
                let before = a.data();
                let s = match t[1] {
                    "allocpack" => {
                        let (tg, allow, v) = (t[2].parse::<usize>().unwrap(), t[3] == "1", unhex(t[4]));
                        let r = { let info = a.info(); let mut d = info.try_borrow_mut_data().unwrap(); guarded(|| with_tag!(tg, op_allocpack, &mut d[..], allow, &v)) };
                        if let Some(Ok(_)) = r { shadow.push((tg, v)); }
                        match r { None => "panic".into(), Some(Ok(rep)) => format!("ok {rep}"), Some(Err(x)) => e(&x) }
                    }
                    "rpack" => {
                        let (tg, rep, v) = (t[2].parse::<usize>().unwrap(), t[3].parse::<usize>().unwrap(), unhex(t[4]));
                        let r = guarded(|| with_tag!(tg, op_rpack, a, rep, &v));
                        let idx = shadow.iter().enumerate().filter(|(_, x)| x.0 == tg).nth(rep).map(|(i, _)| i);
                        let after_len = a.data_len();
                        match (&r, idx) {
                            (None, _) => err = Some("realloc_and_pack panicked".into()),
                            (Some(Ok(())), Some(i)) => {
                                let old = shadow[i].1.len();
                                if after_len as i64 - before.len() as i64 != v.len() as i64 - old as i64 { err = Some(format!("account size changed by {} but the encoded size changed by {}", after_len as i64 - before.len() as i64, v.len() as i64 - old as i64)); }
                                shadow[i].1 = v.clone();
                                if i + 1 != shadow.len() && v.len() != old { interesting = true; }
                            }
                            (Some(Ok(())), None) => err = Some("realloc_and_pack of a missing entry succeeded".into()),
                            (Some(Err(_)), Some(i)) => {
                                let old = shadow[i].1.len();
                                let within = before.len() + v.len().saturating_sub(old) <= free0 + 10240;
                                if within && v.len() <= u32::MAX as usize { err = Some("realloc_and_pack failed although the entry exists and the growth is within the limit".into()); }
                                if a.data() != before { err = Some("failed realloc_and_pack changed the account".into()); }
                            }
                            (Some(Err(_)), None) => if a.data() != before { err = Some("failed realloc_and_pack changed the account".into()); },
                        }
                        match r { None => "panic".into(), Some(Ok(())) => "ok".into(), Some(Err(x)) => e(&x) }
                    }
                    "get" => {
                        let (tg, rep) = (t[2].parse::<usize>().unwrap(), t[3].parse::<usize>().unwrap());
                        let d = a.data();
                        match guarded(|| with_tag!(tg, op_get, &d, rep)) { None => "panic".into(), Some(Ok(v)) => format!("ok {}", hex(&v)), Some(Err(x)) => e(&x) }
                    }
                    _ => panic!("op"),
                };
                // oracle: canonical encoding of the shadow list, spare tail zero and of constant size
                let d = a.data();
                let mut canon = vec![];
                for (tg, v) in &shadow { canon.extend(PALETTE[*tg].to_le_bytes()); canon.extend((v.len() as u32).to_le_bytes()); canon.extend(v); }
                if d.len() < canon.len() || d[..canon.len()] != canon[..] { err = Some("entries are not byte-identical to the logical list (some other entry changed)".into()); }
                else if d[canon.len()..].iter().any(|&x| x != 0) { err = Some("spare space at the end is not zero".into()); }
                out.stats.bump(&format!("op:{}:{}", t[1], s.split(' ').next().unwrap().split('|').next().unwrap()));
                format!("{s} len={} data={}", d.len(), hex(&d))
            }
            "E" => { if shadow.len() >= 2 && interesting { out.stats.nontrivial_case(&text); out.stats.sample(&text); } acct = None; "end".into() }
            other => panic!("unknown op {other}"),
        };
        out.push(demote_codes(&impl_line), err.map_or(Ok(()), Err));
    }
    out
}

pub fn generate(tier: &str, rng: &mut Rng) -> Vec<String> {
    let thorough = tier == "thorough";
    let mut v = vec![];
    let rs = |rng: &mut Rng| -> String { let n = rng.below(12) as usize; let s: String = (0..n).map(|_| crate::props::disc::rand_char(rng)).collect(); hex(s.as_bytes()) };
    for _ in 0..(if thorough { 100_000 } else { 900 }) {
        let slot_for = |rng: &mut Rng, approx: usize| -> usize { match rng.below(4) { 0 => approx, 1 => approx.saturating_sub(1 + rng.below(4) as usize), _ => approx + rng.below(20) as usize } };
        match rng.below(3) {
            0 => { let s = rs(rng); let vb = rng.below(10) as usize; let o = if rng.chance(1, 2) { "~".to_string() } else { (rng.next() as u32).to_string() }; let approx = 1 + 8 + 4 + (s.len() / 2).max(if s == "-" { 0 } else { 0 }) + 4 + vb + 1 + if o == "~" { 0 } else { 4 }; v.push(format!("bpack S1 {} {} {} {} {} {}", rng.byte(), rng.next(), s, hex(&rng.bytes(vb)), o, slot_for(rng, approx))); }
            1 => match rng.below(3) { 0 => v.push(format!("bpack E1 A {}", rng.below(4))), 1 => v.push(format!("bpack E1 B {} {}", rng.next() as u16, rng.below(6))), _ => { let s = rs(rng); let y = if rng.chance(1, 2) { "~".to_string() } else { rng.byte().to_string() }; v.push(format!("bpack E1 C {} {} {}", s, y, rng.below(30))); } },
            _ => { let s = rs(rng); v.push(format!("bpack G1 {} {} {}", s, rng.next() as u32, rng.below(30))); }
        }
    }
    for case in 0..(if thorough { 10_000 } else { 150 }) {
        let mut n = match rng.below(4) { 0 => rng.range(0, 40) as usize, _ => rng.range(40, 200) as usize };
        let mut sh: Vec<(usize, usize)> = vec![];
        let nent = rng.range(1, 5);
        // one account in five is exactly full (no spare byte behind the last entry), and in those the last entry is empty half
        // of the time: its 12-byte header then ends exactly at the end of the account data
        let exact = rng.chance(1, 5);
        let mut lens: Vec<usize> = (0..nent).map(|_| rng.below(20) as usize).collect();
        if exact { if rng.chance(1, 2) { *lens.last_mut().unwrap() = 0; } n = lens.iter().map(|l| 12 + l).sum(); }
        v.push(format!("B {case} acct {n}"));
        for l in lens { let tg = rng.below(4) as usize; v.push(format!("O allocpack {tg} 1 {}", hex(&rng.bytes(l)))); sh.push((tg, l)); }
        for _ in 0..rng.range(3, if thorough { 25 } else { 12 }) {
            let i = rng.below(sh.len() as u64) as usize;
            let (tg, old) = sh[i];
            let rep = sh[..i].iter().filter(|x| x.0 == tg).count();
            match rng.below(10) {
                0..=6 => { let l = match rng.below(6) { 0 => old, 1 => 0, 2 => old + rng.range(1, 40) as usize, 3 => old / 2, 4 => if rng.chance(1, 6) { old + 10240 + rng.below(300) as usize } else { old + rng.range(1, 2000) as usize }, _ => rng.below(60) as usize }; v.push(format!("O rpack {tg} {rep} {}", hex(&rng.bytes(l)))); sh[i].1 = l; }
                7 => v.push(format!("O rpack {} {} {}", rng.below(8), rng.below(4), hex(&rng.bytes(5)))),
                _ => v.push(format!("O get {tg} {rep}")),
            }
        }
        for (i, x) in sh.iter().enumerate() { let rep = sh[..i].iter().filter(|y| y.0 == x.0).count(); v.push(format!("O get {} {rep}", x.0)); }
        v.push("E".into());
    }
    v
}
