//! C13 / C14 — Pod primitives and PodOption.
use crate::util::*;
use solana_address::Address;
use solana_program_option::COption;
use spl_pod::bytemuck::{pod_bytes_of, pod_from_bytes, pod_from_bytes_mut, pod_maybe_from_bytes, pod_slice_from_bytes, pod_slice_from_bytes_mut, pod_slice_to_bytes};
use spl_pod::option::{Nullable, PodOption};
use spl_pod::primitives::*;

macro_rules! int_case {
    ($P:ty, $I:ty, $n:expr, $borsh:expr) => {{
        let n: $I = $n;
        let pod = <$P>::from(n);
        let bytes = pod_bytes_of(&pod).to_vec();
        let back: $I = pod.into();
        let json = serde_json::to_string(&pod).unwrap();
        let win = wincode::serialize(&pod).unwrap();
        let borsh_s: Option<Vec<u8>> = $borsh(&pod);
        let mut err: Option<String> = None;
        // beyond what the property states (decoders, helper functions): recorded as fidelity notes only
        let mut notes: Vec<&str> = vec![];
        if bytes != n.to_le_bytes().to_vec() { err = Some("in-memory bytes differ from to_le_bytes".into()); }
        if back != n { err = Some("primitive -> Pod -> primitive is not the identity".into()); }
        if json != serde_json::to_string(&n).unwrap() { err = Some("serde encoding differs from the primitive's".into()); }
        if serde_json::from_str::<$P>(&json).ok() != Some(pod) { notes.push("serde decoder does not read back what the encoder wrote"); }
        // Serde is a data model, not a format: in a fixed-width binary format the width the type announces shows, in JSON it does not
        match (guarded(|| bincode::serialize(&pod).ok()), bincode::serialize(&n).ok()) {
            (Some(a), b) => { if a != b { err = Some("serde encoding in a fixed-width binary format differs from the primitive's".into()); }
                              if let Some(a) = &a { if bincode::deserialize::<$P>(a).ok() != Some(pod) { notes.push("binary serde decoder does not read back what the encoder wrote"); } } }
            (None, _) => err = Some("serde encoding in a binary format panicked".into()),
        }
        if win != wincode::serialize(&n).unwrap() { err = Some("wincode encoding differs from the primitive's".into()); }
        if wincode::deserialize::<$P>(&win).ok() != Some(pod) { notes.push("wincode decoder does not read back what the encoder wrote"); }
        if pod_from_bytes::<$P>(&bytes).ok() != Some(&pod) { err = Some("byte cast of own bytes failed".into()); }
        BORSH_NOTES.with(|n| for x in n.borrow_mut().drain(..) { if !notes.contains(&x) { notes.push(x); } });
        if spl_pod::bytemuck::pod_get_packed_len::<$P>() != bytes.len() { notes.push("pod_get_packed_len differs from the width"); }
        (
            format!("bytes={} back={} borsh={} json={} wincode={}{}", hex(&bytes), back,
                borsh_s.as_ref().map_or("na".to_string(), |b| hex(b)), json, hex(&win),
                if notes.is_empty() { String::new() } else { format!(" | note: {}", notes.join("; ")) }),
            err,
            borsh_s,
        )
    }};
}

fn no_borsh<T>(_: &T) -> Option<Vec<u8>> { None }
/// a reader that hands out one byte per `read` call (a socket, a small `BufReader`): decoders must use `read_exact`
struct OneByte<'a>(&'a [u8]);
impl<'a> borsh::io::Read for OneByte<'a> {
    fn read(&mut self, buf: &mut [u8]) -> borsh::io::Result<usize> {
        if buf.is_empty() || self.0.is_empty() { return Ok(0); }
        buf[0] = self.0[0]; self.0 = &self.0[1..]; Ok(1)
    }
}
thread_local! { static BORSH_NOTES: std::cell::RefCell<Vec<&'static str>> = std::cell::RefCell::new(vec![]); }
fn yes_borsh<T: borsh::BorshSerialize + borsh::BorshDeserialize + PartialEq>(t: &T) -> Option<Vec<u8>> {
    let b = borsh::to_vec(t).unwrap();
    // the decoders are exercised too (coverage), but what they return is not part of the property: differences are notes
    if guarded(|| borsh::from_slice::<T>(&b).ok().map_or(false, |x| x == *t)) != Some(true) { BORSH_NOTES.with(|n| n.borrow_mut().push("borsh decoder does not read back what the encoder wrote")); }
    if guarded(|| T::deserialize_reader(&mut OneByte(&b)).ok().map_or(false, |x| x == *t)) != Some(true) { BORSH_NOTES.with(|n| n.borrow_mut().push("borsh decoder fails on a reader that delivers the bytes one at a time")); }
    Some(b)
}

fn width(ty: &str) -> usize {
    match ty { "u16" | "i16" => 2, "u32" => 4, "u64" | "i64" => 8, "u128" => 16, "bool" => 1, _ => panic!("type {ty}") }
}

macro_rules! cast_case {
    ($P:ty, $I:ty, $b:expr) => {{
        match pod_from_bytes::<$P>($b) {
            Ok(p) => {
                let alias = (p as *const $P as *const u8) == $b.as_ptr();
                (format!("ok {}", <$I>::from(*p)), alias)
            }
            Err(_) => ("err".to_string(), true),
        }
    }};
}
macro_rules! cast_mut_case {
    ($P:ty, $I:ty, $b:expr) => {{
        let mut copy: Vec<u8> = $b.to_vec();
        let base = copy.as_ptr();
        match pod_from_bytes_mut::<$P>(&mut copy[..]) {
            Ok(p) => {
                let alias = (p as *const $P as *const u8) == base;
                (format!("ok {}", <$I>::from(*p)), alias)
            }
            Err(_) => ("err".to_string(), true),
        }
    }};
}
macro_rules! slice_mut_case {
    ($P:ty, $I:ty, $b:expr) => {{
        let mut copy: Vec<u8> = $b.to_vec();
        let base = copy.as_ptr();
        match pod_slice_from_bytes_mut::<$P>(&mut copy[..]) {
            Ok(s) => {
                let alias = (s.as_ptr() as *const u8) == base;
                let vals: Vec<String> = s.iter().map(|p| <$I>::from(*p).to_string()).collect();
                (format!("ok {} {}", s.len(), if vals.is_empty() { "-".to_string() } else { vals.join(",") }), alias)
            }
            Err(_) => ("err".to_string(), true),
        }
    }};
}
macro_rules! slice_case {
    ($P:ty, $I:ty, $b:expr) => {{
        match pod_slice_from_bytes::<$P>($b) {
            Ok(s) => {
                let alias = (s.as_ptr() as *const u8) == $b.as_ptr() && pod_slice_to_bytes(s) == $b;
                let vals: Vec<String> = s.iter().map(|p| <$I>::from(*p).to_string()).collect();
                (format!("ok {} {}", s.len(), if vals.is_empty() { "-".to_string() } else { vals.join(",") }), alias)
            }
            Err(_) => ("err".to_string(), true),
        }
    }};
}
macro_rules! usize_case {
    ($P:ty, $n:expr) => {{
        match <$P>::try_from($n) {
            Ok(p) => format!("ok {} {}", hex(pod_bytes_of(&p)), usize::from(p)),
            Err(_) => "err".to_string(),
        }
    }};
}

fn run_c13(t: &[&str], out: &mut RunOut, line: &str) {
    let mut nontrivial = false;
    let (impl_line, err): (String, Option<String>) = match t[0] {
        "int" => {
            let ty = t[1];
            let (s, mut err, borsh_s) = match ty {
                "u16" => int_case!(PodU16, u16, t[2].parse().unwrap(), no_borsh),
                "i16" => int_case!(PodI16, i16, t[2].parse().unwrap(), no_borsh),
                "u32" => int_case!(PodU32, u32, t[2].parse().unwrap(), yes_borsh),
                "u64" => int_case!(PodU64, u64, t[2].parse().unwrap(), yes_borsh),
                "i64" => int_case!(PodI64, i64, t[2].parse().unwrap(), no_borsh),
                "u128" => int_case!(PodU128, u128, t[2].parse().unwrap(), yes_borsh),
                _ => panic!("type"),
            };
            if let Some(b) = borsh_s {
                let prim = match ty {
                    "u32" => borsh::to_vec(&t[2].parse::<u32>().unwrap()).unwrap(),
                    "u64" => borsh::to_vec(&t[2].parse::<u64>().unwrap()).unwrap(),
                    _ => borsh::to_vec(&t[2].parse::<u128>().unwrap()).unwrap(),
                };
                if b != prim { err = Some("borsh encoding differs from the primitive's".into()); }
            }
            nontrivial = !matches!(t[2], "0" | "1" | "-1");
            out.stats.bump(&format!("int:{ty}"));
            (s, err)
        }
        "bool" => {
            let x: u8 = t[1].parse().unwrap();
            let p = *pod_from_bytes::<PodBool>(&[x]).unwrap();
            let read: bool = p.into();
            let w = PodBool::from_bool(read);
            let json = serde_json::to_string(&p).unwrap();
            let win = wincode::serialize(&w).unwrap();
            let mut err = None;
            if read != (x != 0) { err = Some("non-zero byte does not read as true".to_string()); }
            if w.0 != (read as u8) { err = Some("bool not written as 0/1".into()); }
            if bool::from(w) != read { err = Some("bool round trip".into()); }
            if json != serde_json::to_string(&read).unwrap() { err = Some("serde encoding differs from bool's".into()); }
            if bincode::serialize(&p).ok() != bincode::serialize(&read).ok() { err = Some("serde encoding in a fixed-width binary format differs from bool's".into()); }
            let mut notes: Vec<&str> = vec![];
            if serde_json::from_str::<PodBool>(&json).ok() != Some(w) { notes.push("serde decoder does not read back what the encoder wrote"); }
            if win != wincode::serialize(&read).unwrap() { err = Some("wincode encoding differs from bool's".into()); }
            if wincode::deserialize::<PodBool>(&win).ok() != Some(w) { notes.push("wincode decoder does not read back what the encoder wrote"); }
            // the by-reference conversions must agree with the by-value ones
            let read_ref: bool = bool::from(&p);
            let w_ref = PodBool::from(&read);
            if read_ref != read { err = Some("by-reference PodBool -> bool disagrees with the by-value conversion".into()); }
            if w_ref != w || PodBool::from(read) != w { err = Some("From<&bool> / From<bool> disagree with from_bool".into()); }
            nontrivial = x > 1;
            out.stats.bump("bool");
            (format!("read={} write={} json={} wincode={}{}{}", read as u8, w.0, json, hex(&win),
                if read_ref != read { format!(" byref={}", read_ref as u8) } else { String::new() },
                if notes.is_empty() { String::new() } else { format!(" | note: {}", notes.join("; ")) }), err)
        }
        "cast" => {
            // Pod types are align-1: the cast must not care where the bytes sit
            let raw = unhex(t[2]);
            let placed = Placed::new(&raw, (raw.len() + raw.first().copied().unwrap_or(0) as usize) % 8);
            let b: Vec<u8> = raw.clone();
            let b_at: &[u8] = placed.get();
            let (s, alias) = match t[1] {
                "u16" => cast_case!(PodU16, u16, b_at),
                "i16" => cast_case!(PodI16, i16, b_at),
                "u32" => cast_case!(PodU32, u32, b_at),
                "u64" => cast_case!(PodU64, u64, b_at),
                "i64" => cast_case!(PodI64, i64, b_at),
                "u128" => cast_case!(PodU128, u128, b_at),
                "bool" => match pod_from_bytes::<PodBool>(b_at) { Ok(p) => (format!("ok {}", bool::from(*p) as u8), true), Err(_) => ("err".into(), true) },
                _ => panic!("type"),
            };
            // the mutable twin must behave identically (same length rule, same value, aliasing)
            let (sm, alias_m) = match t[1] {
                "u16" => cast_mut_case!(PodU16, u16, &b[..]),
                "i16" => cast_mut_case!(PodI16, i16, &b[..]),
                "u32" => cast_mut_case!(PodU32, u32, &b[..]),
                "u64" => cast_mut_case!(PodU64, u64, &b[..]),
                "i64" => cast_mut_case!(PodI64, i64, &b[..]),
                "u128" => cast_mut_case!(PodU128, u128, &b[..]),
                "bool" => { let mut c = b.clone(); match pod_from_bytes_mut::<PodBool>(&mut c) { Ok(p) => (format!("ok {}", bool::from(*p) as u8), true), Err(_) => ("err".into(), true) } },
                _ => panic!("type"),
            };
            let mut err = None;
            if s.starts_with("ok") != (b.len() == width(t[1])) { err = Some("cast succeeds iff the length matches: violated".to_string()); }
            if sm.starts_with("ok") != (b.len() == width(t[1])) { err = Some("mutable cast succeeds iff the length matches: violated".to_string()); }
            if !alias || !alias_m { err = Some("cast does not alias the input bytes".into()); }
            let s = if sm == s { s } else { format!("{s} mut={sm}") };
            // pod_maybe_from_bytes: None on empty, else same as pod_from_bytes
            if t[1] == "u64" {
                let m = pod_maybe_from_bytes::<PodU64>(&b);
                // empty input is the helper's own convention (documented: Ok(None)); the property speaks about non-empty casts
                let ok = if b.is_empty() { !matches!(m, Ok(Some(_))) } else { m.is_ok() == (b.len() == 8) && m.ok().flatten().is_some() == (b.len() == 8) };
                if !ok { err = Some("pod_maybe_from_bytes disagrees with its contract".into()); }
            }
            nontrivial = !b.is_empty();
            out.stats.bump(&format!("cast:{}", if s.starts_with("ok") { "ok" } else { "err" }));
            (s, err)
        }
        "slice" => {
            let b = unhex(t[2]);
            let placed = Placed::new(&b, (b.len() + b.first().copied().unwrap_or(0) as usize) % 8);
            let b_at: &[u8] = placed.get();
            let (s, alias) = match t[1] {
                "u16" => slice_case!(PodU16, u16, b_at),
                "i16" => slice_case!(PodI16, i16, b_at),
                "u32" => slice_case!(PodU32, u32, b_at),
                "u64" => slice_case!(PodU64, u64, b_at),
                "i64" => slice_case!(PodI64, i64, b_at),
                "u128" => slice_case!(PodU128, u128, b_at),
                _ => panic!("type"),
            };
            let (sm, alias_m) = match t[1] {
                "u16" => slice_mut_case!(PodU16, u16, &b[..]),
                "i16" => slice_mut_case!(PodI16, i16, &b[..]),
                "u32" => slice_mut_case!(PodU32, u32, &b[..]),
                "u64" => slice_mut_case!(PodU64, u64, &b[..]),
                "i64" => slice_mut_case!(PodI64, i64, &b[..]),
                "u128" => slice_mut_case!(PodU128, u128, &b[..]),
                _ => panic!("type"),
            };
            let mut err = None;
            if s.starts_with("ok") != (b.len() % width(t[1]) == 0) { err = Some("slice cast succeeds iff the length is a whole multiple: violated".to_string()); }
            if sm.starts_with("ok") != (b.len() % width(t[1]) == 0) { err = Some("mutable slice cast succeeds iff the length is a whole multiple: violated".to_string()); }
            if !alias || !alias_m { err = Some("slice cast does not alias the input bytes".into()); }
            let s = if sm == s { s } else { format!("{s} mut={sm}") };
            nontrivial = !b.is_empty();
            out.stats.bump(&format!("slice:{}", if s.starts_with("ok") { "ok" } else { "err" }));
            (s, err)
        }
        "usize" => {
            let n: usize = t[2].parse().unwrap();
            let s = match t[1] {
                "u16" => usize_case!(PodU16, n),
                "u32" => usize_case!(PodU32, n),
                "u64" => usize_case!(PodU64, n),
                "u128" => usize_case!(PodU128, n),
                _ => panic!("type"),
            };
            let fits = (n as u128) < (1u128 << (8 * width(t[1]).min(15))) || width(t[1]) >= 8;
            let mut err = None;
            if s.starts_with("ok") != fits { err = Some("usize conversion succeeds iff the value fits: violated".to_string()); }
            if s.starts_with("ok") && !s.ends_with(&format!(" {n}")) { err = Some("usize conversion does not round-trip".into()); }
            nontrivial = n > 1;
            out.stats.bump(&format!("usize:{}", if s.starts_with("ok") { "ok" } else { "err" }));
            (s, err)
        }
        "tousize" => {
            let b = unhex(t[2]);
            let r = guarded(|| match t[1] {
                "u16" => usize::from(*pod_from_bytes::<PodU16>(&b).unwrap()),
                "u32" => usize::from(*pod_from_bytes::<PodU32>(&b).unwrap()),
                "u64" => usize::from(*pod_from_bytes::<PodU64>(&b).unwrap()),
                "u128" => usize::from(*pod_from_bytes::<PodU128>(&b).unwrap()),
                _ => panic!("type"),
            });
            nontrivial = true;
            out.stats.bump("tousize");
            match r {
                Some(v) => {
                    let mut le = [0u8; 16];
                    le[..b.len()].copy_from_slice(&b);
                    let full = u128::from_le_bytes(le);
                    let err = if full <= usize::MAX as u128 && v as u128 != full { Some("Pod -> usize changed an in-range value".to_string()) } else { None };
                    (format!("ok {v}"), err)
                }
                None => ("panic".to_string(), Some("Pod -> usize panicked".to_string())),
            }
        }
        other => panic!("unknown op {other}"),
    };
    if nontrivial { out.stats.nontrivial_case(line); out.stats.sample(line); }
    out.push(impl_line, err.map_or(Ok(()), Err));
}

/// A 64-bit integer wrapper with 0 as the none value (second instantiation of PodOption).
#[derive(serde::Serialize, serde::Deserialize, PartialEq, Debug)]
struct FlatInner { key: PodOption<Address> }
#[derive(serde::Serialize, serde::Deserialize, PartialEq, Debug)]
struct FlatOuter { tag: u8, #[serde(flatten)] inner: FlatInner }
#[derive(serde::Serialize, serde::Deserialize, PartialEq, Debug)]
#[serde(tag = "kind")]
enum Tagged { A { key: PodOption<Address> } }
#[derive(serde::Serialize, serde::Deserialize, PartialEq, Debug)]
#[serde(untagged)]
enum Untagged { A { key: PodOption<Address> } }

#[derive(Clone, Copy, Debug, PartialEq, Eq, borsh::BorshSerialize, borsh::BorshDeserialize, serde::Serialize, serde::Deserialize)]
struct NzU64(u64);
impl Nullable for NzU64 {
    const NONE: Self = NzU64(0);
}

/// a wrapped type whose none value is NOT its `Default` (and not all-zero bytes): "the default is none", "reads as none
/// exactly when its bytes equal the designated none value" must hold for it as for the zero-none types
#[derive(Clone, Copy, Debug, Default, PartialEq, Eq, borsh::BorshSerialize, borsh::BorshDeserialize, serde::Serialize, serde::Deserialize)]
struct MaxNone(u64);
impl Nullable for MaxNone {
    const NONE: Self = MaxNone(u64::MAX);
}

fn run_c14(t: &[&str], out: &mut RunOut, line: &str) {
    // optaddr <tag: none|some> <32-byte hex>      optu64 <tag> <n>
    let (impl_line, err): (String, Option<String>) = match t[0] {
        "optaddr" => {
            let raw: [u8; 32] = unhex(t[2]).try_into().unwrap();
            let a = Address::new_from_array(raw);
            let is_none_val = raw == [0u8; 32];
            let mut err: Option<String> = None;
            // wrap: From<T>
            let po = PodOption::from(a);
            let got = po.get();
            let cgot: COption<Address> = po.into();
            let mem = bytemuck::bytes_of(&po).to_vec();
            let borsh_b = borsh::to_vec(&po).unwrap();
            let json = serde_json::to_string(&po).unwrap();
            if got.is_none() != is_none_val { err = Some("get() is none iff the bytes equal the none value: violated".into()); }
            if let Some(g) = got { if g != a { err = Some("get() returned a different value".into()); } }
            if matches!(cgot, COption::None) != is_none_val { err = Some("COption conversion disagrees".into()); }
            if po.as_ref().copied() != got || po.copied() != got || po.cloned() != got { err = Some("as_ref/copied/cloned disagree with get".into()); }
            { let mut pm = po; if pm.as_mut().map(|x| *x) != got { err = Some("as_mut disagrees with get".into()); } }
            if Option::<Address>::from(po) != got { err = Some("From<PodOption> for Option disagrees with get".into()); }
            if a.is_some() == is_none_val || a.is_none() != is_none_val { err = Some("Nullable::is_some / is_none disagree with the none value".into()); }
            if mem != raw.to_vec() { err = Some("memory encoding is not the wrapped value's".into()); }
            if borsh_b != borsh::to_vec(&a).unwrap() { err = Some("borsh encoding is not the wrapped value's".into()); }
            if is_none_val && json != "null" { err = Some("serde does not write none as null".into()); }
            let mut notes: Vec<&str> = vec![];
            if !is_none_val && json != serde_json::to_string(&a).unwrap() { notes.push("serde encoding of some differs from the value's"); }
            // the property quantifies the round trip "into it and back is the identity" over the conversion paths Option, COption,
            // byte cast, Borsh and Serde: a value written through a path must come back through that path
            if borsh::from_slice::<PodOption<Address>>(&borsh_b).ok() != Some(po) { err = Some("Borsh round trip is not the identity".into()); }
            if serde_json::from_str::<PodOption<Address>>(&json).ok() != Some(po) { err = Some("Serde (JSON) round trip is not the identity".into()); }
            {
                // deserialising INTO an existing value (serde's `deserialize_in_place`, what `Vec::deserialize_in_place` does
                // with recycled elements): another way through the Serde path
                use serde::Deserialize;
                let mut place = PodOption::from(Address::new_from_array([0x5a; 32]));
                let mut de = serde_json::Deserializer::from_str(&json);
                let ok = PodOption::<Address>::deserialize_in_place(&mut de, &mut place).is_ok();
                if !ok || place != po { err = Some("Serde round trip through deserialize_in_place (over an existing value) is not the identity".into()); }
            }
            if bytemuck::try_from_bytes::<PodOption<Address>>(&raw).ok() != Some(&po) { err = Some("byte cast".into()); }
            // Serde deserialisers that buffer their input first (flatten, internally tagged and untagged enums) hand the
            // value over through other visitor callbacks (a null arrives as `unit`): a valid option must come back from them too
            {
                let f = FlatOuter { tag: 7, inner: FlatInner { key: po } };
                let ok_f = serde_json::to_string(&f).ok().and_then(|j| serde_json::from_str::<FlatOuter>(&j).ok()) == Some(f);
                let g = Tagged::A { key: po };
                let ok_g = serde_json::to_string(&g).ok().and_then(|j| serde_json::from_str::<Tagged>(&j).ok()) == Some(g);
                let u = Untagged::A { key: po };
                let ok_u = serde_json::to_string(&u).ok().and_then(|j| serde_json::from_str::<Untagged>(&j).ok()) == Some(u);
                if !(ok_f && ok_g && ok_u) {
                    if is_none_val { err = Some("a Serde deserialiser that buffers its input (flatten / tagged / untagged enum) rejects the null that Serde wrote for none".into()); }
                    else { err = Some("Serde round trip through a buffering deserialiser (flatten / tagged / untagged enum) is not the identity".into()); }
                }
            }
            // TryFrom<Option>, TryFrom<COption>
            let o: Option<Address> = if t[1] == "some" { Some(a) } else { None };
            let co: COption<Address> = if t[1] == "some" { COption::Some(a) } else { COption::None };
            let r1 = PodOption::try_from(o);
            let r2 = PodOption::try_from(co);
            let reject = t[1] == "some" && is_none_val;
            if r1.is_err() != reject || r2.is_err() != reject { err = Some("the only rejected input is some(none-value): violated".into()); }
            if let Ok(p) = r1 { if p.get() != o { err = Some("Option round trip is not the identity".into()); } }
            if let Ok(p) = r2 { if COption::<Address>::from(p) != co { err = Some("COption round trip is not the identity".into()); } }
            // serde must reject some(none-value): JSON of Some(zero address) fed to the PodOption deserialiser
            let sj = serde_json::to_string(&o).unwrap();
            let de = serde_json::from_str::<PodOption<Address>>(&sj);
            if de.is_err() != reject { err = Some("serde deserialiser accepts some(none-value) or rejects a valid option".into()); }
            // the same through a binary (not human-readable) serde format: bincode's explicit option tag
            let bo = bincode::serialize(&o).unwrap();
            let bde = bincode::deserialize::<PodOption<Address>>(&bo);
            if bde.is_err() != reject { err = Some("binary serde deserialiser accepts some(none-value) or rejects a valid option".into()); }
            if let Ok(p) = &bde { if p.get() != o { err = Some("Serde (binary) round trip is not the identity".into()); } }
            if !reject && bincode::deserialize::<PodOption<Address>>(&bincode::serialize(&po).unwrap()).ok() != Some(po) { err = Some("Serde (binary) round trip of the PodOption itself is not the identity".into()); }
            // "Serde writes none as null": in a format that tells unit / none / some apart, none must be Serde's `none`
            if is_none_val && bincode::serialize(&po).unwrap() != bincode::serialize(&None::<Address>).unwrap() { err = Some("Serde does not write none as `none` (null) in a binary format".into()); }
            if !is_none_val && bincode::serialize(&po).unwrap() != bincode::serialize(&got).unwrap() { notes.push("binary serde encoding of some differs from Option's"); }
            if PodOption::<Address>::default().get().is_some() { err = Some("default is not none".into()); }
            out.stats.bump(&format!("optaddr:{}:{}", t[1], if is_none_val { "noneval" } else { "val" }));
            (format!("get={} try={} mem={} json_null={} de={} bin={}", got.map_or("none".to_string(), |g| hex(g.as_ref())),
                match r1 { Ok(p) => format!("ok:{}", hex(bytemuck::bytes_of(&p))), Err(_) => "err".into() }, hex(&mem), (json == "null") as u8,
                if de.is_ok() { "ok" } else { "err" }, if bde.is_ok() { "ok" } else { "err" }).to_string()
                + &(if notes.is_empty() { String::new() } else { format!(" | note: {}", notes.join("; ")) }), err)
        }
        "optu64" => {
            let n: u64 = t[2].parse().unwrap();
            let v = NzU64(n);
            let mut err: Option<String> = None;
            let po = PodOption::from(v);
            let got = po.get();
            if got.is_none() != (n == 0) { err = Some("get() is none iff value == none value: violated".into()); }
            let o = if t[1] == "some" { Some(v) } else { None };
            let r1 = PodOption::try_from(o);
            let r2 = PodOption::try_from(if t[1] == "some" { COption::Some(v) } else { COption::None });
            let reject = t[1] == "some" && n == 0;
            if r1.is_err() != reject || r2.is_err() != reject { err = Some("the only rejected input is some(none-value): violated".into()); }
            if let Ok(p) = r1 { if p.get() != o { err = Some("Option round trip is not the identity".into()); } }
            let borsh_b = borsh::to_vec(&po).unwrap();
            if borsh_b != borsh::to_vec(&v).unwrap() { err = Some("borsh encoding is not the wrapped value's".into()); }
            let json = serde_json::to_string(&po).unwrap();
            if (n == 0) != (json == "null") { err = Some("serde none <-> null violated".into()); }
            let de = serde_json::from_str::<PodOption<NzU64>>(&serde_json::to_string(&o).unwrap());
            if de.is_err() != reject { err = Some("serde deserialiser accepts some(none-value) or rejects a valid option".into()); }
            if n == 0 && bincode::serialize(&po).unwrap() != bincode::serialize(&None::<NzU64>).unwrap() { err = Some("Serde does not write none as `none` (null) in a binary format".into()); }
            let bde = bincode::deserialize::<PodOption<NzU64>>(&bincode::serialize(&o).unwrap());
            if bde.is_err() != reject { err = Some("binary serde deserialiser accepts some(none-value) or rejects a valid option".into()); }
            {
                // the same clauses for a type whose none value is u64::MAX and whose Default is 0
                let m = MaxNone(n ^ u64::MAX);          // n == 0 <-> the none value
                let pm = PodOption::from(m);
                if pm.get().is_none() != (n == 0) { err = Some("a type with a non-zero none value: get() is none iff value == none value: violated".into()); }
                if PodOption::<MaxNone>::default().get().is_some() { err = Some("the default is not none (for a wrapped type whose none value differs from its Default)".into()); }
                let om = if t[1] == "some" { Some(m) } else { None };
                let rm = PodOption::try_from(om);
                if rm.is_err() != reject { err = Some("a type with a non-zero none value: the only rejected input is some(none-value): violated".into()); }
                if let Ok(p) = rm { if p.get() != om { err = Some("a type with a non-zero none value: Option round trip is not the identity".into()); } }
                if (n == 0) != (serde_json::to_string(&pm).unwrap() == "null") { err = Some("a type with a non-zero none value: serde none <-> null violated".into()); }
            }
            out.stats.bump(&format!("optu64:{}:{}", t[1], if n == 0 { "noneval" } else { "val" }));
            (format!("get={} try={} mem={} json_null={} de={} bin={}", got.map_or("none".to_string(), |g| hex(&g.0.to_le_bytes())),
                match r1 { Ok(p) => format!("ok:{}", hex(&borsh::to_vec(&p).unwrap())), Err(_) => "err".into() }, hex(&borsh_b), (json == "null") as u8,
                if de.is_ok() { "ok" } else { "err" }, if bde.is_ok() { "ok" } else { "err" }), err)
        }
        other => panic!("unknown op {other}"),
    };
    if t[2] != "0" && !t[2].chars().all(|c| c == '0') { out.stats.nontrivial_case(line); out.stats.sample(line); }
    out.push(impl_line, err.map_or(Ok(()), Err));
}

pub fn run(prop: &str, cases: &[String]) -> RunOut {
    let mut out = RunOut::default();
    for line in cases {
        let t: Vec<&str> = line.split_whitespace().collect();
        if prop == "C13" { run_c13(&t, &mut out, line) } else { run_c14(&t, &mut out, line) }
    }
    if prop == "C13" && cases.iter().any(|l| l == "bool 255") && std::env::var("VERIF_U32_EXHAUSTIVE").is_ok() {
        // thorough tier: all 2^32 values of u32 against the in-harness oracle (not through the model)
        let mut bad = 0u64;
        for n in 0..=u32::MAX {
            let p = PodU32::from(n);
            if p.0 != n.to_le_bytes() || u32::from(p) != n { bad += 1; }
        }
        *out.stats.hist.entry("u32_exhaustive_checked".into()).or_insert(0) = 1u64 << 32;
        *out.stats.hist.entry("u32_exhaustive_bad".into()).or_insert(0) = bad;
        out.stats.oracle_fail += bad;
    }
    out
}

fn rand_n(rng: &mut Rng, bits: u32) -> u128 {
    let full = ((rng.next() as u128) << 64) | rng.next() as u128;
    let max = if bits == 128 { u128::MAX } else { (1u128 << bits) - 1 };
    match rng.below(8) {
        0 => 0,
        1 => max,
        2 => max >> 1,
        3 => (max >> 1) + 1,
        4 => 1u128 << rng.below(bits as u64),
        5 => (full & max) >> rng.below(bits as u64),
        _ => full & max,
    }
}

pub fn generate_c13(tier: &str, rng: &mut Rng) -> Vec<String> {
    let thorough = tier == "thorough";
    let mut v = Vec::new();
    for x in 0..=255u32 { v.push(format!("bool {x}")); }
    // u16 / i16 exhaustively
    let step = if thorough { 1 } else { 1 };
    for n in (0..=u16::MAX as u32).step_by(step) { v.push(format!("int u16 {n}")); }
    for n in (i16::MIN as i32..=i16::MAX as i32).step_by(step) { v.push(format!("int i16 {n}")); }
    let n_rand = if thorough { 1_500_000 } else { 6_000 };
    for _ in 0..n_rand {
        match rng.below(4) {
            0 => v.push(format!("int u32 {}", rand_n(rng, 32))),
            1 => v.push(format!("int u64 {}", rand_n(rng, 64))),
            2 => v.push(format!("int i64 {}", rand_n(rng, 64) as u64 as i64)),
            _ => v.push(format!("int u128 {}", rand_n(rng, 128))),
        }
    }
    let tys = ["u16", "i16", "u32", "u64", "i64", "u128"];
    for ty in tys.iter().chain(["bool"].iter()) {
        for len in 0..=64usize {
            let b = rng.bytes(len);
            v.push(format!("cast {ty} {}", hex(&b)));
            if *ty != "bool" { v.push(format!("slice {ty} {}", hex(&b))); }
        }
    }
    for ty in ["u16", "u32", "u64", "u128"] {
        for n in [0u64, 1, 42, 65534, 65535, 65536, 65537, u32::MAX as u64 - 1, u32::MAX as u64, u32::MAX as u64 + 1, u64::MAX - 1, u64::MAX] {
            v.push(format!("usize {ty} {n}"));
        }
        for _ in 0..(if thorough { 20_000 } else { 300 }) {
            v.push(format!("usize {ty} {}", rand_n(rng, 64)));
        }
        let w = width(ty);
        // C13 only speaks about values that fit a machine-size integer; what a 128-bit value above
        // usize::MAX converts to is C10's business (list-view length prefix), not C13's
        if w <= 8 { v.push(format!("tousize {ty} {}", hex(&vec![0xffu8; w]))); }
        for _ in 0..(if thorough { 5_000 } else { 100 }) {
            let mut b = rng.bytes(w);
            if w == 16 { for x in b[8..].iter_mut() { *x = 0; } }
            v.push(format!("tousize {ty} {}", hex(&b)));
        }
    }
    v
}

pub fn generate_c14(tier: &str, rng: &mut Rng) -> Vec<String> {
    let thorough = tier == "thorough";
    let mut v = Vec::new();
    let zero = [0u8; 32];
    for tag in ["some", "none"] {
        v.push(format!("optaddr {tag} {}", hex(&zero)));
        // all 256 single-bit patterns
        for bit in 0..256usize {
            let mut k = zero;
            k[bit / 8] = 1 << (bit % 8);
            v.push(format!("optaddr {tag} {}", hex(&k)));
        }
        // differs from the none value only in one late byte
        for i in 24..32usize {
            let mut k = zero;
            k[i] = rng.byte() | 1;
            v.push(format!("optaddr {tag} {}", hex(&k)));
        }
        v.push(format!("optu64 {tag} 0"));
        for bit in 0..64 { v.push(format!("optu64 {tag} {}", 1u64 << bit)); }
    }
    for _ in 0..(if thorough { 400_000 } else { 3_000 }) {
        let tag = if rng.chance(4, 5) { "some" } else { "none" };
        if rng.chance(1, 2) {
            let k = if rng.chance(1, 10) { zero } else { rng.key() };
            v.push(format!("optaddr {tag} {}", hex(&k)));
        } else {
            v.push(format!("optu64 {tag} {}", if rng.chance(1, 10) { 0 } else { rng.next() }));
        }
    }
    v
}
