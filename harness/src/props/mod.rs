use crate::util::{Rng, RunOut};

#[cfg(feature = "f_disc")]
pub mod disc;
#[cfg(feature = "f_errs")]
pub mod errs;
#[cfg(feature = "f_listview")]
pub mod listview;
#[cfg(feature = "f_pod")]
pub mod pod;
#[cfg(feature = "f_resolve")]
pub mod resolve;
#[cfg(feature = "f_seeds")]
pub mod seeds;
#[cfg(feature = "f_tlv")]
pub mod tlv;
#[cfg(feature = "f_token")]
pub mod token;
#[cfg(feature = "f_varlen")]
pub mod varlen;

pub fn generate(prop: &str, tier: &str, rng: &mut Rng) -> Vec<String> {
    match prop {
        #[cfg(feature = "f_token")]
        "C16" => token::generate_c16(tier, rng),
        #[cfg(feature = "f_token")]
        "C17" => token::generate_c17(tier, rng),
        #[cfg(feature = "f_pod")]
        "C13" => pod::generate_c13(tier, rng),
        #[cfg(feature = "f_disc")]
        "C18" => disc::generate(tier, rng),
        #[cfg(feature = "f_varlen")]
        "C15" => varlen::generate(tier, rng),
        #[cfg(feature = "f_resolve")]
        "C05" => resolve::generate_c05(tier, rng),
        #[cfg(feature = "f_resolve")]
        "C06" | "C08" => resolve::generate_c06_c08(prop, tier, rng),
        #[cfg(feature = "f_resolve")]
        "C07" => resolve::generate_c07(tier, rng),
        #[cfg(feature = "f_resolve")]
        "C12" => resolve::generate_c12(tier, rng),
        #[cfg(feature = "f_tlv")]
        "C02" => tlv::generate_c02(tier, rng),
        #[cfg(feature = "f_tlv")]
        "C01" | "C03" | "C04" => tlv::generate_hist(prop, tier, rng),
        #[cfg(feature = "f_listview")]
        "C09" => listview::generate_c09(tier, rng),
        #[cfg(feature = "f_listview")]
        "C10" => listview::generate_c10(tier, rng),
        #[cfg(feature = "f_seeds")]
        "C11" => seeds::generate(tier, rng),
        #[cfg(feature = "f_errs")]
        "C19" => errs::generate(tier, rng),
        #[cfg(feature = "f_pod")]
        "C14" => pod::generate_c14(tier, rng),
        _ => panic!("property {prop}: unknown, or its stream family is not compiled in"),
    }
}

pub fn run(prop: &str, cases: &[String]) -> RunOut {
    match prop {
        #[cfg(feature = "f_token")]
        "C16" | "C17" => token::run(prop, cases),
        #[cfg(feature = "f_pod")]
        "C13" | "C14" => pod::run(prop, cases),
        #[cfg(feature = "f_disc")]
        "C18" => disc::run(cases),
        #[cfg(feature = "f_varlen")]
        "C15" => varlen::run(cases),
        #[cfg(feature = "f_resolve")]
        "C05" | "C06" | "C07" | "C08" | "C12" => resolve::run(prop, cases),
        #[cfg(feature = "f_tlv")]
        "C01" | "C02" | "C03" | "C04" => tlv::run(prop, cases),
        #[cfg(feature = "f_listview")]
        "C09" | "C10" => listview::run(prop, cases),
        #[cfg(feature = "f_seeds")]
        "C11" => seeds::run(cases),
        #[cfg(feature = "f_errs")]
        "C19" => errs::run(cases),
        _ => panic!("property {prop}: unknown, or its stream family is not compiled in"),
    }
}
