use crate::util::{Rng, RunOut};

pub mod disc;
pub mod errs;
pub mod listview;
pub mod pod;
pub mod resolve;
pub mod seeds;
pub mod tlv;
pub mod token;
pub mod varlen;

pub fn generate(prop: &str, tier: &str, rng: &mut Rng) -> Vec<String> {
    match prop {
        "C16" => token::generate_c16(tier, rng),
        "C17" => token::generate_c17(tier, rng),
        "C13" => pod::generate_c13(tier, rng),
        "C18" => disc::generate(tier, rng),
        "C15" => varlen::generate(tier, rng),
        "C05" => resolve::generate_c05(tier, rng),
        "C06" | "C08" => resolve::generate_c06_c08(prop, tier, rng),
        "C07" => resolve::generate_c07(tier, rng),
        "C12" => resolve::generate_c12(tier, rng),
        "C02" => tlv::generate_c02(tier, rng),
        "C01" | "C03" | "C04" => tlv::generate_hist(prop, tier, rng),
        "C09" => listview::generate_c09(tier, rng),
        "C10" => listview::generate_c10(tier, rng),
        "C11" => seeds::generate(tier, rng),
        "C19" => errs::generate(tier, rng),
        "C14" => pod::generate_c14(tier, rng),
        _ => panic!("unknown property {prop}"),
    }
}

pub fn run(prop: &str, cases: &[String]) -> RunOut {
    match prop {
        "C16" | "C17" => token::run(prop, cases),
        "C13" | "C14" => pod::run(prop, cases),
        "C18" => disc::run(cases),
        "C15" => varlen::run(cases),
        "C05" | "C06" | "C07" | "C08" | "C12" => resolve::run(prop, cases),
        "C01" | "C02" | "C03" | "C04" => tlv::run(prop, cases),
        "C09" | "C10" => listview::run(prop, cases),
        "C11" => seeds::run(cases),
        "C19" => errs::run(cases),
        _ => panic!("unknown property {prop}"),
    }
}
