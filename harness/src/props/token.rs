//! C16 / C17 — generic token parser: streams `tok` (arbitrary bytes x program ids) and
//! `tokref` (states packed by the reference codecs, extension tails, mutants).
use crate::util::*;
use solana_program_pack::Pack;
use solana_pubkey::Pubkey;
use spl_generic_token::generic_token;
use spl_token_2022_interface::extension::StateWithExtensions;
use spl_token_2022_interface::state::{Account as Account22, Mint as Mint22};
use spl_token_interface::state::{Account as SplAccount, AccountState, Mint as SplMint};
use std::str::FromStr;

fn token_id() -> Pubkey {
    Pubkey::from_str("TokenkegQfeZyiNwAJbNbGKPFXCWuBvf9Ss623VQ5DA").unwrap()
}
fn token22_id() -> Pubkey {
    Pubkey::from_str("TokenzQdBNbLqP5VEhdkAS6EPFLC1PHnBqCXEpPxuEb").unwrap()
}

fn fmt_acct(a: &Option<Option<generic_token::Account>>) -> String {
    match a {
        None => "panic".into(),
        Some(None) => "none".into(),
        Some(Some(a)) => format!("{}:{}:{}", hex(a.mint.as_ref()), hex(a.owner.as_ref()), a.amount),
    }
}
fn fmt_mint(m: &Option<Option<generic_token::Mint>>) -> String {
    match m {
        None => "panic".into(),
        Some(None) => "none".into(),
        Some(Some(m)) => format!("{}:{}", m.supply, m.decimals),
    }
}

/// The property's own statement of which buffers parse (independent of the repo's constants).
fn spec_account(d: &[u8], p: &Pubkey) -> Option<(Vec<u8>, Vec<u8>, u64)> {
    let init = d.len() > 108 && d[108] != 0;
    let ok = if *p == token_id() {
        d.len() == 165 && init
    } else if *p == token22_id() {
        init && (d.len() == 165 || (d.len() > 165 && d.len() != 355 && d[165] == 2))
    } else {
        false
    };
    if ok {
        Some((
            d[0..32].to_vec(),
            d[32..64].to_vec(),
            u64::from_le_bytes(d[64..72].try_into().unwrap()),
        ))
    } else {
        None
    }
}
fn spec_mint(d: &[u8], p: &Pubkey) -> Option<(u64, u8)> {
    let init = d.len() > 45 && d[45] != 0;
    let ok = if *p == token_id() {
        d.len() == 82 && init
    } else if *p == token22_id() {
        init && (d.len() == 82 || (d.len() > 165 && d.len() != 355 && d[165] == 1))
    } else {
        false
    };
    if ok {
        Some((u64::from_le_bytes(d[36..44].try_into().unwrap()), d[44]))
    } else {
        None
    }
}

fn run_tok(data: &[u8], prog: &[u8], out: &mut RunOut, line: &str) {
    let p = Pubkey::new_from_array(prog.try_into().expect("32-byte program id"));
    let a = guarded(|| generic_token::Account::unpack(data, &p));
    let m = guarded(|| generic_token::Mint::unpack(data, &p));
    let impl_line = format!("A={} M={}", fmt_acct(&a), fmt_mint(&m));
    // oracle: C17 stated directly
    let mut err = None;
    match (&a, &m) {
        (Some(a), Some(m)) => {
            if a.is_some() && m.is_some() {
                err = Some("parses as both account and mint".to_string());
            }
            let ea = spec_account(data, &p);
            let got_a = a.as_ref().map(|a| (a.mint.as_ref().to_vec(), a.owner.as_ref().to_vec(), a.amount));
            if got_a != ea {
                err = Some(format!("account: expected {:?}", ea.map(|x| (hex(&x.0), hex(&x.1), x.2))));
            }
            let em = spec_mint(data, &p);
            let got_m = m.as_ref().map(|m| (m.supply, m.decimals));
            if got_m != em {
                err = Some(format!("mint: expected {:?}", em));
            }
            let known = spl_generic_token::is_known_spl_token_id(&p);
            if known != (p == token_id() || p == token22_id()) {
                err = Some("is_known_spl_token_id disagrees with the two documented ids".into());
            }
        }
        _ => err = Some("panic".to_string()),
    }
    // the trait-level checked getters (what a caller uses who already knows the token program): each must be
    // total and return exactly the field the program-id-dispatching parser returns under that program's id
    {
        use spl_generic_token::token::{GenericTokenAccount, GenericTokenMint};
        let tr = guarded(|| {
            let t_a = generic_token::Account::unpack(data, &token_id());
            let x_a = generic_token::Account::unpack(data, &token22_id());
            let t_m = generic_token::Mint::unpack(data, &token_id());
            let x_m = generic_token::Mint::unpack(data, &token22_id());
            let mut bad: Option<&'static str> = None;
            type TA = spl_generic_token::token::Account; type XA = spl_generic_token::token_2022::Account;
            type TM = spl_generic_token::token::Mint; type XM = spl_generic_token::token_2022::Mint;
            if TA::unpack_account_mint(data).copied() != t_a.as_ref().map(|a| a.mint) || TA::unpack_account_owner(data).copied() != t_a.as_ref().map(|a| a.owner)
                || TA::unpack_account_amount(data) != t_a.as_ref().map(|a| a.amount) { bad = Some("token::Account checked getters disagree with the parser"); }
            if XA::unpack_account_mint(data).copied() != x_a.as_ref().map(|a| a.mint) || XA::unpack_account_owner(data).copied() != x_a.as_ref().map(|a| a.owner)
                || XA::unpack_account_amount(data) != x_a.as_ref().map(|a| a.amount) { bad = Some("token_2022::Account checked getters disagree with the parser"); }
            if TM::unpack_mint_supply(data) != t_m.map(|m| m.supply) || TM::unpack_mint_decimals(data) != t_m.map(|m| m.decimals) { bad = Some("token::Mint checked getters disagree with the parser"); }
            if XM::unpack_mint_supply(data) != x_m.map(|m| m.supply) || XM::unpack_mint_decimals(data) != x_m.map(|m| m.decimals) { bad = Some("token_2022::Mint checked getters disagree with the parser"); }
            if TA::valid_account_data(data) != t_a.is_some() || XA::valid_account_data(data) != x_a.is_some()
                || TM::valid_account_data(data) != t_m.is_some() || XM::valid_account_data(data) != x_m.is_some() { bad = Some("valid_account_data disagrees with the parser"); }
            bad
        });
        match tr { None => err = Some("a trait-level checked getter panicked".to_string()), Some(Some(b)) => err = Some(b.to_string()), Some(None) => {} }
    }
    let len = data.len();
    out.stats.bump(&format!(
        "len:{}",
        match len {
            82 => "82",
            165 => "165",
            355 => "355",
            l if l > 165 => ">165",
            l if l < 82 => "<82",
            _ => "83..164",
        }
    ));
    out.stats.bump(&format!(
        "result:{}{}",
        if matches!(a, Some(Some(_))) { "A" } else { "-" },
        if matches!(m, Some(Some(_))) { "M" } else { "-" }
    ));
    if len == 82 || len >= 165 {
        out.stats.nontrivial_case(line);
    }
    out.stats.sample(line);
    out.push(impl_line, err.map_or(Ok(()), Err));
}

fn opt_key(k: &solana_program_option::COption<Pubkey>) -> String {
    match k {
        solana_program_option::COption::None => "~".into(),
        solana_program_option::COption::Some(k) => hex(k.as_ref()),
    }
}
fn fmt_ref_acct(mint: &Pubkey, owner: &Pubkey, amount: u64, delegate: &solana_program_option::COption<Pubkey>,
    state: u8, native: &solana_program_option::COption<u64>, delegated: u64,
    close: &solana_program_option::COption<Pubkey>) -> String {
    format!(
        "{}:{}:{}:{}:{}:{}:{}:{}",
        hex(mint.as_ref()),
        hex(owner.as_ref()),
        amount,
        opt_key(delegate),
        state,
        match native {
            solana_program_option::COption::None => "~".to_string(),
            solana_program_option::COption::Some(n) => n.to_string(),
        },
        delegated,
        opt_key(close)
    )
}

fn run_tokref(data: &[u8], out: &mut RunOut, line: &str) {
    let ta = SplAccount::unpack(data).ok();
    let tm = SplMint::unpack(data).ok();
    let xa = StateWithExtensions::<Account22>::unpack(data).ok().map(|s| s.base);
    let xm = StateWithExtensions::<Mint22>::unpack(data).ok().map(|s| s.base);
    let f_ta = ta.as_ref().map_or("none".to_string(), |a| {
        fmt_ref_acct(&a.mint, &a.owner, a.amount, &a.delegate, a.state as u8, &a.is_native, a.delegated_amount, &a.close_authority)
    });
    let f_xa = xa.as_ref().map_or("none".to_string(), |a| {
        fmt_ref_acct(&a.mint, &a.owner, a.amount, &a.delegate, a.state as u8, &a.is_native, a.delegated_amount, &a.close_authority)
    });
    let f_tm = tm.as_ref().map_or("none".to_string(), |m| {
        format!("{}:{}:{}:{}", opt_key(&m.mint_authority), m.supply, m.decimals, opt_key(&m.freeze_authority))
    });
    let f_xm = xm.as_ref().map_or("none".to_string(), |m| {
        format!("{}:{}:{}:{}", opt_key(&m.mint_authority), m.supply, m.decimals, opt_key(&m.freeze_authority))
    });
    let t = token_id();
    let t22 = token22_id();
    let ga1 = guarded(|| generic_token::Account::unpack(data, &t));
    let gm1 = guarded(|| generic_token::Mint::unpack(data, &t));
    let ga2 = guarded(|| generic_token::Account::unpack(data, &t22));
    let gm2 = guarded(|| generic_token::Mint::unpack(data, &t22));
    let impl_line = format!(
        "TA={} TM={} XA={} XM={} GA1={} GM1={} GA2={} GM2={}",
        f_ta, f_tm, f_xa, f_xm, fmt_acct(&ga1), fmt_mint(&gm1), fmt_acct(&ga2), fmt_mint(&gm2)
    );
    // oracle: C16 stated directly on the real codecs
    let mut err: Option<String> = None;
    let view = |g: &Option<Option<generic_token::Account>>| {
        g.clone().flatten().map(|a| (a.mint, a.owner, a.amount))
    };
    let mview = |g: &Option<Option<generic_token::Mint>>| g.clone().flatten().map(|m| (m.supply, m.decimals));
    if ga1.is_none() || gm1.is_none() || ga2.is_none() || gm2.is_none() {
        err = Some("generic parser panicked".into());
    }
    if let Some(a) = &ta {
        if view(&ga1) != Some((a.mint, a.owner, a.amount)) {
            err = Some("spl-token accepts the account but the generic parser disagrees".into());
        }
    }
    if let Some(a) = &xa {
        if view(&ga2) != Some((a.mint, a.owner, a.amount)) {
            err = Some("token-2022 accepts the account but the generic parser disagrees".into());
        }
    }
    if let Some(m) = &tm {
        if mview(&gm1) != Some((m.supply, m.decimals)) {
            err = Some("spl-token accepts the mint but the generic parser disagrees".into());
        }
    }
    if let Some(m) = &xm {
        if mview(&gm2) != Some((m.supply, m.decimals)) {
            err = Some("token-2022 accepts the mint but the generic parser disagrees".into());
        }
    }
    {
        // the same fields through the trait-level checked getters of the two implementors ("use the traits directly")
        use spl_generic_token::token::{GenericTokenAccount, GenericTokenMint};
        type TA = spl_generic_token::token::Account; type XA = spl_generic_token::token_2022::Account;
        type TM = spl_generic_token::token::Mint; type XM = spl_generic_token::token_2022::Mint;
        let g = guarded(|| {
            let mut bad: Option<&'static str> = None;
            if let Some(a) = &ta { if TA::unpack_account_mint(data).copied() != Some(a.mint) || TA::unpack_account_owner(data).copied() != Some(a.owner) || TA::unpack_account_amount(data) != Some(a.amount) { bad = Some("spl-token accepts the account but a checked getter of token::Account returns another mint / owner / amount"); } }
            if let Some(a) = &xa { if XA::unpack_account_mint(data).copied() != Some(a.mint) || XA::unpack_account_owner(data).copied() != Some(a.owner) || XA::unpack_account_amount(data) != Some(a.amount) { bad = Some("token-2022 accepts the account but a checked getter of token_2022::Account returns another mint / owner / amount"); } }
            if let Some(m) = &tm { if TM::unpack_mint_supply(data) != Some(m.supply) || TM::unpack_mint_decimals(data) != Some(m.decimals) { bad = Some("spl-token accepts the mint but a checked getter of token::Mint returns another supply / decimals"); } }
            if let Some(m) = &xm { if XM::unpack_mint_supply(data) != Some(m.supply) || XM::unpack_mint_decimals(data) != Some(m.decimals) { bad = Some("token-2022 accepts the mint but a checked getter of token_2022::Mint returns another supply / decimals"); } }
            bad
        });
        match g { None => err = Some("a trait-level checked getter panicked".into()), Some(Some(b)) => err = Some(b.into()), Some(None) => {} }
    }
    if data.len() >= 165 && data[108] == 0 && (view(&ga1).is_some() || view(&ga2).is_some()) {
        err = Some("uninitialised account parses".into());
    }
    if data.len() >= 82 && data[45] == 0 && (mview(&gm1).is_some() || mview(&gm2).is_some()) {
        err = Some("uninitialised mint parses".into());
    }
    if data.len() == 165 && view(&ga1) != view(&ga2) {
        err = Some("base-layout account parses differently under the two ids".into());
    }
    if data.len() == 82 && mview(&gm1) != mview(&gm2) {
        err = Some("base-layout mint parses differently under the two ids".into());
    }
    out.stats.bump(&format!(
        "ref:{}{}{}{}",
        if ta.is_some() { "TA" } else { "" },
        if tm.is_some() { "TM" } else { "" },
        if xa.is_some() { "XA" } else { "" },
        if xm.is_some() { "XM" } else { "" }
    ));
    out.stats.bump(&format!("len:{}", match data.len() { 82 => "82", 165 => "165", 355 => "355", l if l > 165 => ">165", _ => "other" }));
    if data.len() == 82 || data.len() >= 165 {
        out.stats.nontrivial_case(line);
    }
    out.stats.sample(line);
    out.push(impl_line, err.map_or(Ok(()), Err));
}

/// The bytes of a case, placed at a chosen offset (0..=7) from an 8-aligned address: "every byte string" includes
/// every place in memory it may sit at, and account data handed to a program is a sub-slice of a larger buffer.
struct Placed { buf: Vec<u64>, off: usize, len: usize }
impl Placed {
    fn new(data: &[u8], off: usize) -> Placed {
        let mut buf = vec![0u64; (data.len() + off) / 8 + 2];
        let bytes: &mut [u8] = bytemuck::cast_slice_mut(&mut buf[..]);
        bytes[off..off + data.len()].copy_from_slice(data);
        Placed { buf, off, len: data.len() }
    }
    fn get(&self) -> &[u8] { &bytemuck::cast_slice::<u64, u8>(&self.buf[..])[self.off..self.off + self.len] }
}

fn run_tokget(data: &[u8], out: &mut RunOut, line: &str) {
    use spl_generic_token::token::{GenericTokenAccount, GenericTokenMint};
    fn o<T>(r: Option<Option<T>>, f: impl Fn(T) -> String) -> String { match r { None => "panic".into(), Some(None) => "~".into(), Some(Some(x)) => f(x) } }
    macro_rules! five { ($A:ty, $M:ty) => { format!("{}:{}:{}:{}:{}",
        o(guarded(|| <$A>::unpack_account_mint(data).copied()), |k| hex(k.as_ref())),
        o(guarded(|| <$A>::unpack_account_owner(data).copied()), |k| hex(k.as_ref())),
        o(guarded(|| <$A>::unpack_account_amount(data)), |n| n.to_string()),
        o(guarded(|| <$M>::unpack_mint_supply(data)), |n| n.to_string()),
        o(guarded(|| <$M>::unpack_mint_decimals(data)), |n| n.to_string())) } }
    let s = format!("T={} X={}", five!(spl_generic_token::token::Account, spl_generic_token::token::Mint),
        five!(spl_generic_token::token_2022::Account, spl_generic_token::token_2022::Mint));
    let err = if s.contains("panic") { Some("a trait-level checked getter panicked".to_string()) } else { None };
    out.stats.bump("tokget");
    if data.len() == 82 || data.len() >= 165 { out.stats.nontrivial_case(line); }
    out.push(s, err.map_or(Ok(()), Err));
}

/// A buffer of `len` bytes given by its first 166 bytes, placed `off` bytes past an aligned address.  Up to 1 MiB the
/// remainder is pseudo-random (derived from the head, so a replay rebuilds it); larger ones are lazily mapped zero
/// pages from `alloc_zeroed`, so that 10 MiB (the largest account) and 4 GiB (where a 32-bit length wraps) cost
/// nothing, and a machine that cannot map them skips the case instead of aborting.
struct BigBuf { ptr: *mut u8, layout: std::alloc::Layout, off: usize, len: usize }
impl BigBuf {
    fn new(len: usize, head: &[u8], off: usize) -> Option<BigBuf> {
        assert!(head.len() == 166 && len >= 357);
        let layout = std::alloc::Layout::from_size_align(len + 16, 8).ok()?;
        let ptr = unsafe { std::alloc::alloc_zeroed(layout) };
        if ptr.is_null() { return None; }
        let b = BigBuf { ptr, layout, off, len };
        let s: &mut [u8] = unsafe { std::slice::from_raw_parts_mut(ptr.add(off), len) };
        s[..166].copy_from_slice(head);
        if len <= 1 << 20 && head.iter().map(|&x| x as usize).sum::<usize>() % 2 == 1 {
            let mut x = 0x9E3779B97F4A7C15u64 ^ (len as u64);
            for h in head { x = x.wrapping_mul(6364136223846793005).wrapping_add(*h as u64); }
            for c in s[166..].iter_mut() { x ^= x << 13; x ^= x >> 7; x ^= x << 17; *c = x as u8; }
        }
        Some(b)
    }
    fn get(&self) -> &[u8] { unsafe { std::slice::from_raw_parts(self.ptr.add(self.off), self.len) } }
}
impl Drop for BigBuf { fn drop(&mut self) { unsafe { std::alloc::dealloc(self.ptr, self.layout) } } }

pub fn run(_prop: &str, cases: &[String]) -> RunOut {
    let mut out = RunOut::default();
    for (k, line) in cases.iter().enumerate() {
        let t: Vec<&str> = line.split_whitespace().collect();
        // the offset depends on the case text only, so a replayed case sits where it sat
        let off = if t.len() > 1 { (t[1].len() / 2 + t[1].bytes().map(|b| b as usize).sum::<usize>() + k * 0) % 8 } else { 0 };
        match t[0] {
            "tok" => { let p = Placed::new(&unhex(t[1]), off); out.stats.bump(&format!("align:{off}")); run_tok(p.get(), &unhex(t[2]), &mut out, line) }
            "tokref" => { let p = Placed::new(&unhex(t[1]), off); run_tokref(p.get(), &mut out, line) }
            "tokget" => { let placed = Placed::new(&unhex(t[1]), off); run_tokget(placed.get(), &mut out, line) }
            // long buffers: `<len> <first 166 bytes> [<program id>]`, the rest filled from the case text (zeros past 1 MiB)
            "tokbig" | "tokgetbig" | "tokrefbig" => {
                let len: usize = t[1].parse().unwrap();
                match BigBuf::new(len, &unhex(t[2]), off) {
                    None => {
                        out.stats.bump("big:skipped");
                        out.push("skipped-no-room".into(), Ok(()));
                    }
                    Some(b) => {
                        out.stats.bump(&format!("biglen:{}", match len { l if l >= 1 << 32 => ">=4GiB", l if l > 10 << 20 => ">10MiB", l if l >= 65536 => ">=64KiB", l if l > 10405 => ">10405", _ => "<=10405" }));
                        match t[0] {
                            "tokbig" => run_tok(b.get(), &unhex(t[3]), &mut out, line),
                            "tokgetbig" => run_tokget(b.get(), &mut out, line),
                            _ => run_tokref(b.get(), &mut out, line),
                        }
                    }
                }
            }
            "tokconst" => {
                // the public constants and id helpers, compared with the regenerated model constants
                let ids = spl_generic_token::spl_token_ids();
                // none of this is stated by C16/C17: the line is compared with the regenerated model constants
                // (correspondence) and `C16_native_mint` is a proof obligation; differences are notes, not oracle failures
                let mut err: Option<String> = None;
                let mut notes: Vec<&str> = vec![];
                if ids != vec![spl_generic_token::token::id(), spl_generic_token::token_2022::id()] { notes.push("spl_token_ids is not [token, token-2022]"); }
                if ids.iter().any(|i| !spl_generic_token::is_known_spl_token_id(i)) { notes.push("a listed id is not known"); }
                // the canned native-mint data is the reference packing of the documented state
                {
                    use solana_program_pack::Pack;
                    let m = spl_token_interface::state::Mint { mint_authority: solana_program_option::COption::None, supply: 0, decimals: 9, is_initialized: true, freeze_authority: solana_program_option::COption::None };
                    let mut b = [0u8; 82];
                    m.pack_into_slice(&mut b);
                    if b != spl_generic_token::token::native_mint::ACCOUNT_DATA { notes.push("native_mint::ACCOUNT_DATA is not the packing of the documented native mint state"); }
                    if spl_token_interface::state::Mint::unpack(&spl_generic_token::token::native_mint::ACCOUNT_DATA).ok() != Some(m) { notes.push("native_mint::ACCOUNT_DATA does not unpack to the documented state"); }
                }
                let s = format!("ids={} acc={} mint={} native={}:{}", ids.iter().map(|i| hex(i.as_ref())).collect::<Vec<_>>().join(","),
                    spl_generic_token::token::Account::get_packed_len(), spl_generic_token::token::Mint::get_packed_len(),
                    hex(spl_generic_token::token::native_mint::id().as_ref()), hex(&spl_generic_token::token::native_mint::ACCOUNT_DATA));
                let s = if notes.is_empty() { s } else { format!("{s} | note: {}", notes.join("; ")) };
                out.stats.bump("tokconst");
                out.push(s, err.map_or(Ok(()), Err));
            }
            other => panic!("unknown op {other}"),
        }
    }
    out
}

pub const CONST_CASE: &str = "tokconst";
const LENS: &[usize] = &[0, 1, 44, 45, 46, 72, 81, 82, 83, 107, 108, 109, 164, 165, 166, 167, 248, 338, 354, 355, 356, 357, 421, 611];
/// lengths a truncating cast, a size cap or a realloc bound would treat specially: base lengths modulo 2^16 / 2^24 /
/// 2^32, the 10 KiB realloc increment past the base account, the 10 MiB account limit
const BIG_LENS: &[usize] = &[1000, 10_240, 10_405, 10_406, 10_487, 65_535, 65_536, 65_536 + 82, 65_536 + 165, 65_536 + 166, 65_536 + 355,
    2 * 65_536 + 165, 2 * 65_536 + 82, 2 * 65_536 + 355, (1 << 24) + 355, 1 << 20, (1 << 24) + 165, (1 << 24) + 82, 10 << 20, (10 << 20) + 1,
    (1 << 32) + 82, (1 << 32) + 165, (1 << 32) + 166, (1 << 32) + 355, (1 << 32) + 1000];

/// the first 166 bytes of a long buffer: a packed account or mint (padded), marker byte at 165, or arbitrary bytes
fn gen_head(rng: &mut Rng, k: usize) -> Vec<u8> {
    // the first two heads of every length are a valid extended account and a valid extended mint (so that every special
    // length is seen with a buffer the reference codec accepts), the rest is mixed
    let mut h = match if k < 2 { k as u64 + 4 } else { rng.below(4) } {
        4 => { let mut d = packed_account(rng); d[108] = 1; d.push(2); d }
        5 => { let mut d = packed_mint(rng); d[45] = 1; d.extend(vec![0u8; 83]); d.push(1); d }
        0 => { let mut d = packed_account(rng); d.push(if rng.chance(3, 4) { 2 } else { interesting_byte(rng) }); d }
        1 => { let mut d = packed_mint(rng); d.extend(vec![0u8; 83]); d.push(if rng.chance(3, 4) { 1 } else { interesting_byte(rng) }); d }
        2 => { let mut d = vec![0u8; 166]; for off in [45usize, 108, 165] { d[off] = interesting_byte(rng); } d }
        _ => { let mut d = rng.bytes(166); for off in [45usize, 108, 165] { d[off] = interesting_byte(rng); } d }
    };
    h.truncate(166);
    h
}
fn big_cases(kind: &str, per_len: usize, rng: &mut Rng) -> Vec<String> {
    let mut v = vec![];
    for &len in BIG_LENS {
        for k in 0..per_len {
            let h = gen_head(rng, k);
            match kind {
                "tokbig" => {
                    for p in [token_id().to_bytes(), token22_id().to_bytes()] { v.push(format!("tokbig {len} {} {}", hex(&h), hex(&p))); }
                    v.push(format!("tokgetbig {len} {}", hex(&h)));
                }
                _ => v.push(format!("tokrefbig {len} {}", hex(&h))),
            }
        }
    }
    v
}

fn interesting_byte(rng: &mut Rng) -> u8 {
    match rng.below(6) {
        0 => 0,
        1 => 1,
        2 => 2,
        3 => 3,
        4 => 255,
        _ => rng.byte(),
    }
}

fn gen_buffer(rng: &mut Rng) -> Vec<u8> {
    let len = if rng.chance(4, 5) { *rng.pick(LENS) } else { rng.range(0, 600) as usize };
    let mut d = if rng.chance(1, 2) { rng.bytes(len) } else { vec![0u8; len] };
    for off in [44usize, 45, 108, 165] {
        if off < len {
            d[off] = interesting_byte(rng);
        }
    }
    d
}

fn gen_prog(rng: &mut Rng) -> [u8; 32] {
    match rng.below(10) {
        0..=3 => token_id().to_bytes(),
        4..=7 => token22_id().to_bytes(),
        8 => {
            // near miss: one byte of a real id changed
            let mut k = if rng.chance(1, 2) { token_id().to_bytes() } else { token22_id().to_bytes() };
            let i = rng.below(32) as usize;
            k[i] ^= 1 << rng.below(8);
            k
        }
        _ => rng.key(),
    }
}

pub fn generate_c17(tier: &str, rng: &mut Rng) -> Vec<String> {
    let n = if tier == "thorough" { 800_000 } else { 6_000 };
    let mut v = vec![CONST_CASE.to_string()];
    // the native mint's canned account data under both ids and an unknown one
    for id in [spl_generic_token::token::id(), spl_generic_token::token_2022::id(), Pubkey::default()] {
        v.push(format!("tok {} {}", hex(&spl_generic_token::token::native_mint::ACCOUNT_DATA), hex(id.as_ref())));
    }
    // boundary enumeration: every layout length x marker bytes x both ids
    for &len in LENS {
        for b165 in [0u8, 1, 2, 3] {
            for init in [0u8, 1, 7] {
                let mut d = vec![0u8; len];
                for off in [45usize, 108] {
                    if off < len { d[off] = init; }
                }
                if 165 < len { d[165] = b165; }
                for p in [token_id().to_bytes(), token22_id().to_bytes()] {
                    v.push(format!("tok {} {}", hex(&d), hex(&p)));
                }
                v.push(format!("tokget {}", hex(&d)));
            }
        }
    }
    if tier == "thorough" {
        // all 256 values of the bytes at 45 / 108 / 165
        for x in 0..=255u8 {
            for len in [82usize, 165, 170] {
                for off in [45usize, 108, 165] {
                    let mut d = vec![0u8; len];
                    if 45 < len { d[45] = 1; }
                    if 108 < len { d[108] = 1; }
                    if 165 < len { d[165] = 2; }
                    if off < len { d[off] = x; }
                    for p in [token_id().to_bytes(), token22_id().to_bytes()] {
                        v.push(format!("tok {} {}", hex(&d), hex(&p)));
                    }
                }
            }
        }
    }
    v.extend(big_cases("tokbig", if tier == "thorough" { 12 } else { 2 }, rng));
    for _ in 0..n {
        let d = gen_buffer(rng);
        let p = gen_prog(rng);
        v.push(format!("tok {} {}", hex(&d), hex(&p)));
        if rng.chance(1, 3) { v.push(format!("tokget {}", hex(&d))); }
    }
    v
}

fn rand_coption_key(rng: &mut Rng) -> solana_program_option::COption<Pubkey> {
    if rng.chance(1, 2) {
        solana_program_option::COption::Some(Pubkey::new_from_array(rng.key()))
    } else {
        solana_program_option::COption::None
    }
}

/// addresses with a meaning in the token ecosystem (a parser has no business treating them specially, which is the point)
fn special_key(rng: &mut Rng) -> Pubkey {
    match rng.below(7) {
        0 => spl_generic_token::token::native_mint::id(),
        1 => spl_token_2022_interface::native_mint::id(),
        2 => Pubkey::default(),
        3 => token_id(),
        4 => token22_id(),
        5 => spl_generic_token::associated_token_account::id(),
        _ => Pubkey::new_from_array([0xff; 32]),
    }
}
fn some_key(rng: &mut Rng) -> Pubkey { if rng.chance(1, 6) { special_key(rng) } else { Pubkey::new_from_array(rng.key()) } }

fn packed_account(rng: &mut Rng) -> Vec<u8> {
    let a = SplAccount {
        mint: some_key(rng),
        owner: some_key(rng),
        amount: if rng.chance(1, 4) { u64::MAX } else { rng.next() },
        delegate: rand_coption_key(rng),
        state: match rng.below(4) {
            0 => AccountState::Uninitialized,
            1 => AccountState::Frozen,
            _ => AccountState::Initialized,
        },
        is_native: if rng.chance(1, 2) { solana_program_option::COption::Some(rng.next()) } else { solana_program_option::COption::None },
        delegated_amount: rng.next(),
        close_authority: rand_coption_key(rng),
    };
    let mut d = vec![0u8; 165];
    a.pack_into_slice(&mut d);
    d
}

fn packed_mint(rng: &mut Rng) -> Vec<u8> {
    let m = SplMint {
        mint_authority: rand_coption_key(rng),
        supply: if rng.chance(1, 4) { u64::MAX } else { rng.next() },
        decimals: rng.byte(),
        is_initialized: !rng.chance(1, 5),
        freeze_authority: rand_coption_key(rng),
    };
    let mut d = vec![0u8; 82];
    m.pack_into_slice(&mut d);
    d
}

fn tail(rng: &mut Rng) -> Vec<u8> {
    let n = match rng.below(6) {
        0 => 0,
        1 => 1,
        2 => 189, // total 355 with the marker byte
        3 => 190,
        _ => rng.range(0, 300) as usize,
    };
    rng.bytes(n)
}

/// A real Token-2022 account with extensions initialised through the interface crate.
fn real_extended_account(rng: &mut Rng) -> Vec<u8> {
    use spl_token_2022_interface::extension::{
        immutable_owner::ImmutableOwner, memo_transfer::MemoTransfer, BaseStateWithExtensionsMut,
        ExtensionType, StateWithExtensionsMut,
    };
    let exts: Vec<ExtensionType> = if rng.chance(1, 2) {
        vec![ExtensionType::ImmutableOwner]
    } else {
        vec![ExtensionType::ImmutableOwner, ExtensionType::MemoTransfer]
    };
    let len = ExtensionType::try_calculate_account_len::<Account22>(&exts).unwrap();
    let mut d = vec![0u8; len];
    {
        let mut st = StateWithExtensionsMut::<Account22>::unpack_uninitialized(&mut d).unwrap();
        st.init_extension::<ImmutableOwner>(true).unwrap();
        if exts.len() > 1 {
            st.init_extension::<MemoTransfer>(true).unwrap();
        }
        let base = packed_account(rng);
        st.base = Account22::unpack_unchecked(&base).unwrap();
        st.pack_base();
        st.init_account_type().unwrap();
    }
    d
}

fn real_extended_mint(rng: &mut Rng) -> Vec<u8> {
    use spl_token_2022_interface::extension::{
        mint_close_authority::MintCloseAuthority, BaseStateWithExtensionsMut, ExtensionType,
        StateWithExtensionsMut,
    };
    let len = ExtensionType::try_calculate_account_len::<Mint22>(&[ExtensionType::MintCloseAuthority]).unwrap();
    let mut d = vec![0u8; len];
    {
        let mut st = StateWithExtensionsMut::<Mint22>::unpack_uninitialized(&mut d).unwrap();
        st.init_extension::<MintCloseAuthority>(true).unwrap();
        let base = packed_mint(rng);
        st.base = Mint22::unpack_unchecked(&base).unwrap();
        st.pack_base();
        st.init_account_type().unwrap();
    }
    d
}

pub fn generate_c16(tier: &str, rng: &mut Rng) -> Vec<String> {
    let n = if tier == "thorough" { 400_000 } else { 4_000 };
    let mut v = vec![CONST_CASE.to_string(), format!("tokref {}", hex(&spl_generic_token::token::native_mint::ACCOUNT_DATA))];
    v.extend(big_cases("tokrefbig", if tier == "thorough" { 12 } else { 2 }, rng));
    for _ in 0..n {
        let mut d = match rng.below(8) {
            0 => packed_account(rng),
            1 => packed_mint(rng),
            2 => {
                // account ++ marker ++ arbitrary tail (accepted by StateWithExtensions::unpack)
                let mut d = packed_account(rng);
                d.push(if rng.chance(3, 4) { 2 } else { interesting_byte(rng) });
                d.extend(tail(rng));
                d
            }
            3 => {
                // mint ++ zero padding ++ marker ++ tail
                let mut d = packed_mint(rng);
                d.extend(vec![0u8; 83]);
                d.push(if rng.chance(3, 4) { 1 } else { interesting_byte(rng) });
                d.extend(tail(rng));
                d
            }
            4 => real_extended_account(rng),
            5 => real_extended_mint(rng),
            6 => {
                // mint with a short / non-zero padding region
                let mut d = packed_mint(rng);
                let pad = rng.range(0, 90) as usize;
                d.extend(vec![0u8; pad]);
                d
            }
            _ => gen_buffer(rng),
        };
        // mutate
        if rng.chance(1, 3) && !d.is_empty() {
            let k = rng.range(1, 3);
            for _ in 0..k {
                let off = match rng.below(4) {
                    0 => *rng.pick(&[0usize, 1, 2, 3, 36, 44, 45, 46, 47, 72, 73, 108, 109, 110, 129, 130, 164, 165, 166]),
                    _ => rng.below(d.len() as u64) as usize,
                };
                if off < d.len() {
                    d[off] = interesting_byte(rng);
                }
            }
        }
        if rng.chance(1, 20) {
            let l = rng.below(d.len() as u64 + 1) as usize;
            d.truncate(l);
        }
        v.push(format!("tokref {}", hex(&d)));
    }
    v
}
