//! C01–C04 — TLV state: arbitrary byte strings (three views, lookups) and operation histories
//! (alloc / init / realloc / writes / var-len pack / reopen) with a shadow-list oracle.
use crate::util::*;
use bytemuck::{Pod, Zeroable};
use solana_program_error::ProgramError;
use spl_discriminator::{ArrayDiscriminator, SplDiscriminate};
use spl_type_length_value::state::{TlvState, TlvStateBorrowed, TlvStateMut, TlvStateOwned};
use spl_type_length_value::variable_len_pack::VariableLenPack;
use std::io::Write;

/// adversarial palette of 8-byte tags (as little-endian u64 constants)
pub const PALETTE: [u64; 8] = [
    u64::from_le_bytes([1, 1, 1, 1, 1, 1, 1, 1]),
    u64::from_le_bytes([1, 1, 1, 1, 1, 1, 1, 2]), // shares a 7-byte prefix with the first
    u64::from_le_bytes([0, 0, 0, 0, 0, 0, 0, 1]), // leading zero bytes
    u64::from_le_bytes([1, 0, 0, 0, 0, 0, 0, 0]), // trailing zero bytes
    u64::from_le_bytes([0, 1, 0, 0, 0, 0, 0, 0]),
    u64::from_le_bytes([255; 8]),
    u64::from_le_bytes([1, 1, 1, 1, 0, 0, 0, 0]),
    u64::from_le_bytes([2, 1, 1, 1, 1, 1, 1, 1]),
];
pub const SIZES: [usize; 6] = [0, 1, 3, 5, 8, 32];

/// A marker type with a const discriminator (byte-level access only).
pub struct Tag<const D: u64>;
impl<const D: u64> SplDiscriminate for Tag<D> {
    const SPL_DISCRIMINATOR: ArrayDiscriminator = ArrayDiscriminator::new(D.to_le_bytes());
}
/// An align-1 Pod value of N bytes with a const discriminator; default = [N as u8 + 1; N].
#[repr(transparent)]
#[derive(Clone, Copy, PartialEq, Debug)]
pub struct Val<const D: u64, const N: usize>(pub [u8; N]);
unsafe impl<const D: u64, const N: usize> Zeroable for Val<D, N> {}
unsafe impl<const D: u64, const N: usize> Pod for Val<D, N> {}
impl<const D: u64, const N: usize> SplDiscriminate for Val<D, N> {
    const SPL_DISCRIMINATOR: ArrayDiscriminator = ArrayDiscriminator::new(D.to_le_bytes());
}
impl<const D: u64, const N: usize> Default for Val<D, N> {
    fn default() -> Self { Val([N as u8 + 1; N]) }
}
/// A variable-length value whose packer streams its bytes into the slot (like Borsh's
/// `to_writer(&mut dst[..], …)`): the prefix that fits is written, then an error.
#[derive(Clone, PartialEq, Debug)]
pub struct Raw<const D: u64>(pub Vec<u8>);
impl<const D: u64> SplDiscriminate for Raw<D> {
    const SPL_DISCRIMINATOR: ArrayDiscriminator = ArrayDiscriminator::new(D.to_le_bytes());
}
impl<const D: u64> VariableLenPack for Raw<D> {
    fn pack_into_slice(&self, dst: &mut [u8]) -> Result<(), ProgramError> {
        let mut w = &mut dst[..];
        w.write_all(&self.0).map_err(|_| ProgramError::InvalidInstructionData)
    }
    fn unpack_from_slice(src: &[u8]) -> Result<Self, ProgramError> { Ok(Raw(src.to_vec())) }
    fn get_packed_len(&self) -> Result<usize, ProgramError> { Ok(self.0.len()) }
}

macro_rules! with_tag {
    ($idx:expr, $f:ident, $($arg:expr),*) => {
        match $idx {
            0 => $f::<{ PALETTE[0] }>($($arg),*), 1 => $f::<{ PALETTE[1] }>($($arg),*), 2 => $f::<{ PALETTE[2] }>($($arg),*), 3 => $f::<{ PALETTE[3] }>($($arg),*),
            4 => $f::<{ PALETTE[4] }>($($arg),*), 5 => $f::<{ PALETTE[5] }>($($arg),*), 6 => $f::<{ PALETTE[6] }>($($arg),*), 7 => $f::<{ PALETTE[7] }>($($arg),*),
            _ => panic!("tag index"),
        }
    };
}
macro_rules! with_size {
    ($sidx:expr, $f:ident, $D:ident, $($arg:expr),*) => {
        match $sidx {
            0 => $f::<$D, 0>($($arg),*), 1 => $f::<$D, 1>($($arg),*), 2 => $f::<$D, 3>($($arg),*), 3 => $f::<$D, 5>($($arg),*), 4 => $f::<$D, 8>($($arg),*), 5 => $f::<$D, 32>($($arg),*),
            _ => panic!("size index"),
        }
    };
}

fn e(r: &ProgramError) -> String { format!("err|{}", err_code(r)) }

fn range_of(buf: &[u8], s: &[u8]) -> (usize, usize) {
    let lo = s.as_ptr() as usize - buf.as_ptr() as usize;
    (lo, lo + s.len())
}

// ---------- read-only queries (C02) ----------
fn q_bytes<const D: u64>(buf: &[u8], rep: usize) -> String {
    let st = match TlvStateBorrowed::unpack(buf) { Ok(s) => s, Err(x) => return format!("nounpack:{}", e(&x)) };
    match st.get_bytes_with_repetition::<Tag<D>>(rep) {
        Ok(s) => { let (lo, hi) = range_of(buf, s); format!("ok:{lo}:{hi}") }
        Err(x) => e(&x),
    }
}
fn q_typed_n<const D: u64, const N: usize>(buf: &[u8], rep: usize) -> String {
    let st = match TlvStateBorrowed::unpack(buf) { Ok(s) => s, Err(x) => return format!("nounpack:{}", e(&x)) };
    let r = st.get_value_with_repetition::<Val<D, N>>(rep);
    if rep == 0 {
        // the `first` wrapper is repetition 0
        let f = st.get_first_value::<Val<D, N>>();
        assert_eq!(f.as_ref().ok().map(|v| *v as *const Val<D, N>), r.as_ref().ok().map(|v| *v as *const Val<D, N>), "get_first_value differs from repetition 0");
        assert_eq!(f.is_err(), r.is_err());
    }
    match r {
        Ok(v) => { let lo = v as *const _ as usize - buf.as_ptr() as usize; format!("ok:{lo}:{}", lo + N) }
        Err(x) => e(&x),
    }
}
fn q_typed<const D: u64>(buf: &[u8], rep: usize, sidx: usize) -> String { with_size!(sidx, q_typed_n, D, buf, rep) }
/// the same lookups through the mutable view (its getters are separate code)
fn q_bytes_mut<const D: u64>(buf: &[u8], rep: usize) -> String {
    let mut copy = buf.to_vec();
    let base = copy.as_ptr() as usize;
    let mut st = match TlvStateMut::unpack(&mut copy) { Ok(s) => s, Err(x) => return format!("nounpack:{}", e(&x)) };
    match st.get_bytes_with_repetition_mut::<Tag<D>>(rep) {
        Ok(s) => { let lo = s.as_ptr() as usize - base; format!("ok:{lo}:{}", lo + s.len()) }
        Err(x) => e(&x),
    }
}
fn q_typed_mut_n<const D: u64, const N: usize>(buf: &[u8], rep: usize) -> String {
    let mut copy = buf.to_vec();
    let base = copy.as_ptr() as usize;
    let mut st = match TlvStateMut::unpack(&mut copy) { Ok(s) => s, Err(x) => return format!("nounpack:{}", e(&x)) };
    match st.get_value_with_repetition_mut::<Val<D, N>>(rep) {
        Ok(v) => { let lo = v as *mut _ as usize - base; format!("ok:{lo}:{}", lo + N) }
        Err(x) => e(&x),
    }
}
fn q_typed_mut<const D: u64>(buf: &[u8], rep: usize, sidx: usize) -> String { with_size!(sidx, q_typed_mut_n, D, buf, rep) }

/// raw lookups *without* requiring unpack to succeed are not part of the API; the three views:
fn three_views(buf: &[u8]) -> (String, Option<String>) {
    let a = guarded(|| TlvStateBorrowed::unpack(buf).map(|s| s.get_discriminators()));
    let mut copy = buf.to_vec();
    let b = guarded(|| TlvStateMut::unpack(&mut copy).map(|s| s.get_discriminators()));
    let c = guarded(|| TlvStateOwned::unpack(buf.to_vec()).map(|s| s.get_discriminators()));
    let show = |r: &Option<Result<Result<Vec<ArrayDiscriminator>, ProgramError>, ProgramError>>| match r {
        None => "panic".to_string(),
        Some(Err(x)) => e(x),
        Some(Ok(Err(x))) => format!("ok;discs-{}", e(x)),
        Some(Ok(Ok(v))) => format!("ok;{}", if v.is_empty() { "-".to_string() } else { v.iter().map(|d| hex(d.as_slice())).collect::<Vec<_>>().join(",") }),
    };
    let (sa, sb, sc) = (show(&a), show(&b), show(&c));
    let err = if sa != sb || sa != sc { Some(format!("the three views disagree: {sa} / {sb} / {sc}")) } else if sa == "panic" { Some("unpack panicked".into()) } else { None };
    (sa, err)
}

/// independent parse of the format (the property's own statement)
fn spec_parse(d: &[u8]) -> Option<Vec<(usize, [u8; 8], usize, usize)>> {
    // returns entries (type_start, tag, value_lo, value_hi) or None if malformed
    let mut v = vec![];
    let mut i = 0usize;
    loop {
        if i == d.len() { return Some(v); }
        if d.len() - i < 8 { return if d[i..].iter().all(|&x| x == 0) { Some(v) } else { None }; }
        let tag: [u8; 8] = d[i..i + 8].try_into().unwrap();
        if tag == [0u8; 8] { return Some(v); }
        if d.len() - i < 12 { return None; }
        let len = u32::from_le_bytes(d[i + 8..i + 12].try_into().unwrap()) as usize;
        if i + 12 + len > d.len() { return None; }
        v.push((i, tag, i + 12, i + 12 + len));
        i += 12 + len;
    }
}

fn run_query(t: &[&str], out: &mut RunOut, line: &str) -> (String, Option<String>) {
    // tlvq <hex> <tagidx> <rep> <sizeidx|->
    let buf = unhex(t[1]);
    let tag: usize = t[2].parse().unwrap();
    let rep: usize = t[3].parse().unwrap();
    let (views, mut err) = three_views(&buf);
    let b = guarded(|| with_tag!(tag, q_bytes, &buf, rep));
    let v = if t[4] == "-" { Some("-".to_string()) } else { let s: usize = t[4].parse().unwrap(); guarded(|| with_tag!(tag, q_typed, &buf, rep, s)) };
    let bs = b.clone().unwrap_or("panic".into());
    let vs = v.clone().unwrap_or("panic".into());
    if b.is_none() || v.is_none() { err = Some("lookup panicked".into()); }
    // the mutable view's getters must answer exactly like the read-only ones
    let bm = guarded(|| with_tag!(tag, q_bytes_mut, &buf, rep)).unwrap_or("panic".into());
    let vm = if t[4] == "-" { "-".to_string() } else { let s: usize = t[4].parse().unwrap(); guarded(|| with_tag!(tag, q_typed_mut, &buf, rep, s)).unwrap_or("panic".into()) };
    let cls = |x: &str| x.split('|').next().unwrap().to_string();
    if cls(&bm) != cls(&bs) || cls(&vm) != cls(&vs) { err = Some(format!("the mutable view's lookup differs from the read-only one: bytes {bm} vs {bs}, typed {vm} vs {vs}")); }
    let bs = if cls(&bm) == cls(&bs) { bs } else { format!("{bs}/mut:{bm}") };
    let vs = if cls(&vm) == cls(&vs) { vs } else { format!("{vs}/mut:{vm}") };
    // the variable-length getters (first / with repetition) hand their type exactly the value bytes of the entry: they must
    // answer like the byte lookup, through each of the three views
    {
        fn q_varlen<const D: u64>(buf: &[u8], rep: usize) -> Result<String, ProgramError> {
            let st = TlvStateBorrowed::unpack(buf)?;
            let v: Raw<D> = st.get_variable_len_value_with_repetition::<Raw<D>>(rep)?;
            let s = st.get_bytes_with_repetition::<Tag<D>>(rep)?;
            let mut owned_buf = buf.to_vec();
            let mv: Raw<D> = TlvStateMut::unpack(&mut owned_buf)?.get_variable_len_value_with_repetition::<Raw<D>>(rep)?;
            let ov: Raw<D> = TlvStateOwned::unpack(buf.to_vec())?.get_variable_len_value_with_repetition::<Raw<D>>(rep)?;
            if rep == 0 && st.get_first_variable_len_value::<Raw<D>>()?.0 != v.0 { return Ok("first-differs".into()); }
            Ok(if v.0 == s && mv.0 == s && ov.0 == s { "same".into() } else { format!("differs:{}", v.0.len()) })
        }
        match guarded(|| with_tag!(tag, q_varlen, &buf, rep)) {
            None => err = Some("variable-length lookup panicked".into()),
            Some(Ok(x)) if x != "same" => err = Some(format!("the variable-length getter does not return the entry's value bytes ({x})")),
            Some(Ok(_)) => { if !bs.starts_with("ok") { err = Some("the variable-length lookup succeeded where the byte lookup failed".into()); } }
            Some(Err(_)) => { if bs.starts_with("ok") { err = Some("the variable-length lookup failed where the byte lookup succeeded".into()); } }
        }
    }
    // oracle: the format, stated independently
    let spec = spec_parse(&buf);
    match (&spec, views.starts_with("ok")) {
        (Some(_), false) => err = Some("a well-formed run of entries was rejected".into()),
        (None, true) => err = Some("a malformed buffer was accepted".into()),
        _ => {}
    }
    if let Some(entries) = &spec {
        let tags: Vec<String> = entries.iter().map(|x| hex(&x.1)).collect();
        let exp = format!("ok;{}", if tags.is_empty() { "-".to_string() } else { tags.join(",") });
        if views != exp { err = Some(format!("listed types differ from the entries in order: expected {exp}")); }
        let want = PALETTE[tag].to_le_bytes();
        let nth = entries.iter().filter(|x| x.1 == want).nth(rep);
        match nth {
            Some(x) => {
                if bs != format!("ok:{}:{}", x.2, x.3) { err = Some(format!("lookup did not return the {rep}-th entry's bytes at {}..{}", x.2, x.3)); }
                if t[4] != "-" { let s = SIZES[t[4].parse::<usize>().unwrap()]; let ok = vs.starts_with("ok"); if ok != (x.3 - x.2 == s) { err = Some("typed lookup must succeed iff the entry's size equals the type's size".into()); } }
            }
            None => { if bs.starts_with("ok") { err = Some("lookup succeeded although there is no such entry".into()); } }
        }
        if !entries.is_empty() { out.stats.nontrivial_case(line); out.stats.sample(line); }
    } else if buf.len() >= 12 && spec_parse(&buf[..12.min(buf.len())]).is_some() { out.stats.nontrivial_case(line); }
    out.stats.bump(&format!("tlvq:{}", if views.starts_with("ok") { "accept" } else { "reject" }));
    (format!("U={views} B={bs} V={vs}"), err)
}

// ---------- histories (C01, C03, C04) ----------
#[derive(Clone)]
struct Hist {
    buf: Vec<u8>,
    shadow: Option<Vec<(usize, Vec<u8>)>>, // (tag index, value) — only for histories from a zeroed buffer
    mutations: usize,
    fails_with_entries: usize,
    touched_nonlast: bool,
}

fn op_alloc<const D: u64>(buf: &mut [u8], len: usize, allow: bool) -> Result<String, ProgramError> {
    let base = buf.as_ptr() as usize;
    let mut st = TlvStateMut::unpack(buf)?;
    let (s, rep) = st.alloc::<Tag<D>>(len, allow)?;
    let lo = s.as_ptr() as usize - base;
    Ok(format!("{}:{}:{}", lo, lo + s.len(), rep))
}
fn op_init_n<const D: u64, const N: usize>(buf: &mut [u8], allow: bool) -> Result<String, ProgramError> {
    let base = buf.as_ptr() as usize;
    let mut st = TlvStateMut::unpack(buf)?;
    let (v, rep) = st.init_value::<Val<D, N>>(allow)?;
    let lo = v as *const _ as usize - base;
    Ok(format!("{}:{}:{}", lo, lo + N, rep))
}
fn op_init<const D: u64>(buf: &mut [u8], sidx: usize, allow: bool) -> Result<String, ProgramError> { with_size!(sidx, op_init_n, D, buf, allow) }
fn op_realloc<const D: u64>(buf: &mut [u8], len: usize, rep: usize) -> Result<String, ProgramError> {
    let base = buf.as_ptr() as usize;
    let mut st = TlvStateMut::unpack(buf)?;
    let s = if rep == 0 && len % 2 == 0 { st.realloc_first::<Tag<D>>(len)? } else { st.realloc_with_repetition::<Tag<D>>(len, rep)? };
    let lo = s.as_ptr() as usize - base;
    Ok(format!("{}:{}", lo, lo + s.len()))
}
fn op_write<const D: u64>(buf: &mut [u8], rep: usize, v: &[u8]) -> Result<String, ProgramError> {
    let mut st = TlvStateMut::unpack(buf)?;
    let s = if rep == 0 && v.len() % 2 == 0 { st.get_first_bytes_mut::<Tag<D>>()? } else { st.get_bytes_with_repetition_mut::<Tag<D>>(rep)? };
    if s.len() != v.len() { return Err(ProgramError::InvalidArgument); }
    s.copy_from_slice(v);
    Ok("()".into())
}
fn op_typed_n<const D: u64, const N: usize>(buf: &mut [u8], rep: usize, v: &[u8]) -> Result<String, ProgramError> {
    let mut st = TlvStateMut::unpack(buf)?;
    let r = if rep == 0 && v.first().map_or(true, |b| b % 2 == 0) { st.get_first_value_mut::<Val<D, N>>()? } else { st.get_value_with_repetition_mut::<Val<D, N>>(rep)? };
    *r = Val(v.try_into().expect("typed write value length"));
    Ok("()".into())
}
fn op_typed<const D: u64>(buf: &mut [u8], sidx: usize, rep: usize, v: &[u8]) -> Result<String, ProgramError> { with_size!(sidx, op_typed_n, D, buf, rep, v) }
fn op_pack<const D: u64>(buf: &mut [u8], rep: usize, v: &[u8]) -> Result<String, ProgramError> {
    let mut st = TlvStateMut::unpack(buf)?;
    if rep == 0 && v.len() % 2 == 0 { st.pack_first_variable_len_value(&Raw::<D>(v.to_vec()))?; } else { st.pack_variable_len_value_with_repetition(&Raw::<D>(v.to_vec()), rep)?; }
    Ok("()".into())
}
fn op_allocpack<const D: u64>(buf: &mut [u8], allow: bool, v: &[u8]) -> Result<String, ProgramError> {
    let mut st = TlvStateMut::unpack(buf)?;
    {
        // the trait's provided `pack`: exact-size destination only
        let r = Raw::<D>(v.to_vec());
        // (exercised for coverage only: no property speaks about this helper)
        let mut exact = vec![0u8; v.len()];
        let _ = guarded(|| r.pack(&mut exact).is_ok());
        let mut longer = vec![0u8; v.len() + 1];
        let _ = guarded(|| r.pack(&mut longer).is_err());
    }
    let rep = st.alloc_and_pack_variable_len_entry(&Raw::<D>(v.to_vec()), allow)?;
    Ok(format!("{rep}"))
}
fn op_get<const D: u64>(buf: &[u8], rep: usize) -> Result<String, ProgramError> {
    let st = TlvStateBorrowed::unpack(buf)?;
    let s = st.get_bytes_with_repetition::<Tag<D>>(rep)?;
    let v: Raw<D> = st.get_variable_len_value_with_repetition::<Raw<D>>(rep)?;
    assert_eq!(&v.0[..], s);
    if rep == 0 {
        assert_eq!(st.get_first_bytes::<Tag<D>>()?.as_ptr(), s.as_ptr(), "get_first_bytes differs from repetition 0");
        assert_eq!(st.get_first_variable_len_value::<Raw<D>>()?.0, v.0, "get_first_variable_len_value differs from repetition 0");
    }
    let (lo, hi) = range_of(buf, s);
    Ok(format!("{lo}:{hi}:{}", hex(s)))
}

// ---- the same operations on a handle that stays open (`multi`): a caller may keep one `TlvStateMut` for several
// mutations, and the bytes must not depend on whether it does
fn hop_alloc<const D: u64>(st: &mut TlvStateMut, base: usize, len: usize, allow: bool) -> Result<String, ProgramError> {
    let (s, rep) = st.alloc::<Tag<D>>(len, allow)?;
    let lo = s.as_ptr() as usize - base;
    Ok(format!("{}:{}:{}", lo, lo + s.len(), rep))
}
fn hop_init_n<const D: u64, const N: usize>(st: &mut TlvStateMut, base: usize, allow: bool) -> Result<String, ProgramError> {
    let (v, rep) = st.init_value::<Val<D, N>>(allow)?;
    let lo = v as *const _ as usize - base;
    Ok(format!("{}:{}:{}", lo, lo + N, rep))
}
fn hop_init<const D: u64>(st: &mut TlvStateMut, base: usize, sidx: usize, allow: bool) -> Result<String, ProgramError> { with_size!(sidx, hop_init_n, D, st, base, allow) }
fn hop_realloc<const D: u64>(st: &mut TlvStateMut, base: usize, len: usize, rep: usize) -> Result<String, ProgramError> {
    let s = if rep == 0 && len % 2 == 0 { st.realloc_first::<Tag<D>>(len)? } else { st.realloc_with_repetition::<Tag<D>>(len, rep)? };
    let lo = s.as_ptr() as usize - base;
    Ok(format!("{}:{}", lo, lo + s.len()))
}
fn hop_write<const D: u64>(st: &mut TlvStateMut, rep: usize, v: &[u8]) -> Result<String, ProgramError> {
    let s = if rep == 0 && v.len() % 2 == 0 { st.get_first_bytes_mut::<Tag<D>>()? } else { st.get_bytes_with_repetition_mut::<Tag<D>>(rep)? };
    if s.len() != v.len() { return Err(ProgramError::InvalidArgument); }
    s.copy_from_slice(v);
    Ok("()".into())
}
fn hop_typed_n<const D: u64, const N: usize>(st: &mut TlvStateMut, rep: usize, v: &[u8]) -> Result<String, ProgramError> {
    let r = if rep == 0 && v.first().map_or(true, |b| b % 2 == 0) { st.get_first_value_mut::<Val<D, N>>()? } else { st.get_value_with_repetition_mut::<Val<D, N>>(rep)? };
    *r = Val(v.try_into().expect("typed write value length"));
    Ok("()".into())
}
fn hop_typed<const D: u64>(st: &mut TlvStateMut, sidx: usize, rep: usize, v: &[u8]) -> Result<String, ProgramError> { with_size!(sidx, hop_typed_n, D, st, rep, v) }
fn hop_pack<const D: u64>(st: &mut TlvStateMut, rep: usize, v: &[u8]) -> Result<String, ProgramError> {
    if rep == 0 && v.len() % 2 == 0 { st.pack_first_variable_len_value(&Raw::<D>(v.to_vec()))?; } else { st.pack_variable_len_value_with_repetition(&Raw::<D>(v.to_vec()), rep)?; }
    Ok("()".into())
}
fn hop_allocpack<const D: u64>(st: &mut TlvStateMut, allow: bool, v: &[u8]) -> Result<String, ProgramError> {
    let rep = st.alloc_and_pack_variable_len_entry(&Raw::<D>(v.to_vec()), allow)?;
    Ok(format!("{rep}"))
}
/// all sub-operations of a `multi` line on ONE handle; `None` = panicked
fn multi_on_one_handle(buf: &mut [u8], subs: &[Vec<&str>]) -> Option<Result<Vec<String>, ProgramError>> {
    guarded(|| {
        let base = buf.as_ptr() as usize;
        let mut st = TlvStateMut::unpack(buf)?;
        let mut rs = vec![];
        for t in subs {
            let num = |i: usize| -> usize { t[i].parse().unwrap() };
            let r: Result<String, ProgramError> = match t[0] {
                "alloc" => with_tag!(num(1), hop_alloc, &mut st, base, num(2), num(3) == 1),
                "init" => with_tag!(num(1), hop_init, &mut st, base, num(2), num(3) == 1),
                "realloc" => with_tag!(num(1), hop_realloc, &mut st, base, num(2), num(3)),
                "write" => with_tag!(num(1), hop_write, &mut st, num(2), &unhex(t[3])),
                "typed" => with_tag!(num(1), hop_typed, &mut st, num(2), num(3), &unhex(t[4])),
                "pack" => with_tag!(num(1), hop_pack, &mut st, num(2), &unhex(t[3])),
                "allocpack" => with_tag!(num(1), hop_allocpack, &mut st, num(2) == 1, &unhex(t[3])),
                other => panic!("multi sub-op {other}"),
            };
            rs.push(match &r { Ok(x) => format!("ok {x}"), Err(x) => e(x) });
        }
        Ok(rs)
    })
}

fn shadow_encode(sh: &[(usize, Vec<u8>)], n: usize) -> Vec<u8> {
    let mut v = vec![];
    for (t, val) in sh {
        v.extend(PALETTE[*t].to_le_bytes());
        v.extend((val.len() as u32).to_le_bytes());
        v.extend(val);
    }
    v.resize(n.max(v.len()), 0);
    v
}

fn hist_op(h: &mut Hist, t: &[&str]) -> (String, Option<String>) {
    let before = h.buf.clone();
    let op = t[0];
    let args: Vec<String> = t[1..].iter().map(|s| s.to_string()).collect();
    let num = |i: usize| -> usize { args[i].parse().unwrap() };
    let buf = &mut h.buf;
    let r: Option<Result<String, ProgramError>> = guarded(|| match op {
        "alloc" => with_tag!(num(0), op_alloc, &mut buf[..], num(1), num(2) == 1),
        "init" => with_tag!(num(0), op_init, &mut buf[..], num(1), num(2) == 1),
        "realloc" => with_tag!(num(0), op_realloc, &mut buf[..], num(1), num(2)),
        "write" => with_tag!(num(0), op_write, &mut buf[..], num(1), &unhex(&args[2])),
        "typed" => with_tag!(num(0), op_typed, &mut buf[..], num(1), num(2), &unhex(&args[3])),
        "pack" => with_tag!(num(0), op_pack, &mut buf[..], num(1), &unhex(&args[2])),
        "allocpack" => with_tag!(num(0), op_allocpack, &mut buf[..], num(1) == 1, &unhex(&args[2])),
        "get" => with_tag!(num(0), op_get, &buf[..], num(1)),
        "discs" => { let st = TlvStateBorrowed::unpack(&buf[..])?; let v = st.get_discriminators()?; Ok(if v.is_empty() { "-".into() } else { v.iter().map(|d| hex(d.as_slice())).collect::<Vec<_>>().join(",") }) }
        "reopen" => { let (s, e2) = three_views(&buf[..]); if let Some(x) = e2 { Ok(format!("DISAGREE {x}")) } else if s.starts_with("ok;") { Ok(s[3..].to_string()) } else { Err(ProgramError::InvalidAccountData) } }
        _ => panic!("op {op}"),
    });
    let s = match &r { None => "panic".to_string(), Some(Ok(x)) => format!("ok {x}"), Some(Err(x)) => e(x) };
    let after = h.buf.clone();
    let failed = !matches!(r, Some(Ok(_)));
    let mut err: Option<String> = None;
    if r.is_none() && TlvStateBorrowed::unpack(&before).is_ok() { err = Some(format!("{op} panicked on a buffer that opens")); }
    let mutating = matches!(op, "alloc" | "init" | "realloc" | "write" | "typed" | "pack" | "allocpack");
    // C04: failed alloc / init / allocpack / realloc leave the bytes untouched and the buffer still opens
    if failed && matches!(op, "alloc" | "init" | "allocpack" | "realloc") {
        if after != before { err = Some(format!("failed {op} changed the buffer")); }
    }
    if failed && matches!(op, "write" | "typed") && after != before { err = Some(format!("failed {op} changed the buffer")); }
    if mutating && TlvStateBorrowed::unpack(&before).is_ok() && h.shadow.is_some() && TlvStateBorrowed::unpack(&after).is_err() {
        err = Some(format!("after {op} the buffer no longer opens"));
    }
    if failed && op == "pack" {
        // no byte outside the entry's value region changes
        if let Some(Ok(rng)) = guarded(|| with_tag!(num(0), op_get, &before[..], num(1))) {
            let p: Vec<&str> = rng.split(':').collect();
            let (lo, hi): (usize, usize) = (p[0].parse().unwrap(), p[1].parse().unwrap());
            if before[..lo] != after[..lo] || before[hi..] != after[hi..] { err = Some("failed pack changed bytes outside the value region".into()); }
        } else if after != before { err = Some("failed pack on a missing entry changed the buffer".into()); }
    }
    // shadow list oracle (C01 / C03) for histories that started from a zeroed buffer
    if let Some(sh) = &mut h.shadow {
        let n = before.len();
        let used: usize = sh.iter().map(|x| 12 + x.1.len()).sum();
        let count = |sh: &Vec<(usize, Vec<u8>)>, t: usize| sh.iter().filter(|x| x.0 == t).count();
        let find = |sh: &Vec<(usize, Vec<u8>)>, t: usize, rep: usize| sh.iter().enumerate().filter(|(_, x)| x.0 == t).nth(rep).map(|(i, _)| i);
        match op {
            "alloc" | "init" | "allocpack" => {
                let tg = num(0);
                let (len, allow, val): (usize, bool, Vec<u8>) = match op {
                    "alloc" => (num(1), num(2) == 1, vec![0; num(1)]),
                    "init" => { let n2 = SIZES[num(1)]; (n2, num(2) == 1, vec![n2 as u8 + 1; n2]) }
                    _ => { let v = unhex(&args[2]); (v.len(), num(1) == 1, v) }
                };
                let should_ok = (allow || count(sh, tg) == 0) && used + 12 + len <= n;
                if should_ok != !failed { err = Some(format!("{op}: expected {}", if should_ok { "success" } else { "an error" })); }
                if !failed {
                    let rep = count(sh, tg);
                    if !s.ends_with(&format!(":{rep}")) && !(op == "allocpack" && s == format!("ok {rep}")) { err = Some(format!("{op}: returned repetition number is not {rep}")); }
                    sh.push((tg, val));
                    h.mutations += 1;
                } else if !sh.is_empty() { h.fails_with_entries += 1; }
            }
            "realloc" => {
                let (tg, len, rep) = (num(0), num(1), num(2));
                match find(sh, tg, rep) {
                    Some(i) => {
                        let old = sh[i].1.len();
                        let should_ok = used - old + len <= n;
                        if should_ok != !failed { err = Some(format!("realloc: expected {}", if should_ok { "success" } else { "an error" })); }
                        if !failed { sh[i].1.resize(len, 0); h.mutations += 1; if i + 1 != sh.len() { h.touched_nonlast = true; } } else { h.fails_with_entries += 1; }
                    }
                    None => { if !failed { err = Some("realloc of a missing entry succeeded".into()); } else if !sh.is_empty() { h.fails_with_entries += 1; } }
                }
            }
            "write" | "typed" | "pack" => {
                let tg = num(0);
                let (rep, v) = if op == "typed" { (num(2), unhex(&args[3])) } else { (num(1), unhex(&args[2])) };
                match find(sh, tg, rep) {
                    Some(i) => {
                        let slot = sh[i].1.len();
                        if op == "pack" {
                            let k = v.len().min(slot);
                            sh[i].1[..k].copy_from_slice(&v[..k]);
                            if (v.len() <= slot) != !failed { err = Some("pack: success iff the packed value fits the slot".into()); }
                        } else if slot == v.len() {
                            if failed { err = Some(format!("{op} into an entry of the right size failed")); } else { sh[i].1 = v; }
                        } else if !failed { err = Some(format!("{op} with a wrong size succeeded")); }
                        if !failed { h.mutations += 1; if i + 1 != sh.len() { h.touched_nonlast = true; } }
                    }
                    None => if !failed { err = Some(format!("{op} on a missing entry succeeded")); },
                }
            }
            "get" => {
                let (tg, rep) = (num(0), num(1));
                match find(sh, tg, rep) {
                    Some(i) => {
                        let lo: usize = sh[..i].iter().map(|x| 12 + x.1.len()).sum::<usize>() + 12;
                        let exp = format!("ok {}:{}:{}", lo, lo + sh[i].1.len(), hex(&sh[i].1));
                        if s != exp { err = Some(format!("read-your-writes violated: expected {}", &exp[..exp.len().min(100)])); }
                    }
                    None => if !failed { err = Some("lookup of a missing entry succeeded".into()); },
                }
            }
            "discs" | "reopen" => {
                let exp = format!("ok {}", if sh.is_empty() { "-".to_string() } else { sh.iter().map(|x| hex(&PALETTE[x.0].to_le_bytes())).collect::<Vec<_>>().join(",") });
                if s != exp { err = Some(format!("listed types are not the entries in insertion order: expected {exp}")); }
            }
            _ => {}
        }
        // C03: canonical layout after every step
        let canon = shadow_encode(sh, n);
        if canon != after { err = Some("raw bytes differ from the canonical encoding of the logical entry list (type, LE length, value, zero tail)".into()); }
    }
    (format!("{} buf={}", s, hex(&after)), err)
}

/// `O multi <op> / <op> / ...` — the mutations run on one open handle.  The logical entry list (and every per-step
/// demand) is taken from running the same steps one by one on a copy; what the property adds is that the bytes after
/// the sequence are the canonical encoding of that list however the caller held its handle.
fn hist_multi(h: &mut Hist, t: &[&str]) -> (String, Option<String>) {
    let subs: Vec<Vec<&str>> = t.split(|x| *x == "/").map(|x| x.to_vec()).collect();
    let before_opens = TlvStateBorrowed::unpack(&h.buf).is_ok();
    let mut h2 = h.clone();
    let mut err: Option<String> = None;
    for sub in &subs {
        let (_, e1) = hist_op(&mut h2, sub);
        if err.is_none() { err = e1; }
    }
    let r = multi_on_one_handle(&mut h.buf[..], &subs);
    let s = match &r { None => "panic".to_string(), Some(Ok(rs)) => rs.join(";"), Some(Err(x)) => e(x) };
    if r.is_none() && before_opens { err = Some("a sequence of mutations on one handle panicked on a buffer that opens".into()); }
    if let Some(sh) = &h2.shadow {
        if shadow_encode(sh, h.buf.len()) != h.buf {
            err = Some("after several mutations through one handle the raw bytes differ from the canonical encoding of the logical entry list".into());
        }
    }
    let buf = std::mem::take(&mut h.buf);
    *h = h2;
    h.buf = buf;
    (format!("multi {} buf={}", s, hex(&h.buf)), err)
}

pub fn run(prop: &str, cases: &[String]) -> RunOut {
    let mut out = RunOut::default();
    let mut hist: Option<Hist> = None;
    let mut text = String::new();
    for line in cases {
        let t: Vec<&str> = line.split_whitespace().collect();
        let (impl_line, err) = match t[0] {
            "tlvq" => run_query(&t, &mut out, line),
            "bigentry" => {
                // bigentry <tagidx> <len1> <len2>: an entry whose length needs the third / fourth length byte, a small
                // entry behind it, then a resize of the big one; only headers and ranges are reported (not the buffer)
                let tag: usize = t[1].parse().unwrap();
                let (len1, len2): (usize, usize) = (t[2].parse().unwrap(), t[3].parse().unwrap());
                let n = len1.max(len2) + 200;
                let mut buf = vec![0u8; n];
                fn go<const D: u64, const D2: u64>(buf: &mut [u8], len1: usize, len2: usize) -> Result<String, ProgramError> {
                    let base = buf.as_ptr() as usize;
                    let mut st = TlvStateMut::unpack(buf)?;
                    let (s, _) = st.alloc::<Tag<D>>(len1, false)?;
                    let r1 = (s.as_ptr() as usize - base, s.len());
                    if len1 > 0 { s[0] = 0xa1; s[len1 - 1] = 0xa2; }
                    let (s2, _) = st.alloc::<Tag<D2>>(3, false)?;
                    s2.copy_from_slice(&[0xb1, 0xb2, 0xb3]);
                    drop(st);
                    let hdr1 = hex(&buf[..12]);
                    let mut st = TlvStateMut::unpack(buf)?;
                    let s = st.realloc_with_repetition::<Tag<D>>(len2, 0)?;
                    let r1b = (s.as_ptr() as usize - base, s.len());
                    let keep = len1.min(len2);
                    let edge_ok = keep == 0 || (s[0] == 0xa1 && (if len2 >= len1 { s[len1 - 1] == 0xa2 && s[len1..].iter().all(|&x| x == 0) } else { true }));
                    let second = st.get_bytes_with_repetition::<Tag<D2>>(0)?;
                    let sec = (second.as_ptr() as usize - base, hex(second));
                    drop(st);
                    let tail_zero = buf[12 + len2 + 15..].iter().all(|&x| x == 0);
                    Ok(format!("hdr1={hdr1} r1={}:{} hdr1b={} r1b={}:{} second={}:{} kept={} tail0={}", r1.0, r1.0 + r1.1, hex(&buf[..12]), r1b.0, r1b.0 + r1b.1, sec.0, sec.1, edge_ok as u8, tail_zero as u8))
                }
                let r = guarded(|| match tag % 4 { 0 => go::<{ PALETTE[0] }, { PALETTE[1] }>(&mut buf, len1, len2), 1 => go::<{ PALETTE[2] }, { PALETTE[3] }>(&mut buf, len1, len2),
                    2 => go::<{ PALETTE[4] }, { PALETTE[5] }>(&mut buf, len1, len2), _ => go::<{ PALETTE[6] }, { PALETTE[7] }>(&mut buf, len1, len2) });
                // independent expectation: type, LE length, value; the small entry directly behind; zero tail
                let (ta, tb) = match tag % 4 { 0 => (PALETTE[0], PALETTE[1]), 1 => (PALETTE[2], PALETTE[3]), 2 => (PALETTE[4], PALETTE[5]), _ => (PALETTE[6], PALETTE[7]) };
                let hdr = |tg: u64, l: usize| { let mut v = tg.to_le_bytes().to_vec(); v.extend((l as u32).to_le_bytes()); hex(&v) };
                let exp = format!("hdr1={} r1=12:{} hdr1b={} r1b=12:{} second={}:b1b2b3 kept=1 tail0=1", hdr(ta, len1), 12 + len1, hdr(ta, len2), 12 + len2, 12 + len2 + 12);
                let _ = tb;
                let s = match &r { None => "panic".to_string(), Some(Ok(x)) => format!("ok {x}"), Some(Err(x)) => e(x) };
                let err = if s == format!("ok {exp}") { None } else { Some(format!("an entry with a multi-byte length is not laid out canonically: expected `{}`", &exp[..exp.len().min(160)])) };
                out.stats.bump("bigentry");
                out.stats.nontrivial_case(line);
                (s, err)
            }
            "bigalloc" => {
                // bigalloc <tagidx> <extra>: allocate 2^32 + extra value bytes in a zeroed buffer that has the room for it
                // (lazily mapped zero pages): the only way to reach the "length not representable" branch with enough room
                let tag: usize = t[1].parse().unwrap();
                let extra: usize = t[2].parse().unwrap();
                let len = (1usize << 32) + extra;
                // allocated by hand so that a machine without 4 GiB of address space to spare skips the case instead of aborting
                let layout = std::alloc::Layout::from_size_align(len + 4096, 16).unwrap();
                let ptr = unsafe { std::alloc::alloc_zeroed(layout) };
                if ptr.is_null() {
                    out.stats.bump("bigalloc:skipped");
                    out.push(format!("err head={} | note: skipped, no room for a 4 GiB buffer", hex(&[0u8; 32])), Ok(()));
                    continue;
                }
                struct Big(*mut u8, std::alloc::Layout);
                impl Drop for Big { fn drop(&mut self) { unsafe { std::alloc::dealloc(self.0, self.1) } } }
                let _guard = Big(ptr, layout);
                let big: &mut [u8] = unsafe { std::slice::from_raw_parts_mut(ptr, len + 4096) };
                fn go<const D: u64>(buf: &mut [u8], len: usize) -> Result<String, ProgramError> {
                    let mut st = TlvStateMut::unpack(buf)?;
                    let (s, rep) = st.alloc::<Tag<D>>(len, false)?;
                    Ok(format!("{}:{rep}", s.len()))
                }
                let r = guarded(|| with_tag!(tag, go, &mut *big, len));
                let head_zero = big[..4096].iter().all(|&x| x == 0);
                let mut err = None;
                match &r {
                    None => err = Some("allocate panicked".to_string()),
                    Some(Ok(_)) => err = Some("a length that does not fit the length field was allocated".to_string()),
                    Some(Err(_)) => if !head_zero { err = Some("a failed allocate (length not representable) changed the buffer".to_string()) },
                }
                out.stats.bump("bigalloc");
                out.stats.nontrivial_case(line);
                (format!("{} head={}", match &r { None => "panic".to_string(), Some(Ok(x)) => format!("ok {x}"), Some(Err(x)) => e(x) }, hex(&big[..32])), err)
            }
            "bigrealloc" => {
                // bigrealloc <k> <extra>: two entries (4 and 3 bytes) at the head of a zeroed buffer of more than 4 GiB, then a
                // resize of the FIRST one to 2^32 + extra bytes: the room is there, the length is not representable; the call
                // must fail and leave both entries (the head of the buffer) exactly as they were
                let k: usize = t[1].parse().unwrap();
                let extra: usize = t[2].parse().unwrap();
                let len = (1usize << 32) + extra;
                let layout = std::alloc::Layout::from_size_align(len + 4096, 16).unwrap();
                let ptr = unsafe { std::alloc::alloc_zeroed(layout) };
                if ptr.is_null() {
                    out.stats.bump("bigrealloc:skipped");
                    out.push("skipped-no-room".into(), Ok(()));
                    continue;
                }
                struct Big2(*mut u8, std::alloc::Layout);
                impl Drop for Big2 { fn drop(&mut self) { unsafe { std::alloc::dealloc(self.0, self.1) } } }
                let _guard = Big2(ptr, layout);
                let big: &mut [u8] = unsafe { std::slice::from_raw_parts_mut(ptr, len + 4096) };
                fn setup<const D: u64, const D2: u64>(buf: &mut [u8]) -> Result<(), ProgramError> {
                    let mut st = TlvStateMut::unpack(buf)?;
                    st.alloc::<Tag<D>>(4, false)?.0.copy_from_slice(&[0xa1, 0xa2, 0xa3, 0xa4]);
                    st.alloc::<Tag<D2>>(3, false)?.0.copy_from_slice(&[0xb1, 0xb2, 0xb3]);
                    Ok(())
                }
                fn go2<const D: u64>(buf: &mut [u8], len: usize, first: bool) -> Result<String, ProgramError> {
                    let mut st = TlvStateMut::unpack(buf)?;
                    let s = if first { st.realloc_first::<Tag<D>>(len)? } else { st.realloc_with_repetition::<Tag<D>>(len, 0)? };
                    Ok(format!("{}", s.len()))
                }
                // set up on the first 64 bytes only (the walk stops at the zero tag), then resize on the whole buffer
                let su = match k % 2 { 0 => setup::<{ PALETTE[0] }, { PALETTE[1] }>(&mut big[..64]), _ => setup::<{ PALETTE[4] }, { PALETTE[5] }>(&mut big[..64]) };
                let before = big[..64].to_vec();
                let r = guarded(|| match k % 2 { 0 => go2::<{ PALETTE[0] }>(&mut *big, len, extra % 2 == 0), _ => go2::<{ PALETTE[4] }>(&mut *big, len, extra % 2 == 0) });
                let mut err = None;
                if su.is_err() { err = Some("setting up two small entries failed".to_string()); }
                match &r {
                    None => err = Some("resize panicked".to_string()),
                    Some(Ok(_)) => err = Some("a resize to a length that does not fit the length field succeeded".to_string()),
                    Some(Err(_)) => if big[..64] != before[..] || !big[64..4096].iter().all(|&x| x == 0) { err = Some("a failed resize (length not representable) changed the buffer".to_string()) },
                }
                out.stats.bump("bigrealloc");
                out.stats.nontrivial_case(line);
                (format!("{} head={}", match &r { None => "panic".to_string(), Some(Ok(x)) => format!("ok {x}"), Some(Err(x)) => e(x) }, hex(&big[..64])), err)
            }
            "B" => {
                // B <case> tlv <zero|raw> <hex initial buffer>
                let b = unhex(t[4]);
                hist = Some(Hist { shadow: if t[3] == "zero" { Some(vec![]) } else { None }, buf: b, mutations: 0, fails_with_entries: 0, touched_nonlast: false });
                text = line.clone();
                ("begin".into(), None)
            }
            "O" => {
                let h = hist.as_mut().expect("O outside history");
                let r = if t[1] == "multi" { hist_multi(h, &t[2..]) } else { hist_op(h, &t[1..]) };
                text.push_str(" ; "); text.push_str(line);
                out.stats.bump(&format!("op:{}:{}", t[1], if r.0.starts_with("ok") { "ok" } else if r.0.starts_with("err") { "err" } else { "panic" }));
                r
            }
            "E" => {
                if let Some(h) = &hist {
                    let distinct = h.shadow.as_ref().map_or(0, |s| s.len());
                    let nontrivial = match prop {
                        "C04" => h.fails_with_entries >= 1,
                        _ => h.mutations >= 2 && distinct >= 2 && h.touched_nonlast,
                    };
                    if nontrivial { out.stats.nontrivial_case(&text); out.stats.sample(&text); }
                }
                hist = None;
                ("end".into(), None)
            }
            other => panic!("unknown op {other}"),
        };
        out.push(demote_codes(&impl_line), err.map_or(Ok(()), Err));
    }
    out
}

// ---------- generators ----------
fn valid_encoding(rng: &mut Rng, max_entries: usize) -> Vec<u8> {
    let n = rng.below(max_entries as u64 + 1) as usize;
    let mut v = vec![];
    for _ in 0..n {
        let t = rng.below(8) as usize;
        let len = if rng.chance(1, 2) { SIZES[rng.below(6) as usize] } else { rng.below(20) as usize };
        v.extend(PALETTE[t].to_le_bytes());
        v.extend((len as u32).to_le_bytes());
        v.extend(rng.bytes(len));
    }
    v
}

pub fn generate_c02(tier: &str, rng: &mut Rng) -> Vec<String> {
    let thorough = tier == "thorough";
    let mut bufs: Vec<Vec<u8>> = vec![];
    for n in 0..=13 { bufs.push(vec![0u8; n]); bufs.push(rng.bytes(n)); }
    let rounds = if thorough { 200_000 } else { 900 };
    for _ in 0..rounds {
        let mut b = valid_encoding(rng, 4);
        match rng.below(12) {
            0 => {}
            1 => { let k = rng.range(1, 11) as usize; b.extend(vec![0u8; k]); }                   // 1..11 trailing zero bytes
            2 => { let k = rng.range(1, 11) as usize; let mut t = vec![0u8; k]; let i = rng.below(k as u64) as usize; t[i] = rng.byte() | 1; b.extend(t); } // non-zero short tail
            3 => {
                // zero tag, then garbage — half of the time garbage that itself looks like entries (behind a zero length field, or
                // directly): nothing behind the terminator is an entry, whatever it looks like
                b.extend(vec![0u8; 8]);
                if rng.chance(1, 2) { let g = rng.range(0, 30) as usize; b.extend(rng.bytes(g)); }
                else { if rng.chance(2, 3) { b.extend(vec![0u8; 4]); } b.extend(valid_encoding(rng, 3)); }
            }
            4 => { let l = rng.below(b.len() as u64 + 1) as usize; b.truncate(l); }                    // truncation anywhere
            5 => { b.extend(PALETTE[rng.below(8) as usize].to_le_bytes()); b.extend(u32::MAX.to_le_bytes()); let g = rng.below(20) as usize; b.extend(rng.bytes(g)); }
            6 => { // length field exactly-the-end / one past
                let room = rng.below(20) as usize;
                b.extend(PALETTE[rng.below(8) as usize].to_le_bytes());
                let l = if rng.chance(1, 2) { room } else { room + 1 };
                b.extend((l as u32).to_le_bytes()); b.extend(rng.bytes(room));
            }
            7 => { b.extend(PALETTE[rng.below(8) as usize].to_le_bytes()); let k = rng.below(4) as usize; b.extend(rng.bytes(k)); } // truncated length
            8 => { let copy = b.clone(); b.extend(copy); }                                            // duplicated entries
            9 => { let k = rng.below(65) as usize; b = rng.bytes(k); }
            10 => { let k = rng.range(12, 40) as usize; b.extend(vec![0u8; k]); }
            _ => { if !b.is_empty() { let i = rng.below(b.len() as u64) as usize; b[i] = rng.byte(); } }
        }
        bufs.push(b);
    }
    let mut v = vec![];
    // entries of 64 KiB .. 16 MiB (around 2^16, 2^24 and the 10 MiB account limit): allocated, resized, walked past, looked up
    for (k, (a, b)) in [(70_000usize, 66_000usize), (66_000, 16_777_300), (10_485_760, 10_485_761), (10_485_761, 12_000_000), (12_000_000, 10_485_759)].iter().enumerate() {
        v.push(format!("bigentry {k} {a} {b}"));
    }
    for b in bufs {
        let h = hex(&b);
        let k = if thorough { 4 } else { 3 };
        for _ in 0..k {
            let tag = rng.below(8);
            let rep = rng.below(3);
            let size = if rng.chance(1, 2) { "-".to_string() } else { rng.below(6).to_string() };
            v.push(format!("tlvq {h} {tag} {rep} {size}"));
        }
    }
    v
}

pub fn generate_hist(prop: &str, tier: &str, rng: &mut Rng) -> Vec<String> {
    let thorough = tier == "thorough";
    let mut v = vec![];
    if prop == "C03" || prop == "C01" {
        // lengths that need the third and the fourth byte of the length field (>= 2^16, >= 2^24), growing and shrinking
        for (k, (a, b)) in [(70_000usize, 66_000usize), (66_000, 16_777_300), (16_777_300, 300), (65_535, 65_536), (16_777_215, 16_777_216)].iter().enumerate() {
            v.push(format!("bigentry {k} {a} {b}"));
        }
    }
    if prop == "C04" {
        // the "length not representable" failure with enough room needs a buffer of more than 4 GiB
        for extra in [0usize, 1, 4096] { v.push(format!("bigalloc {} {extra}", rng.below(8))); }
        for (k, extra) in [(0usize, 0usize), (1, 1), (0, 37)] { v.push(format!("bigrealloc {k} {extra}")); }
    }
    let n_hist = if thorough { 30_000 } else { 300 };
    let max_ops = if thorough { 60 } else { 30 };
    for case in 0..n_hist {
        // shadow of (tag, len) to steer the generator towards exact-fit and failing operations
        let mut sh: Vec<(usize, usize)> = vec![];
        let target_entries = rng.range(1, 5) as usize;
        // one history in six is "wide": a buffer of several hundred bytes and lengths around the points where the second
        // byte of the little-endian length field comes into play (255/256/257, 511/512), in both directions
        let wide = rng.chance(1, 6);
        const WIDE_LENS: &[usize] = &[200, 250, 255, 256, 257, 300, 320, 511, 512, 513];
        let size = if wide { *rng.pick(&[330usize, 420, 600, 800, 1100]) } else { match rng.below(6) { 0 => rng.below(30) as usize, 1 => 300, _ => rng.range(20, 140) as usize } };
        let raw = prop == "C04" && rng.chance(1, 5);
        if raw {
            // an openable but non-canonical start: valid entries, terminator, then garbage
            let mut b = valid_encoding(rng, 3);
            b.extend(vec![0u8; 8]); let g = rng.below(30) as usize; b.extend(rng.bytes(g));
            v.push(format!("B {case} tlv raw {}", hex(&b)));
        } else {
            v.push(format!("B {case} tlv zero {}", hex(&vec![0u8; size])));
        }
        let nops = rng.range(4, max_ops);
        for _ in 0..nops {
            let used: usize = sh.iter().map(|x| 12 + x.1).sum();
            let free = size.saturating_sub(used);
            let pick_existing = |rng: &mut Rng, sh: &Vec<(usize, usize)>| -> Option<(usize, usize, usize)> {
                if sh.is_empty() { return None; }
                let i = rng.below(sh.len() as u64) as usize;
                let t = sh[i].0;
                let rep = sh[..i].iter().filter(|x| x.0 == t).count();
                Some((t, rep, sh[i].1))
            };
            let fits = |len: usize| free >= 12 + len;
            match rng.below(20) {
                0..=3 => {
                    let t = if sh.len() < target_entries || rng.chance(1, 2) { rng.below(8) as usize } else { sh[rng.below(sh.len() as u64) as usize].0 };
                    let mut len = match rng.below(6) { 0 => free.saturating_sub(12), 1 => free.saturating_sub(11), 2 => free + rng.below(3) as usize, _ => rng.below(24) as usize };
                    if wide && rng.chance(1, 2) { len = *rng.pick(WIDE_LENS); }
                    let allow = rng.chance(1, 2);
                    let dup = sh.iter().any(|x| x.0 == t);
                    v.push(format!("O alloc {t} {len} {}", allow as u8));
                    if (allow || !dup) && fits(len) { sh.push((t, len)); }
                }
                4..=5 => {
                    let t = rng.below(8) as usize; let s = rng.below(6) as usize; let allow = rng.chance(1, 2);
                    let dup = sh.iter().any(|x| x.0 == t);
                    v.push(format!("O init {t} {s} {}", allow as u8));
                    if (allow || !dup) && fits(SIZES[s]) { sh.push((t, SIZES[s])); }
                }
                6..=9 => {
                    if let Some((t, rep, old)) = pick_existing(rng, &sh) {
                        let mut len = match rng.below(7) { 0 => 0, 1 => old, 2 => old + free, 3 => old + free + 1, 4 => old / 2, 5 => if rng.chance(1, 8) { u32::MAX as usize + 1 } else { old + 1 }, _ => rng.below(40) as usize };
                        if wide && rng.chance(1, 2) { len = *rng.pick(WIDE_LENS); }
                        v.push(format!("O realloc {t} {len} {rep}"));
                        if len <= old + free { let i = sh.iter().enumerate().filter(|(_, x)| x.0 == t).nth(rep).unwrap().0; sh[i].1 = len; }
                    } else { v.push(format!("O realloc {} {} {}", rng.below(8), rng.below(10), rng.below(2))); }
                }
                10..=11 => {
                    if let Some((t, rep, len)) = pick_existing(rng, &sh) {
                        let l = if rng.chance(9, 10) { len } else { len + 1 };
                        v.push(format!("O write {t} {rep} {}", hex(&rng.bytes(l))));
                    } else { v.push(format!("O write {} 0 {}", rng.below(8), hex(&rng.bytes(3)))); }
                }
                12 => {
                    if let Some((t, rep, len)) = pick_existing(rng, &sh) {
                        if let Some(s) = SIZES.iter().position(|&x| x == len) { v.push(format!("O typed {t} {s} {rep} {}", hex(&rng.bytes(len)))); }
                        else { v.push(format!("O typed {t} 4 {rep} {}", hex(&rng.bytes(8)))); }
                    } else { v.push(format!("O typed {} 1 0 {}", rng.below(8), hex(&rng.bytes(1)))); }
                }
                13..=14 => {
                    if let Some((t, rep, len)) = pick_existing(rng, &sh) {
                        let l = match rng.below(4) { 0 => len + 1 + rng.below(4) as usize, 1 => len, _ => rng.below(len as u64 + 1) as usize };
                        v.push(format!("O pack {t} {rep} {}", hex(&rng.bytes(l))));
                    } else { v.push(format!("O pack {} 0 {}", rng.below(8), hex(&rng.bytes(2)))); }
                }
                15 => {
                    let t = rng.below(8) as usize; let allow = rng.chance(1, 2);
                    let len = match rng.below(4) { 0 => free.saturating_sub(12), 1 => free.saturating_sub(11), _ => rng.below(16) as usize };
                    let dup = sh.iter().any(|x| x.0 == t);
                    v.push(format!("O allocpack {t} {} {}", allow as u8, hex(&rng.bytes(len))));
                    if (allow || !dup) && fits(len) { sh.push((t, len)); }
                }
                16..=17 => {
                    if let Some((t, rep, _)) = pick_existing(rng, &sh) { let r = if rng.chance(5, 6) { rep } else { rep + 1 }; v.push(format!("O get {t} {r}")); }
                    else { v.push(format!("O get {} 0", rng.below(8))); }
                }
                18 => v.push("O discs".into()),
                _ => v.push("O reopen".into()),
            }
        }
        // one history in three keeps its handle open across runs of 2-4 consecutive mutations
        if rng.chance(1, 3) {
            let start = v.iter().rposition(|l| l.starts_with("B ")).unwrap() + 1;
            let ops: Vec<String> = v.drain(start..).collect();
            let is_mut = |l: &String| ["O alloc ", "O init ", "O realloc ", "O write ", "O typed ", "O pack ", "O allocpack "].iter().any(|p| l.starts_with(p));
            let mut i = 0;
            while i < ops.len() {
                let mut j = i;
                let want = rng.range(2, 5) as usize;
                while j < ops.len() && is_mut(&ops[j]) && j - i < want { j += 1; }
                if j - i >= 2 {
                    v.push(format!("O multi {}", ops[i..j].iter().map(|l| l[2..].to_string()).collect::<Vec<_>>().join(" / ")));
                    i = j;
                } else { v.push(ops[i].clone()); i += 1; }
            }
        }
        // all lookups at the end
        let mut seen: Vec<(usize, usize)> = vec![];
        for (i, x) in sh.iter().enumerate() { let rep = sh[..i].iter().filter(|y| y.0 == x.0).count(); seen.push((x.0, rep)); }
        for (t, rep) in seen { v.push(format!("O get {t} {rep}")); }
        v.push("O reopen".into());
        v.push("E".into());
    }
    v
}
