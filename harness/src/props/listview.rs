//! C09 / C10 — ListView over 8 element types x 4 prefix types, at every start offset of a
//! 16-aligned arena.
use crate::util::*;
use bytemuck::{Pod, Zeroable};
use solana_program_error::ProgramError;
use spl_list_view::{List, ListView, ListViewMut};
use spl_pod::primitives::{PodU128, PodU16, PodU32, PodU64};
use spl_tlv_account_resolution::account::ExtraAccountMeta;

#[repr(C, align(16))]
#[derive(Clone, Copy, Pod, Zeroable)]
pub struct A16(pub [u8; 16]);
#[repr(C)]
#[derive(Clone, Copy, Pod, Zeroable)]
pub struct Zst;
/// size is a proper multiple of the alignment (12 / 4 and 24 / 8): padding must follow the
/// alignment, not the size
#[repr(C)]
#[derive(Clone, Copy, Pod, Zeroable)]
pub struct T12(pub [u32; 3]);
#[repr(C)]
#[derive(Clone, Copy, Pod, Zeroable)]
pub struct T24(pub [u64; 3]);

/// user-defined length prefixes whose width is not a power of two (24 and 48 bits, little-endian, align 1): the blanket
/// `PodLength` impl admits them, and the layout rules (padding up to the element alignment) are the same for every width
macro_rules! pod_len {
    ($name:ident, $n:expr) => {
        #[repr(transparent)]
        #[derive(Clone, Copy, Debug, Default, PartialEq, Pod, Zeroable)]
        pub struct $name(pub [u8; $n]);
        impl TryFrom<usize> for $name {
            type Error = core::num::TryFromIntError;
            fn try_from(v: usize) -> Result<Self, Self::Error> {
                if (v as u128) >> (8 * $n) != 0 { return Err(u8::try_from(256u16).unwrap_err()); }
                let mut out = [0u8; $n];
                out.copy_from_slice(&(v as u64).to_le_bytes()[..$n]);
                Ok(Self(out))
            }
        }
        impl From<$name> for usize {
            fn from(v: $name) -> usize { let mut b = [0u8; 8]; b[..$n].copy_from_slice(&v.0); u64::from_le_bytes(b) as usize }
        }
    };
}
pod_len!(PodU24, 3);
pod_len!(PodU48, 6);

#[repr(C, align(16))]
#[derive(Clone)]
struct Arena<const N: usize>([u8; N]);

/// (size, align) of the element type names used on case lines
pub fn elem_params(t: &str) -> (usize, usize) {
    match t { "u8" => (1, 1), "u16" => (2, 2), "b3" => (3, 1), "u32" => (4, 4), "u64" => (8, 8), "a16" => (16, 16), "m35" => (35, 1), "zst" => (0, 1), "t12" => (12, 4), "t24" => (24, 8), _ => panic!("elem type {t}") }
}
pub fn prefix_width(l: &str) -> usize { match l { "p8" => 1, "p16" | "r16" => 2, "p24" => 3, "p32" => 4, "p48" => 6, "p64" => 8, "p128" => 16, _ => panic!("prefix {l}") } }
/// `r16` is the primitive `u16`: it satisfies the `PodLength` bounds but is 2-aligned, which `header_padding` rejects
pub fn prefix_supported(l: &str) -> bool { l != "r16" }
pub const ELEMS: &[&str] = &["u8", "u16", "b3", "u32", "u64", "a16", "m35", "zst", "t12", "t24"];
pub const PREFIXES: &[&str] = &["p16", "p32", "p64", "p128", "p8", "r16", "p24", "p48"];

macro_rules! dispatch {
    ($t:expr, $l:expr, $f:ident, $($arg:expr),*) => {
        match ($t, $l) {
            ("u8", "p16") => $f::<u8, PodU16>($($arg),*), ("u8", "p32") => $f::<u8, PodU32>($($arg),*), ("u8", "p64") => $f::<u8, PodU64>($($arg),*), ("u8", "p128") => $f::<u8, PodU128>($($arg),*),
            ("u8", "p8") => $f::<u8, u8>($($arg),*), ("u8", "r16") => $f::<u8, u16>($($arg),*), ("u8", "p24") => $f::<u8, PodU24>($($arg),*), ("u8", "p48") => $f::<u8, PodU48>($($arg),*),
            ("u16", "p16") => $f::<u16, PodU16>($($arg),*), ("u16", "p32") => $f::<u16, PodU32>($($arg),*), ("u16", "p64") => $f::<u16, PodU64>($($arg),*), ("u16", "p128") => $f::<u16, PodU128>($($arg),*),
            ("u16", "p8") => $f::<u16, u8>($($arg),*), ("u16", "r16") => $f::<u16, u16>($($arg),*), ("u16", "p24") => $f::<u16, PodU24>($($arg),*), ("u16", "p48") => $f::<u16, PodU48>($($arg),*),
            ("b3", "p16") => $f::<[u8; 3], PodU16>($($arg),*), ("b3", "p32") => $f::<[u8; 3], PodU32>($($arg),*), ("b3", "p64") => $f::<[u8; 3], PodU64>($($arg),*), ("b3", "p128") => $f::<[u8; 3], PodU128>($($arg),*),
            ("b3", "p8") => $f::<[u8; 3], u8>($($arg),*), ("b3", "r16") => $f::<[u8; 3], u16>($($arg),*), ("b3", "p24") => $f::<[u8; 3], PodU24>($($arg),*), ("b3", "p48") => $f::<[u8; 3], PodU48>($($arg),*),
            ("u32", "p16") => $f::<u32, PodU16>($($arg),*), ("u32", "p32") => $f::<u32, PodU32>($($arg),*), ("u32", "p64") => $f::<u32, PodU64>($($arg),*), ("u32", "p128") => $f::<u32, PodU128>($($arg),*),
            ("u32", "p8") => $f::<u32, u8>($($arg),*), ("u32", "r16") => $f::<u32, u16>($($arg),*), ("u32", "p24") => $f::<u32, PodU24>($($arg),*), ("u32", "p48") => $f::<u32, PodU48>($($arg),*),
            ("u64", "p16") => $f::<u64, PodU16>($($arg),*), ("u64", "p32") => $f::<u64, PodU32>($($arg),*), ("u64", "p64") => $f::<u64, PodU64>($($arg),*), ("u64", "p128") => $f::<u64, PodU128>($($arg),*),
            ("u64", "p8") => $f::<u64, u8>($($arg),*), ("u64", "r16") => $f::<u64, u16>($($arg),*), ("u64", "p24") => $f::<u64, PodU24>($($arg),*), ("u64", "p48") => $f::<u64, PodU48>($($arg),*),
            ("a16", "p16") => $f::<A16, PodU16>($($arg),*), ("a16", "p32") => $f::<A16, PodU32>($($arg),*), ("a16", "p64") => $f::<A16, PodU64>($($arg),*), ("a16", "p128") => $f::<A16, PodU128>($($arg),*),
            ("a16", "p8") => $f::<A16, u8>($($arg),*), ("a16", "r16") => $f::<A16, u16>($($arg),*), ("a16", "p24") => $f::<A16, PodU24>($($arg),*), ("a16", "p48") => $f::<A16, PodU48>($($arg),*),
            ("m35", "p16") => $f::<ExtraAccountMeta, PodU16>($($arg),*), ("m35", "p32") => $f::<ExtraAccountMeta, PodU32>($($arg),*), ("m35", "p64") => $f::<ExtraAccountMeta, PodU64>($($arg),*), ("m35", "p128") => $f::<ExtraAccountMeta, PodU128>($($arg),*),
            ("m35", "p8") => $f::<ExtraAccountMeta, u8>($($arg),*), ("m35", "r16") => $f::<ExtraAccountMeta, u16>($($arg),*), ("m35", "p24") => $f::<ExtraAccountMeta, PodU24>($($arg),*), ("m35", "p48") => $f::<ExtraAccountMeta, PodU48>($($arg),*),
            ("zst", "p16") => $f::<Zst, PodU16>($($arg),*), ("zst", "p32") => $f::<Zst, PodU32>($($arg),*), ("zst", "p64") => $f::<Zst, PodU64>($($arg),*), ("zst", "p128") => $f::<Zst, PodU128>($($arg),*),
            ("zst", "p8") => $f::<Zst, u8>($($arg),*), ("zst", "r16") => $f::<Zst, u16>($($arg),*), ("zst", "p24") => $f::<Zst, PodU24>($($arg),*), ("zst", "p48") => $f::<Zst, PodU48>($($arg),*),
            ("t12", "p16") => $f::<T12, PodU16>($($arg),*), ("t12", "p32") => $f::<T12, PodU32>($($arg),*), ("t12", "p64") => $f::<T12, PodU64>($($arg),*), ("t12", "p128") => $f::<T12, PodU128>($($arg),*),
            ("t12", "p8") => $f::<T12, u8>($($arg),*), ("t12", "r16") => $f::<T12, u16>($($arg),*), ("t12", "p24") => $f::<T12, PodU24>($($arg),*), ("t12", "p48") => $f::<T12, PodU48>($($arg),*),
            ("t24", "p16") => $f::<T24, PodU16>($($arg),*), ("t24", "p32") => $f::<T24, PodU32>($($arg),*), ("t24", "p64") => $f::<T24, PodU64>($($arg),*), ("t24", "p128") => $f::<T24, PodU128>($($arg),*),
            ("t24", "p8") => $f::<T24, u8>($($arg),*), ("t24", "r16") => $f::<T24, u16>($($arg),*), ("t24", "p24") => $f::<T24, PodU24>($($arg),*), ("t24", "p48") => $f::<T24, PodU48>($($arg),*),
            _ => panic!("type combination"),
        }
    };
}

fn res_err(e: &ProgramError) -> String { format!("err | {}", err_code(e)) }

fn elems_hex<T: Pod>(s: &[T]) -> String {
    if s.is_empty() { return "-".into(); }
    if std::mem::size_of::<T>() == 0 { return format!("zst*{}", s.len()); }
    s.iter().map(|x| hex(bytemuck::bytes_of(x))).collect::<Vec<_>>().join(",")
}

/// C10: open `bytes` placed at `offset` inside a 16-aligned arena, read-only and mutably.
fn lv_bytes<T: Pod, L: spl_list_view::PodLength>(offset: usize, bytes: &[u8]) -> (String, Option<String>) {
    let mut arena = Box::new(Arena::<{ 1 << 17 }>([0u8; 1 << 17]));
    let n = bytes.len();
    arena.0[offset..offset + n].copy_from_slice(bytes);
    let base = arena.0.as_ptr() as usize;
    let lo = base + offset;
    let hi = lo + n;
    let mut err: Option<String> = None;
    let ro = guarded(|| {
        let buf = &arena.0[offset..offset + n];
        match ListView::<T, L>::unpack(buf) {
            Ok(v) => {
                let p = v.as_ptr() as usize;
                let inside = v.len() == 0 || std::mem::size_of::<T>() == 0 || (p >= lo && p + v.len() * std::mem::size_of::<T>() <= hi);
                let aligned = p % std::mem::align_of::<T>() == 0;
                (format!("ok len={} cap={} elems={}", v.len(), v.capacity(), elems_hex(&v[..])), inside, aligned, v.len() <= v.capacity())
            }
            Err(e) => (res_err(&e), true, true, true),
        }
    });
    let ro_s = match ro {
        None => { err = Some("unpack panicked".into()); "panic".to_string() }
        Some((s, inside, aligned, le)) => {
            if !inside { err = Some("view exposes memory outside the buffer".into()); }
            if !aligned { err = Some("view is misaligned for the element type".into()); }
            if !le { err = Some("length exceeds capacity".into()); }
            s
        }
    };
    let mut copy = bytes.to_vec();
    let _ = &mut copy;
    let rw = guarded(|| {
        let buf = &mut arena.0[offset..offset + n];
        match ListView::<T, L>::unpack_mut(buf) {
            Ok(v) => format!("ok len={} cap={} elems={}", v.len(), v.capacity(), elems_hex(&v[..])),
            Err(e) => res_err(&e),
        }
    });
    match rw {
        None => err = Some("unpack_mut panicked".into()),
        Some(s) => if s.split(" | ").next() != ro_s.split(" | ").next() { err = Some(format!("read-only and mutable opening disagree: {} vs {}", ro_s, s)); },
    }
    if std::mem::align_of::<L>() != 1 {
        // a length-prefix type with an alignment requirement is not supported: every opening is an error
        if !ro_s.starts_with("err") { err = Some("a view over an aligned length-prefix type was not rejected".into()); }
        return (ro_s, err);
    }
    // property clauses stated directly
    let (sz, al) = (std::mem::size_of::<T>(), std::mem::align_of::<T>());
    let wl = std::mem::size_of::<L>();
    let pad = if al <= 1 || wl % al == 0 { 0 } else { al - wl % al };
    let hdr = wl + pad;
    {
        // `init` is the third way to open a buffer (mutably, resetting the count): it accepts exactly the layouts the other two
        // accept — long enough for the header, data start aligned, a whole number of elements — whatever count is stored
        let mut a2 = Box::new(Arena::<{ 1 << 17 }>([0u8; 1 << 17]));
        a2.0[offset..offset + n].copy_from_slice(bytes);
        let well_formed = n >= hdr && (lo + hdr) % al.max(1) == 0 && (if sz == 0 { n == hdr } else { (n - hdr) % sz == 0 });
        match guarded(|| ListView::<T, L>::init(&mut a2.0[offset..offset + n]).map(|v| (v.len(), v.capacity()))) {
            None => err = Some("init panicked".into()),
            Some(Ok((l, c))) => {
                if !well_formed { err = Some("init accepted a buffer that read-only and mutable opening reject for its layout (too short, misaligned or not a whole number of elements)".into()); }
                else if l != 0 || c != (if sz == 0 { 0 } else { n.saturating_sub(hdr) / sz }) { err = Some("init did not yield an empty list of capacity (buffer - header) / element size".into()); }
            }
            Some(Err(_)) => if well_formed { err = Some("init rejected a buffer in the documented layout".into()); },
        }
    }
    if ro_s.starts_with("ok") {
        let cap: usize = ro_s.split("cap=").nth(1).unwrap().split(' ').next().unwrap().parse().unwrap();
        let expect_cap = if sz == 0 { 0 } else { n.saturating_sub(hdr) / sz };
        if n >= hdr && cap != expect_cap { err = Some(format!("capacity {cap} != (buffer - header) / element size = {expect_cap}")); }
        if n >= hdr && sz > 0 && (n - hdr) % sz != 0 { err = Some("accepted a data region that is not a whole number of elements".into()); }
        if n < hdr { err = Some(format!("accepted a buffer of {n} bytes, shorter than the header (prefix + padding = {hdr} bytes)")); }
        if (lo + hdr) % al != 0 { err = Some("accepted a misaligned data region".into()); }
        // the stored length, read at its full width, must not exceed the capacity and must be the view's length
        let mut le = [0u8; 16];
        le[..wl].copy_from_slice(&bytes[..wl]);
        let stored = u128::from_le_bytes(le);
        let len: usize = ro_s.split("len=").nth(1).unwrap().split(' ').next().unwrap().parse().unwrap();
        if stored > cap as u128 { err = Some(format!("accepted a buffer whose stored length {stored} exceeds the capacity {cap}")); }
        else if stored != len as u128 { err = Some("the view's length is not the stored length".into()); }
    } else if ro_s.starts_with("err") {
        // must be rejected for one of the documented reasons
        let mut le = [0u8; 16];
        if n >= wl { le[..wl].copy_from_slice(&bytes[..wl]); }
        let stored = u128::from_le_bytes(le);
        let reason = n < hdr || (sz > 0 && (n - hdr) % sz != 0) || (sz == 0 && n != hdr) || (lo + hdr) % al != 0
            || (n >= hdr && stored > (if sz == 0 { 0 } else { ((n - hdr) / sz) as u128 }));
        if !reason { err = Some("rejected a buffer that is well-formed".into()); }
    }
    (ro_s, err)
}

#[derive(Clone)]
struct Hist {
    t: String,
    l: String,
    offset: usize,
    arena: Box<Arena<{ 1 << 17 }>>,
    n: usize,
    shadow: Option<Vec<Vec<u8>>>,   // None until a successful init / reopen established the list
    cap: usize,
}

fn cmp_mode(mode: &str, a: &[u8], b: &[u8]) -> std::cmp::Ordering {
    match mode { "lex" => a.cmp(b), "first" => a.first().cmp(&b.first()), "rev" => b.cmp(a), _ => panic!("sort mode") }
}

fn hist_op<T: Pod, L: spl_list_view::PodLength>(h: &mut Hist, op: &[&str]) -> (String, Option<String>) {
    let sz = std::mem::size_of::<T>();
    let before = h.arena.0[h.offset..h.offset + h.n].to_vec();
    let (offset, n) = (h.offset, h.n);
    let mut err: Option<String> = None;
    let opname = op[0].to_string();
    let args: Vec<String> = op[1..].iter().map(|s| s.to_string()).collect();
    let arena = &mut h.arena;
    let r = guarded(|| -> Result<String, ProgramError> {
        let buf = &mut arena.0[offset..offset + n];
        if opname == "init" {
            let v = ListView::<T, L>::init(buf)?;
            return Ok(format!("len={} cap={}", v.len(), v.capacity()));
        }
        if opname == "reopen" {
            let ro = { let v = ListView::<T, L>::unpack(&*buf)?; format!("len={} cap={} elems={}", v.len(), v.capacity(), elems_hex(&v[..])) };
            let v = ListView::<T, L>::unpack_mut(buf)?;
            let rw = format!("len={} cap={} elems={}", v.len(), v.capacity(), elems_hex(&v[..]));
            if ro != rw { return Ok(format!("MISMATCH {ro} / {rw}")); }
            return Ok(rw);
        }
        let mut v: ListViewMut<T, L> = ListView::<T, L>::unpack_mut(buf)?;
        match opname.as_str() {
            "push" => { let x: T = bytemuck::pod_read_unaligned(&unhex(&args[0])); v.push(x)?; Ok("()".into()) }
            "remove" => { let i: usize = args[0].parse().unwrap(); let x = v.remove(i)?; Ok(if sz == 0 { "zst".into() } else { hex(bytemuck::bytes_of(&x)) }) }
            "set" => { let i: usize = args[0].parse().unwrap(); let x: T = bytemuck::pod_read_unaligned(&unhex(&args[1])); v[i] = x; Ok("()".into()) }
            "sort" => { let m = args[0].clone(); v.sort_by(|a, b| cmp_mode(&m, bytemuck::bytes_of(a), bytemuck::bytes_of(b))); Ok("()".into()) }
            "used" => Ok(format!("{}", v.bytes_used()?)),
            "alloc" => Ok(format!("{}", v.bytes_allocated()?)),
            _ => panic!("op"),
        }
    });
    let after = h.arena.0[h.offset..h.offset + h.n].to_vec();
    let s = match &r {
        None => "panic".to_string(),
        Some(Ok(s)) => format!("ok {s}"),
        Some(Err(e)) => res_err(e),
    };
    // ---- oracle: capacity-bounded vector ----
    let wl = std::mem::size_of::<L>();
    let lmax: u128 = if wl == 16 { u128::MAX } else { (1u128 << (8 * wl)) - 1 };
    let failed = !matches!(r, Some(Ok(_)));
    if failed && after != before && op[0] != "set" { err = Some("a failed operation changed bytes of the buffer".into()); }
    if op[0] == "reopen" {
        // "the bytes are always the element count as a little-endian prefix": a view that opens shows exactly the count the
        // whole prefix encodes (whatever the history, also for a raw starting buffer)
        if let Some(Ok(x)) = &r {
            if let Some(l) = x.strip_prefix("len=").and_then(|y| y.split(' ').next()).and_then(|y| y.parse::<u128>().ok()) {
                let mut le = [0u8; 16];
                le[..wl].copy_from_slice(&after[..wl]);
                if u128::from_le_bytes(le) != l { err = Some(format!("the opened list has {l} elements but its prefix bytes encode {}", u128::from_le_bytes(le))); }
            }
        }
    }
    if (op[0] == "used" || op[0] == "alloc") && h.shadow.is_some() {
        // "a buffer of the size reported for n elements has capacity exactly n": the sizes the view reports for itself are
        // header + count * element size (used) and header + capacity * element size = the buffer it lives in (allocated)
        let al = std::mem::align_of::<T>();
        let pad = if al <= 1 || wl % al == 0 { 0 } else { al - wl % al };
        let count = if op[0] == "used" { h.shadow.as_ref().unwrap().len() } else { h.cap };
        let exp = format!("ok {}", wl + pad + count * sz);
        if s != exp { err = Some(format!("bytes_{} reports `{}`, the layout says `{}`", if op[0] == "used" { "used" } else { "allocated" }, s, exp)); }
    }
    match (op[0], &mut h.shadow) {
        ("init", sh) => {
            {
                // a buffer in the documented layout (prefix, padding up to the element *alignment*, whole elements) must initialise
                let al = std::mem::align_of::<T>(); let pad = if al <= 1 || wl % al == 0 { 0 } else { al - wl % al }; let hdr = wl + pad;
                let base = h.arena.0.as_ptr() as usize + h.offset;
                let well_formed = h.n >= hdr && (base + hdr) % al == 0 && (if sz == 0 { h.n == hdr } else { (h.n - hdr) % sz == 0 });
                if std::mem::align_of::<L>() != 1 { if !failed { err = Some("init accepted an aligned length-prefix type".into()); } }
                else if well_formed && failed { err = Some("init rejected a buffer in the documented layout (count prefix, padding to the element alignment, whole elements)".into()); }
                if let Some(Ok(x)) = &r { if well_formed && sz > 0 && !x.ends_with(&format!("cap={}", (h.n - hdr) / sz)) { err = Some("capacity is not (buffer - header) / element size".into()); } }
            }
            if let Some(Ok(_)) = r { *sh = Some(vec![]); let al = std::mem::align_of::<T>(); let pad = if al <= 1 || wl % al == 0 { 0 } else { al - wl % al }; h.cap = if sz == 0 { 0 } else { (h.n - wl - pad) / sz }; }
        }
        ("reopen", Some(sh)) => {
            let exp = format!("ok len={} cap={} elems={}", sh.len(), h.cap, if sh.is_empty() { "-".to_string() } else if sz == 0 { format!("zst*{}", sh.len()) } else { sh.iter().map(|x| hex(x)).collect::<Vec<_>>().join(",") });
            if s != exp { err = Some(format!("re-opened list differs from the vector: expected `{}`", &exp[..exp.len().min(120)])); }
        }
        ("push", Some(sh)) => {
            let should_ok = sh.len() < h.cap && (sh.len() as u128 + 1) <= lmax;
            if should_ok != !failed { err = Some(format!("push: expected {}", if should_ok { "success" } else { "an error" })); }
            if r.is_none() { err = Some("push panicked".into()); }
            if !failed { sh.push(unhex(op[1])); }
        }
        ("remove", Some(sh)) => {
            let i: usize = op[1].parse().unwrap();
            let should_ok = i < sh.len();
            if should_ok != !failed { err = Some(format!("remove: expected {}", if should_ok { "success" } else { "an error" })); }
            if r.is_none() { err = Some("remove panicked".into()); }
            if !failed && i < sh.len() { let x = sh.remove(i); if sz > 0 && s != format!("ok {}", hex(&x)) { err = Some("remove returned a different element".into()); } }
        }
        ("set", Some(sh)) => {
            let i: usize = op[1].parse().unwrap();
            if i < sh.len() { if failed { err = Some("in-range element write failed".into()); } else { sh[i] = unhex(op[2]); } }
            else if !failed { err = Some("out-of-range element write succeeded".into()); }
            else if after != before { err = Some("a failed operation changed bytes of the buffer".into()); }
        }
        ("sort", Some(sh)) => { if failed { err = Some("sort failed".into()); } else { let m = op[1]; sh.sort_by(|a, b| cmp_mode(m, a, b)); } }
        _ => {}
    }
    if let Some(sh) = &h.shadow {
        // bytes: LE count, padding, elements back to back
        let al = std::mem::align_of::<T>();
        let pad = if al <= 1 || wl % al == 0 { 0 } else { al - wl % al };
        let mut le = [0u8; 16];
        le[..wl].copy_from_slice(&after[..wl]);
        if u128::from_le_bytes(le) != sh.len() as u128 { err = Some("length prefix is not the element count (little-endian)".into()); }
        let flat: Vec<u8> = sh.iter().flatten().copied().collect();
        if after.get(wl + pad..wl + pad + flat.len()) != Some(&flat[..]) { err = Some("elements are not stored back to back after the header".into()); }
        if sh.len() > h.cap { err = Some("length exceeds capacity".into()); }
    }
    (format!("{} buf={}", s, hex(&after)), err)
}

/// `O multi <op> / <op> / …` (push, remove, sort): the operations run on ONE open `ListViewMut`.  The vector they must
/// amount to, and every per-step demand, comes from the same steps run one by one (fresh handle each) on a copy; "any
/// sequence of operations on a list view" includes sequences through one handle, and the bytes are a function of the list.
fn hist_multi<T: Pod, L: spl_list_view::PodLength>(h: &mut Hist, op: &[&str]) -> (String, Option<String>) {
    let sz = std::mem::size_of::<T>();
    let subs: Vec<Vec<&str>> = op[1..].split(|x| *x == "/").map(|x| x.to_vec()).collect();
    let mut h2 = h.clone();
    let mut err: Option<String> = None;
    let mut stepwise: Vec<String> = vec![];
    for sub in &subs {
        let (s1, e1) = hist_op::<T, L>(&mut h2, sub);
        stepwise.push(s1.split(" buf=").next().unwrap().to_string());
        if err.is_none() { err = e1; }
    }
    let (offset, n) = (h.offset, h.n);
    let arena = &mut h.arena;
    let r = guarded(|| -> Result<Vec<String>, ProgramError> {
        let buf = &mut arena.0[offset..offset + n];
        let mut v: ListViewMut<T, L> = ListView::<T, L>::unpack_mut(buf)?;
        let mut rs = vec![];
        for sub in &subs {
            let one: Result<String, ProgramError> = match sub[0] {
                "push" => { let x: T = bytemuck::pod_read_unaligned(&unhex(sub[1])); v.push(x).map(|_| "()".to_string()) }
                "remove" => { let i: usize = sub[1].parse().unwrap(); v.remove(i).map(|x| if sz == 0 { "zst".into() } else { hex(bytemuck::bytes_of(&x)) }) }
                "sort" => { let m = sub[1].to_string(); v.sort_by(|a, b| cmp_mode(&m, bytemuck::bytes_of(a), bytemuck::bytes_of(b))); Ok("()".into()) }
                other => panic!("multi sub-op {other}"),
            };
            rs.push(match &one { Ok(x) => format!("ok {x}"), Err(e) => res_err(e) });
        }
        Ok(rs)
    });
    let after = h.arena.0[h.offset..h.offset + h.n].to_vec();
    let after2 = h2.arena.0[h2.offset..h2.offset + h2.n].to_vec();
    let s = match &r { None => "panic".to_string(), Some(Ok(rs)) => rs.join(";"), Some(Err(e)) => res_err(e) };
    if h2.shadow.is_some() {
        if r.is_none() { err = Some("a sequence of operations on one open view panicked".into()); }
        else if after != after2 { err = Some("after several operations through one open view the bytes differ from those of the same operations one by one (the list a vector would hold)".into()); }
        else if let Some(Ok(rs)) = &r { if rs.iter().map(|x| x.split(" | ").next().unwrap()).ne(stepwise.iter().map(|x| x.split(" | ").next().unwrap())) { err = Some("operations through one open view return different results than one by one".into()); } }
    }
    h.shadow = h2.shadow.clone();
    h.cap = h2.cap;
    (format!("multi {} buf={}", s, hex(&after)), err)
}

fn size_of_case<T: Pod, L: spl_list_view::PodLength>(n: usize) -> (String, Option<String>) {
    let r = guarded(|| ListView::<T, L>::size_of(n));
    let mut err = None;
    let s = match &r {
        None => { err = Some("size_of panicked".to_string()); "panic".to_string() }
        Some(Ok(s)) => {
            // a buffer of the reported size has capacity exactly n (element size > 0)
            if std::mem::size_of::<T>() > 0 && *s <= (1 << 16) {
                let mut arena = Box::new(Arena::<{ 1 << 17 }>([0u8; 1 << 17]));
                match ListView::<T, L>::init(&mut arena.0[..*s]) { Ok(v) if v.capacity() == n => {}, _ => err = Some("a buffer of the size reported for n elements does not have capacity n".into()) }
            }
            format!("ok {s}")
        }
        Some(Err(e)) => res_err(e),
    };
    (s, err)
}

pub fn run(prop: &str, cases: &[String]) -> RunOut {
    let mut out = RunOut::default();
    let mut hist: Option<Hist> = None;
    let mut hist_ok = 0usize;
    let mut hist_fail = 0usize;
    let mut hist_text = String::new();
    for line in cases {
        let t: Vec<&str> = line.split_whitespace().collect();
        let (impl_line, err): (String, Option<String>) = match t[0] {
            "lv" => {
                let off: usize = t[3].parse().unwrap();
                let b = unhex(t[4]);
                let r = dispatch!(t[1], t[2], lv_bytes, off, &b);
                let (sz, al) = elem_params(t[1]);
                let wl = prefix_width(t[2]);
                let pad = if al <= 1 || wl % al == 0 { 0 } else { al - wl % al };
                if b.len() >= wl + pad { out.stats.nontrivial_case(line); out.stats.sample(line); }
                let _ = sz;
                out.stats.bump(&format!("lv:{}", r.0.split(' ').next().unwrap()));
                r
            }
            "lvsize" => { out.stats.bump("lvsize"); dispatch!(t[1], t[2], size_of_case, t[3].parse().unwrap()) }
            "B" => {
                // B <case> lvh <T> <L> <offset> <hex initial buffer>
                let mut arena = Box::new(Arena::<{ 1 << 17 }>([0u8; 1 << 17]));
                let off: usize = t[5].parse().unwrap();
                let b = unhex(t[6]);
                arena.0[off..off + b.len()].copy_from_slice(&b);
                // a starting buffer that already is in the documented layout (LE count <= capacity, padding to the element
                // alignment, whole elements, aligned data) *is* a list: the shadow vector starts from it
                let (mut shadow, mut cap0) = (None, 0usize);
                if prefix_supported(t[4]) {
                    let (sz, al) = elem_params(t[3]);
                    let wl = prefix_width(t[4]);
                    let pad = if al <= 1 || wl % al == 0 { 0 } else { al - wl % al };
                    let hdr = wl + pad;
                    let base = arena.0.as_ptr() as usize + off;
                    if b.len() >= hdr && (base + hdr) % al.max(1) == 0 && (if sz == 0 { b.len() == hdr } else { (b.len() - hdr) % sz == 0 }) {
                        let cap = if sz == 0 { 0 } else { (b.len() - hdr) / sz };
                        let mut le = [0u8; 16];
                        le[..wl].copy_from_slice(&b[..wl]);
                        let stored = u128::from_le_bytes(le);
                        if stored <= cap as u128 {
                            let n = stored as usize;
                            shadow = Some((0..n).map(|i| b[hdr + i * sz..hdr + (i + 1) * sz].to_vec()).collect::<Vec<_>>());
                            cap0 = cap;
                        }
                    }
                }
                hist = Some(Hist { t: t[3].into(), l: t[4].into(), offset: off, arena, n: b.len(), shadow, cap: cap0 });
                hist_ok = 0; hist_fail = 0; hist_text = line.clone();
                ("begin".into(), None)
            }
            "O" => {
                let h = hist.as_mut().expect("O outside a history");
                let (tt, ll) = (h.t.clone(), h.l.clone());
                let r = if t[1] == "multi" { dispatch!(tt.as_str(), ll.as_str(), hist_multi, h, &t[1..]) } else { dispatch!(tt.as_str(), ll.as_str(), hist_op, h, &t[1..]) };
                if r.0.starts_with("ok") { hist_ok += 1 } else { hist_fail += 1 }
                hist_text.push_str(line);
                out.stats.bump(&format!("op:{}:{}", t[1], r.0.split(' ').next().unwrap()));
                r
            }
            "E" => {
                if hist_ok >= 2 && hist_fail >= 1 { out.stats.nontrivial_case(&hist_text); out.stats.sample(&hist_text); }
                hist = None;
                ("end".into(), None)
            }
            other => panic!("unknown op {other}"),
        };
        out.push(impl_line, err.map_or(Ok(()), Err));
    }
    let _ = prop;
    out
}

fn gen_elem(rng: &mut Rng, sz: usize) -> Vec<u8> {
    if rng.chance(1, 3) { let b = rng.below(4) as u8; vec![b; sz] } else { rng.bytes(sz) }
}

pub fn generate_c10(tier: &str, rng: &mut Rng) -> Vec<String> {
    let thorough = tier == "thorough";
    let mut v = Vec::new();
    for &t in ELEMS { for &l in PREFIXES {
        let (sz, al) = elem_params(t);
        let wl = prefix_width(l);
        let pad = if al <= 1 || wl % al == 0 { 0 } else { al - wl % al };
        let hdr = wl + pad;
        // the type's maximum prefix value, and short buffers
        for off in [0usize, 1, al.max(1) / 2, 16 - (hdr % 16)] {
            v.push(format!("lv {t} {l} {} {}", off % 16, hex(&vec![0xffu8; hdr + 4 * sz.max(1)])));
        }
        for n in 0..=hdr + 1 { v.push(format!("lv {t} {l} 0 {}", hex(&rng.bytes(n)))); }
        if pad > 0 {
            // buffers shorter than the header (in particular exactly the prefix) at the start offset where the address right
            // behind the PREFIX is aligned for the element type: too short is too short wherever the buffer sits
            let off = (al - (wl % al)) % al;
            for n in [wl.saturating_sub(1), wl, wl + 1, hdr - 1] { let mut b = rng.bytes(n); if n > 0 { b[0] = 0; } for x in b.iter_mut().take(wl) { *x = 0; } v.push(format!("lv {t} {l} {} {}", off % 16, hex(&b))); }
        }
        if al > 1 {
            // buffers that start at an address NOT aligned for the element type but would hold a whole number of elements if
            // the data were taken to start at the next aligned ADDRESS (instead of after the documented, static padding):
            // the documented layout puts the data at a misaligned address here, so every opening must reject them
            for off in 1..al.min(9) {
                let pad_dyn = (al - ((off + wl) % al)) % al;
                if (off + hdr) % al == 0 { continue; }
                for k in [1usize, 3] {
                    let mut b = vec![0u8; wl + pad_dyn + k * sz];
                    b[0] = rng.below(k as u64 + 1) as u8;
                    for x in b[wl..].iter_mut() { *x = rng.byte(); }
                    v.push(format!("lv {t} {l} {off} {}", hex(&b)));
                }
            }
        }
        let reps = if thorough { 2_000 } else { 12 };
        for _ in 0..reps {
            let off = rng.below(16) as usize;
            // choose an offset that aligns the data region most of the time
            let off = if al > 1 && rng.chance(2, 3) { (al - (hdr % al)) % al + al * (rng.below((16 / al) as u64) as usize) } else { off } % 16;
            let cap = rng.below(6) as usize;
            let slop = if rng.chance(1, 4) && sz > 1 { rng.range(1, sz as u64 - 1) as usize } else { 0 };
            let n = hdr + cap * sz + slop;
            let mut b = rng.bytes(n);
            // stored length: mostly <= cap, sometimes cap+1, huge
            let stored: u128 = match rng.below(6) { 0 => cap as u128 + 1, 1 => u128::MAX, 2 => (u64::MAX as u128) + rng.below(3) as u128, _ => rng.below(cap as u64 + 1) as u128 };
            let le = stored.to_le_bytes();
            for i in 0..wl.min(n) { b[i] = le[i]; }
            v.push(format!("lv {t} {l} {off} {}", hex(&b)));
        }
        for n in [0usize, 1, 5, 1000] { v.push(format!("lvsize {t} {l} {n}")); }
        v.push(format!("lvsize {t} {l} {}", usize::MAX));
        v.push(format!("lvsize {t} {l} {}", usize::MAX / sz.max(1)));
        v.push(format!("lvsize {t} {l} {}", usize::MAX / sz.max(1) - 20));
    }}
    v
}

pub fn generate_c09(tier: &str, rng: &mut Rng) -> Vec<String> {
    let thorough = tier == "thorough";
    let mut v = Vec::new();
    let mut case = 0usize;
    let rounds = if thorough { 200 } else { 3 };
    for _ in 0..rounds { for &t in ELEMS { for &l in PREFIXES {
        let (sz, al) = elem_params(t);
        let wl = prefix_width(l);
        let pad = if al <= 1 || wl % al == 0 { 0 } else { al - wl % al };
        let hdr = wl + pad;
        let cap = rng.below(7) as usize;
        let off = ((al.max(1) - (hdr % al.max(1))) % al.max(1) + al.max(1) * rng.below((16 / al.max(1)) as u64) as usize) % 16;
        let n = hdr + cap * sz;
        let init_bytes = if rng.chance(1, 2) { vec![0u8; n] } else { rng.bytes(n) };
        v.push(format!("B {case} lvh {t} {l} {off} {}", hex(&init_bytes)));
        v.push("O init".into());
        let mut len = 0usize;
        let nops = rng.range(4, if thorough { 40 } else { 18 });
        for _ in 0..nops {
            match rng.below(12) {
                0..=4 => { v.push(format!("O push {}", hex(&gen_elem(rng, sz)))); if len < cap { len += 1; } }
                5..=6 => { let i = if len > 0 && rng.chance(4, 5) { rng.below(len as u64) as usize } else { len + rng.below(3) as usize }; v.push(format!("O remove {i}")); if i < len { len -= 1; } }
                7 => { let i = if len > 0 && rng.chance(9, 10) { rng.below(len as u64) as usize } else { len }; v.push(format!("O set {i} {}", hex(&gen_elem(rng, sz)))); }
                8 => v.push(format!("O sort {}", rng.pick(&["lex", "first", "rev"]))),
                9 => v.push("O reopen".into()),
                10 => v.push("O used".into()),
                _ => v.push("O alloc".into()),
            }
        }
        // one history in three keeps its view open across runs of 2-4 consecutive push / remove / sort operations
        if rng.chance(1, 3) {
            let start = v.iter().rposition(|l| l == "O init").unwrap() + 1;
            let ops: Vec<String> = v.drain(start..).collect();
            let is_m = |l: &String| ["O push ", "O remove ", "O sort "].iter().any(|p| l.starts_with(p));
            let mut i = 0;
            while i < ops.len() {
                let mut j = i;
                let want = rng.range(2, 4) as usize;
                while j < ops.len() && is_m(&ops[j]) && j - i < want { j += 1; }
                if j - i >= 2 { v.push(format!("O multi {}", ops[i..j].iter().map(|l| l[2..].to_string()).collect::<Vec<_>>().join(" / "))); i = j; }
                else { v.push(ops[i].clone()); i += 1; }
            }
        }
        v.push("O reopen".into());
        v.push("E".into());
        case += 1;
    }}}
    // longer lists (25..48 elements) with many ties under the comparator, sorted through the view: the result is what a stable
    // sort of the vector gives (sorting algorithms switch strategy with the length: short lists say nothing about long ones)
    for (t, l) in [("u16", "p32"), ("m35", "p16"), ("b3", "p64"), ("u64", "p32"), ("u8", "p16")] {
        let (sz, al) = elem_params(t);
        let wl = prefix_width(l);
        let pad = if al <= 1 || wl % al == 0 { 0 } else { al - wl % al };
        let cap = 48usize;
        let off = (al.max(1) - ((wl + pad) % al.max(1))) % al.max(1);
        v.push(format!("B {case} lvh {t} {l} {off} {}", hex(&vec![0u8; wl + pad + cap * sz])));
        v.push("O init".into());
        let n = rng.range(25, 48);
        for _ in 0..n { let mut e = gen_elem(rng, sz); if sz > 0 { e[0] = rng.below(3) as u8; } v.push(format!("O push {}", hex(&e))); }
        for m in ["first", "reopen", "rev", "first", "reopen", "lex", "reopen"] { v.push(if m == "reopen" { "O reopen".to_string() } else { format!("O sort {m}") }); }
        v.push("E".into());
        case += 1;
    }
    // wide prefixes whose upper bytes are not zero while the lower bytes alone would be a legal count: every byte of the
    // prefix is part of the count (a 128-bit prefix is not read as 64 bits, a 64-bit one not as 32)
    for (t, l, sz) in [("u8", "p32", 1usize), ("u8", "p64", 1), ("u8", "p128", 1), ("m35", "p64", 35), ("m35", "p128", 35), ("b3", "p128", 3)] {
        let wl = prefix_width(l);
        for hi in (wl / 2)..wl {
            for low in [0u8, 3] {
                let mut b = vec![0u8; wl + 4 * sz];
                b[0] = low; b[hi] = if hi % 2 == 0 { 1 } else { 0x80 };
                for (i, x) in b[wl..].iter_mut().enumerate() { *x = i as u8 + 1; }
                v.push(format!("B {case} lvh {t} {l} 0 {}", hex(&b)));
                for op in ["O reopen", "O remove 0", "O reopen"] { v.push(op.into()); }
                v.push(format!("O push {}", hex(&vec![9u8; sz])));
                v.push("O reopen".into());
                v.push("E".into());
                case += 1;
            }
        }
    }
    // the prefix-maximum case: one-byte elements, 16-bit prefix, capacity 65536, length 65535
    for (t, l) in [("u8", "p16")] {
        for cap in [65535usize, 65536] {
            let mut b = vec![7u8; 2 + cap];
            b[0] = 0xfe; b[1] = 0xff; // stored length 65534
            v.push(format!("B {case} lvh {t} {l} 0 {}", hex(&b)));
            v.push("O reopen".into());
            v.push("O push 09".into());
            v.push("O push 0a".into());
            v.push("O push 0b".into());
            v.push("E".into());
            case += 1;
        }
    }
    // lengths whose third length byte is non-zero: wider prefixes, the length crossing 65536 (and back)
    for (t, l, wl) in [("u8", "p32", 4usize), ("u8", "p64", 8), ("u8", "p128", 16)] {
        let cap = 65540usize;
        let mut b = vec![5u8; wl + cap];
        for x in b[..wl].iter_mut() { *x = 0; }
        b[0] = 0xfe; b[1] = 0xff; // stored length 65534
        v.push(format!("B {case} lvh {t} {l} 0 {}", hex(&b)));
        for op in ["O reopen", "O push 09", "O push 0a", "O push 0b", "O reopen", "O remove 65536", "O remove 0", "O remove 0", "O remove 70000", "O reopen"] { v.push(op.into()); }
        v.push("E".into());
        case += 1;
    }
    v
}
