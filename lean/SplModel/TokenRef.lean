/-
  SplModel.TokenRef — reference model of the *real* token codecs that C16 compares the
  generic parser against (`spl-token-interface` `Pack` impls for `Account` / `Mint`, and
  `spl-token-2022-interface` `StateWithExtensions::<S>::unpack`).  Hand-written from the
  interface crates' sources; validated on every run by the `token-ref` correspondence stream
  (the interface crates are *modelled*, not verified — see DESIGN §4).
-/
import SplModel.Basic

namespace TokenRef
open Bytes

structure RefAccount where
  mint : Bytes
  owner : Bytes
  amount : Nat
  delegate : Option Bytes
  state : UInt8
  isNative : Option Nat
  delegatedAmount : Nat
  closeAuthority : Option Bytes
  deriving Repr, DecidableEq

structure RefMint where
  mintAuthority : Option Bytes
  supply : Nat
  decimals : UInt8
  isInitialized : Bool
  freezeAuthority : Option Bytes
  deriving Repr, DecidableEq

/-- `unpack_coption_key` on a 36-byte field. -/
def unpackCOptionKey (b : Bytes) : Option (Option Bytes) :=
  if b.take 4 = [0, 0, 0, 0] then some none
  else if b.take 4 = [1, 0, 0, 0] then some (some (b.drop 4))
  else none

/-- `unpack_coption_u64` on a 12-byte field. -/
def unpackCOptionU64 (b : Bytes) : Option (Option Nat) :=
  if b.take 4 = [0, 0, 0, 0] then some none
  else if b.take 4 = [1, 0, 0, 0] then some (some (fromLe (b.drop 4)))
  else none

def seg (b : Bytes) (off len : Nat) : Bytes := (b.drop off).take len

/-- `Account::unpack_from_slice` (`Pack::unpack_unchecked` checks `len == 165` first). -/
def unpackAccountUnchecked (b : Bytes) : Option RefAccount :=
  if b.length ≠ 165 then none else do
    let delegate ← unpackCOptionKey (seg b 72 36)
    let st := (seg b 108 1).headD 0
    if st.toNat > 2 then none else
    let isNative ← unpackCOptionU64 (seg b 109 12)
    let close ← unpackCOptionKey (seg b 129 36)
    pure { mint := seg b 0 32, owner := seg b 32 32, amount := fromLe (seg b 64 8),
           delegate := delegate, state := st, isNative := isNative,
           delegatedAmount := fromLe (seg b 121 8), closeAuthority := close }

/-- `Pack::unpack` = `unpack_unchecked` + `is_initialized` (state ≠ Uninitialized). -/
def unpackAccount (b : Bytes) : Option RefAccount := do
  let a ← unpackAccountUnchecked b
  if a.state ≠ 0 then some a else none

/-- `Mint::unpack_from_slice`. -/
def unpackMintUnchecked (b : Bytes) : Option RefMint :=
  if b.length ≠ 82 then none else do
    let auth ← unpackCOptionKey (seg b 0 36)
    let ib := (seg b 45 1).headD 0
    let isInit ← (if ib = 0 then some false else if ib = 1 then some true else none)
    let freeze ← unpackCOptionKey (seg b 46 36)
    pure { mintAuthority := auth, supply := fromLe (seg b 36 8), decimals := (seg b 44 1).headD 0,
           isInitialized := isInit, freezeAuthority := freeze }

def unpackMint (b : Bytes) : Option RefMint := do
  let m ← unpackMintUnchecked b
  if m.isInitialized then some m else none

def packCOptionKey : Option Bytes → Bytes
  | none => zeros 36
  | some k => [1, 0, 0, 0] ++ k

def packCOptionU64 : Option Nat → Bytes
  | none => zeros 12
  | some n => [1, 0, 0, 0] ++ toLe 8 n

/-- `Account::pack_into_slice` into a zeroed 165-byte buffer. -/
def packAccount (a : RefAccount) : Bytes :=
  a.mint ++ a.owner ++ toLe 8 a.amount ++ packCOptionKey a.delegate ++ [a.state] ++
  packCOptionU64 a.isNative ++ toLe 8 a.delegatedAmount ++ packCOptionKey a.closeAuthority

/-- `Mint::pack_into_slice` into a zeroed 82-byte buffer. -/
def packMint (m : RefMint) : Bytes :=
  packCOptionKey m.mintAuthority ++ toLe 8 m.supply ++ [m.decimals] ++
  [if m.isInitialized then 1 else 0] ++ packCOptionKey m.freezeAuthority

/-- `StateWithExtensions::<Account>::unpack` of Token-2022 (base state of the result). -/
def t22UnpackAccount (b : Bytes) : Option RefAccount :=
  if b.length = 355 ∨ b.length < 165 then none else do
    let base ← unpackAccount (b.take 165)
    let rest := b.drop 165
    if rest.isEmpty then some base
    else
      -- account_type_index = 165 - 165 = 0, tlv_start_index = 1; no padding
      if rest.length < 1 then none
      else if rest.headD 0 = 2 then some base else none

/-- `StateWithExtensions::<Mint>::unpack` of Token-2022. -/
def t22UnpackMint (b : Bytes) : Option RefMint :=
  if b.length = 355 ∨ b.length < 82 then none else do
    let base ← unpackMint (b.take 82)
    let rest := b.drop 82
    if rest.isEmpty then some base
    else
      -- account_type_index = 165 - 82 = 83, tlv_start_index = 84; padding must be zero
      if rest.length < 84 then none
      else if rest.take 83 ≠ zeros 83 then none
      else if (rest.drop 83).headD 0 = 1 then some base else none

end TokenRef
