/-
  SplModel.ProgramError — model of `program-error-derive` (`IntoProgramError`, `ToStr`,
  `#[spl_program_error]`) and of the numbering Rust gives a `#[repr(u32)]` unit-variant enum.
-/
import SplModel.Basic
import SplModel.Sha256
import SplModel.Generated.ErrConsts

namespace ProgErr
open Bytes

/-- One enum variant as the macros see it: its name, an optional explicit discriminant and,
    for every `#[error(..)]` attribute in order, the string it holds if its argument parses as
    a single string literal (`attr.parse_args::<LitStr>()`), else `none`. -/
structure Variant where
  name : String
  disc : Option Nat
  errAttrs : List (Option String)
  deriving Repr, DecidableEq

structure EnumDesc where
  name : String
  variants : List Variant
  deriving Repr, DecidableEq

/-- `get_error_message` : the first `#[error(..)]` attribute whose argument is a string literal. -/
def errorMessage (v : Variant) : Option String :=
  v.errAttrs.findSome? id

/-- the `ToStr` arm generated for a variant -/
def toStr (v : Variant) : String :=
  (errorMessage v).getD Gen.Err.DEFAULT_MESSAGE

/-- `thiserror`'s `Display` for a brace-free `#[error("text")]` : the text itself -/
def display (v : Variant) : Option String := errorMessage v

/-- Rust's implicit discriminants: an explicit value is taken as is, otherwise previous + 1
    (0 for the first). -/
def assignCodes : Nat → List Variant → List Nat
  | _, [] => []
  | next, v :: vs =>
    let c := v.disc.getD next
    c :: assignCodes (c + 1) vs

def codes (e : EnumDesc) : List Nat := assignCodes 0 e.variants

/-- `ProgramError::from(variant i)` = `Custom(e as u32)` -/
def intoProgramError (e : EnumDesc) (i : Nat) : Option Nat := (codes e)[i]?

/-- `TryFrom<u32>` / `FromPrimitive` : the variant whose discriminant equals the code -/
def fromCode (e : EnumDesc) (c : Nat) : Option Nat :=
  let cs := codes e
  let i := cs.idxOf c
  if i < cs.length then some i else none

/-- `u32_from_hash` input for a nonce -/
def hashInput (name : String) (nonce : Nat) : Bytes :=
  (Gen.Err.NAMESPACE ++ ":" ++ name).toUTF8.toList ++ toLe 4 nonce

/-- the candidate value for a nonce: bytes `HASH_LO..HASH_HI` of SHA-256, little-endian -/
def hashValue (name : String) (nonce : Nat) : Nat :=
  fromLe (((Sha256.digest (hashInput name nonce)).drop Gen.Err.HASH_LO).take
    (Gen.Err.HASH_HI - Gen.Err.HASH_LO))

/-- the nonce loop (fuel-bounded): first nonce ≥ `nonce` whose value is at least the minimum -/
def hashedStart : Nat → String → Nat → Option (Nat × Nat)
  | 0, _, _ => none
  | fuel + 1, name, nonce =>
    let d := hashValue name nonce
    if d ≥ Gen.Err.MIN_VALUE then some (d, nonce) else hashedStart fuel name (nonce + 1)

/-- `set_first_discriminant` : `.ok` = the enum with the first discriminant set;
    `.err (.custom d)` = compile error whose message names the right value `d`. -/
def setFirstDiscriminant (fuel : Nat) (e : EnumDesc) (declared : Nat) : Res EnumDesc :=
  match e.variants with
  | [] => .panic                      -- "Enum must have at least one variant"
  | v :: vs =>
    match hashedStart fuel e.name 0 with
    | none => .panic                  -- fuel exhausted (never observed)
    | some (d, _) =>
      if d = declared then .ok { e with variants := { v with disc := some d } :: vs }
      else .err (.custom d)

end ProgErr
