/-
  SplModel.Ed25519 — executable model of Solana's program-derived-address search
  (`Pubkey::try_find_program_address` / `create_program_address`, off-chain implementation in
  `solana-pubkey` with `curve25519-dalek`'s point decompression as the on-curve test).
  Validated against `solana-pubkey` on every resolution stream; not proved.
-/
import SplModel.Basic
import SplModel.Sha256

namespace Ed25519

def p : Nat := 2 ^ 255 - 19
def d : Nat := 37095705934669439343138083508754565189542113879843219016388785533085940283555

def powMod (b e m : Nat) : Nat := Id.run do
  let mut result := 1
  let mut base := b % m
  let mut ex := e
  for _ in [0:256] do
    if ex % 2 = 1 then result := result * base % m
    base := base * base % m
    ex := ex / 2
  return result

/-- `CompressedEdwardsY(bytes).decompress().is_some()` : the y-coordinate (top bit cleared,
    reduced mod p) has a matching x, i.e. (y² − 1)/(d y² + 1) is a square mod p. -/
def isOnCurve (bytes : Bytes) : Bool :=
  let yRaw := Bytes.fromLe bytes % 2 ^ 255
  let y := yRaw % p
  let y2 := y * y % p
  let u := (y2 + p - 1) % p
  let v := (d * y2 + 1) % p
  let uv := u * v % p
  uv = 0 || powMod uv ((p - 1) / 2) p = 1

def MAX_SEEDS : Nat := 16
def MAX_SEED_LEN : Nat := 32
def PDA_MARKER : Bytes := "ProgramDerivedAddress".toUTF8.toList

inductive CreateRes where
  | ok (key : Bytes)
  | invalidSeeds          -- the hash is on the curve
  | maxSeedLengthExceeded
  deriving DecidableEq

/-- `Pubkey::create_program_address` -/
def createProgramAddress (seeds : List Bytes) (prog : Bytes) : CreateRes :=
  if seeds.length > MAX_SEEDS then .maxSeedLengthExceeded
  else if seeds.any (fun s => s.length > MAX_SEED_LEN) then .maxSeedLengthExceeded
  else
    let h := Sha256.digest (seeds.flatten ++ prog ++ PDA_MARKER)
    if isOnCurve h then .invalidSeeds else .ok h

/-- the bump loop of `try_find_program_address`: bumps 255, 254, …, 1 -/
def findLoop (seeds : List Bytes) (prog : Bytes) : Nat → Nat → Option (Bytes × Nat)
  | 0, _ => none
  | fuel + 1, bump =>
    match createProgramAddress (seeds ++ [[UInt8.ofNat bump]]) prog with
    | .ok k => some (k, bump)
    | .invalidSeeds => findLoop seeds prog fuel (bump - 1)
    | .maxSeedLengthExceeded => none

/-- `Pubkey::try_find_program_address(seeds, program_id)` -/
def tryFindProgramAddress (seeds : List Bytes) (prog : Bytes) : Option (Bytes × Nat) :=
  findLoop seeds prog 255 255

/-- the address only (what account resolution uses) -/
def pda (seeds : List Bytes) (prog : Bytes) : Option Bytes :=
  (tryFindProgramAddress seeds prog).map (·.1)

end Ed25519
