/-
  SplModel.ListView — model of `list-view/src/{list_view,list_view_mut,list_view_read_only}.rs`
  for any element type of size `sizeT` and alignment `alignT`, a length prefix of `wL` bytes
  (an align-1 Pod integer) and a buffer that starts at memory address `a`.
  Mutating operations return the buffer after the call together with the result, and perform
  their writes in the source's order.
-/
import SplModel.Basic
import SplModel.Pod

namespace ListView
open Bytes

structure Params where
  sizeT : Nat
  alignT : Nat          -- a power of two in Rust; only `> 1` / divisibility are used
  wL : Nat              -- 2, 4, 8 or 16
  deriving Repr, DecidableEq

def eCalculationFailure : Err := .custom 0
def eBufferTooSmall : Err := .custom 1
def eValueOutOfRange : Err := .custom 2

def usizeMax : Nat := 2 ^ 64 - 1

/-- `header_padding` (the prefix type is align-1, so the `InvalidArgument` branch is dead) -/
def headerPadding (P : Params) : Nat :=
  if P.alignT = 0 ∨ P.alignT = 1 then 0
  else
    let r := P.wL % P.alignT
    if r = 0 then 0 else P.alignT - r

/-- offset of the data region: `size_of::<L>().saturating_add(header_padding)` -/
def dataStart (P : Params) : Nat := min (P.wL + headerPadding P) usizeMax

/-- `ListView::size_of(num_items)` with checked arithmetic in `usize` -/
def sizeOf (P : Params) (n : Nat) : Res Nat :=
  let m := P.sizeT * n
  if m > usizeMax then .err eCalculationFailure
  else if m + P.wL > usizeMax then .err eCalculationFailure
  else if m + P.wL + headerPadding P > usizeMax then .err eCalculationFailure
  else .ok (m + P.wL + headerPadding P)

/-- `bytemuck::try_cast_slice::<u8, T>` on a region of `len` bytes at address `addr`:
    the number of elements, or an error. -/
def castSlice (P : Params) (addr len : Nat) : Res Nat :=
  if P.alignT > 1 ∧ addr % P.alignT ≠ 0 then .err .invalidArgument
  else if P.sizeT = 1 then .ok len
  else if (P.sizeT ≠ 0 ∧ len % P.sizeT = 0) ∨ (P.sizeT = 0 ∧ len = 0) then
    .ok (if P.sizeT ≠ 0 then len / P.sizeT else 0)
  else .err .invalidArgument

structure View where
  len : Nat
  cap : Nat
  deriving Repr, DecidableEq

/-- `calculate_layout` + the two casts (shared by `unpack` and `build_mut_view`):
    stored length (as `usize`) and capacity. -/
def buildView (P : Params) (a : Nat) (b : Bytes) : Res View :=
  if b.length < dataStart P then .err eBufferTooSmall
  else do
    let lenBytes ← slice b 0 P.wL                    -- &buf[layout.length_range]
    let dataBytes ← slice b (dataStart P) b.length   -- &buf[layout.data_range]
    let lenPod ← Pod.fromBytes P.wL lenBytes         -- pod_from_bytes::<L>
    let cap ← castSlice P (a + dataStart P) dataBytes.length
    pure ⟨Pod.toUsize lenPod, cap⟩

/-- `ListView::unpack` -/
def unpack (P : Params) (a : Nat) (b : Bytes) : Res View := do
  let v ← buildView P a b
  if v.len > v.cap then .err eBufferTooSmall else pure v

/-- `ListView::unpack_mut` -/
def unpackMut (P : Params) (a : Nat) (b : Bytes) : Res View := do
  let v ← buildView P a b
  if v.len > v.cap then .err eBufferTooSmall else pure v

/-- `ListView::init` : build the view, then store length 0. -/
def init (P : Params) (a : Nat) (b : Bytes) : Bytes × Res View :=
  match buildView P a b with
  | .ok v =>
    match Pod.tryFromUsize P.wL 0 with
    | .ok z =>
      match writeAt b 0 z with
      | .ok b' => (b', .ok ⟨0, v.cap⟩)
      | .err e => (b, .err e)
      | .panic => (b, .panic)
    | .err _ => (b, .err eValueOutOfRange)
    | .panic => (b, .panic)
  | .err e => (b, .err e)
  | .panic => (b, .panic)

/-- the visible elements (`Deref`): the first `len` chunks of the data region -/
def elems (P : Params) (b : Bytes) (v : View) : List Bytes :=
  Pod.chunks P.sizeT v.len (b.drop (dataStart P))

/-- `ListViewMut::push` on a view of `b` (source order: bound check, new length, store the
    element, store the length). -/
def push (P : Params) (a : Nat) (b : Bytes) (x : Bytes) : Bytes × Res Unit :=
  match unpackMut P a b with
  | .ok v =>
    if v.len ≥ v.cap then (b, .err eBufferTooSmall)
    else
      match Pod.tryFromUsize P.wL (min (v.len + 1) usizeMax) with
      | .ok newLen =>
        -- self.data[length] = item
        match writeAt b (dataStart P + v.len * P.sizeT) x with
        | .ok b1 =>
          match writeAt b1 0 newLen with
          | .ok b2 => (b2, .ok ())
          | _ => (b1, .panic)
        | _ => (b, .panic)
      | .err _ => (b, .err eValueOutOfRange)
      | .panic => (b, .panic)
  | .err e => (b, .err e)
  | .panic => (b, .panic)

/-- `ListViewMut::remove(index)` : returns the removed element. -/
def remove (P : Params) (a : Nat) (b : Bytes) (i : Nat) : Bytes × Res Bytes :=
  match unpackMut P a b with
  | .ok v =>
    if i ≥ v.len then (b, .err .invalidArgument)
    else
      -- let removed_item = self.data[index]
      match slice b (dataStart P + i * P.sizeT) (dataStart P + (i + 1) * P.sizeT) with
      | .ok removed =>
        if i + 1 > usizeMax then (b, .err .arithmeticOverflow)
        else
          -- self.data.copy_within(tail_start..len, index)
          match copyWithin b (dataStart P + (i + 1) * P.sizeT) (dataStart P + v.len * P.sizeT)
              (dataStart P + i * P.sizeT) with
          | .ok b1 =>
            match Pod.tryFromUsize P.wL (v.len - 1) with
            | .ok newLen =>
              match writeAt b1 0 newLen with
              | .ok b2 => (b2, .ok removed)
              | _ => (b1, .panic)
            | .err _ => (b1, .err eValueOutOfRange)
            | .panic => (b1, .panic)
          | _ => (b, .panic)
      | _ => (b, .panic)
  | .err e => (b, .err e)
  | .panic => (b, .panic)

/-- element write through `DerefMut` indexing: `view[i] = x` (panics when `i >= len`) -/
def setElem (P : Params) (a : Nat) (b : Bytes) (i : Nat) (x : Bytes) : Bytes × Res Unit :=
  match unpackMut P a b with
  | .ok v =>
    if i ≥ v.len then (b, .panic)
    else
      match writeAt b (dataStart P + i * P.sizeT) x with
      | .ok b1 => (b1, .ok ())
      | _ => (b, .panic)
  | .err e => (b, .err e)
  | .panic => (b, .panic)

/-- `view.sort_by(cmp)` through `DerefMut` (stable) with `le` as the comparator -/
def sortBy (P : Params) (a : Nat) (b : Bytes) (le : Bytes → Bytes → Bool) : Bytes × Res Unit :=
  match unpackMut P a b with
  | .ok v =>
    let xs := elems P b v
    let sorted := xs.mergeSort le
    match writeAt b (dataStart P) sorted.flatten with
    | .ok b1 => (b1, .ok ())
    | _ => (b, .panic)
  | .err e => (b, .err e)
  | .panic => (b, .panic)

/-- `bytes_used` / `bytes_allocated` -/
def bytesUsed (P : Params) (v : View) : Res Nat := sizeOf P v.len
def bytesAllocated (P : Params) (v : View) : Res Nat := sizeOf P v.cap

/-! ### length-prefix types with an alignment requirement

    `PodLength` is a blanket trait: besides the align-1 Pod integers, the primitives `u8` (width 1,
    align 1) and `u16` (width 2, align 2) satisfy its bounds.  `header_padding` — the first thing
    `calculate_layout` and `size_of` do — rejects a prefix type whose own alignment is not 1 with
    `InvalidArgument`, before looking at the buffer.  `alignL` is that alignment. -/

def guardL {α} (alignL : Nat) (r : Res α) : Res α :=
  if alignL ≠ 1 then .err .invalidArgument else r

/-- the same for operations that also return the buffer: it is untouched -/
def guardLB {α} (alignL : Nat) (b : Bytes) (r : Bytes × Res α) : Bytes × Res α :=
  if alignL ≠ 1 then (b, .err .invalidArgument) else r

end ListView
