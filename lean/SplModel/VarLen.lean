/-
  SplModel.VarLen — model of `realloc_and_pack_variable_len_with_repetition`
  (`type-length-value/src/state.rs`) over an account in the runtime's layout.
  `AccountInfo::resize` (unsafe pointer code in `solana-account-info`) is modelled as:
  fail with `InvalidRealloc` above `original length + 10 KiB`, otherwise truncate or zero-extend.
-/
import SplModel.Tlv

namespace VarLen
open Bytes Tlv

structure Account where
  data : Bytes
  origLen : Nat
  deriving Repr, DecidableEq

def MAX_PERMITTED_DATA_INCREASE : Nat := 10240

/-- `AccountInfo::resize(new_len)` -/
def resize (a : Account) (newLen : Nat) : Res Account :=
  if newLen = a.data.length then .ok a
  else if newLen - a.origLen > MAX_PERMITTED_DATA_INCREASE then .err .invalidRealloc
  else if newLen ≤ a.data.length then .ok { a with data := a.data.take newLen }
  else .ok { a with data := a.data ++ zeros (newLen - a.data.length) }

/-- `realloc_and_pack_variable_len_with_repetition::<V>(account_info, value, repetition_number)`
    where `packed` = the value's serialisation (`get_packed_len` = its length, `pack_into_slice`
    streams it into the slot). Returns the account after the call and the result. -/
def reallocAndPack (a : Account) (disc : Bytes) (rep : Nat) (packed : Bytes) : Account × Res Unit :=
  -- previous_length
  match getIndices a.data disc false (some rep) with
  | .ok ix =>
    match slice a.data ix.lengthStart ix.valueStart with
    | .ok lenBytes =>
      let prev := lengthToUsize lenBytes
      let new := packed.length
      if prev < new then
        -- size increased: realloc the account, then the TLV entry, then write data
        match resize a (min (a.data.length + (new - prev)) ListView_usizeMax) with
        | .ok a1 =>
          match unpack a1.data with
          | .ok _ =>
            match realloc a1.data disc new rep with
            | (d2, .ok _) =>
              match packVarLen d2 disc rep packed with
              | (d3, r) => ({ a1 with data := d3 }, r)
            | (d2, .err e) => ({ a1 with data := d2 }, .err e)
            | (d2, .panic) => ({ a1 with data := d2 }, .panic)
          | .err e => (a1, .err e)
          | .panic => (a1, .panic)
        | .err e => (a, .err e)
        | .panic => (a, .panic)
      else
        -- do it backwards otherwise: write the state, realloc TLV, then the account
        match unpack a.data with
        | .ok _ =>
          match packVarLen a.data disc rep packed with
          | (d1, .ok _) =>
            if prev - new > 0 then
              match realloc d1 disc new rep with
              | (d2, .ok _) =>
                match resize { a with data := d2 } (a.data.length - (prev - new)) with
                | .ok a3 => (a3, .ok ())
                | .err e => ({ a with data := d2 }, .err e)
                | .panic => ({ a with data := d2 }, .panic)
              | (d2, .err e) => ({ a with data := d2 }, .err e)
              | (d2, .panic) => ({ a with data := d2 }, .panic)
            else ({ a with data := d1 }, .ok ())
          | (d1, .err e) => ({ a with data := d1 }, .err e)
          | (d1, .panic) => ({ a with data := d1 }, .panic)
        | .err e => (a, .err e)
        | .panic => (a, .panic)
    | .err e => (a, .err e)
    | .panic => (a, .panic)
  | .err e => (a, .err e)
  | .panic => (a, .panic)
where ListView_usizeMax : Nat := 2 ^ 64 - 1

end VarLen
