/-
  SplModel.Seeds — model of `tlv-account-resolution/src/seeds.rs` and `pubkey_data.rs`.
  `u8` fields are `UInt8`; a literal's bytes are any `Bytes` (the Rust `Vec<u8>` is unbounded).
  Packing writes into a slice of a zeroed 32-byte array through the panicking primitives.
-/
import SplModel.Basic

namespace Seeds
open Bytes

inductive Seed where
  | uninit
  | literal (bytes : Bytes)
  | instr (index length : UInt8)
  | acctKey (index : UInt8)
  | acctData (accountIndex dataIndex length : UInt8)
  deriving Repr, DecidableEq

/-- error codes of `AccountResolutionError` used here (fidelity notes only) -/
def eSeedConfigsTooLarge : Err := .custom 2724315847
def eNotEnoughBytesForSeed : Err := .custom 2724315848
def eInvalidBytesForSeed : Err := .custom 2724315849
def eInvalidSeedConfig : Err := .custom 2724315850
def eNotEnoughBytesForPubkeyData : Err := .custom 2724315857
def eInvalidBytesForPubkeyData : Err := .custom 2724315858
def eInvalidPubkeyDataConfig : Err := .custom 2724315859

/-- `Seed::tlv_size` (a `u8`): saturating for literals. -/
def tlvSize : Seed → Nat
  | .uninit => 0
  | .literal b => min (min b.length 255 + 2) 255
  | .instr _ _ => 3
  | .acctKey _ => 2
  | .acctData _ _ _ => 4

/-- The size the documentation prescribes (no saturation): 2+n, 3, 2, 4. -/
def specSize : Seed → Nat
  | .uninit => 0
  | .literal b => 2 + b.length
  | .instr _ _ => 3
  | .acctKey _ => 2
  | .acctData _ _ _ => 4

/-- The bytes a seed occupies when packed. -/
def packOne : Seed → Bytes
  | .uninit => []
  | .literal b => 1 :: UInt8.ofNat b.length :: b
  | .instr i l => [2, i, l]
  | .acctKey i => [3, i]
  | .acctData a d l => [4, a, d, l]

/-- `Seed::pack(&self, dst)` where `dst` is a slice of length `dstLen`; returns the bytes
    written into it. -/
def pack (s : Seed) (dstLen : Nat) : Res Bytes :=
  if dstLen ≠ tlvSize s then .err eNotEnoughBytesForSeed
  else if dstLen > 32 then .err eSeedConfigsTooLarge
  else match s with
    | .uninit => .err eInvalidSeedConfig
    | .literal b =>
      -- dst[0] = 1; dst[1] = len as u8; dst[2..].copy_from_slice(bytes)
      if dstLen < 2 then .panic
      else if dstLen - 2 ≠ b.length then .panic
      else .ok (1 :: UInt8.ofNat b.length :: b)
    | .instr i l => if dstLen < 3 then .panic else .ok [2, i, l]
    | .acctKey i => if dstLen < 2 then .panic else .ok [3, i]
    | .acctData a d l => if dstLen < 4 then .panic else .ok [4, a, d, l]

/-- the loop of `pack_into_address_config` : `i` = bytes used, `packed` = the array so far -/
def packLoop : List Seed → Nat → Bytes → Res Bytes
  | [], _, packed => .ok packed
  | s :: rest, i, packed =>
    let sliceEnd := i + tlvSize s
    if sliceEnd > 32 then .err eSeedConfigsTooLarge
    else
      match pack s (sliceEnd - i) with
      | .ok bs =>
        match writeAt packed i bs with
        | .ok packed' => packLoop rest sliceEnd packed'
        | .err e => .err e
        | .panic => .panic
      | .err e => .err e
      | .panic => .panic

/-- `Seed::pack_into_address_config` -/
def packIntoAddressConfig (seeds : List Seed) : Res Bytes := packLoop seeds 0 (zeros 32)

/-- `Seed::unpack(bytes)` -/
def unpack (b : Bytes) : Res Seed :=
  match b with
  | [] => .err .invalidAccountData
  | d :: rest =>
    if d = 0 then .ok .uninit
    else if d = 1 then
      match rest with
      | [] => .err eInvalidBytesForSeed
      | len :: r => if r.length < len.toNat then .err eInvalidBytesForSeed else .ok (.literal (r.take len.toNat))
    else if d = 2 then
      match rest with
      | i :: l :: _ => .ok (.instr i l)
      | _ => .err eInvalidBytesForSeed
    else if d = 3 then
      match rest with
      | i :: _ => .ok (.acctKey i)
      | _ => .err eInvalidBytesForSeed
    else if d = 4 then
      match rest with
      | a :: dd :: l :: _ => .ok (.acctData a dd l)
      | _ => .err eInvalidBytesForSeed
    else .err .invalidAccountData

/-- the `while i < 32` loop of `unpack_address_config` over the remaining suffix `rest`
    (`rest = cfg[i..]`), with fuel. -/
def unpackLoop : Nat → Bytes → List Seed → Res (List Seed)
  | 0, _, _ => .panic
  | fuel + 1, rest, acc =>
    if rest.isEmpty then .ok acc.reverse            -- i == 32
    else
      match unpack rest with
      | .ok seed =>
        let sz := tlvSize seed
        if seed = .uninit then .ok acc.reverse
        else if sz > rest.length then .ok (seed :: acc).reverse   -- i > 32: the `while` exits
        else unpackLoop fuel (rest.drop sz) (seed :: acc)
      | .err e => .err e
      | .panic => .panic

/-- `Seed::unpack_address_config(&[u8; 32])` -/
def unpackAddressConfig (cfg : Bytes) : Res (List Seed) :=
  if cfg.length ≠ 32 then .panic else unpackLoop 33 cfg []

/-! ### key-from-data configuration -/

inductive PubkeyData where
  | uninit
  | instr (index : UInt8)
  | acctData (accountIndex dataIndex : UInt8)
  deriving Repr, DecidableEq

def kdSize : PubkeyData → Nat
  | .uninit => 0
  | .instr _ => 2
  | .acctData _ _ => 3

def kdPackOne : PubkeyData → Bytes
  | .uninit => []
  | .instr i => [1, i]
  | .acctData a d => [2, a, d]

/-- `PubkeyData::pack(&self, dst)` -/
def kdPack (k : PubkeyData) (dstLen : Nat) : Res Bytes :=
  if dstLen ≠ kdSize k then .err eNotEnoughBytesForPubkeyData
  else match k with
    | .uninit => .err eInvalidPubkeyDataConfig
    | .instr i => if dstLen < 2 then .panic else .ok [1, i]
    | .acctData a d => if dstLen < 3 then .panic else .ok [2, a, d]

/-- `PubkeyData::pack_into_address_config` -/
def kdPackIntoAddressConfig (k : PubkeyData) : Res Bytes :=
  match kdPack k (kdSize k) with
  | .ok bs => writeAt (zeros 32) 0 bs
  | .err e => .err e
  | .panic => .panic

/-- `PubkeyData::unpack(bytes)` (any length) -/
def kdUnpack (b : Bytes) : Res PubkeyData :=
  match b with
  | [] => .err .invalidAccountData
  | d :: rest =>
    if d = 0 then .ok .uninit
    else if d = 1 then
      match rest with
      | i :: _ => .ok (.instr i)
      | [] => .err eInvalidBytesForPubkeyData
    else if d = 2 then
      match rest with
      | a :: dd :: _ => .ok (.acctData a dd)
      | _ => .err eInvalidBytesForPubkeyData
    else .err .invalidAccountData

end Seeds
