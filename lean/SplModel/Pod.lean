/-
  SplModel.Pod — model of `pod/src/primitives.rs` and `pod/src/bytemuck.rs`.
  A Pod integer of width `k` bytes *is* its `k` in-memory bytes (`#[repr(transparent)]` over
  `[u8; k]`), so casts are the identity on `Bytes`.
-/
import SplModel.Basic

namespace Pod
open Bytes

/-- `PodUk::from_primitive(n)` = `n.to_le_bytes()` -/
def fromPrimitive (k n : Nat) : Bytes := toLe k n

/-- `uK::from(pod)` = `from_le_bytes` -/
def toPrimitive (b : Bytes) : Nat := fromLe b

/-- two's-complement representative of a signed value on `k` bytes -/
def ofSigned (k : Nat) (i : Int) : Nat := (i % (2 ^ (8 * k) : Nat)).toNat

/-- signed reading of a `k`-byte unsigned value -/
def toSigned (k : Nat) (n : Nat) : Int :=
  if n < 2 ^ (8 * k - 1) then (n : Int) else (n : Int) - (2 ^ (8 * k) : Nat)

/-- `PodBool::from_bool` -/
def fromBool (p : Bool) : UInt8 := if p then 1 else 0

/-- `bool::from(PodBool)` : every non-zero byte is `true` -/
def toBool (x : UInt8) : Bool := x != 0

/-- `PodUk::try_from(usize)` — `uK::try_from(val)?` then `into()` -/
def tryFromUsize (k n : Nat) : Res Bytes :=
  if n < 2 ^ (8 * k) then .ok (toLe k n) else .err (.custom 0)

/-- `usize::from(PodUk)` — `usize::try_from(primitive)`; a value above `usize::MAX` (only
    possible for the 128-bit width) saturates to `usize::MAX`. -/
def toUsize (b : Bytes) : Nat := min (fromLe b) (2 ^ 64 - 1)

/-- `pod_from_bytes::<T>` for an align-1 `T` of size `k`: `bytemuck::try_from_bytes` -/
def fromBytes (k : Nat) (b : Bytes) : Res Bytes :=
  if b.length = k then .ok b else .err .invalidArgument

/-- `pod_maybe_from_bytes` -/
def maybeFromBytes (k : Nat) (b : Bytes) : Res (Option Bytes) :=
  if b.isEmpty then .ok none else (fromBytes k b).map some

/-- consecutive `k`-byte chunks (`n` of them) -/
def chunks (k : Nat) : Nat → Bytes → List Bytes
  | 0, _ => []
  | n + 1, b => b.take k :: chunks k n (b.drop k)

/-- `pod_slice_from_bytes::<T>` for an align-1 `T` of size `k > 0`: `bytemuck::try_cast_slice`
    (same size → ok; otherwise the length must be a whole multiple). -/
def sliceFromBytes (k : Nat) (b : Bytes) : Res (List Bytes) :=
  if k = 0 then .err .invalidArgument           -- not used: all Pod primitives have k ≥ 1
  else if b.length % k = 0 then .ok (chunks k (b.length / k) b) else .err .invalidArgument

/-- `pod_slice_to_bytes` -/
def sliceToBytes (xs : List Bytes) : Bytes := xs.flatten

end Pod
