/-
  SplModel.RustExpr — a small shallow embedding of the Rust expression forms that occur in the
  boolean predicates the translator regenerates from source (`Generated/TokenFns.lean`).
  Every combinator has Rust's evaluation order: `&&` / `||` short-circuit, indexing panics out of
  range, `get(i).unwrap_or(&d)` does not.
-/
import SplModel.Basic

namespace RX
open Bytes

/-- `a && b` (b is evaluated only if `a` is true) -/
def and (a : Res Bool) (b : Unit → Res Bool) : Res Bool :=
  match a with
  | .ok true => b ()
  | .ok false => .ok false
  | .err e => .err e
  | .panic => .panic

/-- `a || b` (b is evaluated only if `a` is false) -/
def or (a : Res Bool) (b : Unit → Res Bool) : Res Bool :=
  match a with
  | .ok true => .ok true
  | .ok false => b ()
  | .err e => .err e
  | .panic => .panic

def not (a : Res Bool) : Res Bool := a.map (!·)

/-- `if c { a } else { b }` (also: `if c { return a; } …rest` with `b` = the rest) -/
def ifB (c : Res Bool) (a b : Unit → Res Bool) : Res Bool :=
  match c with
  | .ok true => a ()
  | .ok false => b ()
  | .err e => .err e
  | .panic => .panic

/-- `let x = e; rest` for a numeric `e` -/
def bindN (e : Res Nat) (rest : Nat → Res Bool) : Res Bool :=
  match e with
  | .ok x => rest x
  | .err err => .err err
  | .panic => .panic

def lit (n : Nat) : Res Nat := .ok n

/-- `x.len()` -/
def len (d : Bytes) : Res Nat := .ok d.length

/-- `d[i]` — panics out of range -/
def index (d : Bytes) (i : Res Nat) : Res Nat :=
  match i with
  | .ok i => (match d[i]? with | some b => .ok b.toNat | none => .panic)
  | .err e => .err e
  | .panic => .panic

/-- `*d.get(i).unwrap_or(&dflt)` -/
def getOr (d : Bytes) (i : Res Nat) (dflt : Res Nat) : Res Nat :=
  match i, dflt with
  | .ok i, .ok x => .ok ((d[i]?.map UInt8.toNat).getD x)
  | .panic, _ => .panic
  | _, .panic => .panic
  | .err e, _ => .err e
  | _, .err e => .err e

def cmp (f : Nat → Nat → Bool) (a b : Res Nat) : Res Bool :=
  match a, b with
  | .ok x, .ok y => .ok (f x y)
  | .panic, _ => .panic
  | _, .panic => .panic
  | .err e, _ => .err e
  | _, .err e => .err e

def eq := cmp (· == ·)
def ne := cmp (· != ·)
def lt := cmp (fun x y => decide (x < y))
def le := cmp (fun x y => decide (x ≤ y))
def gt := cmp (fun x y => decide (x > y))
def ge := cmp (fun x y => decide (x ≥ y))

/-- equality of two byte strings (`*program_id == token::id()`) -/
def eqBytes (a b : Bytes) : Res Bool := .ok (a == b)

/-! ### functions returning `Result<usize, ProgramError>` (or a tuple of `usize`s) -/

def u64max : Nat := 2 ^ 64 - 1

/-- `if c { a } else { b }` / `if c { return a; } …b` in a function returning a value of type `α` -/
def ifN {α} (c : Res Bool) (a b : Unit → Res α) : Res α :=
  match c with
  | .ok true => a ()
  | .ok false => b ()
  | .err e => .err e
  | .panic => .panic

/-- `let x = e; rest` / `let x = f()?; rest` -/
def bindNN {α} (e : Res Nat) (rest : Nat → Res α) : Res α :=
  match e with
  | .ok x => rest x
  | .err err => .err err
  | .panic => .panic

/-- `a.wrapping_rem(b)` on `usize`: panics when `b == 0` -/
def wrappingRem (a b : Res Nat) : Res Nat :=
  bindNN a (fun x => bindNN b (fun y => if y = 0 then .panic else .ok (x % y)))
/-- `a.wrapping_sub(b)` on `usize` -/
def wrappingSub (a b : Res Nat) : Res Nat :=
  bindNN a (fun x => bindNN b (fun y => .ok ((x + 2 ^ 64 - y) % 2 ^ 64)))
/-- `a.saturating_add(b)` on `usize` -/
def saturatingAdd (a b : Res Nat) : Res Nat :=
  bindNN a (fun x => bindNN b (fun y => .ok (min (x + y) u64max)))
/-- `a.checked_mul(b)`, `a.checked_add(b)` : `Option<usize>` -/
def checkedMul (a b : Res Nat) : Res (Option Nat) :=
  bindNN a (fun x => bindNN b (fun y => .ok (if x * y > u64max then none else some (x * y))))
def checkedAdd (a b : Res Nat) : Res (Option Nat) :=
  bindNN a (fun x => bindNN b (fun y => .ok (if x + y > u64max then none else some (x + y))))
/-- `opt.and_then(|x| f(x))` -/
def andThen (o : Res (Option Nat)) (f : Nat → Res (Option Nat)) : Res (Option Nat) :=
  match o with
  | .ok (some x) => f x
  | .ok none => .ok none
  | .err e => .err e
  | .panic => .panic
/-- `opt.ok_or_else(|| err)` as the function's result -/
def okOrElse (o : Res (Option Nat)) (e : Err) : Res Nat :=
  match o with
  | .ok (some x) => .ok x
  | .ok none => .err e
  | .err e' => .err e'
  | .panic => .panic
/-- `Ok(Struct { a..b, c..d })`: the bounds, in field order -/
def okList : List (Res Nat) → Res (List Nat)
  | [] => .ok []
  | x :: xs => bindNN x (fun v => match okList xs with | .ok vs => .ok (v :: vs) | .err e => .err e | .panic => .panic)

/-- one arm of a `match`: taken if its pattern/guard holds, otherwise the later arms are tried -/
def armStep (r : Res Bool) (rest : Unit → Res Nat) : Res Nat :=
  match r with
  | .ok true => .ok 0
  | .ok false => (rest ()).map (· + 1)
  | .err e => .err e
  | .panic => .panic

/-- `match x { p₀ if g₀ => …, p₁ if g₁ => …, … }`: the index of the first arm whose pattern/guard holds
    (guards are evaluated in order, and only until one holds) -/
def firstArm : List (Unit → Res Bool) → Res Nat
  | [] => .panic                       -- a Rust `match` is exhaustive: not reachable for generated lists
  | g :: gs => armStep (g ()) (fun _ => firstArm gs)

/-! evaluation lemmas: on values the combinators compute -/
@[simp] theorem and_ok (b : Bool) (f : Unit → Res Bool) : RX.and (.ok b) f = if b then f () else .ok false := by
  cases b <;> rfl
@[simp] theorem or_ok (b : Bool) (f : Unit → Res Bool) : RX.or (.ok b) f = if b then .ok true else f () := by
  cases b <;> rfl
@[simp] theorem armStep_ok (b : Bool) (rest : Unit → Res Nat) :
    armStep (.ok b) rest = if b then .ok 0 else (rest ()).map (· + 1) := by cases b <;> rfl
@[simp] theorem ifB_ok (c : Bool) (a b : Unit → Res Bool) : ifB (.ok c) a b = if c then a () else b () := by
  cases c <;> rfl
@[simp] theorem bindN_ok (x : Nat) (rest : Nat → Res Bool) : bindN (.ok x) rest = rest x := rfl
@[simp] theorem ifN_ok {α} (c : Bool) (a b : Unit → Res α) : ifN (.ok c) a b = if c then a () else b () := by
  cases c <;> rfl
@[simp] theorem bindNN_ok {α} (x : Nat) (rest : Nat → Res α) : bindNN (.ok x) rest = rest x := rfl
@[simp] theorem cmp_ok (f : Nat → Nat → Bool) (x y : Nat) : cmp f (.ok x) (.ok y) = .ok (f x y) := rfl
@[simp] theorem cmp_panic_r (f : Nat → Nat → Bool) (x : Nat) : cmp f (.ok x) .panic = .panic := rfl
@[simp] theorem cmp_panic_l (f : Nat → Nat → Bool) (b : Res Nat) : cmp f .panic b = .panic := by cases b <;> rfl
@[simp] theorem and_panic (f : Unit → Res Bool) : RX.and .panic f = .panic := rfl
@[simp] theorem or_panic (f : Unit → Res Bool) : RX.or .panic f = .panic := rfl
@[simp] theorem lit_eq (n : Nat) : lit n = .ok n := rfl
@[simp] theorem len_eq (d : Bytes) : len d = .ok d.length := rfl
@[simp] theorem not_ok (b : Bool) : RX.not (.ok b) = .ok (!b) := rfl
@[simp] theorem getOr_ok (d : Bytes) (i x : Nat) :
    getOr d (.ok i) (.ok x) = .ok ((d[i]?.map UInt8.toNat).getD x) := rfl
@[simp] theorem index_ok (d : Bytes) (i : Nat) :
    index d (.ok i) = (match d[i]? with | some b => .ok b.toNat | none => .panic) := rfl

end RX
