/-
  SplModel.Borsh — a combinator model of the Borsh encodings the derived
  `VariableLenPack` relies on.  A `Codec α` is an encoder with a prefix decoder; structs are
  products of field codecs, enums are sums with a one-byte variant index, generic items are
  combinators taking codecs as parameters.  `SplProofs/C15` proves that every combinator
  preserves the round-trip law `dec (enc a ++ tail) = some (a, tail)`.
-/
import SplModel.Basic

namespace Borsh
open Bytes

structure Codec (α : Type) where
  enc : α → Bytes
  dec : Bytes → Option (α × Bytes)

/-- unsigned integer of `k` bytes, little-endian -/
def uint (k : Nat) : Codec (Fin (2 ^ (8 * k))) where
  enc n := toLe k n.val
  dec b := if h : b.length < k then none else
    some (⟨fromLe (b.take k) % 2 ^ (8 * k), Nat.mod_lt _ (Nat.pow_pos (by omega))⟩, b.drop k)

/-- `bool` : one byte, 0 or 1 (anything else is rejected) -/
def bool : Codec Bool where
  enc b := [if b then 1 else 0]
  dec
    | 0 :: rest => some (false, rest)
    | 1 :: rest => some (true, rest)
    | _ => none

/-- `String` / `Vec<u8>` : u32 length prefix then the bytes -/
def bytes : Codec { b : Bytes // b.length < 2 ^ 32 } where
  enc b := toLe 4 b.val.length ++ b.val
  dec d :=
    if d.length < 4 then none else
    let n := fromLe (d.take 4)
    if h : (d.drop 4).length < n then none
    else if h2 : n < 2 ^ 32 then
      some (⟨(d.drop 4).take n, by simp [List.length_take]; omega⟩, d.drop (4 + n))
    else none

/-- `Option<T>` : 0, or 1 followed by the value -/
def option {α} (c : Codec α) : Codec (Option α) where
  enc
    | none => [0]
    | some a => 1 :: c.enc a
  dec
    | 0 :: rest => some (none, rest)
    | 1 :: rest => (c.dec rest).map (fun (a, r) => (some a, r))
    | _ => none

/-- two consecutive fields (structs are nested pairs) -/
def pair {α β} (c1 : Codec α) (c2 : Codec β) : Codec (α × β) where
  enc p := c1.enc p.1 ++ c2.enc p.2
  dec d := match c1.dec d with
    | some (a, r) => (c2.dec r).map (fun (b, r') => ((a, b), r'))
    | none => none

/-- a two-variant enum: one-byte variant index then the variant's fields -/
def sum {α β} (c1 : Codec α) (c2 : Codec β) : Codec (α ⊕ β) where
  enc
    | .inl a => 0 :: c1.enc a
    | .inr b => 1 :: c2.enc b
  dec
    | 0 :: rest => (c1.dec rest).map (fun (a, r) => (.inl a, r))
    | 1 :: rest => (c2.dec rest).map (fun (b, r) => (.inr b, r))
    | _ => none

/-- a field-less variant / unit struct: no bytes -/
def unit : Codec Unit where
  enc _ := []
  dec d := some ((), d)

/-- a three-variant enum: variant index 0, 1 or 2 -/
def sum3 {α β γ} (c1 : Codec α) (c2 : Codec β) (c3 : Codec γ) : Codec (α ⊕ β ⊕ γ) where
  enc
    | .inl a => 0 :: c1.enc a
    | .inr (.inl b) => 1 :: c2.enc b
    | .inr (.inr c) => 2 :: c3.enc c
  dec
    | 0 :: rest => (c1.dec rest).map (fun (a, r) => (.inl a, r))
    | 1 :: rest => (c2.dec rest).map (fun (b, r) => (.inr (.inl b), r))
    | 2 :: rest => (c3.dec rest).map (fun (c, r) => (.inr (.inr c), r))
    | _ => none

/-- `n` consecutive elements -/
def decMany {α} (c : Codec α) : Nat → Bytes → Option (List α × Bytes)
  | 0, d => some ([], d)
  | n + 1, d => match c.dec d with
    | some (a, r) => (decMany c n r).map (fun (as, r') => (a :: as, r'))
    | none => none

/-- `Vec<T>` : u32 element count then the elements -/
def vec {α} (c : Codec α) : Codec { l : List α // l.length < 2 ^ 32 } where
  enc l := toLe 4 l.val.length ++ l.val.flatMap c.enc
  dec d :=
    if d.length < 4 then none else
    let n := fromLe (d.take 4)
    match decMany c n (d.drop 4) with
    | some (as, r) => if h2 : as.length < 2 ^ 32 then some (⟨as, h2⟩, r) else none
    | none => none

/-- a type isomorphic to a coded one (named struct ↔ nested pairs) -/
def iso {α β} (c : Codec α) (f : α → β) (g : β → α) : Codec β where
  enc b := c.enc (g b)
  dec d := (c.dec d).map (fun (a, r) => (f a, r))

/-- the derived `VariableLenPack` for a type with Borsh codec `c` -/
def packedLen {α} (c : Codec α) (a : α) : Nat := (c.enc a).length
/-- `pack_into_slice` = `borsh::to_writer(&mut dst[..], self)` : the bytes, streamed into the slot -/
def packBytes {α} (c : Codec α) (a : α) : Bytes := c.enc a
/-- `unpack_from_slice` = `try_from_slice_unchecked` : decode a prefix, ignore the rest -/
def unpackFrom {α} (c : Codec α) (slot : Bytes) : Option α := (c.dec slot).map (·.1)

end Borsh
