/-
  SplModel.Resolution — model of `tlv-account-resolution/src/state.rs`:
  `ExtraAccountMetaList::{init, update, unpack_with_tlv_state, size_of, check_account_infos,
  add_to_instruction, add_to_cpi_instruction}` and `de_escalate_account_meta`.
  Composition of the TLV model, the ListView model (element = 35-byte `ExtraAccountMeta`,
  align 1, `PodU32` prefix) and the `ExtraMeta` model.
-/
import SplModel.Tlv
import SplModel.ListView
import SplModel.ExtraMeta

namespace Resolution
open Bytes ExtraMeta

def eIncorrectAccount : Err := .custom 2724315840
def eNotEnoughAccounts : Err := .custom 2724315841
def eCalculationFailure : Err := .custom 2724315853
def eAccountFetchFailed : Err := .custom 2724315856

/-- `ListView::<ExtraAccountMeta>` : 35-byte align-1 elements behind a 4-byte prefix -/
def LP : ListView.Params := ⟨35, 1, 4⟩

structure Instruction where
  prog : Bytes
  accounts : List AccountMeta
  data : Bytes
  deriving Repr, DecidableEq

structure Info where
  key : Bytes
  signer : Bool
  writable : Bool
  data : Bytes
  deriving Repr, DecidableEq

def infoMeta (i : Info) : AccountMeta := ⟨i.key, i.signer, i.writable⟩
def infoAcct (i : Info) : Acct := ⟨i.key, some i.data⟩

/-- `de_escalate_account_meta` -/
def deEscalate (m : AccountMeta) (metas : List AccountMeta) : AccountMeta :=
  let same := metas.filter (fun x => x.key = m.key)
  let highest : Option Bool :=
    match same.map (·.writable) with
    | [] => none
    | w :: ws => some (ws.foldl (· || ·) w)
  let writable :=
    match highest with
    | some isW => if !isW && isW != m.writable then false else m.writable
    | none => m.writable
  ⟨m.key, false, writable⟩

/-- `TlvStateBorrowed::unpack(data)?; get_first_bytes::<T>()?; ListView::unpack(bytes)?` :
    the stored configs of instruction `disc` -/
def readList (stored disc : Bytes) : Res (List Meta) :=
  match Tlv.unpack stored with
  | .ok _ =>
    match Tlv.getBytes stored disc 0 with
    | .ok (lo, hi) =>
      let bytes := (stored.drop lo).take (hi - lo)
      match ListView.unpack LP 0 bytes with
      | .ok v => .ok ((ListView.elems LP bytes v).map ofBytes)
      | .err e => .err e
      | .panic => .panic
    | .err e => .err e
    | .panic => .panic
  | .err e => .err e
  | .panic => .panic

/-- `ExtraAccountMetaList::size_of(num_items)` -/
def sizeOf (n : Nat) : Res Nat :=
  match ListView.sizeOf LP n with
  | .ok k => .ok (min (Tlv.HDR + k) ListView.usizeMax)
  | .err e => .err e
  | .panic => .panic

/-- writing the list into a freshly obtained slot: `ListView::init(bytes)?` then `push` each -/
def fillList : Bytes → List Meta → Bytes × Res Unit
  | b, [] => (b, .ok ())
  | b, m :: ms =>
    match ListView.push LP 0 b (toBytes m) with
    | (b', .ok _) => fillList b' ms
    | (b', .err e) => (b', .err e)
    | (b', .panic) => (b', .panic)

def writeList (slot : Bytes) (ms : List Meta) : Bytes × Res Unit :=
  match ListView.init LP 0 slot with
  | (b, .ok _) => fillList b ms
  | (b, .err e) => (b, .err e)
  | (b, .panic) => (b, .panic)

/-- `ExtraAccountMetaList::init::<T>(data, metas)` -/
def init (data disc : Bytes) (ms : List Meta) : Bytes × Res Unit :=
  match Tlv.unpack data with
  | .ok _ =>
    match ListView.sizeOf LP ms.length with
    | .ok tlvSize =>
      match Tlv.alloc data disc tlvSize false with
      | (d1, .ok ((lo, hi), _)) =>
        match writeList ((d1.drop lo).take (hi - lo)) ms with
        | (slot', r) =>
          match writeAt d1 lo slot' with
          | .ok d2 => (d2, r)
          | _ => (d1, .panic)
      | (d1, .err e) => (d1, .err e)
      | (d1, .panic) => (d1, .panic)
    | .err e => (data, .err e)
    | .panic => (data, .panic)
  | .err e => (data, .err e)
  | .panic => (data, .panic)

/-- `ExtraAccountMetaList::update::<T>(data, metas)` -/
def update (data disc : Bytes) (ms : List Meta) : Bytes × Res Unit :=
  match Tlv.unpack data with
  | .ok _ =>
    match ListView.sizeOf LP ms.length with
    | .ok tlvSize =>
      match Tlv.realloc data disc tlvSize 0 with
      | (d1, .ok (lo, hi)) =>
        match writeList ((d1.drop lo).take (hi - lo)) ms with
        | (slot', r) =>
          match writeAt d1 lo slot' with
          | .ok d2 => (d2, r)
          | _ => (d1, .panic)
      | (d1, .err e) => (d1, .err e)
      | (d1, .panic) => (d1, .panic)
    | .err e => (data, .err e)
    | .panic => (data, .panic)
  | .err e => (data, .err e)
  | .panic => (data, .panic)

/-- the resolution loop shared by the two helpers: `known` = the accounts resolvable by index so
    far (key + data), `metas` = the instruction's metas so far -/
def resolveOne (pda : List Bytes → Bytes → Option Bytes) (cfg : Meta) (ixData prog : Bytes)
    (known : List Acct) (metas : List AccountMeta) : Res AccountMeta :=
  match resolve pda cfg ixData prog known with
  | .ok m => .ok (deEscalate m metas)
  | .err e => .err e
  | .panic => .panic

/-- the loop of `add_to_instruction`; `fetch k` = the account-data fetcher -/
def addIxLoop (pda : List Bytes → Bytes → Option Bytes) (fetch : Bytes → Res (Option Bytes))
    (ixData prog : Bytes) : List Meta → List Acct → List AccountMeta → Res (List AccountMeta)
  | [], _, metas => .ok metas
  | cfg :: rest, known, metas =>
    match resolveOne pda cfg ixData prog known metas with
    | .ok m =>
      match fetch m.key with
      | .ok data => addIxLoop pda fetch ixData prog rest (known ++ [⟨m.key, data⟩]) (metas ++ [m])
      | .err _ => .err eAccountFetchFailed
      | .panic => .panic
    | .err e => .err e
    | .panic => .panic

def fetchAll (fetch : Bytes → Res (Option Bytes)) : List AccountMeta → Res (List Acct)
  | [] => .ok []
  | m :: ms =>
    match fetch m.key with
    | .ok data =>
      match fetchAll fetch ms with
      | .ok rest => .ok (⟨m.key, data⟩ :: rest)
      | .err e => .err e
      | .panic => .panic
    | .err _ => .err eAccountFetchFailed
    | .panic => .panic

/-- `ExtraAccountMetaList::add_to_instruction::<T>` (off-chain) -/
def addToInstruction (pda : List Bytes → Bytes → Option Bytes) (fetch : Bytes → Res (Option Bytes))
    (ix : Instruction) (stored disc : Bytes) : Res Instruction :=
  match readList stored disc with
  | .ok cfgs =>
    match fetchAll fetch ix.accounts with
    | .ok known =>
      match addIxLoop pda fetch ix.data ix.prog cfgs known ix.accounts with
      | .ok metas => .ok { ix with accounts := metas }
      | .err e => .err e
      | .panic => .panic
    | .err e => .err e
    | .panic => .panic
  | .err e => .err e
  | .panic => .panic

/-- the loop of `add_to_cpi_instruction` -/
def addCpiLoop (pda : List Bytes → Bytes → Option Bytes) (ixData prog : Bytes) (pool : List Info) :
    List Meta → List Info → List AccountMeta → Res (List AccountMeta × List Info)
  | [], infos, metas => .ok (metas, infos)
  | cfg :: rest, infos, metas =>
    match resolveOne pda cfg ixData prog (infos.map infoAcct) metas with
    | .ok m =>
      match pool.find? (fun x => x.key = m.key) with
      | some info => addCpiLoop pda ixData prog pool rest (infos ++ [info]) (metas ++ [m])
      | none => .err eIncorrectAccount
    | .err e => .err e
    | .panic => .panic

/-- `add_to_instruction`'s loop together with what it leaves in `instruction.accounts` when it
    returns: after an error these are the metas appended by the iterations that completed (the
    meta is pushed after its account data was fetched). -/
def addIxLoopT (pda : List Bytes → Bytes → Option Bytes) (fetch : Bytes → Res (Option Bytes))
    (ixData prog : Bytes) : List Meta → List Acct → List AccountMeta → List AccountMeta × Res Unit
  | [], _, metas => (metas, .ok ())
  | cfg :: rest, known, metas =>
    match resolveOne pda cfg ixData prog known metas with
    | .ok m =>
      match fetch m.key with
      | .ok data => addIxLoopT pda fetch ixData prog rest (known ++ [⟨m.key, data⟩]) (metas ++ [m])
      | .err _ => (metas, .err eAccountFetchFailed)
      | .panic => (metas, .panic)
    | .err e => (metas, .err e)
    | .panic => (metas, .panic)

/-- the same for `add_to_cpi_instruction`: metas and infos are pushed together, after the pool lookup -/
def addCpiLoopT (pda : List Bytes → Bytes → Option Bytes) (ixData prog : Bytes) (pool : List Info) :
    List Meta → List Info → List AccountMeta → (List AccountMeta × List Info) × Res Unit
  | [], infos, metas => ((metas, infos), .ok ())
  | cfg :: rest, infos, metas =>
    match resolveOne pda cfg ixData prog (infos.map infoAcct) metas with
    | .ok m =>
      match pool.find? (fun x => x.key = m.key) with
      | some info => addCpiLoopT pda ixData prog pool rest (infos ++ [info]) (metas ++ [m])
      | none => ((metas, infos), .err eIncorrectAccount)
    | .err e => ((metas, infos), .err e)
    | .panic => ((metas, infos), .panic)

/-- `ExtraAccountMetaList::add_to_cpi_instruction::<T>` -/
def addToCpi (pda : List Bytes → Bytes → Option Bytes) (ix : Instruction) (cpiInfos : List Info)
    (stored disc : Bytes) (pool : List Info) : Res (Instruction × List Info) :=
  match readList stored disc with
  | .ok cfgs =>
    match addCpiLoop pda ix.data ix.prog pool cfgs cpiInfos ix.accounts with
    | .ok (metas, infos) => .ok ({ ix with accounts := metas }, infos)
    | .err e => .err e
    | .panic => .panic
  | .err e => .err e
  | .panic => .panic

/-- `add_to_instruction` with what it leaves in `instruction.accounts` whatever it returns -/
def addToInstructionT (pda : List Bytes → Bytes → Option Bytes) (fetch : Bytes → Res (Option Bytes))
    (ix : Instruction) (stored disc : Bytes) : List AccountMeta × Res Unit :=
  match readList stored disc with
  | .ok cfgs =>
    match fetchAll fetch ix.accounts with
    | .ok known => addIxLoopT pda fetch ix.data ix.prog cfgs known ix.accounts
    | .err e => (ix.accounts, .err e)
    | .panic => (ix.accounts, .panic)
  | .err e => (ix.accounts, .err e)
  | .panic => (ix.accounts, .panic)

/-- `add_to_cpi_instruction` with the metas and infos it leaves whatever it returns -/
def addToCpiT (pda : List Bytes → Bytes → Option Bytes) (ix : Instruction) (cpiInfos : List Info)
    (stored disc : Bytes) (pool : List Info) : (List AccountMeta × List Info) × Res Unit :=
  match readList stored disc with
  | .ok cfgs => addCpiLoopT pda ix.data ix.prog pool cfgs cpiInfos ix.accounts
  | .err e => ((ix.accounts, cpiInfos), .err e)
  | .panic => ((ix.accounts, cpiInfos), .panic)

/-- the loop of `check_account_infos` : config `i` must resolve to the meta of the provided
    account at `initial + i` -/
def checkLoop (pda : List Bytes → Bytes → Option Bytes) (infos : List Info) (ixData prog : Bytes)
    (initial : Nat) : List Meta → Nat → Res Unit
  | [], _ => .ok ()
  | cfg :: rest, i =>
    match resolve pda cfg ixData prog (infos.map infoAcct) with
    | .ok m =>
      if (infos.map infoMeta)[i + initial]? = some m then checkLoop pda infos ixData prog initial rest (i + 1)
      else .err eIncorrectAccount
    | .err e => .err e
    | .panic => .panic

/-- `ExtraAccountMetaList::check_account_infos::<T>` -/
def checkAccountInfos (pda : List Bytes → Bytes → Option Bytes) (infos : List Info)
    (ixData prog stored disc : Bytes) : Res Unit :=
  match readList stored disc with
  | .ok cfgs =>
    if infos.length < cfgs.length then .err eNotEnoughAccounts
    else checkLoop pda infos ixData prog (infos.length - cfgs.length) cfgs 0
  | .err e => .err e
  | .panic => .panic

end Resolution
