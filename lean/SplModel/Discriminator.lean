/-
  SplModel.Discriminator — model of `discriminator/src/discriminator.rs` (run-time path and
  conversions) and of `discriminator-syn` (compile-time path of the derive macro).
-/
import SplModel.Basic
import SplModel.Sha256
import SplModel.RustLit
import SplModel.Generated.DiscConsts

namespace Discriminator
open Bytes

/-- `ArrayDiscriminator::new_with_hash_input` : `hashv(&[s.as_bytes()])`, first `RT_SLICE_END`
    bytes, `copy_from_slice` into `[0u8; LENGTH]` (panics on a length mismatch). -/
def rtDisc (s : Bytes) : Res Bytes :=
  let h := (Sha256.hashv [s]).take Gen.Disc.RT_SLICE_END
  if h.length = Gen.Disc.LENGTH then .ok h else .panic

/-- the derive: `Sha256::digest(hash_input.as_bytes())[..CT_SLICE_END]` as a byte-string
    literal, then `ArrayDiscriminator::new(*b"…")` which only type-checks for `LENGTH` bytes
    (`err` = the generated code does not compile). -/
def ctDisc (s : Bytes) : Res Bytes :=
  let h := (Sha256.digest s).take Gen.Disc.CT_SLICE_END
  if h.length = Gen.Disc.LENGTH then .ok h else .err .invalidArgument

/-- the derive applied to the *source text* of the attribute's string literal -/
def ctDiscOfLiteral (src : List Char) : Res Bytes :=
  match RustLit.value src with
  | some s => ctDisc (String.ofList s).toUTF8.toList
  | none => .err .invalidArgument

/-- `From<u64>` -/
def fromU64 (n : Nat) : Bytes := toLe 8 n
/-- `From<ArrayDiscriminator> for u64` -/
def toU64 (d : Bytes) : Nat := fromLe d
/-- `From<[u8; 8]>` / `From<ArrayDiscriminator> for [u8; 8]` / `as_slice` / `AsRef` -/
def fromArray (a : Bytes) : Bytes := a
def toArray (d : Bytes) : Bytes := d
/-- `TryFrom<&[u8]>` -/
def tryFromSlice (b : Bytes) : Res Bytes :=
  if b.length = Gen.Disc.LENGTH then .ok b else .err .invalidAccountData

end Discriminator
