/-
  SplModel.ExtraMeta — model of `tlv-account-resolution/src/account.rs`: the 35-byte
  `ExtraAccountMeta`, its constructors and `resolve`.  The PDA search is a parameter
  `pda : List Bytes → Bytes → Option Bytes` (theorems hold for every instantiation; the driver
  uses `Ed25519.pda`).
-/
import SplModel.Basic
import SplModel.Pod
import SplModel.Seeds
import SplModel.Generated.ResolutionConsts

namespace ExtraMeta
open Bytes Seeds

structure Meta where
  disc : UInt8
  cfg : Bytes          -- 32 bytes
  isSigner : UInt8     -- PodBool
  isWritable : UInt8   -- PodBool
  deriving Repr, DecidableEq

structure AccountMeta where
  key : Bytes
  signer : Bool
  writable : Bool
  deriving Repr, DecidableEq

/-- what `get_account_key_data_fn(i)` yields for an account: its key and optional data -/
structure Acct where
  key : Bytes
  data : Option Bytes
  deriving Repr, DecidableEq

def eAccountTypeNotAccountMeta : Err := .custom 2724315846
def eInstructionDataTooSmall : Err := .custom 2724315851
def eAccountNotFound : Err := .custom 2724315852
def eAccountDataNotFound : Err := .custom 2724315854
def eAccountDataTooSmall : Err := .custom 2724315855

def TOP : Nat := Gen.Resolution.U8_TOP_BIT

/-- the in-memory / on-wire bytes of a `Meta` (35 bytes) -/
def toBytes (m : Meta) : Bytes := m.disc :: (m.cfg ++ [m.isSigner, m.isWritable])

/-- `bytemuck` cast of 35 bytes to a `Meta` -/
def ofBytes (b : Bytes) : Meta :=
  ⟨b.headD 0, (b.drop 1).take 32, (b.drop 33).headD 0, (b.drop 34).headD 0⟩

/-- `new_with_pubkey` / `From<&AccountMeta>` / `From<&AccountInfo>` -/
def newWithPubkey (key : Bytes) (s w : Bool) : Meta :=
  ⟨0, key, Pod.fromBool s, Pod.fromBool w⟩

/-- `new_with_seeds` -/
def newWithSeeds (seeds : List Seed) (s w : Bool) : Res Meta :=
  match packIntoAddressConfig seeds with
  | .ok c => .ok ⟨1, c, Pod.fromBool s, Pod.fromBool w⟩
  | .err e => .err e
  | .panic => .panic

/-- `new_with_pubkey_data` -/
def newWithPubkeyData (k : PubkeyData) (s w : Bool) : Res Meta :=
  match kdPackIntoAddressConfig k with
  | .ok c => .ok ⟨2, c, Pod.fromBool s, Pod.fromBool w⟩
  | .err e => .err e
  | .panic => .panic

/-- `new_external_pda_with_seeds` : `program_index.checked_add(U8_TOP_BIT)` comes first -/
def newExternalPda (programIndex : UInt8) (seeds : List Seed) (s w : Bool) : Res Meta :=
  if programIndex.toNat + TOP > 255 then .err eInvalidSeedConfig
  else
    match packIntoAddressConfig seeds with
    | .ok c => .ok ⟨UInt8.ofNat (programIndex.toNat + TOP), c, Pod.fromBool s, Pod.fromBool w⟩
    | .err e => .err e
    | .panic => .panic

/-- one seed of `resolve_pda` -/
def materialise (ixData : Bytes) (accts : List Acct) : Seed → Res (Option Bytes)
  | .uninit => .ok none
  | .literal b => .ok (some b)
  | .instr i l =>
    if i.toNat + l.toNat > ixData.length then .err eInstructionDataTooSmall
    else (slice ixData i.toNat (i.toNat + l.toNat)).map some
  | .acctKey i =>
    match accts[i.toNat]? with
    | none => .err eAccountNotFound
    | some a => .ok (some a.key)
  | .acctData ai di l =>
    match accts[ai.toNat]? with
    | none => .err eAccountNotFound
    | some a =>
      match a.data with
      | none => .err eAccountDataNotFound
      | some data =>
        if data.length < di.toNat + l.toNat then .err eAccountDataTooSmall
        else (slice data di.toNat (di.toNat + l.toNat)).map some

/-- the seed loop of `resolve_pda` (first failing seed wins) -/
def materialiseAll (ixData : Bytes) (accts : List Acct) : List Seed → Res (List Bytes)
  | [] => .ok []
  | s :: rest =>
    match materialise ixData accts s with
    | .ok m =>
      match materialiseAll ixData accts rest with
      | .ok ms => .ok (match m with | some b => b :: ms | none => ms)
      | .err e => .err e
      | .panic => .panic
    | .err e => .err e
    | .panic => .panic

/-- `resolve_pda` -/
def resolvePda (pda : List Bytes → Bytes → Option Bytes) (seeds : List Seed) (ixData prog : Bytes)
    (accts : List Acct) : Res Bytes :=
  match materialiseAll ixData accts seeds with
  | .ok ms =>
    match pda ms prog with
    | some k => .ok k
    | none => .err eInvalidSeedConfig
  | .err e => .err e
  | .panic => .panic

/-- `resolve_key_data` -/
def resolveKeyData (k : PubkeyData) (ixData : Bytes) (accts : List Acct) : Res Bytes :=
  match k with
  | .uninit => .err .invalidAccountData
  | .instr i =>
    if i.toNat + 32 > ixData.length then .err eInstructionDataTooSmall
    else slice ixData i.toNat (i.toNat + 32)
  | .acctData ai di =>
    match accts[ai.toNat]? with
    | none => .err eAccountNotFound
    | some a =>
      match a.data with
      | none => .err eAccountDataNotFound
      | some data =>
        if data.length < di.toNat + 32 then .err eAccountDataTooSmall
        else slice data di.toNat (di.toNat + 32)

/-- `ExtraAccountMeta::resolve` -/
def resolve (pda : List Bytes → Bytes → Option Bytes) (m : Meta) (ixData prog : Bytes)
    (accts : List Acct) : Res AccountMeta :=
  if m.disc = 0 then .ok ⟨m.cfg, Pod.toBool m.isSigner, Pod.toBool m.isWritable⟩
  else if m.disc = 1 ∨ m.disc.toNat ≥ TOP then
    let progRes : Res Bytes :=
      if m.disc = 1 then .ok prog
      else match accts[m.disc.toNat - TOP]? with
        | none => .err eAccountNotFound
        | some a => .ok a.key
    match progRes with
    | .ok pr =>
      match unpackAddressConfig m.cfg with
      | .ok seeds =>
        match resolvePda pda seeds ixData pr accts with
        | .ok k => .ok ⟨k, Pod.toBool m.isSigner, Pod.toBool m.isWritable⟩
        | .err e => .err e
        | .panic => .panic
      | .err e => .err e
      | .panic => .panic
    | .err e => .err e
    | .panic => .panic
  else if m.disc = 2 then
    match kdUnpack m.cfg with
    | .ok kd =>
      match resolveKeyData kd ixData accts with
      | .ok k => .ok ⟨k, Pod.toBool m.isSigner, Pod.toBool m.isWritable⟩
      | .err e => .err e
      | .panic => .panic
    | .err e => .err e
    | .panic => .panic
  else .err .invalidAccountData

end ExtraMeta
