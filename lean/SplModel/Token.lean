/-
  SplModel.Token — model of `generic-token/src/{token,token_2022,generic_token}.rs`.

  One Lean function per Rust function, same order of checks.  Unchecked getters index the
  buffer with the *panicking* primitives (`Bytes.slice`, `index`), so "never panics" is a
  theorem about the validity predicates, not true by construction.  `&&` / `||` are modelled
  with Rust's short-circuit order because the right operand of the Token-2022 predicates
  indexes `account_data[165]`.
-/
import SplModel.Basic
import SplModel.Generated.TokenConsts

namespace Token
open Bytes Gen.Token

/-- `account_data[i]` -/
def index (d : Bytes) (i : Nat) : Res UInt8 :=
  match d[i]? with
  | some b => .ok b
  | none => .panic

/-- `*account_data.get(offset).unwrap_or(&0)` -/
def byteAt (d : Bytes) (off : Nat) : UInt8 := (d[off]?).getD 0

/-- `*account_data.get(offset).unwrap_or(&0) != 0` -/
def isInitializedTokenData (d : Bytes) (off : Nat) : Bool :=
  byteAt d off != 0

def isInitializedAccount (d : Bytes) : Bool :=
  isInitializedTokenData d SPL_TOKEN_ACCOUNT_STATE_OFFSET

def isInitializedMint (d : Bytes) : Bool :=
  isInitializedTokenData d SPL_TOKEN_MINT_IS_INITIALIZED_OFFSET

/-- `unpack_u64_unchecked` : slice `offset .. offset + 8`, `copy_from_slice`, `from_le_bytes`. -/
def unpackU64Unchecked (d : Bytes) (off : Nat) : Res Nat := do
  let s ← slice d off (off + U64_BYTES)
  if s.length = 8 then pure (fromLe s) else .panic   -- copy_from_slice into [u8; 8]

/-- `unpack_pubkey_unchecked` : `bytemuck::from_bytes(&d[off..off+32])` (panics unless 32 bytes). -/
def unpackPubkeyUnchecked (d : Bytes) (off : Nat) : Res Bytes := do
  let s ← slice d off (off + PUBKEY_BYTES)
  if s.length = 32 then pure s else .panic

/-- `token::Account::valid_account_data` -/
def tokenAccountValid (d : Bytes) : Bool :=
  d.length == SPL_TOKEN_ACCOUNT_LENGTH && isInitializedAccount d

/-- `token::Mint::valid_account_data` -/
def tokenMintValid (d : Bytes) : Bool :=
  d.length == SPL_TOKEN_MINT_LENGTH && isInitializedMint d

/-- `token_2022::Account::valid_account_data` (short-circuit order of the source). -/
def t22AccountValid (d : Bytes) : Res Bool :=
  if tokenAccountValid d then .ok true
  else if d.length > SPL_TOKEN_ACCOUNT_LENGTH then
    if d.length != SPL_TOKEN_MULTISIG_LENGTH then do
      let b ← index d SPL_TOKEN_ACCOUNT_LENGTH
      if ACCOUNTTYPE_ACCOUNT == b.toNat then pure (isInitializedAccount d) else pure false
    else .ok false
  else .ok false

/-- `token_2022::Mint::valid_account_data` -/
def t22MintValid (d : Bytes) : Res Bool :=
  if tokenMintValid d then .ok true
  else if d.length > SPL_TOKEN_ACCOUNT_LENGTH then
    if d.length != SPL_TOKEN_MULTISIG_LENGTH then do
      let b ← index d SPL_TOKEN_ACCOUNT_LENGTH
      if ACCOUNTTYPE_MINT == b.toNat then pure (isInitializedMint d) else pure false
    else .ok false
  else .ok false

structure Account where
  mint : Bytes
  owner : Bytes
  amount : Nat
  deriving Repr, DecidableEq

structure Mint where
  supply : Nat
  decimals : UInt8
  deriving Repr, DecidableEq

def unpackAccountFields (d : Bytes) : Res Account := do
  let mint ← unpackPubkeyUnchecked d SPL_TOKEN_ACCOUNT_MINT_OFFSET
  let owner ← unpackPubkeyUnchecked d SPL_TOKEN_ACCOUNT_OWNER_OFFSET
  let amount ← unpackU64Unchecked d SPL_TOKEN_ACCOUNT_AMOUNT_OFFSET
  pure ⟨mint, owner, amount⟩

def unpackMintFields (d : Bytes) : Res Mint := do
  let supply ← unpackU64Unchecked d SPL_TOKEN_MINT_SUPPLY_OFFSET
  let decimals ← index d SPL_TOKEN_MINT_DECIMALS_OFFSET
  pure ⟨supply, decimals⟩

/-- `generic_token::Account::unpack` -/
def genericAccount (d : Bytes) (prog : Bytes) : Res (Option Account) :=
  if prog = TOKEN_ID then
    if tokenAccountValid d then (unpackAccountFields d).map some else .ok none
  else if prog = TOKEN_2022_ID then do
    let v ← t22AccountValid d
    if v then (unpackAccountFields d).map some else pure none
  else .ok none

/-- `generic_token::Mint::unpack` -/
def genericMint (d : Bytes) (prog : Bytes) : Res (Option Mint) :=
  if prog = TOKEN_ID then
    if tokenMintValid d then (unpackMintFields d).map some else .ok none
  else if prog = TOKEN_2022_ID then do
    let v ← t22MintValid d
    if v then (unpackMintFields d).map some else pure none
  else .ok none

/-! ### the trait-level checked getters (`define_checked_getter!` in `GenericTokenAccount` /
    `GenericTokenMint`), for callers that already know the token program -/

/-- `if Self::valid_account_data(d) { Some(Self::unchecked(d)) } else { None }` -/
def checkedGetter {α} (valid : Res Bool) (unchecked : Res α) : Res (Option α) :=
  match valid with
  | .ok true => unchecked.map some
  | .ok false => .ok none
  | .err e => .err e
  | .panic => .panic

/-- which implementor: `token::{Account,Mint}` or `token_2022::{Account,Mint}` -/
def accountValidOf (t22 : Bool) (d : Bytes) : Res Bool := if t22 then t22AccountValid d else .ok (tokenAccountValid d)
def mintValidOf (t22 : Bool) (d : Bytes) : Res Bool := if t22 then t22MintValid d else .ok (tokenMintValid d)

def getAccountMint (t22 : Bool) (d : Bytes) : Res (Option Bytes) :=
  checkedGetter (accountValidOf t22 d) (unpackPubkeyUnchecked d SPL_TOKEN_ACCOUNT_MINT_OFFSET)
def getAccountOwner (t22 : Bool) (d : Bytes) : Res (Option Bytes) :=
  checkedGetter (accountValidOf t22 d) (unpackPubkeyUnchecked d SPL_TOKEN_ACCOUNT_OWNER_OFFSET)
def getAccountAmount (t22 : Bool) (d : Bytes) : Res (Option Nat) :=
  checkedGetter (accountValidOf t22 d) (unpackU64Unchecked d SPL_TOKEN_ACCOUNT_AMOUNT_OFFSET)
def getMintSupply (t22 : Bool) (d : Bytes) : Res (Option Nat) :=
  checkedGetter (mintValidOf t22 d) (unpackU64Unchecked d SPL_TOKEN_MINT_SUPPLY_OFFSET)
def getMintDecimals (t22 : Bool) (d : Bytes) : Res (Option UInt8) :=
  checkedGetter (mintValidOf t22 d) (index d SPL_TOKEN_MINT_DECIMALS_OFFSET)

/-- The 357-byte stand-in of a buffer of 357 bytes or more, built from its first 166 bytes: every
    function of this file (and of `TokenRef`) returns on the long buffer what it returns on the
    stand-in (`C17_length_frame`, `C16_length_frame`), which is how the driver evaluates 10 MiB
    and 4 GiB cases. -/
def standIn (head : Bytes) : Bytes := head ++ zeros 191

/-- `is_known_spl_token_id` -/
def isKnownId (p : Bytes) : Bool := p = TOKEN_ID || p = TOKEN_2022_ID

end Token
