/-
  SplModel.Tlv — model of `type-length-value/src/state.rs` (and `length.rs`).
  One Lean function per Rust function, same order of checks and writes.  The two walks
  (`get_indices`, `get_discriminators_and_end_index`) recurse on the *remaining suffix*
  `rest = d.drop start` together with the absolute offset `off = start`, so that
  `start < len` is `rest ≠ []`, `len < value_start` is `rest.length < 12`, and so on; fuel is
  the buffer length + 1 (each iteration consumes ≥ 12 bytes).
  Mutations return the buffer after the call together with the result — also on failure.
-/
import SplModel.Basic
import SplModel.Generated.TlvConsts

namespace Tlv
open Bytes

def DL : Nat := Gen.Tlv.DISC_LEN          -- size_of::<ArrayDiscriminator>()
def LW : Nat := Gen.Tlv.LEN_WIDTH         -- size_of::<Length>()
def HDR : Nat := DL + LW                  -- get_base_len()

def eTypeNotFound : Err := .custom Gen.Tlv.TYPE_NOT_FOUND
def eTypeAlreadyExists : Err := .custom Gen.Tlv.TYPE_ALREADY_EXISTS

/-- `ArrayDiscriminator::UNINITIALIZED` -/
def uninit : Bytes := zeros DL

structure Idx where
  typeStart : Nat
  lengthStart : Nat
  valueStart : Nat
  rep : Nat
  deriving Repr, DecidableEq

/-- `get_indices_unchecked` -/
def idxUnchecked (typeStart rep : Nat) : Idx :=
  ⟨typeStart, typeStart + DL, typeStart + DL + LW, rep⟩

/-- `usize::try_from(Length)` — a `u32` always fits `usize` on the modelled host -/
def lengthToUsize (lenBytes : Bytes) : Nat := fromLe lenBytes

/-- `Length::try_from(usize)` -/
def lengthFromUsize (n : Nat) : Res Bytes :=
  if n < 2 ^ (8 * LW) then .ok (toLe LW n) else .err .accountDataTooSmall

/-- the loop of `get_indices` on the suffix `rest` at absolute offset `off` -/
def getIndicesGo : Nat → Bytes → Nat → Bytes → Bool → Option Nat → Nat → Res Idx
  | 0, _, _, _, _, _, _ => .panic
  | fuel + 1, rest, off, disc, init, want, cur =>
    if rest.isEmpty then .err .invalidAccountData            -- loop exit
    else
      let ix := idxUnchecked off cur
      if rest.length < HDR then .err .invalidAccountData     -- tlv_data.len() < value_start
      else
        let d := rest.take DL
        let lenBytes := (rest.drop DL).take LW
        let next := rest.drop (HDR + lengthToUsize lenBytes)
        let noff := off + HDR + lengthToUsize lenBytes
        if d = disc then
          if want = some cur then .ok ix
          else getIndicesGo fuel next noff disc init want (cur + 1)
        else if d = uninit then
          if init then .ok ix else .err eTypeNotFound
        else getIndicesGo fuel next noff disc init want cur

/-- `get_indices(tlv_data, value_discriminator, init, repetition_number)` -/
def getIndices (d disc : Bytes) (init : Bool) (want : Option Nat) : Res Idx :=
  getIndicesGo (d.length + 1) d 0 disc init want 0

/-- the loop of `get_discriminators_and_end_index` -/
def getDiscsGo : Nat → Bytes → Nat → List Bytes → Res (List Bytes × Nat)
  | 0, _, _, _ => .panic
  | fuel + 1, rest, off, acc =>
    if rest.isEmpty then .ok (acc.reverse, off)               -- loop exit
    else if rest.length < DL then
      if rest.all (· = 0) then .ok (acc.reverse, off) else .err .invalidAccountData
    else
      let d := rest.take DL
      if d = uninit then .ok (acc.reverse, off)
      else if rest.length < HDR then .err .invalidAccountData
      else
        let lenBytes := (rest.drop DL).take LW
        let len := lengthToUsize lenBytes
        if HDR + len > rest.length then .err .invalidAccountData   -- value_end_index > len
        else getDiscsGo fuel (rest.drop (HDR + len)) (off + HDR + len) (d :: acc)

/-- `get_discriminators_and_end_index` -/
def getDiscsAndEnd (d : Bytes) : Res (List Bytes × Nat) := getDiscsGo (d.length + 1) d 0 []

/-- `check_data` = the three `unpack`s (`TlvStateBorrowed` / `Mut` / `Owned`) -/
def unpack (d : Bytes) : Res Unit := (getDiscsAndEnd d).map (fun _ => ())

/-- `get_discriminators` -/
def getDiscriminators (d : Bytes) : Res (List Bytes) := (getDiscsAndEnd d).map (·.1)

/-- `get_bytes::<V>` / `get_bytes_with_repetition_mut` : the value's byte range `[lo, hi)` -/
def getBytes (d disc : Bytes) (rep : Nat) : Res (Nat × Nat) := do
  let ix ← getIndices d disc false (some rep)
  let lenBytes ← slice d ix.lengthStart ix.valueStart
  let valueEnd := ix.valueStart + lengthToUsize lenBytes
  if d.length < valueEnd then .err .invalidAccountData else pure (ix.valueStart, valueEnd)

/-- `get_value_with_repetition::<V>` for an align-1 Pod `V` of `size` bytes: the value's range -/
def getValue (d disc : Bytes) (rep size : Nat) : Res (Nat × Nat) := do
  let (lo, hi) ← getBytes d disc rep
  if hi - lo = size then pure (lo, hi) else .err .invalidArgument

/-- `TlvStateMut::alloc::<V>(length, allow_repetition)` : buffer after, (value range, repetition) -/
def alloc (d disc : Bytes) (length : Nat) (allowRep : Bool) : Bytes × Res ((Nat × Nat) × Nat) :=
  match getIndices d disc true (if allowRep then none else some 0) with
  | .ok ix =>
    match slice d ix.typeStart ix.lengthStart with
    | .ok cur =>
      if cur = uninit then
        -- check everything that can fail before writing anything
        match lengthFromUsize length with
        | .ok newLength =>
          let valueEnd := ix.valueStart + length
          if d.length < valueEnd then (d, .err .invalidAccountData)
          else
            match writeAt d ix.typeStart disc with
            | .ok d1 =>
              match writeAt d1 ix.lengthStart newLength with
              | .ok d2 => (d2, .ok ((ix.valueStart, valueEnd), ix.rep))
              | _ => (d1, .panic)
            | _ => (d, .panic)
        | .err e => (d, .err e)
        | .panic => (d, .panic)
      else (d, .err eTypeAlreadyExists)
    | _ => (d, .panic)
  | .err e => (d, .err e)
  | .panic => (d, .panic)

/-- `init_value::<V>(allow_repetition)` with `V::default()` = `dflt` -/
def initValue (d disc dflt : Bytes) (allowRep : Bool) : Bytes × Res ((Nat × Nat) × Nat) :=
  match alloc d disc dflt.length allowRep with
  | (d1, .ok ((lo, hi), rep)) =>
    match writeAt d1 lo dflt with
    | .ok d2 => (d2, .ok ((lo, hi), rep))
    | _ => (d1, .panic)
  | r => r

/-- `realloc_with_repetition::<V>(length, repetition_number)` -/
def realloc (d disc : Bytes) (length rep : Nat) : Bytes × Res (Nat × Nat) :=
  match getIndices d disc false (some rep) with
  | .ok ix =>
    match getDiscsAndEnd d with
    | .ok (_, endIdx) =>
      match slice d ix.lengthStart ix.valueStart with
      | .ok lenBytes =>
        let oldLen := lengthToUsize lenBytes
        -- check that we're not going to panic during `copy_within`
        if oldLen < length ∧ endIdx + (length - oldLen) > d.length then (d, .err .invalidAccountData)
        else
          match lengthFromUsize length with
          | .ok newLength =>
            match writeAt d ix.lengthStart newLength with
            | .ok d1 =>
              let oldValueEnd := ix.valueStart + oldLen
              let newValueEnd := ix.valueStart + length
              match copyWithin d1 oldValueEnd endIdx newValueEnd with
              | .ok d2 =>
                if oldLen > length then
                  match fillZ d2 (endIdx - (oldLen - length)) endIdx with
                  | .ok d3 => (d3, .ok (ix.valueStart, newValueEnd))
                  | _ => (d2, .panic)
                else if oldLen < length then
                  match fillZ d2 oldValueEnd newValueEnd with
                  | .ok d3 => (d3, .ok (ix.valueStart, newValueEnd))
                  | _ => (d2, .panic)
                else (d2, .ok (ix.valueStart, newValueEnd))
              | _ => (d1, .panic)
            | _ => (d, .panic)
          | .err e => (d, .err e)
          | .panic => (d, .panic)
      | _ => (d, .panic)
    | .err e => (d, .err e)
    | .panic => (d, .panic)
  | .err e => (d, .err e)
  | .panic => (d, .panic)

/-- byte / typed write through `get_bytes_with_repetition_mut` / `get_value_with_repetition_mut`:
    overwrite the whole value with `v` (must have the entry's length) -/
def writeValue (d disc : Bytes) (rep : Nat) (v : Bytes) : Bytes × Res Unit :=
  match getBytes d disc rep with
  | .ok (lo, hi) =>
    if hi - lo ≠ v.length then (d, .err .invalidArgument)
    else match writeAt d lo v with
      | .ok d1 => (d1, .ok ())
      | _ => (d, .panic)
  | .err e => (d, .err e)
  | .panic => (d, .panic)

/-- `pack_variable_len_value_with_repetition` with a writer that streams `packed` into the slot
    (Borsh `to_writer(&mut dst[..], …)`): the prefix that fits is written, then an error. -/
def packVarLen (d disc : Bytes) (rep : Nat) (packed : Bytes) : Bytes × Res Unit :=
  match getBytes d disc rep with
  | .ok (lo, hi) =>
    match writeAt d lo (packed.take (hi - lo)) with
    | .ok d1 => if packed.length ≤ hi - lo then (d1, .ok ()) else (d1, .err .invalidInstructionData)
    | _ => (d, .panic)
  | .err e => (d, .err e)
  | .panic => (d, .panic)

/-- `alloc_and_pack_variable_len_entry` -/
def allocAndPack (d disc packed : Bytes) (allowRep : Bool) : Bytes × Res Nat :=
  match alloc d disc packed.length allowRep with
  | (d1, .ok ((lo, _), rep)) =>
    match writeAt d1 lo packed with
    | .ok d2 => (d2, .ok rep)
    | _ => (d1, .panic)
  | (d1, .err e) => (d1, .err e)
  | (d1, .panic) => (d1, .panic)

end Tlv
