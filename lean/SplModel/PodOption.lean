/-
  SplModel.PodOption — model of `pod/src/option.rs`, generic over any value type with
  decidable equality and a designated none value.
-/
import SplModel.Basic

namespace PodOption

/-- `Nullable`: a type with a designated `NONE` value. -/
structure Nullable (T : Type) [DecidableEq T] where
  noneVal : T

variable {T : Type} [DecidableEq T]

/-- `PodOption::get` / `as_ref` / `copied` / `From<PodOption<T>> for Option<T>` -/
def get (N : Nullable T) (v : T) : Option T := if v = N.noneVal then none else some v

/-- `From<T> for PodOption<T>` : plain wrap -/
def wrap (v : T) : T := v

/-- `TryFrom<Option<T>>` and `TryFrom<COption<T>>` (same shape) -/
def tryFrom (N : Nullable T) : Option T → Res T
  | some v => if v = N.noneVal then .err .invalidArgument else .ok v
  | none => .ok N.noneVal

/-- `Default` -/
def default (N : Nullable T) : T := N.noneVal

/-- Serde deserialisation from an already decoded `Option<T>` -/
def serdeDe (N : Nullable T) (o : Option T) : Res T := tryFrom N o

/-- Serde serialisation target: `None` is written as null, otherwise the value. -/
def serdeSer (N : Nullable T) (v : T) : Option T := get N v

/-- The two instances the repository ships and the correspondence runs: `Address` (32 bytes, none is
    the all-zero address) and the 64-bit integer instance of the tests (none is 0; its memory and
    Borsh encoding is `toLe 8`). -/
def addrN : Nullable Bytes := ⟨Bytes.zeros 32⟩
def u64N : Nullable Nat := ⟨0⟩

end PodOption
