/-
  SplModel.Basic — shared vocabulary of the executable model.

  * `Bytes`   = `List UInt8`; buffers are immutable values.
  * `Res α`   = outcome of a modelled Rust call: `ok`, `err` (a `Result::Err` / `None`
                returned to the caller) or `panic` (every way the Rust code can abort: slice
                index out of range, `unwrap`/`expect`, `copy_from_slice` length mismatch,
                debug-profile integer overflow).
  * primitive slice operations that `panic` exactly where Rust would.

  No imports outside core: this file links into the native driver.
-/

abbrev Bytes := List UInt8

/-- Error classes (the granularity at which the properties speak) plus an exact code used
    only as a fidelity note by the correspondence check. -/
inductive Err where
  | invalidAccountData
  | invalidArgument
  | accountDataTooSmall
  | arithmeticOverflow
  | invalidRealloc
  | invalidInstructionData
  | custom (code : Nat)
  | none_            -- an `Option::None` result
  deriving Repr, DecidableEq, Inhabited

/-- short stable name, printed after ` | ` as a fidelity note -/
def Err.code : Err → String
  | .invalidAccountData => "InvalidAccountData"
  | .invalidArgument => "InvalidArgument"
  | .accountDataTooSmall => "AccountDataTooSmall"
  | .arithmeticOverflow => "ArithmeticOverflow"
  | .invalidRealloc => "InvalidRealloc"
  | .invalidInstructionData => "InvalidInstructionData"
  | .custom c => s!"c{c}"
  | .none_ => "None"

inductive Res (α : Type) where
  | ok (a : α)
  | err (e : Err)
  | panic
  deriving Repr, DecidableEq, Inhabited

namespace Res

@[inline] def bind {α β} (r : Res α) (f : α → Res β) : Res β :=
  match r with
  | ok a => f a
  | err e => err e
  | panic => panic

instance : Monad Res where
  pure := Res.ok
  bind := Res.bind

def isOk {α} : Res α → Bool
  | ok _ => true
  | _ => false

def isErr {α} : Res α → Bool
  | err _ => true
  | _ => false

def isPanic {α} : Res α → Bool
  | panic => true
  | _ => false

def map {α β} (f : α → β) : Res α → Res β
  | ok a => ok (f a)
  | err e => err e
  | panic => panic

def ofOption {α} (e : Err) : Option α → Res α
  | some a => ok a
  | none => err e

@[simp] theorem bind_ok {α β} (a : α) (f : α → Res β) : (Res.ok a >>= f) = f a := rfl
@[simp] theorem bind_err {α β} (e : Err) (f : α → Res β) : (Res.err e >>= f) = Res.err e := rfl
@[simp] theorem bind_panic {α β} (f : α → Res β) : ((Res.panic : Res α) >>= f) = Res.panic := rfl
@[simp] theorem pure_eq {α} (a : α) : (pure a : Res α) = Res.ok a := rfl

end Res

namespace Bytes

def zeros (n : Nat) : Bytes := List.replicate n 0

/-- little-endian encoding of `n` on `k` bytes (truncating). -/
def toLe : Nat → Nat → Bytes
  | 0, _ => []
  | k+1, n => UInt8.ofNat (n % 256) :: toLe k (n / 256)

/-- little-endian decoding. -/
def fromLe : Bytes → Nat
  | [] => 0
  | b :: bs => b.toNat + 256 * fromLe bs

/-- `&d[lo..hi]` — panics when `lo > hi` or `hi > len`. -/
def slice (d : Bytes) (lo hi : Nat) : Res Bytes :=
  if lo ≤ hi ∧ hi ≤ d.length then .ok ((d.drop lo).take (hi - lo)) else .panic

/-- `d.get(lo..hi)` — `None` when out of range. -/
def sliceGet (d : Bytes) (lo hi : Nat) : Option Bytes :=
  if lo ≤ hi ∧ hi ≤ d.length then some ((d.drop lo).take (hi - lo)) else none

/-- `d[off..off+bs.len].copy_from_slice(bs)` — panics when out of range. -/
def writeAt (d : Bytes) (off : Nat) (bs : Bytes) : Res Bytes :=
  if off + bs.length ≤ d.length then .ok (d.take off ++ (bs ++ d.drop (off + bs.length))) else .panic

/-- `d.copy_within(lo..hi, dst)` — panics when `lo > hi`, `hi > len` or `dst + (hi-lo) > len`. -/
def copyWithin (d : Bytes) (lo hi dst : Nat) : Res Bytes :=
  if lo ≤ hi ∧ hi ≤ d.length ∧ dst + (hi - lo) ≤ d.length then
    .ok (d.take dst ++ ((d.drop lo).take (hi - lo) ++ d.drop (dst + (hi - lo))))
  else .panic

/-- `d[lo..hi].fill(0)` — panics when out of range. -/
def fillZ (d : Bytes) (lo hi : Nat) : Res Bytes :=
  if lo ≤ hi ∧ hi ≤ d.length then .ok (d.take lo ++ (zeros (hi - lo) ++ d.drop hi)) else .panic

end Bytes

/-! ### hex text used by the line protocol -/

namespace Hex

def digit (n : Nat) : Char :=
  if n < 10 then Char.ofNat (48 + n) else Char.ofNat (87 + n)

def ofBytes (b : Bytes) : String :=
  if b.isEmpty then "-" else
  String.ofList (b.foldr (fun x acc => digit (x.toNat / 16) :: digit (x.toNat % 16) :: acc) [])

def val (c : Char) : Option Nat :=
  if '0' ≤ c ∧ c ≤ '9' then some (c.toNat - 48)
  else if 'a' ≤ c ∧ c ≤ 'f' then some (c.toNat - 87)
  else if 'A' ≤ c ∧ c ≤ 'F' then some (c.toNat - 55)
  else none

def parseChars : List Char → Option Bytes
  | [] => some []
  | [_] => none
  | a :: b :: rest => do
    let x ← val a
    let y ← val b
    let r ← parseChars rest
    pure (UInt8.ofNat (x * 16 + y) :: r)

def toBytes (s : String) : Option Bytes :=
  if s = "-" then some [] else parseChars s.toList

end Hex
