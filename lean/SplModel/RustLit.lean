/-
  SplModel.RustLit — model of how the source text of a Rust string literal denotes a string
  (`syn::LitStr::value`: `parse_lit_str_cooked`, `parse_lit_str_raw`, `backslash_x`,
  `backslash_u`), over `List Char` (Lean `Char` = Unicode scalar value = Rust `char`).
  `none` = syn rejects the token (cannot happen for text that rustc's lexer accepted).
-/
import SplModel.Basic

namespace RustLit

def hexDigit (c : Char) : Option Nat :=
  if '0' ≤ c ∧ c ≤ '9' then some (c.toNat - 48)
  else if 'a' ≤ c ∧ c ≤ 'f' then some (c.toNat - 87)
  else if 'A' ≤ c ∧ c ≤ 'F' then some (c.toNat - 55)
  else none

def isWs (c : Char) : Bool := c = ' ' || c = '\t' || c = '\n' || c = '\r'

/-- `backslash_u` after the `{` : accumulate up to 6 hex digits, `_` allowed after the first. -/
def uDigits : Nat → List Char → Nat → Nat → Option (Nat × List Char)
  | 0, _, _, _ => none
  | _ + 1, [], _, _ => none
  | f + 1, c :: rest, ch, digits =>
    match hexDigit c with
    | some d => if digits = 6 then none else uDigits f rest (ch * 16 + d) (digits + 1)
    | none =>
      if c = '_' ∧ digits > 0 then uDigits f rest ch digits
      else if c = '}' ∧ digits > 0 then some (ch, rest)
      else none

def charOfNat? (n : Nat) : Option Char :=
  if h : n.isValidChar then some ⟨n.toUInt32, by
    simp only [Nat.isValidChar] at h
    rcases h with h | ⟨h1, h2⟩
    · left; simpa [Nat.toUInt32, UInt32.lt_iff_toNat_lt, Nat.mod_eq_of_lt (by omega : n < 4294967296)] using h
    · right
      have : n < 4294967296 := by omega
      constructor
      · simpa [Nat.toUInt32, UInt32.lt_iff_toNat_lt, Nat.mod_eq_of_lt this] using h1
      · simpa [Nat.toUInt32, UInt32.lt_iff_toNat_lt, Nat.mod_eq_of_lt this] using h2⟩
  else none

/-- `parse_lit_str_cooked` after the opening quote; `acc` is the content so far (reversed). -/
def cooked : Nat → List Char → List Char → Option (List Char)
  | 0, _, _ => none
  | _ + 1, [], _ => none
  | f + 1, c :: rest, acc =>
    if c = '"' then some acc.reverse
    else if c = '\\' then
      match rest with
      | [] => none
      | b :: rest' =>
        if b = 'x' then
          match rest' with
          | h1 :: h2 :: r =>
            match hexDigit h1, hexDigit h2 with
            | some a, some d =>
              let v := a * 16 + d
              if v > 0x7F then none else cooked f r (Char.ofNat v :: acc)
            | _, _ => none
          | _ => none
        else if b = 'u' then
          match rest' with
          | '{' :: r =>
            match uDigits (r.length + 1) r 0 0 with
            | some (n, r') =>
              match charOfNat? n with
              | some ch => if r'.length < rest'.length then cooked f r' (ch :: acc) else none
              | none => none
            | none => none
          | _ => none
        else if b = 'n' then cooked f rest' ('\n' :: acc)
        else if b = 'r' then cooked f rest' ('\r' :: acc)
        else if b = 't' then cooked f rest' ('\t' :: acc)
        else if b = '\\' then cooked f rest' ('\\' :: acc)
        else if b = '0' then cooked f rest' ('\x00' :: acc)
        else if b = '\'' then cooked f rest' ('\'' :: acc)
        else if b = '"' then cooked f rest' ('"' :: acc)
        else if b = '\r' ∨ b = '\n' then cooked f (rest'.dropWhile isWs) acc
        else none
    else if c = '\r' then
      match rest with
      | '\n' :: rest' => cooked f rest' ('\n' :: acc)
      | _ => none
    else cooked f rest (c :: acc)

/-- `parse_lit_str_raw` : `r`, n pounds, quote, content, last quote followed by n pounds. -/
def raw (s : List Char) : Option (List Char) :=
  let afterR := s.drop 1
  let pounds := (afterR.takeWhile (· = '#')).length
  let body := afterR.drop pounds
  match body with
  | '"' :: content =>
    -- rfind('"')
    let rev := content.reverse
    let tailRev := rev.takeWhile (· ≠ '"')        -- text after the last quote, reversed
    if tailRev.length = rev.length then none       -- no closing quote
    else
      let suffixAll := tailRev.reverse
      if suffixAll.take pounds = List.replicate pounds '#' then
        some (content.take (content.length - tailRev.length - 1))
      else none
  | _ => none

/-- `LitStr::value()` of the literal's source text. -/
def value (src : List Char) : Option (List Char) :=
  match src with
  | '"' :: rest => cooked (rest.length + 1) rest []
  | 'r' :: _ => raw src
  | _ => none

/-- Canonical rendering of a string as a cooked literal (only the mandatory escapes). -/
def escChar (c : Char) : List Char :=
  if c = '"' then ['\\', '"']
  else if c = '\\' then ['\\', '\\']
  else if c = '\r' then ['\\', 'r']
  else [c]

def escape (s : List Char) : List Char := '"' :: (s.flatMap escChar ++ ['"'])

end RustLit
