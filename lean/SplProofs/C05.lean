/-
  C05 — extra-account configs resolve to exactly the prescribed address.
  All theorems are parametric in the PDA search `pda` (any function), so they hold for Solana's
  `try_find_program_address` in particular.  Quantification: all 35-byte configs (every kind
  byte, every 32 config bytes, any flag bytes), all instruction data, all account lists.
-/
import SplProofs.C11
import SplProofs.C13
import SplModel.ExtraMeta

namespace C05
open ExtraMeta Seeds Bytes

variable (pda : List Bytes → Bytes → Option Bytes)

/-- flags carried by every successful resolution: the configured ones -/
def flagsOf (m : Meta) (key : Bytes) : AccountMeta := ⟨key, Pod.toBool m.isSigner, Pod.toBool m.isWritable⟩

/-- Fixed-address config: the stored key with the configured flags. -/
theorem C05_fixed (m : Meta) (ix prog : Bytes) (accts : List Acct) (h : m.disc = 0) :
    resolve pda m ix prog accts = .ok (flagsOf m m.cfg) := by
  simp [resolve, h, flagsOf]

/-- How each seed kind is materialised, and when it fails. -/
theorem C05_materialise (ix : Bytes) (accts : List Acct) :
    (∀ b, materialise ix accts (.literal b) = .ok (some b)) ∧
    (∀ i l, materialise ix accts (.instr i l) =
        if i.toNat + l.toNat ≤ ix.length then .ok (some ((ix.drop i.toNat).take l.toNat))
        else .err eInstructionDataTooSmall) ∧
    (∀ i, materialise ix accts (.acctKey i) =
        match accts[i.toNat]? with | some a => .ok (some a.key) | none => .err eAccountNotFound) ∧
    (∀ ai di l, materialise ix accts (.acctData ai di l) =
        match accts[ai.toNat]? with
        | none => .err eAccountNotFound
        | some a => match a.data with
          | none => .err eAccountDataNotFound
          | some data => if di.toNat + l.toNat ≤ data.length then .ok (some ((data.drop di.toNat).take l.toNat))
                         else .err eAccountDataTooSmall) := by
  refine ⟨fun _ => rfl, ?_, ?_, ?_⟩
  · intro i l
    simp only [materialise]
    by_cases h : i.toNat + l.toNat ≤ ix.length
    · rw [if_neg (by omega), if_pos h]
      simp [slice, h, Res.map]
    · rw [if_pos (by omega), if_neg h]
  · intro i
    simp only [materialise]
    cases accts[i.toNat]? <;> rfl
  · intro ai di l
    simp only [materialise]
    cases accts[ai.toNat]? with
    | none => rfl
    | some a =>
      simp only
      cases a.data with
      | none => rfl
      | some data =>
        simp only
        by_cases h : di.toNat + l.toNat ≤ data.length
        · rw [if_neg (by omega), if_pos h]
          simp [slice, h, Res.map]
        · rw [if_pos (by omega), if_neg h]

/-- PDA config: the canonical program-derived address of the listed seeds under the executing
    program (kind 1) or the indexed external program (kind ≥ 128), with the configured flags —
    and nothing else succeeds. -/
theorem C05_pda (m : Meta) (ix prog : Bytes) (accts : List Acct) (h : m.disc = 1 ∨ m.disc.toNat ≥ 128)
    (am : AccountMeta) :
    resolve pda m ix prog accts = .ok am ↔
      ∃ prog' seeds mats key,
        (if m.disc = 1 then prog' = prog else ∃ a, accts[m.disc.toNat - 128]? = some a ∧ prog' = a.key) ∧
        unpackAddressConfig m.cfg = .ok seeds ∧ materialiseAll ix accts seeds = .ok mats ∧
        pda mats prog' = some key ∧ am = flagsOf m key := by
  have hne0 : m.disc ≠ 0 := by
    rcases h with h | h
    · rw [h]; decide
    · intro h0; rw [h0] at h; simp at h
  have htop : TOP = 128 := by decide
  unfold resolve
  rw [if_neg hne0, if_pos (by rw [htop]; exact h)]
  constructor
  · intro hr
    by_cases h1 : m.disc = 1
    · simp only [h1, if_true] at hr ⊢
      cases hu : unpackAddressConfig m.cfg with
      | panic => simp [hu] at hr
      | err e => simp [hu] at hr
      | ok seeds =>
        simp only [hu] at hr
        unfold resolvePda at hr
        cases hm : materialiseAll ix accts seeds with
        | panic => simp [hm] at hr
        | err e => simp [hm] at hr
        | ok mats =>
          simp only [hm] at hr
          cases hp : pda mats prog with
          | none => simp [hp] at hr
          | some key =>
            simp only [hp, Res.ok.injEq] at hr
            exact ⟨prog, seeds, mats, key, rfl, rfl, hm, hp, by rw [← hr]; rfl⟩
    · simp only [h1, if_false] at hr ⊢
      rw [htop] at hr
      cases ha : accts[m.disc.toNat - 128]? with
      | none => simp [ha] at hr
      | some a =>
        simp only [ha] at hr
        cases hu : unpackAddressConfig m.cfg with
        | panic => simp [hu] at hr
        | err e => simp [hu] at hr
        | ok seeds =>
          simp only [hu] at hr
          unfold resolvePda at hr
          cases hm : materialiseAll ix accts seeds with
          | panic => simp [hm] at hr
          | err e => simp [hm] at hr
          | ok mats =>
            simp only [hm] at hr
            cases hp : pda mats a.key with
            | none => simp [hp] at hr
            | some key =>
              simp only [hp, Res.ok.injEq] at hr
              exact ⟨a.key, seeds, mats, key, ⟨a, rfl, rfl⟩, rfl, hm, hp, by rw [← hr]; rfl⟩
  · rintro ⟨prog', seeds, mats, key, hp', hu, hm, hp, rfl⟩
    by_cases h1 : m.disc = 1
    · simp only [h1, if_true] at hp' ⊢
      subst hp'
      simp only [hu, resolvePda, hm, hp]
      rfl
    · simp only [h1, if_false] at hp' ⊢
      obtain ⟨a, ha, rfl⟩ := hp'
      rw [htop]
      simp only [ha, hu, resolvePda, hm, hp]
      rfl

/-- Key-from-data config: the 32 bytes at the indexed position of instruction or account data. -/
theorem C05_keydata (m : Meta) (ix prog : Bytes) (accts : List Acct) (h : m.disc = 2) :
    resolve pda m ix prog accts =
      match kdUnpack m.cfg with
      | .ok (.instr i) =>
        if i.toNat + 32 ≤ ix.length then .ok (flagsOf m ((ix.drop i.toNat).take 32)) else .err eInstructionDataTooSmall
      | .ok (.acctData ai di) =>
        (match accts[ai.toNat]? with
         | none => .err eAccountNotFound
         | some a => match a.data with
           | none => .err eAccountDataNotFound
           | some data => if di.toNat + 32 ≤ data.length then .ok (flagsOf m ((data.drop di.toNat).take 32))
                          else .err eAccountDataTooSmall)
      | .ok .uninit => .err .invalidAccountData
      | .err e => .err e
      | .panic => .panic := by
  have htop : TOP = 128 := by decide
  unfold resolve
  rw [if_neg (by rw [h]; decide), if_neg (by rw [h, htop]; decide), if_pos h]
  cases hk : kdUnpack m.cfg with
  | panic => rfl
  | err e => rfl
  | ok kd =>
    cases kd with
    | uninit => rfl
    | instr i =>
      simp only [resolveKeyData]
      by_cases hh : i.toNat + 32 ≤ ix.length
      · rw [if_neg (by omega), if_pos hh]
        simp [slice, hh, flagsOf]
      · rw [if_pos (by omega), if_neg hh]
    | acctData ai di =>
      simp only [resolveKeyData]
      cases accts[ai.toNat]? with
      | none => rfl
      | some a =>
        simp only
        cases a.data with
        | none => rfl
        | some data =>
          simp only
          by_cases hh : di.toNat + 32 ≤ data.length
          · rw [if_neg (by omega), if_pos hh]
            simp [slice, hh, flagsOf]
          · rw [if_pos (by omega), if_neg hh]

/-- Unknown kinds (3 … 127) are rejected. -/
theorem C05_unknown (m : Meta) (ix prog : Bytes) (accts : List Acct) (h1 : 3 ≤ m.disc.toNat)
    (h2 : m.disc.toNat < 128) : resolve pda m ix prog accts = .err .invalidAccountData := by
  have htop : TOP = 128 := by decide
  have e0 : m.disc ≠ 0 := by intro h; rw [h] at h1; simp at h1
  have e1 : m.disc ≠ 1 := by intro h; rw [h] at h1; simp at h1
  have e2 : m.disc ≠ 2 := by intro h; rw [h] at h1; simp at h1
  unfold resolve
  rw [if_neg e0, if_neg (by rw [htop]; intro h; rcases h with h | h; exact e1 h; omega), if_neg e2]

theorem materialise_ne_panic (ix : Bytes) (accts : List Acct) (s : Seed) : materialise ix accts s ≠ .panic := by
  have h := C05_materialise ix accts
  cases s with
  | uninit => simp [materialise]
  | literal b => rw [h.1]; simp
  | instr i l => rw [h.2.1]; split <;> simp
  | acctKey i => rw [h.2.2.1]; split <;> simp
  | acctData a d l =>
    rw [h.2.2.2]
    split
    · simp
    · split
      · simp
      · split <;> simp

theorem materialiseAll_ne_panic (ix : Bytes) (accts : List Acct) (ss : List Seed) :
    materialiseAll ix accts ss ≠ .panic := by
  induction ss with
  | nil => simp [materialiseAll]
  | cons s rest ih =>
    simp only [materialiseAll]
    cases hm : materialise ix accts s with
    | panic => exact absurd hm (materialise_ne_panic ix accts s)
    | err e => simp
    | ok m =>
      simp only
      cases hr : materialiseAll ix accts rest with
      | panic => exact absurd hr ih
      | err e => simp
      | ok ms => simp

/-- Resolution never panics: if a referenced index or byte range does not exist, the seeds
    cannot form a PDA (`pda` returns nothing) or the kind is unknown, it returns an error. -/
theorem C05_total (m : Meta) (hc : m.cfg.length = 32) (ix prog : Bytes) (accts : List Acct) :
    resolve pda m ix prog accts ≠ .panic := by
  have htop : TOP = 128 := by decide
  unfold resolve
  split
  · simp
  · split
    · have hu := C11.C11_unpack_total m.cfg hc
      have key : ∀ pr : Bytes, (match unpackAddressConfig m.cfg with
          | .ok seeds => (match resolvePda pda seeds ix pr accts with
            | .ok k => Res.ok (⟨k, Pod.toBool m.isSigner, Pod.toBool m.isWritable⟩ : AccountMeta)
            | .err e => .err e | .panic => .panic)
          | .err e => .err e | .panic => .panic) ≠ .panic := by
        intro pr
        cases hx : unpackAddressConfig m.cfg with
        | panic => exact absurd hx hu
        | err e => simp
        | ok seeds =>
          simp only
          unfold resolvePda
          cases hm : materialiseAll ix accts seeds with
          | panic => exact absurd hm (materialiseAll_ne_panic ix accts seeds)
          | err e => simp
          | ok mats => simp only; cases pda mats pr <;> simp
      by_cases h1 : m.disc = 1
      · simp only [h1, if_true]; exact key prog
      · simp only [h1, if_false]
        cases accts[m.disc.toNat - TOP]? with
        | none => simp
        | some a => exact key a.key
    · split
      · cases hk : kdUnpack m.cfg with
        | panic => exact absurd hk (C11.C11_keydata_unpack m.cfg).1
        | err e => simp
        | ok kd =>
          simp only
          cases kd with
          | uninit => simp [resolveKeyData]
          | instr i =>
            simp only [resolveKeyData]
            by_cases hh : i.toNat + 32 > ix.length
            · rw [if_pos hh]; simp
            · rw [if_neg hh]
              have : slice ix i.toNat (i.toNat + 32) = .ok ((ix.drop i.toNat).take 32) := by
                simp [slice]; omega
              rw [this]; simp
          | acctData ai di =>
            simp only [resolveKeyData]
            cases accts[ai.toNat]? with
            | none => simp
            | some a =>
              simp only
              cases a.data with
              | none => simp
              | some data =>
                simp only
                by_cases hh : data.length < di.toNat + 32
                · rw [if_pos hh]; simp
                · rw [if_neg hh]
                  have : slice data di.toNat (di.toNat + 32) = .ok ((data.drop di.toNat).take 32) := by
                    simp [slice]; omega
                  rw [this]; simp
      · simp

/-- Constructors store exactly the information they were given. -/
theorem C05_ctor (seeds : List Seed) (k : PubkeyData) (key : Bytes) (s w : Bool) (idx : UInt8) :
    (newWithPubkey key s w = ⟨0, key, Pod.fromBool s, Pod.fromBool w⟩ ∧
      Pod.toBool (Pod.fromBool s) = s ∧ Pod.toBool (Pod.fromBool w) = w) ∧
    (∀ m, newWithSeeds seeds s w = .ok m → m.disc = 1 ∧ unpackAddressConfig m.cfg = .ok seeds ∧
      m.cfg.length = 32 ∧ Pod.toBool m.isSigner = s ∧ Pod.toBool m.isWritable = w) ∧
    (∀ m, newExternalPda idx seeds s w = .ok m → idx.toNat < 128 ∧ m.disc.toNat = idx.toNat + 128 ∧
      unpackAddressConfig m.cfg = .ok seeds ∧ Pod.toBool m.isSigner = s ∧ Pod.toBool m.isWritable = w) ∧
    (idx.toNat ≥ 128 → (newExternalPda idx seeds s w).isErr = true) ∧
    (∀ m, newWithPubkeyData k s w = .ok m → m.disc = 2 ∧ k ≠ .uninit ∧
      kdUnpack m.cfg = .ok k ∧ Pod.toBool m.isSigner = s ∧ Pod.toBool m.isWritable = w) ∧
    newWithSeeds seeds s w ≠ .panic ∧ newExternalPda idx seeds s w ≠ .panic ∧
    newWithPubkeyData k s w ≠ .panic := by
  have hb : ∀ x : Bool, Pod.toBool (Pod.fromBool x) = x := fun x => (C13.C13_bool 0 x).2.2
  have htop : TOP = 128 := by decide
  have hpk := C11.C11_pack_iff seeds
  refine ⟨⟨rfl, hb s, hb w⟩, ?_, ?_, ?_, ?_, ?_, ?_, ?_⟩
  · intro m hm
    unfold newWithSeeds at hm
    cases hp : packIntoAddressConfig seeds with
    | panic => simp [hp] at hm
    | err e => simp [hp] at hm
    | ok c =>
      simp only [hp, Res.ok.injEq] at hm
      subst hm
      exact ⟨rfl, C11.C11_pack_unpack seeds c hp, (C11.C11_pack_canonical seeds c hp).2.1, hb s, hb w⟩
  · intro m hm
    unfold newExternalPda at hm
    split at hm
    · simp at hm
    · rename_i hlt
      rw [htop] at hlt
      cases hp : packIntoAddressConfig seeds with
      | panic => simp [hp] at hm
      | err e => simp [hp] at hm
      | ok c =>
        simp only [hp, Res.ok.injEq] at hm
        subst hm
        refine ⟨by omega, ?_, C11.C11_pack_unpack seeds c hp, hb s, hb w⟩
        simp only [htop, UInt8.toNat_ofNat']
        omega
  · intro h
    unfold newExternalPda
    rw [if_pos (by rw [htop]; omega)]
    rfl
  · intro m hm
    unfold newWithPubkeyData at hm
    have hk := C11.C11_keydata_pack k
    cases hp : kdPackIntoAddressConfig k with
    | panic => simp [hp] at hm
    | err e => simp [hp] at hm
    | ok c =>
      simp only [hp, Res.ok.injEq] at hm
      subst hm
      have hne : k ≠ .uninit := by
        intro hu
        have := hk.1 hu
        rw [hp] at this; simp [Res.isErr] at this
      rw [hk.2.1 hne] at hp
      simp only [Res.ok.injEq] at hp
      refine ⟨rfl, hne, ?_, hb s, hb w⟩
      simp only
      rw [← hp]
      exact (C11.C11_keydata_unpack []).2.2 k _ hne
  · unfold newWithSeeds
    cases hp : packIntoAddressConfig seeds with
    | panic => exact absurd hp hpk.2.2
    | err e => simp
    | ok c => simp
  · unfold newExternalPda
    split
    · simp
    · cases hp : packIntoAddressConfig seeds with
      | panic => exact absurd hp hpk.2.2
      | err e => simp
      | ok c => simp
  · unfold newWithPubkeyData
    cases hp : kdPackIntoAddressConfig k with
    | panic => exact absurd hp (C11.C11_keydata_pack k).2.2
    | err e => simp
    | ok c => simp

/-! Non-vacuity: a PDA config whose single seed is an instruction-data slice. -/
example : resolve (fun mats _ => mats.head?) ⟨1, [2, 1, 2] ++ zeros 29, 0, 1⟩ [9, 8, 7, 6] [] [] =
    .ok ⟨[8, 7], false, true⟩ := by decide

end C05
