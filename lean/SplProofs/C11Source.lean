/-
  C11 (continued) — translation validation of the seed / key-data micro-format: the packed sizes and
  the tag bytes the model uses are the ones in the current Rust source (regenerated on every run).
-/
import SplProofs.C11
import SplModel.Generated.SeedConsts
import SplModel.Generated.FormatConsts

namespace C11
open Seeds Bytes Gen.Format

/-- The packed sizes the model uses are the arms of `Seed::tlv_size` / `PubkeyData::tlv_size` as
    regenerated from the current source (constant expressions evaluated by the translator). -/
theorem C11_source_sizes (b : Bytes) (i l a d : UInt8) :
    tlvSize .uninit = Gen.Seeds.SEED_SIZE_UNINITIALIZED ∧
    tlvSize (.literal b) = min (min b.length 255 + Gen.Seeds.SEED_LITERAL_OVERHEAD) 255 ∧
    tlvSize (.instr i l) = Gen.Seeds.SEED_SIZE_INSTRUCTION_DATA ∧
    tlvSize (.acctKey i) = Gen.Seeds.SEED_SIZE_ACCOUNT_KEY ∧
    tlvSize (.acctData a d l) = Gen.Seeds.SEED_SIZE_ACCOUNT_DATA ∧
    kdSize .uninit = Gen.Seeds.KD_SIZE_UNINITIALIZED ∧
    kdSize (.instr i) = Gen.Seeds.KD_SIZE_INSTRUCTION_DATA ∧
    kdSize (.acctData a d) = Gen.Seeds.KD_SIZE_ACCOUNT_DATA := by
  refine ⟨rfl, rfl, rfl, rfl, rfl, rfl, rfl, rfl⟩

/-- `pack` writes, and `unpack` dispatches on, the same tag byte for every variant, and it is the first
    byte of the model's packing. -/
theorem C11_source_tags (b : Bytes) (i l a d : UInt8) :
    SEED_PACK_TAG_UNINITIALIZED = SEED_UNPACK_TAG_UNINITIALIZED ∧ SEED_PACK_TAG_LITERAL = SEED_UNPACK_TAG_LITERAL ∧
    SEED_PACK_TAG_INSTRUCTION_DATA = SEED_UNPACK_TAG_INSTRUCTION_DATA ∧ SEED_PACK_TAG_ACCOUNT_KEY = SEED_UNPACK_TAG_ACCOUNT_KEY ∧
    SEED_PACK_TAG_ACCOUNT_DATA = SEED_UNPACK_TAG_ACCOUNT_DATA ∧ KD_PACK_TAG_UNINITIALIZED = KD_UNPACK_TAG_UNINITIALIZED ∧
    KD_PACK_TAG_INSTRUCTION_DATA = KD_UNPACK_TAG_INSTRUCTION_DATA ∧ KD_PACK_TAG_ACCOUNT_DATA = KD_UNPACK_TAG_ACCOUNT_DATA ∧
    (packOne (.literal b)).head? = some (UInt8.ofNat SEED_PACK_TAG_LITERAL) ∧
    (packOne (.instr i l)).head? = some (UInt8.ofNat SEED_PACK_TAG_INSTRUCTION_DATA) ∧
    (packOne (.acctKey i)).head? = some (UInt8.ofNat SEED_PACK_TAG_ACCOUNT_KEY) ∧
    (packOne (.acctData a d l)).head? = some (UInt8.ofNat SEED_PACK_TAG_ACCOUNT_DATA) ∧
    (kdPackOne (.instr i)).head? = some (UInt8.ofNat KD_PACK_TAG_INSTRUCTION_DATA) ∧
    (kdPackOne (.acctData a d)).head? = some (UInt8.ofNat KD_PACK_TAG_ACCOUNT_DATA) ∧
    SEED_UNPACK_TAG_UNINITIALIZED = 0 ∧ KD_UNPACK_TAG_UNINITIALIZED = 0 := by
  refine ⟨rfl, rfl, rfl, rfl, rfl, rfl, rfl, rfl, rfl, rfl, rfl, rfl, rfl, rfl, rfl, rfl⟩

end C11
