/-
  C19 — error macros and enums map variants to codes and messages exactly.
  Generic theorems hold for every enum description (any number of unit variants, any
  identifiers, explicit discriminants, any attribute lists); the library tables are
  regenerated from the source on every run and decided by kernel evaluation.
-/
import SplModel.ProgramError
import SplModel.Generated.ErrorEnums

namespace C19
open ProgErr

/-- The documented constants of the hashed start code. -/
theorem C19_documented_constants :
    Gen.Err.NAMESPACE = "spl_program_error" ∧ Gen.Err.MIN_VALUE = 7000 ∧
    Gen.Err.HASH_LO = 13 ∧ Gen.Err.HASH_HI = 17 ∧
    Gen.Err.DEFAULT_MESSAGE = "Unknown custom program error" := by decide

theorem assignCodes_length (n : Nat) (vs : List Variant) : (assignCodes n vs).length = vs.length := by
  induction vs generalizing n with
  | nil => rfl
  | cons v vs ih => simp [assignCodes, ih]

/-- Numbering: the code of a variant is its explicit discriminant if it has one, otherwise the
    previous variant's code + 1 (0 for the first). -/
theorem C19_numbering (n : Nat) (v : Variant) (vs : List Variant) :
    assignCodes n (v :: vs) = v.disc.getD n :: assignCodes (v.disc.getD n + 1) vs := rfl

theorem idxOf_getElem_of_nodup (l : List Nat) (h : l.Nodup) (i : Nat) (hi : i < l.length) :
    l.idxOf l[i] = i := by
  induction l generalizing i with
  | nil => simp at hi
  | cons x xs ih =>
    rw [List.nodup_cons] at h
    cases i with
    | zero => simp [List.idxOf_cons]
    | succ j =>
      have hj : j < xs.length := by simpa using hi
      have hne : x ≠ xs[j] := fun he => h.1 (he ▸ List.getElem_mem hj)
      simp only [List.getElem_cons_succ, List.idxOf_cons]
      have : (x == xs[j]) = false := by simpa using hne
      rw [this]
      simp [ih h.2 j hj]

/-- With distinct discriminants, converting a variant into a program error yields the custom
    code equal to its discriminant, and looking the code up returns the same variant; any
    successful lookup returns a variant with exactly that code (all codes, all enums). -/
theorem C19_code (e : EnumDesc) (hnd : (codes e).Nodup) :
    (∀ i c, intoProgramError e i = some c → fromCode e c = some i) ∧
    (∀ c i, fromCode e c = some i → intoProgramError e i = some c) ∧
    (∀ c, c ∉ codes e → fromCode e c = none) := by
  refine ⟨?_, ?_, ?_⟩
  · intro i c h
    unfold intoProgramError at h
    unfold fromCode
    have hi : i < (codes e).length := by
      rcases Nat.lt_or_ge i (codes e).length with h' | h'
      · exact h'
      · rw [List.getElem?_eq_none h'] at h; cases h
    rw [List.getElem?_eq_getElem hi] at h
    cases h
    have : (codes e).idxOf (codes e)[i] = i := idxOf_getElem_of_nodup _ hnd i hi
    simp [this, hi]
  · intro c i h
    unfold fromCode at h
    unfold intoProgramError
    simp only at h
    split at h
    · rename_i hlt
      cases h
      rw [List.getElem?_eq_getElem hlt]
      simp
    · cases h
  · intro c hc
    unfold fromCode
    have : ¬ (codes e).idxOf c < (codes e).length := by
      intro h; exact hc (List.idxOf_lt_length_iff.mp h)
    simp [this]

/-- The static message of a variant equals its declared error text (the first `#[error]`
    attribute holding a string literal) and its Display output; without one it is the default
    message. -/
theorem C19_msg (v : Variant) :
    (∀ t rest, v.errAttrs = some t :: rest → toStr v = t ∧ display v = some t) ∧
    (∀ t rest, v.errAttrs = none :: some t :: rest → toStr v = t) ∧
    (v.errAttrs.all (· = none) → toStr v = Gen.Err.DEFAULT_MESSAGE) := by
  refine ⟨?_, ?_, ?_⟩
  · intro t rest h; simp [toStr, display, errorMessage, h]
  · intro t rest h; simp [toStr, errorMessage, h]
  · intro h
    have : errorMessage v = none := by
      unfold errorMessage
      rw [List.findSome?_eq_none_iff]
      intro x hx
      have := List.all_eq_true.mp h x hx
      simpa using this
    simp [toStr, this]

theorem hashedStart_spec (fuel : Nat) (name : String) (n0 d k : Nat)
    (h : hashedStart fuel name n0 = some (d, k)) :
    Gen.Err.MIN_VALUE ≤ d ∧ d = hashValue name k ∧ n0 ≤ k ∧
    ∀ j, n0 ≤ j → j < k → hashValue name j < Gen.Err.MIN_VALUE := by
  induction fuel generalizing n0 with
  | zero => simp [hashedStart] at h
  | succ f ih =>
    unfold hashedStart at h
    simp only at h
    split at h
    · rename_i hge
      cases h
      exact ⟨hge, rfl, Nat.le_refl _, fun j h1 h2 => by omega⟩
    · rename_i hlt
      obtain ⟨h1, h2, h3, h4⟩ := ih (n0 + 1) h
      refine ⟨h1, h2, by omega, ?_⟩
      intro j hj1 hj2
      rcases Nat.eq_or_lt_of_le hj1 with rfl | hj
      · omega
      · exact h4 j (by omega) hj2

/-- Hashed start: the first variant's code is the value taken from the documented bytes of
    SHA-256 over the namespaced enum name and the smallest nonce giving at least the minimum;
    later variants increase by one; a wrong declared start is rejected (compile error) with
    the right value. -/
theorem C19_hashed (fuel : Nat) (e : EnumDesc) (declared : Nat) (v : Variant) (vs : List Variant)
    (hv : e.variants = v :: vs) (d k : Nat) (hs : hashedStart fuel e.name 0 = some (d, k)) :
    7000 ≤ d ∧ d = hashValue e.name k ∧ (∀ j, j < k → hashValue e.name j < 7000) ∧
    (declared ≠ d → setFirstDiscriminant fuel e declared = .err (.custom d)) ∧
    (declared = d → ∃ e', setFirstDiscriminant fuel e declared = .ok e' ∧
        (codes e').head? = some d ∧
        ((∀ w ∈ vs, w.disc = none) → codes e' = (List.range (vs.length + 1)).map (d + ·))) := by
  obtain ⟨h1, h2, _, h4⟩ := hashedStart_spec fuel e.name 0 d k hs
  have hmin : Gen.Err.MIN_VALUE = 7000 := by decide
  refine ⟨by omega, h2, fun j hj => by have := h4 j (Nat.zero_le _) hj; omega, ?_, ?_⟩
  · intro hne
    unfold setFirstDiscriminant
    simp only [hv, hs]
    rw [if_neg (fun h => hne h.symm)]
  · intro heq
    subst heq
    refine ⟨{ e with variants := { v with disc := some declared } :: vs }, by unfold setFirstDiscriminant; simp only [hv, hs, if_true], ?_, ?_⟩
    · simp [codes, assignCodes]
    · intro hnone
      simp only [codes, assignCodes, Option.getD_some]
      have key : ∀ (ws : List Variant) (n : Nat), (∀ w ∈ ws, w.disc = none) →
          assignCodes n ws = (List.range ws.length).map (n + ·) := by
        intro ws
        induction ws with
        | nil => intro n _; rfl
        | cons w ws ih =>
          intro n hw
          have hw0 : w.disc = none := hw w (List.mem_cons_self)
          have := ih (n + 1) (fun x hx => hw x (List.mem_cons_of_mem _ hx))
          simp only [assignCodes, hw0, Option.getD_none, this, List.length_cons, List.range_succ_eq_map,
            List.map_cons, List.map_map, Nat.add_zero]
          congr 1
          apply List.map_congr_left
          intro a _
          simp only [Function.comp]
          omega
      rw [key vs (declared + 1) hnone, List.range_succ_eq_map]
      simp only [List.map_cons, List.map_map, Nat.add_zero]
      congr 1
      apply List.map_congr_left
      intro a _
      simp only [Function.comp]
      omega

/-- One library enum obeys the mapping: codes distinct and contiguous from its start, every
    variant has a declared message, and the hand-written `to_str` arms list exactly the
    variants, in order, each with its declared (= Display) text. -/
def LibOk (e : EnumDesc) (arms : List (String × String)) (start : Nat) : Prop :=
  codes e = (List.range e.variants.length).map (start + ·) ∧ (codes e).Nodup ∧
  arms.map (·.1) = e.variants.map (·.name) ∧
  arms.map (·.2) = e.variants.map toStr ∧
  e.variants.map display = arms.map (fun a => some a.2) ∧
  (∀ c, c < 2 ^ 32 → (fromCode e c).isSome = (start ≤ c && c < start + e.variants.length))

instance (e : EnumDesc) (arms : List (String × String)) (start : Nat) :
    Decidable (codes e = (List.range e.variants.length).map (start + ·) ∧ (codes e).Nodup ∧
      arms.map (·.1) = e.variants.map (·.name) ∧ arms.map (·.2) = e.variants.map toStr ∧
      e.variants.map display = arms.map (fun a => some a.2)) := inferInstance

theorem libOk_of (e : EnumDesc) (arms : List (String × String)) (start : Nat)
    (h : codes e = (List.range e.variants.length).map (start + ·) ∧ (codes e).Nodup ∧
      arms.map (·.1) = e.variants.map (·.name) ∧ arms.map (·.2) = e.variants.map toStr ∧
      e.variants.map display = arms.map (fun a => some a.2)) : LibOk e arms start := by
  obtain ⟨h1, h2, h3, h4, h5⟩ := h
  refine ⟨h1, h2, h3, h4, h5, ?_⟩
  intro c _
  unfold fromCode
  simp only [h1]
  by_cases hc : start ≤ c ∧ c < start + e.variants.length
  · have hm : c ∈ (List.range e.variants.length).map (start + ·) := by
      simp only [List.mem_map, List.mem_range]
      exact ⟨c - start, by omega, by omega⟩
    have := List.idxOf_lt_length_iff.mpr hm
    have this' : List.idxOf c ((List.range e.variants.length).map (start + ·)) < e.variants.length := by
      simpa using this
    simp [this', hc.1, hc.2]
  · have hm : c ∉ (List.range e.variants.length).map (start + ·) := by
      simp only [List.mem_map, List.mem_range, not_exists, not_and]
      intro x hx; omega
    have : ¬ List.idxOf c ((List.range e.variants.length).map (start + ·)) <
        ((List.range e.variants.length).map (start + ·)).length := by
      intro h; exact hm (List.idxOf_lt_length_iff.mp h)
    simp only [this, if_false, Option.isSome_none]
    have : ¬ (start ≤ c ∧ c < start + e.variants.length) := hc
    by_cases h1 : start ≤ c <;> by_cases h2 : c < start + e.variants.length <;> simp [h1, h2] <;> omega

/-- The hand-written error enums of the libraries obey the same code and message mapping with
    distinct, contiguous codes (tables regenerated from the source on every run). -/
theorem C19_library :
    LibOk Gen.LibErr.TlvError Gen.LibErr.TlvError_toStrArms 1202666432 ∧
    LibOk Gen.LibErr.ListViewError Gen.LibErr.ListViewError_toStrArms 0 ∧
    LibOk Gen.LibErr.AccountResolutionError Gen.LibErr.AccountResolutionError_toStrArms 2724315840 :=
  ⟨libOk_of _ _ _ (by decide), libOk_of _ _ _ (by decide), libOk_of _ _ _ (by decide +kernel)⟩

/-! Non-vacuity: a small enum with an explicit discriminant in the middle. -/
example : codes ⟨"E", [⟨"A", none, [some "a"]⟩, ⟨"B", some 7, []⟩, ⟨"C", none, [none, some "c"]⟩]⟩ = [0, 7, 8] := by decide
example : toStr ⟨"C", none, [none, some "c"]⟩ = "c" := by decide

end C19
