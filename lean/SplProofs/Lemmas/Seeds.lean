import SplModel.Seeds
import SplProofs.Lemmas.Le

namespace Seeds
open Bytes

def totalSpec (ss : List Seed) : Nat := (ss.map specSize).sum

@[simp] theorem totalSpec_nil : totalSpec [] = 0 := rfl
@[simp] theorem totalSpec_cons (s : Seed) (ss : List Seed) : totalSpec (s :: ss) = specSize s + totalSpec ss := by
  simp [totalSpec]

theorem zeros_length (n : Nat) : (zeros n).length = n := by simp [zeros]

theorem tlvSize_le_spec (s : Seed) : tlvSize s ≤ specSize s := by
  cases s <;> simp [tlvSize, specSize] <;> omega

theorem tlvSize_eq_of_le (s : Seed) (h : tlvSize s ≤ 32) : tlvSize s = specSize s := by
  cases s <;> simp [tlvSize, specSize] at * <;> omega

theorem packOne_length (s : Seed) : (packOne s).length = specSize s := by
  cases s <;> simp [packOne, specSize] <;> omega

theorem pack_ok (s : Seed) (hne : s ≠ .uninit) (h : tlvSize s ≤ 32) :
    pack s (tlvSize s) = .ok (packOne s) := by
  have he := tlvSize_eq_of_le s h
  cases s with
  | uninit => exact absurd rfl hne
  | literal b =>
    simp only [tlvSize, specSize] at he h
    have hb : b.length ≤ 30 := by omega
    have ht : tlvSize (.literal b) = b.length + 2 := by simp only [tlvSize]; omega
    unfold pack
    rw [ht]
    simp only [ne_eq, not_true_eq_false, if_false, packOne]
    rw [if_neg (by omega), if_neg (by omega), if_neg (by omega)]
  | instr i l => simp [pack, tlvSize, packOne]
  | acctKey i => simp [pack, tlvSize, packOne]
  | acctData a d l => simp [pack, tlvSize, packOne]

theorem pack_uninit (n : Nat) : ∃ e, pack .uninit n = .err e := by
  unfold pack
  by_cases h : n ≠ tlvSize .uninit
  · exact ⟨_, by rw [if_pos h]⟩
  · rw [if_neg h]
    by_cases h2 : n > 32
    · exact ⟨_, by rw [if_pos h2]⟩
    · exact ⟨_, by rw [if_neg h2]⟩

/-- The packing loop, characterised: from a state `P ++ zeros` it yields the canonical layout
    exactly when no seed is uninitialised and everything fits; otherwise an error. -/
theorem packLoop_spec (ss : List Seed) (i : Nat) (P : Bytes) (hP : P.length = i) (hi : i ≤ 32) :
    (((∀ s ∈ ss, s ≠ .uninit) ∧ i + totalSpec ss ≤ 32) →
      packLoop ss i (P ++ zeros (32 - i)) =
        .ok (P ++ ss.flatMap packOne ++ zeros (32 - i - totalSpec ss))) ∧
    (¬ ((∀ s ∈ ss, s ≠ .uninit) ∧ i + totalSpec ss ≤ 32) →
      ∃ e, packLoop ss i (P ++ zeros (32 - i)) = .err e) := by
  induction ss generalizing i P with
  | nil =>
    constructor
    · intro _; simp [packLoop]
    · intro h; exact absurd ⟨by simp, by simp; exact hi⟩ h
  | cons s rest ih =>
    by_cases hfit : i + tlvSize s > 32
    · -- slice_end > 32
      constructor
      · intro ⟨_, htot⟩
        have := tlvSize_le_spec s
        simp only [totalSpec_cons] at htot
        omega
      · intro _
        exact ⟨eSeedConfigsTooLarge, by simp only [packLoop, hfit, if_true]⟩
    · have hfit' : i + tlvSize s ≤ 32 := by omega
      by_cases hun : s = .uninit
      · subst hun
        constructor
        · intro ⟨h, _⟩; exact absurd rfl (h _ (List.mem_cons_self))
        · intro _
          obtain ⟨e, he⟩ := pack_uninit (i + tlvSize .uninit - i)
          exact ⟨e, by simp only [packLoop, hfit, if_false, he]⟩
      · have hts : tlvSize s ≤ 32 := by omega
        have hsz := tlvSize_eq_of_le s hts
        have hpk := pack_ok s hun hts
        have hlen : (packOne s).length = tlvSize s := by rw [packOne_length, hsz]
        have hw : writeAt (P ++ zeros (32 - i)) i (packOne s) =
            .ok ((P ++ packOne s) ++ zeros (32 - (i + tlvSize s))) := by
          unfold writeAt
          have : i + (packOne s).length ≤ (P ++ zeros (32 - i)).length := by
            simp [zeros_length, hP, hlen]; omega
          rw [if_pos this]
          congr 1
          have h1 : (P ++ zeros (32 - i)).take i = P := by
            rw [List.take_append_of_le_length (by omega)]; simp [← hP]
          have h2 : (P ++ zeros (32 - i)).drop (i + (packOne s).length) =
              zeros (32 - (i + tlvSize s)) := by
            rw [List.drop_append, List.drop_of_length_le (by omega)]
            simp only [List.nil_append, hP, hlen, zeros, List.drop_replicate]
            congr 1; omega
          rw [h1, h2, List.append_assoc]
        have hstep : packLoop (s :: rest) i (P ++ zeros (32 - i)) =
            packLoop rest (i + tlvSize s) ((P ++ packOne s) ++ zeros (32 - (i + tlvSize s))) := by
          simp only [packLoop, hfit, if_false]
          rw [show i + tlvSize s - i = tlvSize s by omega, hpk]
          simp only [hw]
        have ih' := ih (i + tlvSize s) (P ++ packOne s) (by simp [hP, hlen]) hfit'
        rw [hstep]
        constructor
        · intro ⟨hall, htot⟩
          simp only [totalSpec_cons] at htot
          have h1 := ih'.1 ⟨fun x hx => hall x (List.mem_cons_of_mem _ hx), by omega⟩
          rw [h1]
          have e : 32 - (i + tlvSize s) - totalSpec rest = 32 - i - (specSize s + totalSpec rest) := by omega
          simp only [List.flatMap_cons, List.append_assoc, totalSpec_cons, e]
        · intro hn
          apply ih'.2
          intro ⟨hall, htot⟩
          apply hn
          refine ⟨?_, by simp only [totalSpec_cons]; omega⟩
          intro x hx
          rcases List.mem_cons.mp hx with rfl | hx
          · exact hun
          · exact hall x hx

/-- Well-formed for the wire format: initialised and every literal short enough for its length
    byte. -/
def WfSeed (s : Seed) : Prop :=
  s ≠ .uninit ∧ tlvSize s = specSize s ∧ ∀ b, s = .literal b → b.length < 256

theorem wf_of_small (s : Seed) (hne : s ≠ .uninit) (h : tlvSize s ≤ 32) : WfSeed s := by
  refine ⟨hne, tlvSize_eq_of_le s h, ?_⟩
  intro b hb; subst hb
  simp [tlvSize] at h; omega

theorem unpack_packOne (s : Seed) (hw : WfSeed s) (rest : Bytes) :
    unpack (packOne s ++ rest) = .ok s := by
  obtain ⟨hne, _, hl⟩ := hw
  cases s with
  | uninit => exact absurd rfl hne
  | literal b =>
    have hb := hl b rfl
    have h1 : (UInt8.ofNat b.length).toNat = b.length := by
      simp [UInt8.toNat_ofNat']; omega
    have h2 : ¬ (b ++ rest).length < b.length := by simp
    simp [packOne, unpack, h1, h2]
  | instr i l => simp [packOne, unpack]
  | acctKey i => simp [packOne, unpack]
  | acctData a d l => simp [packOne, unpack]

/-- Unpacking a canonical layout returns the list it was built from. -/
theorem unpackLoop_canon (ss : List Seed) (hw : ∀ s ∈ ss, WfSeed s) (tail : Bytes)
    (ht : tail = [] ∨ ∃ t, tail = 0 :: t) (acc : List Seed) (fuel : Nat) (hf : ss.length < fuel) :
    unpackLoop fuel (ss.flatMap packOne ++ tail) acc = .ok (acc.reverse ++ ss) := by
  induction ss generalizing acc fuel with
  | nil =>
    cases fuel with
    | zero => omega
    | succ f =>
      simp only [List.flatMap_nil, List.nil_append, List.append_nil]
      rcases ht with rfl | ⟨t, rfl⟩
      · simp [unpackLoop]
      · simp [unpackLoop, unpack]
  | cons s rest ih =>
    cases fuel with
    | zero => omega
    | succ f =>
      have hws := hw s (List.mem_cons_self)
      have hne := hws.1
      have hsz : tlvSize s = (packOne s).length := by rw [packOne_length, hws.2.1]
      simp only [List.flatMap_cons, List.append_assoc]
      have hnonempty : (packOne s ++ (rest.flatMap packOne ++ tail)).isEmpty = false := by
        cases s <;> simp [packOne] at hne ⊢
      unfold unpackLoop
      rw [hnonempty]
      simp only [Bool.false_eq_true, if_false, unpack_packOne s hws, if_neg hne]
      rw [if_neg (by simp [hsz])]
      rw [hsz, List.drop_left]
      rw [ih (fun x hx => hw x (List.mem_cons_of_mem _ hx)) (s :: acc) f (by simpa using hf)]
      simp

/-- What a single successful `unpack` consumed (buffers of at most 32 bytes). -/
theorem unpack_ok_decomp (rest : Bytes) (hl : rest.length ≤ 32) (s : Seed)
    (h : unpack rest = .ok s) (hne : s ≠ .uninit) :
    WfSeed s ∧ rest = packOne s ++ rest.drop (tlvSize s) ∧ 2 ≤ tlvSize s ∧ tlvSize s ≤ rest.length := by
  cases rest with
  | nil => simp [unpack] at h
  | cons d r =>
    unfold unpack at h
    simp only at h
    split at h
    · cases h; exact absurd rfl hne
    · split at h
      · rename_i hd; subst hd
        cases r with
        | nil => simp at h
        | cons len r' =>
          simp only at h
          split at h
          · simp at h
          · rename_i hlen
            cases h
            have hlen' : len.toNat ≤ r'.length := by omega
            have hr : r'.length ≤ 30 := by simp at hl; omega
            have htk : (r'.take len.toNat).length = len.toNat := by
              simp [List.length_take]; omega
            have hts : tlvSize (.literal (r'.take len.toNat)) = len.toNat + 2 := by
              simp only [tlvSize, htk]; omega
            refine ⟨⟨by simp, by simp only [hts, specSize, htk]; omega, ?_⟩, ?_, by omega,
              by simp only [hts, List.length_cons]; omega⟩
            · intro b hb; cases hb; rw [htk]; exact len.toNat_lt
            · rw [hts]
              simp only [packOne, htk, UInt8.ofNat_toNat, List.cons_append]
              have : List.drop (len.toNat + 2) (1 :: len :: r') = r'.drop len.toNat := by
                rw [show len.toNat + 2 = (len.toNat + 1) + 1 by omega, List.drop_succ_cons,
                  List.drop_succ_cons]
              rw [this, List.take_append_drop]
      · split at h
        · rename_i hd; subst hd
          match r, h with
          | i :: l :: t, h =>
            cases h
            exact ⟨⟨by simp, rfl, by intro b hb; cases hb⟩, by simp [packOne, tlvSize],
              by simp [tlvSize], by simp [tlvSize]⟩
          | [], h => simp at h
          | [_], h => simp at h
        · split at h
          · rename_i hd; subst hd
            match r, h with
            | i :: t, h =>
              cases h
              exact ⟨⟨by simp, rfl, by intro b hb; cases hb⟩, by simp [packOne, tlvSize],
                by simp [tlvSize], by simp [tlvSize]⟩
            | [], h => simp at h
          · split at h
            · rename_i hd; subst hd
              match r, h with
              | a :: dd :: l :: t, h =>
                cases h
                exact ⟨⟨by simp, rfl, by intro b hb; cases hb⟩, by simp [packOne, tlvSize],
                  by simp [tlvSize], by simp [tlvSize]⟩
              | [], h => simp at h
              | [_], h => simp at h
              | [_, _], h => simp at h
            · simp at h

theorem unpack_ne_panic (rest : Bytes) : unpack rest ≠ .panic := by
  cases rest with
  | nil => simp [unpack]
  | cons d r =>
    unfold unpack
    simp only
    split
    · simp
    · split
      · cases r with
        | nil => simp
        | cons len r' => simp only; split <;> simp
      · split
        · match r with
          | i :: l :: t => simp
          | [] => simp
          | [_] => simp
        · split
          · match r with
            | i :: t => simp
            | [] => simp
          · split
            · match r with
              | a :: dd :: l :: t => simp
              | [] => simp
              | [_] => simp
              | [_, _] => simp
            · simp

theorem unpack_uninit_head (rest : Bytes) (h : unpack rest = .ok .uninit) : ∃ t, rest = 0 :: t := by
  cases rest with
  | nil => simp [unpack] at h
  | cons d r =>
    unfold unpack at h
    simp only at h
    split at h
    · rename_i hd; exact ⟨r, by rw [hd]⟩
    · split at h
      · cases r with
        | nil => simp at h
        | cons len r' => simp only at h; split at h <;> simp at h
      · split at h
        · match r, h with
          | i :: l :: t, h => simp at h
          | [], h => simp at h
          | [_], h => simp at h
        · split at h
          · match r, h with
            | i :: t, h => simp at h
            | [], h => simp at h
          · split at h
            · match r, h with
              | a :: dd :: l :: t, h => simp at h
              | [], h => simp at h
              | [_], h => simp at h
              | [_, _], h => simp at h
            · simp at h

/-- The unpacking loop on arbitrary bytes: never panics, and a success decomposes the buffer. -/
theorem unpackLoop_sound (fuel : Nat) (rest : Bytes) (hl : rest.length ≤ 32) (hf : rest.length < fuel)
    (acc : List Seed) :
    unpackLoop fuel rest acc ≠ .panic ∧
    ∀ out, unpackLoop fuel rest acc = .ok out →
      ∃ ss tail, out = acc.reverse ++ ss ∧ rest = ss.flatMap packOne ++ tail ∧
        (∀ s ∈ ss, WfSeed s) ∧ (tail = [] ∨ ∃ t, tail = 0 :: t) := by
  induction fuel generalizing rest acc with
  | zero => omega
  | succ f ih =>
    unfold unpackLoop
    by_cases hemp : rest.isEmpty = true
    · rw [if_pos hemp]
      have : rest = [] := List.isEmpty_iff.mp hemp
      refine ⟨by simp, ?_⟩
      intro out ho; cases ho
      exact ⟨[], [], by simp, by simp [this], by simp, Or.inl rfl⟩
    · rw [if_neg hemp]
      cases hu : unpack rest with
      | panic => exact absurd hu (unpack_ne_panic rest)
      | err e => simp
      | ok seed =>
        simp only
        by_cases hun : seed = .uninit
        · rw [if_pos hun]
          refine ⟨by simp, ?_⟩
          intro out ho; cases ho
          refine ⟨[], rest, by simp, by simp, by simp, Or.inr ?_⟩
          subst hun
          exact unpack_uninit_head rest hu
        · rw [if_neg hun]
          obtain ⟨hwf, hdec, h2, hle⟩ := unpack_ok_decomp rest hl seed hu hun
          rw [if_neg (by omega)]
          have hdl : (rest.drop (tlvSize seed)).length ≤ 32 := by simp [List.length_drop]; omega
          have hdf : (rest.drop (tlvSize seed)).length < f := by simp [List.length_drop]; omega
          obtain ⟨ih1, ih2⟩ := ih (rest.drop (tlvSize seed)) hdl hdf (seed :: acc)
          refine ⟨ih1, ?_⟩
          intro out ho
          obtain ⟨ss, tail, e1, e2, e3, e4⟩ := ih2 out ho
          refine ⟨seed :: ss, tail, by simp [e1], ?_, ?_, e4⟩
          · rw [List.flatMap_cons, List.append_assoc, ← e2]; exact hdec
          · intro x hx
            rcases List.mem_cons.mp hx with rfl | hx
            · exact hwf
            · exact e3 x hx

end Seeds
