import SplProofs.Lemmas.TlvSpec

namespace Tlv
open Bytes

theorem findIdx_some (es : List Entry) (t : Bytes) (r i : Nat) (h : findIdx es t r = some i) :
    ∃ e, es[i]? = some e ∧ es = es.take i ++ e :: es.drop (i + 1) ∧ e.tag = t ∧
      ((es.take i).filter (·.tag = t)).length = r := by
  induction es generalizing r i with
  | nil => simp [findIdx] at h
  | cons x xs ih =>
    simp only [findIdx] at h
    by_cases hx : x.tag = t
    · simp only [hx, if_true] at h
      by_cases hr : r = 0
      · simp only [hr, if_true, Option.some.injEq] at h
        subst h; subst hr
        exact ⟨x, by simp, by simp, hx, by simp⟩
      · simp only [hr, if_false] at h
        cases hf : findIdx xs t (r - 1) with
        | none => simp [hf] at h
        | some j =>
          simp only [hf, Option.map_some, Option.some.injEq] at h
          subst h
          obtain ⟨e, e1, e2, e3, e4⟩ := ih _ _ hf
          refine ⟨e, by simpa using e1, ?_, e3, ?_⟩
          · simp only [List.take_succ_cons, List.drop_succ_cons, List.cons_append]
            rw [← e2]
          · simp only [List.take_succ_cons, List.filter_cons, hx, decide_true, if_true, List.length_cons, e4]
            omega
    · simp only [hx, if_false] at h
      cases hf : findIdx xs t r with
      | none => simp [hf] at h
      | some j =>
        simp only [hf, Option.map_some, Option.some.injEq] at h
        subst h
        obtain ⟨e, e1, e2, e3, e4⟩ := ih _ _ hf
        refine ⟨e, by simpa using e1, ?_, e3, ?_⟩
        · simp only [List.take_succ_cons, List.drop_succ_cons, List.cons_append]
          rw [← e2]
        · simp only [List.take_succ_cons, List.filter_cons, hx, decide_false, e4]
          simp [e4]

theorem findIdx_none (es : List Entry) (t : Bytes) (r : Nat) (h : findIdx es t r = none) :
    (es.filter (·.tag = t)).length ≤ r := by
  induction es generalizing r with
  | nil => simp
  | cons x xs ih =>
    simp only [findIdx] at h
    by_cases hx : x.tag = t
    · simp only [hx, if_true] at h
      by_cases hr : r = 0
      · simp [hr] at h
      · simp only [hr, if_false, Option.map_eq_none_iff] at h
        have := ih _ h
        simp only [List.filter_cons, hx, decide_true, if_true, List.length_cons]; omega
    · simp only [hx, if_false, Option.map_eq_none_iff] at h
      have := ih _ h
      simp only [List.filter_cons, hx, decide_false]; exact this

/-- the search (`init = false`) on a well-formed buffer -/
theorem getIndices_search_wf (es : List Entry) (hw : ∀ e ∈ es, WfE e) (tail : Bytes) (ht : Terminated tail)
    (t : Bytes) (hne : t ≠ uninit) (r : Nat) (h : (es.filter (·.tag = t)).length ≤ r) :
    ∃ e, getIndices (enc es ++ tail) t false (some r) = .err e := by
  unfold getIndices
  rw [fuel_split es hw tail, getIndicesGo_enc es hw, walkIdx_some]
  cases hloc : locate es 0 t r 0 with
  | some p =>
    exfalso
    obtain ⟨o, e⟩ := p
    obtain ⟨pre, post, e1, e2, _, e4⟩ := locate_some es hw 0 t r 0 o e hloc
    rw [e1] at h
    simp only [List.filter_append, List.filter_cons, e2, decide_true, if_true, List.length_append,
      List.length_cons] at h
    omega
  | none => exact getIndicesGo_tail_search _ tail ht _ t hne _ _

theorem zeros_drop (k n : Nat) : (zeros k).drop n = zeros (k - n) := by
  simp [zeros, List.drop_replicate]

theorem zeros_split (a b : Nat) : zeros (a + b) = zeros a ++ zeros b := (zeros_append a b).symm

theorem encS_length (s : AState) : (encS s).length = (enc s.es).length + s.free := by
  simp [encS]

/-- writing a value into the freshly allocated (zero) slot -/
theorem append_write (es : List Entry) (t val : Bytes) (h8 : t.length = 8) (free : Nat)
    (h : 12 + val.length ≤ free) :
    writeAt (enc es ++ (t ++ (toLe 4 val.length ++ (zeros free).drop 12))) ((enc es).length + 12) val =
      .ok (enc (es ++ [⟨t, val⟩]) ++ zeros (free - 12 - val.length)) ∧
    enc es ++ (t ++ (toLe 4 val.length ++ (zeros free).drop 12)) =
      enc (es ++ [⟨t, zeros val.length⟩]) ++ zeros (free - 12 - val.length) := by
  have hz : (zeros free).drop 12 = zeros val.length ++ zeros (free - 12 - val.length) := by
    rw [zeros_drop, ← zeros_split]; congr 1; omega
  constructor
  · rw [hz]
    have e1 : enc es ++ (t ++ (toLe 4 val.length ++ (zeros val.length ++ zeros (free - 12 - val.length)))) =
        (enc es ++ t ++ toLe 4 val.length) ++ (zeros val.length ++ zeros (free - 12 - val.length)) := by simp
    rw [e1, writeAt_seg _ _ _ val _ (by simp [h8]) (by simp)]
    simp [enc_append, encEntry]
  · rw [hz, enc_append]
    simp [encEntry]

/-- alloc / init / alloc-and-pack refine the abstract append -/
theorem refine_append (s : AState) (hw : AWf s) (t : Bytes) (h8 : t.length = 8) (hne : t ≠ uninit)
    (allowRep : Bool) :
    (∀ len, (alloc (encS s) t len allowRep).1 = encS (aAppend s t (zeros len) allowRep).1 ∧
        outOfRange (alloc (encS s) t len allowRep).2 = (aAppend s t (zeros len) allowRep).2) ∧
    (∀ dflt, (initValue (encS s) t dflt allowRep).1 = encS (aAppend s t dflt allowRep).1 ∧
        outOfRange (initValue (encS s) t dflt allowRep).2 = (aAppend s t dflt allowRep).2) ∧
    (∀ packed, (allocAndPack (encS s) t packed allowRep).1 = encS (aAppend s t packed allowRep).1 ∧
        outOfRep (allocAndPack (encS s) t packed allowRep).2 =
          hideRange (aAppend s t packed allowRep).2) := by
  have hal := fun len => alloc_wf s.es hw (zeros s.free) (terminated_zeros s.free) t h8 hne len allowRep
  -- common case split, parametrised by the value
  have key : ∀ val : Bytes,
      (alloc (encS s) t val.length allowRep =
          (encS s, .err eTypeAlreadyExists) ∨
        alloc (encS s) t val.length allowRep = (encS s, .err .invalidAccountData) ∨
        alloc (encS s) t val.length allowRep = (encS s, .err .accountDataTooSmall)) ∧
        aAppend s t val allowRep = (s, .fail) ∨
      (12 + val.length ≤ s.free ∧
        alloc (encS s) t val.length allowRep =
          (enc s.es ++ (t ++ (toLe 4 val.length ++ (zeros s.free).drop 12)),
            .ok (((enc s.es).length + 12, (enc s.es).length + 12 + val.length),
              (s.es.filter (·.tag = t)).length)) ∧
        aAppend s t val allowRep = (⟨s.es ++ [⟨t, val⟩], s.free - 12 - val.length⟩,
          .okRange ((enc s.es).length + 12) ((enc s.es).length + 12 + val.length)
            (s.es.filter (·.tag = t)).length)) := by
    intro val
    have h := hal val.length
    unfold aAppend
    unfold encS
    simp only [zeros_len] at h
    by_cases c1 : allowRep = false ∧ (∃ e ∈ s.es, e.tag = t)
    · left; rw [if_pos c1] at h; rw [if_pos c1]; exact ⟨Or.inl h, rfl⟩
    · rw [if_neg c1] at h; rw [if_neg c1]
      by_cases c2 : s.free < 12
      · left; rw [if_pos c2] at h; rw [if_pos c2]; exact ⟨Or.inr (Or.inl h), rfl⟩
      · rw [if_neg c2] at h; rw [if_neg c2]
        by_cases c3 : ¬ val.length < 2 ^ 32
        · left; rw [if_pos c3] at h; rw [if_pos c3]; exact ⟨Or.inr (Or.inr h), rfl⟩
        · rw [if_neg c3] at h; rw [if_neg c3]
          by_cases c4 : s.free < 12 + val.length
          · left; rw [if_pos c4] at h; rw [if_pos c4]; exact ⟨Or.inr (Or.inl h), rfl⟩
          · right; rw [if_neg c4] at h; rw [if_neg c4]; exact ⟨by omega, h, rfl⟩
  refine ⟨?_, ?_, ?_⟩
  · intro len
    have k := key (zeros len)
    simp only [zeros_len] at k
    rcases k with ⟨hfail, ha⟩ | ⟨hroom, hok, ha⟩
    · rw [ha]; rcases hfail with h | h | h <;> rw [h] <;> exact ⟨rfl, rfl⟩
    · rw [ha, hok]
      have := (append_write s.es t (zeros len) h8 s.free (by simpa using hroom)).2
      simp only [zeros_len] at this
      exact ⟨by rw [this]; rfl, rfl⟩
  · intro dflt
    rcases key dflt with ⟨hfail, ha⟩ | ⟨hroom, hok, ha⟩
    · rw [ha]; unfold initValue
      rcases hfail with h | h | h <;> rw [h] <;> exact ⟨rfl, rfl⟩
    · rw [ha]; unfold initValue; rw [hok]
      simp only [(append_write s.es t dflt h8 s.free hroom).1]
      exact ⟨rfl, rfl⟩
  · intro packed
    rcases key packed with ⟨hfail, ha⟩ | ⟨hroom, hok, ha⟩
    · rw [ha]; unfold allocAndPack
      rcases hfail with h | h | h <;> rw [h] <;> exact ⟨rfl, rfl⟩
    · rw [ha]; unfold allocAndPack; rw [hok]
      simp only [(append_write s.es t packed h8 s.free hroom).1]
      exact ⟨rfl, by first | rfl | trivial⟩


theorem set_eq_split (es : List Entry) (i : Nat) (e x : Entry) (h : es[i]? = some e) :
    es.set i x = es.take i ++ x :: es.drop (i + 1) := by
  have hi : i < es.length := by
    rcases Nat.lt_or_ge i es.length with h' | h'
    · exact h'
    · rw [List.getElem?_eq_none h'] at h; cases h
  rw [List.set_eq_take_append_cons_drop, if_pos hi]

/-- realloc refines the abstract resize -/
theorem refine_realloc (s : AState) (hw : AWf s) (t : Bytes) (h8 : t.length = 8) (hne : t ≠ uninit)
    (n r : Nat) :
    (realloc (encS s) t n r).1 = encS (aStep s (.realloc t n r)).1 ∧
    outOfRealloc r (realloc (encS s) t n r).2 = (aStep s (.realloc t n r)).2 := by
  simp only [aStep]
  cases hf : findIdx s.es t r with
  | none =>
    have hcount := findIdx_none s.es t r hf
    obtain ⟨e, he⟩ := getIndices_search_wf s.es hw (zeros s.free) (terminated_zeros _) t hne r hcount
    have : realloc (encS s) t n r = (encS s, .err e) := by
      unfold realloc encS; rw [he]
    rw [this]; exact ⟨rfl, rfl⟩
  | some i =>
    obtain ⟨e, e1, e2, e3, e4⟩ := findIdx_some s.es t r i hf
    simp only [e1]
    have hwes : ∀ x ∈ s.es.take i ++ e :: s.es.drop (i + 1), WfE x := by rw [← e2]; exact hw
    have hr := realloc_wf (s.es.take i) (s.es.drop (i + 1)) e hwes (zeros s.free) (terminated_zeros _)
      t hne e3 r e4 n
    rw [← e2] at hr
    simp only [zeros_len] at hr
    have hset := fun x => set_eq_split s.es i e x e1
    unfold encS
    rw [hr]
    by_cases c1 : e.val.length < n ∧ s.free < n - e.val.length
    · rw [if_pos c1, if_pos c1]; exact ⟨rfl, rfl⟩
    · rw [if_neg c1, if_neg c1]
      by_cases c2 : ¬ n < 2 ^ 32
      · rw [if_pos c2, if_pos c2]; exact ⟨rfl, rfl⟩
      · rw [if_neg c2, if_neg c2]
        simp only [offsetOf]
        by_cases c3 : e.val.length < n
        · rw [if_pos c3]
          have hroom : n - e.val.length ≤ s.free := by
            by_cases h : s.free < n - e.val.length
            · exact absurd ⟨c3, h⟩ c1
            · omega
          have htk : (e.val ++ zeros (n - e.val.length)).take n = e.val ++ zeros (n - e.val.length) :=
            List.take_of_length_le (by simp; omega)
          refine ⟨?_, rfl⟩
          simp only [hset, htk, zeros_drop]
          congr 2; omega
        · rw [if_neg c3]
          by_cases c4 : n < e.val.length
          · rw [if_pos c4]
            have htk : (e.val ++ zeros (n - e.val.length)).take n = e.val.take n := by
              rw [List.take_append_of_le_length (by omega)]
            refine ⟨?_, rfl⟩
            simp only [hset, htk, zeros_append]
            congr 2; omega
          · rw [if_neg c4]
            have hn : n = e.val.length := by omega
            have htk : (e.val ++ zeros (n - e.val.length)).take n = e.val := by
              rw [hn]; simp [zeros]
            refine ⟨?_, by first | rfl | trivial⟩
            simp only [hset, htk]
            have : (⟨t, e.val⟩ : Entry) = e := by cases e; simp at e3 ⊢; exact e3.symm
            rw [this, ← e2]
            congr 2; omega

/-- the value range of the `i`-th entry inside the canonical bytes -/
theorem getBytes_canon (s : AState) (hw : AWf s) (t : Bytes) (hne : t ≠ uninit) (r i : Nat) (e : Entry)
    (e1 : s.es[i]? = some e) (e2 : s.es = s.es.take i ++ e :: s.es.drop (i + 1)) (e3 : e.tag = t)
    (e4 : ((s.es.take i).filter (·.tag = t)).length = r) :
    getBytes (encS s) t r = .ok (offsetOf s.es i + 12, offsetOf s.es i + 12 + e.val.length) := by
  have hg := getBytes_wf s.es hw (zeros s.free) (terminated_zeros _) t hne r
  have hloc : locate s.es 0 t r 0 = some (0 + (enc (s.es.take i)).length, e) := by
    conv => lhs; rw [e2]
    exact locate_of_split _ _ e (fun x hx => hw x (List.mem_of_mem_take hx)) t e3 0 r 0 (by omega)
  rw [hloc] at hg
  simp only [Nat.zero_add] at hg
  exact hg.1

/-- the canonical bytes with the `i`-th entry's value region exposed -/
theorem encS_split (s : AState) (hw : AWf s) (i : Nat) (e : Entry)
    (e2 : s.es = s.es.take i ++ e :: s.es.drop (i + 1)) :
    encS s = (enc (s.es.take i) ++ e.tag ++ toLe 4 e.val.length) ++
      (e.val ++ (enc (s.es.drop (i + 1)) ++ zeros s.free)) ∧
    (enc (s.es.take i) ++ e.tag ++ toLe 4 e.val.length).length = offsetOf s.es i + 12 := by
  have hwe : WfE e := hw e (by rw [e2]; simp)
  constructor
  · unfold encS
    conv => lhs; rw [e2]
    rw [enc_append, enc_cons]; simp [encEntry]
  · simp [offsetOf, hwe.1]

/-- typed / byte writes refine the abstract write -/
theorem refine_write (s : AState) (hw : AWf s) (t : Bytes) (hne : t ≠ uninit) (r : Nat) (v : Bytes) :
    (writeValue (encS s) t r v).1 = encS (aStep s (.write t r v)).1 ∧
    outOfUnit (writeValue (encS s) t r v).2 = (aStep s (.write t r v)).2 := by
  simp only [aStep]
  cases hf : findIdx s.es t r with
  | none =>
    have hcount := findIdx_none s.es t r hf
    obtain ⟨e, he⟩ := getIndices_search_wf s.es hw (zeros s.free) (terminated_zeros _) t hne r hcount
    have : writeValue (encS s) t r v = (encS s, .err e) := by
      unfold writeValue getBytes encS; rw [he]; rfl
    rw [this]; exact ⟨rfl, rfl⟩
  | some i =>
    obtain ⟨e, e1, e2, e3, e4⟩ := findIdx_some s.es t r i hf
    simp only [e1]
    have hgb := getBytes_canon s hw t hne r i e e1 e2 e3 e4
    obtain ⟨hsp, hspl⟩ := encS_split s hw i e e2
    unfold writeValue
    rw [hgb]
    simp only
    have hsub : offsetOf s.es i + 12 + e.val.length - (offsetOf s.es i + 12) = e.val.length := by omega
    rw [hsub]
    by_cases c : e.val.length ≠ v.length
    · rw [if_pos c, if_pos c]; exact ⟨rfl, rfl⟩
    · rw [if_neg c, if_neg c]
      have hlen : v.length = e.val.length := by omega
      have hw1 : writeAt (encS s) (offsetOf s.es i + 12) v =
          .ok ((enc (s.es.take i) ++ e.tag ++ toLe 4 e.val.length) ++
            (v ++ (enc (s.es.drop (i + 1)) ++ zeros s.free))) := by
        rw [hsp]; exact writeAt_seg _ _ _ v _ hspl.symm hlen
      simp only [hw1]
      refine ⟨?_, by first | rfl | trivial⟩
      unfold encS
      simp only [set_eq_split s.es i e _ e1, enc_append, enc_cons, encEntry, e3, hlen, List.append_assoc]

/-- variable-length pack refines the abstract prefix overwrite -/
theorem refine_pack (s : AState) (hw : AWf s) (t : Bytes) (hne : t ≠ uninit) (r : Nat) (packed : Bytes) :
    (packVarLen (encS s) t r packed).1 = encS (aStep s (.pack t r packed)).1 ∧
    outOfUnit (packVarLen (encS s) t r packed).2 = (aStep s (.pack t r packed)).2 := by
  simp only [aStep]
  cases hf : findIdx s.es t r with
  | none =>
    have hcount := findIdx_none s.es t r hf
    obtain ⟨e, he⟩ := getIndices_search_wf s.es hw (zeros s.free) (terminated_zeros _) t hne r hcount
    have : packVarLen (encS s) t r packed = (encS s, .err e) := by
      unfold packVarLen getBytes encS; rw [he]; rfl
    rw [this]; exact ⟨rfl, rfl⟩
  | some i =>
    obtain ⟨e, e1, e2, e3, e4⟩ := findIdx_some s.es t r i hf
    simp only [e1]
    have hgb := getBytes_canon s hw t hne r i e e1 e2 e3 e4
    obtain ⟨hsp, hspl⟩ := encS_split s hw i e e2
    unfold packVarLen
    rw [hgb]
    simp only
    have hsub : offsetOf s.es i + 12 + e.val.length - (offsetOf s.es i + 12) = e.val.length := by omega
    rw [hsub]
    -- the slot splits into the overwritten prefix and the untouched rest
    have hk : (packed.take e.val.length).length ≤ e.val.length := by
      simp [List.length_take]; omega
    generalize hP : packed.take e.val.length = P at *
    have hsp' : encS s = (enc (s.es.take i) ++ e.tag ++ toLe 4 e.val.length) ++
        (e.val.take P.length ++ (e.val.drop P.length ++ (enc (s.es.drop (i + 1)) ++ zeros s.free))) := by
      rw [hsp, ← List.append_assoc (e.val.take P.length), List.take_append_drop]
    have hw1 : writeAt (encS s) (offsetOf s.es i + 12) P =
        .ok ((enc (s.es.take i) ++ e.tag ++ toLe 4 e.val.length) ++
          (P ++ (e.val.drop P.length ++ (enc (s.es.drop (i + 1)) ++ zeros s.free)))) := by
      rw [hsp']
      exact writeAt_seg _ _ _ P _ hspl.symm (by simp [List.length_take]; omega)
    simp only [hw1]
    have hdrop : e.val.drop P.length = e.val.drop packed.length := by
      rw [← hP, List.length_take]
      by_cases hp : packed.length ≤ e.val.length
      · rw [Nat.min_eq_right hp]
      · rw [Nat.min_eq_left (by omega), List.drop_of_length_le (by omega), List.drop_of_length_le (by omega)]
    have hnewlen : (P ++ e.val.drop packed.length).length = e.val.length := by
      rw [← hdrop, List.length_append, List.length_drop]; omega
    constructor
    · have : ∀ (x : Bytes) (c : Prop) [Decidable c], (if c then (x, (Res.ok () : Res Unit))
          else (x, .err .invalidInstructionData)).1 = x := by intro x c _; split <;> rfl
      rw [this]
      unfold encS
      simp only [set_eq_split s.es i e _ e1, enc_append, enc_cons, encEntry, e3, hnewlen, hdrop,
        List.append_assoc]
    · by_cases hp : packed.length ≤ e.val.length <;> simp [hp, outOfUnit]

end Tlv
