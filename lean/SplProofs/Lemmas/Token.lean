import SplModel.Token

namespace Token
open Bytes Gen.Token

theorem slice_ok {d : Bytes} {lo hi : Nat} (h : lo ≤ hi) (h2 : hi ≤ d.length) :
    slice d lo hi = .ok ((d.drop lo).take (hi - lo)) := by
  simp [slice, h, h2]

theorem index_ok {d : Bytes} {i : Nat} (h : i < d.length) : index d i = .ok d[i] := by
  simp [index, List.getElem?_eq_getElem h]

theorem unpackAccountFields_ok {d : Bytes} (h : 72 ≤ d.length) :
    unpackAccountFields d =
      .ok ⟨d.take 32, (d.drop 32).take 32, fromLe ((d.drop 64).take 8)⟩ := by
  have h1 : 32 ≤ d.length := by omega
  have h2 : 64 ≤ d.length := by omega
  simp [unpackAccountFields, unpackPubkeyUnchecked, unpackU64Unchecked,
    SPL_TOKEN_ACCOUNT_MINT_OFFSET, SPL_TOKEN_ACCOUNT_OWNER_OFFSET, SPL_TOKEN_ACCOUNT_AMOUNT_OFFSET,
    PUBKEY_BYTES, U64_BYTES, slice, h, h1, h2, List.length_take, List.length_drop]
  have : min 32 d.length = 32 := by omega
  have : min 32 (d.length - 32) = 32 := by omega
  have : min 8 (d.length - 64) = 8 := by omega
  simp [*]

theorem unpackMintFields_ok {d : Bytes} (h : 45 ≤ d.length) :
    unpackMintFields d = .ok ⟨fromLe ((d.drop 36).take 8), byteAt d 44⟩ := by
  have h1 : 44 ≤ d.length := by omega
  have h2 : 44 < d.length := by omega
  simp [unpackMintFields, unpackU64Unchecked, index, byteAt,
    SPL_TOKEN_MINT_SUPPLY_OFFSET, SPL_TOKEN_MINT_DECIMALS_OFFSET, U64_BYTES, slice, h1,
    List.length_take, List.length_drop, List.getElem?_eq_getElem h2]
  have : min 8 (d.length - 36) = 8 := by omega
  simp [*]

theorem tokenAccountValid_len {d : Bytes} (h : tokenAccountValid d = true) : d.length = 165 := by
  simp [tokenAccountValid, SPL_TOKEN_ACCOUNT_LENGTH] at h; exact h.1

theorem tokenMintValid_len {d : Bytes} (h : tokenMintValid d = true) : d.length = 82 := by
  simp [tokenMintValid, SPL_TOKEN_MINT_LENGTH] at h; exact h.1

theorem t22AccountValid_ne_panic (d : Bytes) : t22AccountValid d ≠ .panic := by
  unfold t22AccountValid
  split
  · simp
  · split
    · rename_i hlen
      simp only [SPL_TOKEN_ACCOUNT_LENGTH] at hlen
      rw [index_ok (by simpa [SPL_TOKEN_ACCOUNT_LENGTH] using hlen)]
      split <;> simp <;> split <;> simp
    · simp

theorem t22MintValid_ne_panic (d : Bytes) : t22MintValid d ≠ .panic := by
  unfold t22MintValid
  split
  · simp
  · split
    · rename_i hlen
      simp only [SPL_TOKEN_ACCOUNT_LENGTH] at hlen
      rw [index_ok (by simpa [SPL_TOKEN_ACCOUNT_LENGTH] using hlen)]
      split <;> simp <;> split <;> simp
    · simp

/-- What `t22AccountValid = ok true` means, byte by byte. -/
theorem t22AccountValid_true {d : Bytes} (h : t22AccountValid d = .ok true) :
    (d.length = 165 ∧ byteAt d 108 ≠ 0) ∨
    (165 < d.length ∧ d.length ≠ 355 ∧ d[165]? = some 2 ∧ byteAt d 108 ≠ 0) := by
  unfold t22AccountValid at h
  split at h
  · rename_i hv
    left
    simpa [tokenAccountValid, SPL_TOKEN_ACCOUNT_LENGTH, isInitializedAccount,
      isInitializedTokenData, SPL_TOKEN_ACCOUNT_STATE_OFFSET] using hv
  · split at h
    · rename_i hlen
      simp only [SPL_TOKEN_ACCOUNT_LENGTH] at hlen
      have hlen' : 165 < d.length := by simpa using hlen
      split at h
      · rename_i hne
        rw [index_ok (by simpa [SPL_TOKEN_ACCOUNT_LENGTH] using hlen')] at h
        simp only [Res.bind_ok] at h
        split at h
        · rename_i hty
          right
          simp only [Res.pure_eq, Res.ok.injEq] at h
          refine ⟨hlen', ?_, ?_, ?_⟩
          · simpa [SPL_TOKEN_MULTISIG_LENGTH] using hne
          · simp only [ACCOUNTTYPE_ACCOUNT, SPL_TOKEN_ACCOUNT_LENGTH] at hty
            rw [List.getElem?_eq_getElem hlen']
            have : (d[165]).toNat = 2 := by have := beq_iff_eq.mp hty; omega
            congr 1
            exact UInt8.toNat_inj.mp (by rw [this]; rfl)
          · simpa [isInitializedAccount, isInitializedTokenData,
              SPL_TOKEN_ACCOUNT_STATE_OFFSET] using h
        · simp at h
      · simp at h
    · simp at h

theorem t22MintValid_true {d : Bytes} (h : t22MintValid d = .ok true) :
    (d.length = 82 ∧ byteAt d 45 ≠ 0) ∨
    (165 < d.length ∧ d.length ≠ 355 ∧ d[165]? = some 1 ∧ byteAt d 45 ≠ 0) := by
  unfold t22MintValid at h
  split at h
  · rename_i hv
    left
    simpa [tokenMintValid, SPL_TOKEN_MINT_LENGTH, isInitializedMint,
      isInitializedTokenData, SPL_TOKEN_MINT_IS_INITIALIZED_OFFSET] using hv
  · split at h
    · rename_i hlen
      simp only [SPL_TOKEN_ACCOUNT_LENGTH] at hlen
      have hlen' : 165 < d.length := by simpa using hlen
      split at h
      · rename_i hne
        rw [index_ok (by simpa [SPL_TOKEN_ACCOUNT_LENGTH] using hlen')] at h
        simp only [Res.bind_ok] at h
        split at h
        · rename_i hty
          right
          simp only [Res.pure_eq, Res.ok.injEq] at h
          refine ⟨hlen', ?_, ?_, ?_⟩
          · simpa [SPL_TOKEN_MULTISIG_LENGTH] using hne
          · simp only [ACCOUNTTYPE_MINT, SPL_TOKEN_ACCOUNT_LENGTH] at hty
            rw [List.getElem?_eq_getElem hlen']
            have : (d[165]).toNat = 1 := by have := beq_iff_eq.mp hty; omega
            congr 1
            exact UInt8.toNat_inj.mp (by rw [this]; rfl)
          · simpa [isInitializedMint, isInitializedTokenData,
              SPL_TOKEN_MINT_IS_INITIALIZED_OFFSET] using h
        · simp at h
      · simp at h
    · simp at h

theorem t22AccountValid_ok (d : Bytes) : ∃ v, t22AccountValid d = .ok v := by
  unfold t22AccountValid
  split
  · exact ⟨_, rfl⟩
  · split
    · rename_i hlen
      simp only [SPL_TOKEN_ACCOUNT_LENGTH] at hlen
      rw [index_ok (by simpa [SPL_TOKEN_ACCOUNT_LENGTH] using hlen)]
      split
      · simp only [Res.bind_ok]; split <;> exact ⟨_, rfl⟩
      · exact ⟨_, rfl⟩
    · exact ⟨_, rfl⟩

theorem t22MintValid_ok (d : Bytes) : ∃ v, t22MintValid d = .ok v := by
  unfold t22MintValid
  split
  · exact ⟨_, rfl⟩
  · split
    · rename_i hlen
      simp only [SPL_TOKEN_ACCOUNT_LENGTH] at hlen
      rw [index_ok (by simpa [SPL_TOKEN_ACCOUNT_LENGTH] using hlen)]
      split
      · simp only [Res.bind_ok]; split <;> exact ⟨_, rfl⟩
      · exact ⟨_, rfl⟩
    · exact ⟨_, rfl⟩

theorem pubkey_ok {d : Bytes} (off : Nat) (h : off + 32 ≤ d.length) :
    unpackPubkeyUnchecked d off = .ok ((d.drop off).take 32) := by
  simp [unpackPubkeyUnchecked, PUBKEY_BYTES, slice, h, List.length_take, List.length_drop]
  omega

theorem u64_ok {d : Bytes} (off : Nat) (h : off + 8 ≤ d.length) :
    unpackU64Unchecked d off = .ok (fromLe ((d.drop off).take 8)) := by
  simp [unpackU64Unchecked, U64_BYTES, slice, h, List.length_take, List.length_drop]
  omega

end Token
