/-
  SplProofs.Lemmas.TokenFrame — the generic-token parsers and the reference codecs look at
  nothing beyond byte 165 of a buffer and, past 357 bytes, at nothing of its length: two buffers
  longer than 357 bytes that share their first 166 bytes get the same verdict and the same fields.
  The driver uses this to evaluate the model on buffers of 10 MiB or 4 GiB by their first 166 bytes.
-/
import SplModel.Token
import SplModel.TokenRef

namespace TokenFrame
open Bytes Token TokenRef Gen.Token

variable {H T : Bytes}

theorem idx (hH : H.length = 166) (i : Nat) (hi : i < 166) : (H ++ T)[i]? = H[i]? :=
  List.getElem?_append_left (by omega)

theorem byteAt_app (hH : H.length = 166) (i : Nat) (hi : i < 166) : byteAt (H ++ T) i = byteAt H i := by
  simp only [byteAt, idx hH i hi]

theorem index_app (hH : H.length = 166) (i : Nat) (hi : i < 166) : Token.index (H ++ T) i = Token.index H i := by
  simp only [Token.index, idx hH i hi]

theorem slice_app (hH : H.length = 166) (a b : Nat) (hb : b ≤ 166) : slice (H ++ T) a b = slice H a b := by
  unfold slice
  have e : ((H ++ T).drop a).take (b - a) = (H.drop a).take (b - a) := by
    by_cases hab : a ≤ b
    · rw [List.drop_append_of_le_length (by omega), List.take_append_of_le_length (by simp; omega)]
    · have : b - a = 0 := by omega
      simp [this]
  rw [e]
  by_cases h1 : a ≤ b
  · have l1 : b ≤ H.length + T.length := by omega
    have l2 : b ≤ H.length := by omega
    simp [h1, l1, l2]
  · simp [h1]

theorem seg_app (hH : H.length = 166) (a n : Nat) (hb : a + n ≤ 166) : seg (H ++ T) a n = seg H a n := by
  unfold seg
  rw [List.drop_append_of_le_length (by omega), List.take_append_of_le_length (by simp; omega)]

theorem take_app (hH : H.length = 166) (n : Nat) (hn : n ≤ 166) : (H ++ T).take n = H.take n :=
  List.take_append_of_le_length (by omega)

end TokenFrame

namespace TokenFrame
open Bytes Token TokenRef Gen.Token

/-- the 357-byte stand-in of a longer buffer: its first 166 bytes and 191 zero bytes -/
def compress (d : Bytes) : Bytes := Token.standIn (d.take 166)

section
variable {H T : Bytes}

theorem tokenAccountValid_app (hH : H.length = 166) : tokenAccountValid (H ++ T) = false := by
  simp [tokenAccountValid, SPL_TOKEN_ACCOUNT_LENGTH, hH]; omega

theorem tokenMintValid_app (hH : H.length = 166) : tokenMintValid (H ++ T) = false := by
  simp [tokenMintValid, SPL_TOKEN_MINT_LENGTH, hH]; omega

theorem unpackAccountFields_app (hH : H.length = 166) : unpackAccountFields (H ++ T) = unpackAccountFields H := by
  simp only [unpackAccountFields, unpackPubkeyUnchecked, unpackU64Unchecked, SPL_TOKEN_ACCOUNT_MINT_OFFSET,
    SPL_TOKEN_ACCOUNT_OWNER_OFFSET, SPL_TOKEN_ACCOUNT_AMOUNT_OFFSET, PUBKEY_BYTES, U64_BYTES,
    slice_app hH _ _ (by omega : 0 + 32 ≤ 166), slice_app hH _ _ (by omega : 32 + 32 ≤ 166), slice_app hH _ _ (by omega : 64 + 8 ≤ 166)]

theorem unpackMintFields_app (hH : H.length = 166) : unpackMintFields (H ++ T) = unpackMintFields H := by
  simp only [unpackMintFields, unpackU64Unchecked, SPL_TOKEN_MINT_SUPPLY_OFFSET, SPL_TOKEN_MINT_DECIMALS_OFFSET, U64_BYTES,
    slice_app hH _ _ (by omega : 36 + 8 ≤ 166), index_app hH 44 (by omega)]

/-- what the Token-2022 account predicate computes on a long buffer, in terms of the head only -/
theorem t22AccountValid_app (hH : H.length = 166) (hT : 190 ≤ T.length) :
    t22AccountValid (H ++ T) = (do
      let b ← Token.index H 165
      if ACCOUNTTYPE_ACCOUNT == b.toNat then pure (isInitializedAccount H) else pure false) := by
  have l1 : decide ((H ++ T).length > SPL_TOKEN_ACCOUNT_LENGTH) = true := by
    simp [SPL_TOKEN_ACCOUNT_LENGTH, hH]; omega
  have l2 : ((H ++ T).length != SPL_TOKEN_MULTISIG_LENGTH) = true := by
    simp [SPL_TOKEN_MULTISIG_LENGTH, hH]; omega
  simp only [t22AccountValid, tokenAccountValid_app hH, l2, isInitializedAccount, isInitializedTokenData,
    SPL_TOKEN_ACCOUNT_STATE_OFFSET, byteAt_app hH 108 (by omega)]
  simp only [SPL_TOKEN_ACCOUNT_LENGTH, index_app hH 165 (by omega)] at l1 ⊢
  simp only [List.length_append, hH] at l1 ⊢
  simp
  intro h; omega

theorem t22MintValid_app (hH : H.length = 166) (hT : 190 ≤ T.length) :
    t22MintValid (H ++ T) = (do
      let b ← Token.index H 165
      if ACCOUNTTYPE_MINT == b.toNat then pure (isInitializedMint H) else pure false) := by
  have l1 : decide ((H ++ T).length > SPL_TOKEN_ACCOUNT_LENGTH) = true := by
    simp [SPL_TOKEN_ACCOUNT_LENGTH, hH]; omega
  have l2 : ((H ++ T).length != SPL_TOKEN_MULTISIG_LENGTH) = true := by
    simp [SPL_TOKEN_MULTISIG_LENGTH, hH]; omega
  simp only [t22MintValid, tokenMintValid_app hH, l2, isInitializedMint, isInitializedTokenData,
    SPL_TOKEN_MINT_IS_INITIALIZED_OFFSET, byteAt_app hH 45 (by omega)]
  simp only [SPL_TOKEN_ACCOUNT_LENGTH, index_app hH 165 (by omega)] at l1 ⊢
  simp only [List.length_append, hH] at l1 ⊢
  simp
  intro h; omega


theorem accountValidOf_app {T' : Bytes} (hH : H.length = 166) (hT : 190 ≤ T.length) (hT' : 190 ≤ T'.length) (t22 : Bool) :
    accountValidOf t22 (H ++ T) = accountValidOf t22 (H ++ T') := by
  cases t22 <;> simp only [accountValidOf, tokenAccountValid_app hH, t22AccountValid_app hH hT, t22AccountValid_app hH hT'] <;> rfl

theorem mintValidOf_app {T' : Bytes} (hH : H.length = 166) (hT : 190 ≤ T.length) (hT' : 190 ≤ T'.length) (t22 : Bool) :
    mintValidOf t22 (H ++ T) = mintValidOf t22 (H ++ T') := by
  cases t22 <;> simp only [mintValidOf, tokenMintValid_app hH, t22MintValid_app hH hT, t22MintValid_app hH hT'] <;> rfl

/-- two long buffers with the same first 166 bytes: every parser and getter of the generic crate agrees -/
theorem generic_app {T' : Bytes} (hH : H.length = 166) (hT : 190 ≤ T.length) (hT' : 190 ≤ T'.length) (p : Bytes) (t22 : Bool) :
    genericAccount (H ++ T) p = genericAccount (H ++ T') p ∧
    genericMint (H ++ T) p = genericMint (H ++ T') p ∧
    getAccountMint t22 (H ++ T) = getAccountMint t22 (H ++ T') ∧
    getAccountOwner t22 (H ++ T) = getAccountOwner t22 (H ++ T') ∧
    getAccountAmount t22 (H ++ T) = getAccountAmount t22 (H ++ T') ∧
    getMintSupply t22 (H ++ T) = getMintSupply t22 (H ++ T') ∧
    getMintDecimals t22 (H ++ T) = getMintDecimals t22 (H ++ T') := by
  refine ⟨?_, ?_, ?_, ?_, ?_, ?_, ?_⟩
  · simp only [genericAccount, tokenAccountValid_app hH, t22AccountValid_app hH hT, t22AccountValid_app hH hT',
      unpackAccountFields_app hH]
  · simp only [genericMint, tokenMintValid_app hH, t22MintValid_app hH hT, t22MintValid_app hH hT',
      unpackMintFields_app hH]
  · simp only [getAccountMint, accountValidOf_app hH hT hT' t22, unpackPubkeyUnchecked, SPL_TOKEN_ACCOUNT_MINT_OFFSET, PUBKEY_BYTES,
      slice_app hH _ _ (by omega : 0 + 32 ≤ 166)]
  · simp only [getAccountOwner, accountValidOf_app hH hT hT' t22, unpackPubkeyUnchecked, SPL_TOKEN_ACCOUNT_OWNER_OFFSET, PUBKEY_BYTES,
      slice_app hH _ _ (by omega : 32 + 32 ≤ 166)]
  · simp only [getAccountAmount, accountValidOf_app hH hT hT' t22, unpackU64Unchecked, SPL_TOKEN_ACCOUNT_AMOUNT_OFFSET, U64_BYTES,
      slice_app hH _ _ (by omega : 64 + 8 ≤ 166)]
  · simp only [getMintSupply, mintValidOf_app hH hT hT' t22, unpackU64Unchecked, SPL_TOKEN_MINT_SUPPLY_OFFSET, U64_BYTES,
      slice_app hH _ _ (by omega : 36 + 8 ≤ 166)]
  · simp only [getMintDecimals, mintValidOf_app hH hT hT' t22, SPL_TOKEN_MINT_DECIMALS_OFFSET, index_app hH 44 (by omega)]

/-- the reference codecs: the base-layout ones reject every long buffer, the Token-2022 ones look at the head only -/
theorem ref_app {T' : Bytes} (hH : H.length = 166) (hT : 190 ≤ T.length) (hT' : 190 ≤ T'.length) :
    unpackAccount (H ++ T) = unpackAccount (H ++ T') ∧
    unpackMint (H ++ T) = unpackMint (H ++ T') ∧
    t22UnpackAccount (H ++ T) = t22UnpackAccount (H ++ T') ∧
    t22UnpackMint (H ++ T) = t22UnpackMint (H ++ T') := by
  have n1 : ∀ X : Bytes, (H ++ X).length ≠ 165 := by intro X; simp [hH]; omega
  have n2 : ∀ X : Bytes, (H ++ X).length ≠ 82 := by intro X; simp [hH]; omega
  have c1 : ∀ X : Bytes, 190 ≤ X.length → ¬ ((H ++ X).length = 355 ∨ (H ++ X).length < 165) := by
    intro X hX; simp [hH]; omega
  have c2 : ∀ X : Bytes, 190 ≤ X.length → ¬ ((H ++ X).length = 355 ∨ (H ++ X).length < 82) := by
    intro X hX; simp [hH]; omega
  have d165 : ∀ X : Bytes, 190 ≤ X.length → ((H ++ X).drop 165).isEmpty = false ∧ ¬ ((H ++ X).drop 165).length < 1 ∧
      ((H ++ X).drop 165).headD 0 = (H.drop 165).headD 0 := by
    intro X hX
    have hd : H.drop 165 ≠ [] := by
      intro h0; have := congrArg List.length h0; simp [hH] at this
    rw [List.drop_append_of_le_length (by omega)]
    refine ⟨?_, ?_, ?_⟩
    · cases h : H.drop 165 with
      | nil => exact absurd h hd
      | cons a l => rfl
    · simp [hH]
    · cases h : H.drop 165 with
      | nil => exact absurd h hd
      | cons a l => rfl
  have d82 : ∀ X : Bytes, 190 ≤ X.length → ((H ++ X).drop 82).isEmpty = false ∧ ¬ ((H ++ X).drop 82).length < 84 ∧
      ((H ++ X).drop 82).take 83 = (H.drop 82).take 83 ∧
      (((H ++ X).drop 82).drop 83).headD 0 = (H.drop 165).headD 0 := by
    intro X hX
    have hd : H.drop 165 ≠ [] := by
      intro h0; have := congrArg List.length h0; simp [hH] at this
    refine ⟨?_, ?_, ?_, ?_⟩
    · have : ((H ++ X).drop 82).length ≠ 0 := by simp [hH]; omega
      cases h : (H ++ X).drop 82 with
      | nil => rw [h] at this; simp at this
      | cons a l => rfl
    · simp [hH]; omega
    · rw [List.drop_append_of_le_length (by omega), List.take_append_of_le_length (by simp [hH])]
    · rw [List.drop_drop, List.drop_append_of_le_length (by omega)]
      cases h : H.drop (82 + 83) with
      | nil => exact absurd h hd
      | cons a l => rfl
  refine ⟨?_, ?_, ?_, ?_⟩
  · have e1 := n1 T
    have e2 := n1 T'
    simp only [unpackAccount, unpackAccountUnchecked, e1, e2, ne_eq, not_false_eq_true, if_true]
  · have e1 := n2 T
    have e2 := n2 T'
    simp only [unpackMint, unpackMintUnchecked, e1, e2, ne_eq, not_false_eq_true, if_true]
  · obtain ⟨a1, a2, a3⟩ := d165 T hT
    obtain ⟨b1, b2, b3⟩ := d165 T' hT'
    simp only [t22UnpackAccount, c1 T hT, c1 T' hT', if_false, take_app hH 165 (by omega), a1, a2, a3, b1, b2, b3]
  · obtain ⟨a1, a2, a3, a4⟩ := d82 T hT
    obtain ⟨b1, b2, b3, b4⟩ := d82 T' hT'
    simp only [t22UnpackMint, c2 T hT, c2 T' hT', if_false, take_app hH 82 (by omega), a1, a2, a3, a4, b1, b2, b3, b4]

end

theorem split (d : Bytes) (h : 357 ≤ d.length) :
    (d.take 166).length = 166 ∧ 190 ≤ (d.drop 166).length ∧ d = d.take 166 ++ d.drop 166 := by
  refine ⟨?_, ?_, (List.take_append_drop 166 d).symm⟩
  · rw [List.length_take]; omega
  · rw [List.length_drop]; omega

theorem zeros_len : 190 ≤ (zeros 191).length := by
  unfold zeros; rw [List.length_replicate]; omega

end TokenFrame
