import SplProofs.Lemmas.TlvMut

namespace Tlv
open Bytes

/-- Abstract TLV state: the logical entry list and the number of free (zero) bytes behind it. -/
structure AState where
  es : List Entry
  free : Nat
  deriving DecidableEq

/-- the canonical bytes of an abstract state -/
def encS (s : AState) : Bytes := enc s.es ++ zeros s.free

def AWf (s : AState) : Prop := ∀ e ∈ s.es, WfE e

theorem terminated_zeros (k : Nat) : Terminated (zeros k) := by
  by_cases h0 : k = 0
  · left; simp [zeros, h0]
  · by_cases h8 : k < 8
    · right; left
      exact ⟨by simp [h8], by intro b hb; simp [zeros] at hb; exact hb.2⟩
    · right; right
      refine ⟨by simp; omega, ?_⟩
      rw [uninit_eq]
      simp only [zeros, List.take_replicate]
      rw [Nat.min_eq_left (by omega)]

/-- index (in `es`) of the `r`-th entry whose tag is `t` -/
def findIdx : List Entry → Bytes → Nat → Option Nat
  | [], _, _ => none
  | e :: es, t, r =>
    if e.tag = t then (if r = 0 then some 0 else (findIdx es t (r - 1)).map (· + 1))
    else (findIdx es t r).map (· + 1)

/-- operations of a history -/
inductive Op where
  | alloc (t : Bytes) (len : Nat) (allowRep : Bool)
  | init (t dflt : Bytes) (allowRep : Bool)
  | realloc (t : Bytes) (n r : Nat)
  | write (t : Bytes) (r : Nat) (v : Bytes)
  | pack (t : Bytes) (r : Nat) (packed : Bytes)
  | allocPack (t packed : Bytes) (allowRep : Bool)

/-- observable outcome: success with the returned value range / repetition number, or failure -/
inductive Out where
  | okRange (lo hi rep : Nat)
  | okUnit
  | fail
  | panic
  deriving DecidableEq

def offsetOf (es : List Entry) (i : Nat) : Nat := (enc (es.take i)).length

/-- allocation in the abstract: append a zero-filled (or given) value -/
def aAppend (s : AState) (t : Bytes) (val : Bytes) (allowRep : Bool) : AState × Out :=
  if allowRep = false ∧ (∃ e ∈ s.es, e.tag = t) then (s, .fail)
  else if s.free < 12 then (s, .fail)
  else if ¬ val.length < 2 ^ 32 then (s, .fail)
  else if s.free < 12 + val.length then (s, .fail)
  else (⟨s.es ++ [⟨t, val⟩], s.free - 12 - val.length⟩,
    .okRange ((enc s.es).length + 12) ((enc s.es).length + 12 + val.length) (s.es.filter (·.tag = t)).length)

/-- alloc-and-pack reports only the repetition number -/
def hideRange : Out → Out
  | .okRange _ _ rep => .okRange 0 0 rep
  | o => o

def outOfRep : Res Nat → Out
  | .ok rep => .okRange 0 0 rep
  | .err _ => .fail
  | .panic => .panic

def outOfRealloc (r : Nat) : Res (Nat × Nat) → Out
  | .ok (lo, hi) => .okRange lo hi r
  | .err _ => .fail
  | .panic => .panic

def outOfUnit : Res Unit → Out
  | .ok _ => .okUnit
  | .err _ => .fail
  | .panic => .panic

/-- the abstract step -/
def aStep (s : AState) : Op → AState × Out
  | .alloc t len allowRep => aAppend s t (zeros len) allowRep
  | .init t dflt allowRep => aAppend s t dflt allowRep
  | .allocPack t packed allowRep =>
    ((aAppend s t packed allowRep).1, hideRange (aAppend s t packed allowRep).2)
  | .realloc t n r =>
    match findIdx s.es t r with
    | none => (s, .fail)
    | some i =>
      match s.es[i]? with
      | none => (s, .fail)
      | some e =>
        if e.val.length < n ∧ s.free < n - e.val.length then (s, .fail)
        else if ¬ n < 2 ^ 32 then (s, .fail)
        else
          (⟨s.es.set i ⟨t, (e.val ++ zeros (n - e.val.length)).take n⟩, s.free + e.val.length - n⟩,
            .okRange (offsetOf s.es i + 12) (offsetOf s.es i + 12 + n) r)
  | .write t r v =>
    match findIdx s.es t r with
    | none => (s, .fail)
    | some i =>
      match s.es[i]? with
      | none => (s, .fail)
      | some e => if e.val.length ≠ v.length then (s, .fail) else (⟨s.es.set i ⟨t, v⟩, s.free⟩, .okUnit)
  | .pack t r packed =>
    match findIdx s.es t r with
    | none => (s, .fail)
    | some i =>
      match s.es[i]? with
      | none => (s, .fail)
      | some e =>
        (⟨s.es.set i ⟨t, packed.take e.val.length ++ e.val.drop packed.length⟩, s.free⟩,
          if packed.length ≤ e.val.length then .okUnit else .fail)

/-- the model's step on bytes, with outcomes mapped to `Out` -/
def outOfRange : Res ((Nat × Nat) × Nat) → Out
  | .ok ((lo, hi), rep) => .okRange lo hi rep
  | .err _ => .fail
  | .panic => .panic

def mStep (d : Bytes) : Op → Bytes × Out
  | .alloc t len allowRep => let r := alloc d t len allowRep; (r.1, outOfRange r.2)
  | .init t dflt allowRep => let r := initValue d t dflt allowRep; (r.1, outOfRange r.2)
  | .allocPack t packed allowRep =>
    let r := allocAndPack d t packed allowRep
    (r.1, outOfRep r.2)
  | .realloc t n r =>
    let x := realloc d t n r
    (x.1, outOfRealloc r x.2)
  | .write t r v =>
    let x := writeValue d t r v
    (x.1, outOfUnit x.2)
  | .pack t r packed =>
    let x := packVarLen d t r packed
    (x.1, outOfUnit x.2)

/-- operations use 8-byte non-zero type tags -/
def OpWf : Op → Prop
  | .alloc t _ _ => t.length = 8 ∧ t ≠ uninit
  | .init t _ _ => t.length = 8 ∧ t ≠ uninit
  | .allocPack t _ _ => t.length = 8 ∧ t ≠ uninit
  | .realloc t _ _ => t.length = 8 ∧ t ≠ uninit
  | .write t _ _ => t.length = 8 ∧ t ≠ uninit
  | .pack t _ _ => t.length = 8 ∧ t ≠ uninit

end Tlv
