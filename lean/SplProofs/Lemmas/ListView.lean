import SplProofs.C10
import SplProofs.C13
import SplProofs.Lemmas.Seg

namespace ListView
open Bytes C10

/-- The byte layout of a list view holding `xs` with capacity `cap`:
    LE element count, padding, the elements back to back, then stale bytes up to the capacity. -/
def Lay (P : Params) (a : Nat) (b : Bytes) (xs : List Bytes) (cap : Nat) : Prop :=
  WfP P ∧ (∀ x ∈ xs, x.length = P.sizeT) ∧ xs.length ≤ cap ∧ xs.length < 2 ^ (8 * P.wL) ∧
  cap < usizeMax ∧ castSlice P (a + dataStart P) (cap * P.sizeT) = .ok cap ∧
  ∃ pad stale, b = toLe P.wL xs.length ++ (pad ++ (xs.flatten ++ stale)) ∧
    pad.length = headerPadding P ∧ (xs.flatten ++ stale).length = cap * P.sizeT

theorem usizeMax_eq : usizeMax = 18446744073709551615 := by decide

theorem min_succ_usize (n cap : Nat) (h1 : n ≤ cap) (h2 : cap < usizeMax) :
    min (n + 1) usizeMax = n + 1 := by rw [usizeMax_eq] at *; omega

theorem le_usize (n cap : Nat) (h1 : n ≤ cap) (h2 : cap < usizeMax) : n ≤ usizeMax := by omega

theorem flatten_length_of (s : Nat) (xs : List Bytes) (h : ∀ x ∈ xs, x.length = s) :
    xs.flatten.length = xs.length * s := by
  induction xs with
  | nil => simp
  | cons x r ih =>
    simp only [List.flatten_cons, List.length_append, List.length_cons]
    rw [ih (fun y hy => h y (List.mem_cons_of_mem _ hy)), h x (List.mem_cons_self), Nat.succ_mul]
    omega

theorem chunks_flatten_append (s : Nat) (xs : List Bytes) (t : Bytes) (h : ∀ x ∈ xs, x.length = s) :
    Pod.chunks s xs.length (xs.flatten ++ t) = xs := by
  induction xs with
  | nil => rfl
  | cons x r ih =>
    have hx := h x (List.mem_cons_self)
    simp only [List.length_cons, Pod.chunks, List.flatten_cons, List.append_assoc]
    rw [take_append_len x _ s hx.symm, drop_append_len x _ s hx.symm,
      ih (fun y hy => h y (List.mem_cons_of_mem _ hy))]

theorem toUsize_toLe (k n : Nat) (h1 : n < 2 ^ (8 * k)) (h2 : n ≤ usizeMax) :
    Pod.toUsize (toLe k n) = n := by
  unfold Pod.toUsize
  rw [fromLe_toLe k n h1]
  rw [usizeMax_eq] at h2
  omega

theorem lay_length {P a b xs cap} (h : Lay P a b xs cap) :
    b.length = dataStart P + cap * P.sizeT ∧ dataStart P = P.wL + headerPadding P := by
  obtain ⟨hw, _, _, _, _, _, pad, stale, hb, hp, hd⟩ := h
  have := dataStart_eq P hw
  subst hb
  simp only [List.length_append, toLe_length] at *
  omega

/-- Re-opening a laid-out buffer yields exactly the list (mutably or read-only). -/
theorem lay_unpack {P a b xs cap} (h : Lay P a b xs cap) :
    unpackMut P a b = .ok ⟨xs.length, cap⟩ ∧ unpack P a b = .ok ⟨xs.length, cap⟩ ∧
    elems P b ⟨xs.length, cap⟩ = xs := by
  have hlen := lay_length h
  obtain ⟨hw, hel, hle, hfit, hcap, hcs, pad, stale, hb, hp, hd⟩ := h
  have hds := hlen.2
  have hbv : buildView P a b = .ok ⟨xs.length, cap⟩ := by
    rw [buildView_char P hw a b, if_neg (by omega)]
    have : b.length - dataStart P = cap * P.sizeT := by omega
    rw [this, hcs]
    simp only [Res.bind]
    have : b.take P.wL = toLe P.wL xs.length := by
      rw [hb, take_append_len _ _ _ (by simp)]
    rw [this, toUsize_toLe P.wL xs.length hfit (le_usize _ _ hle hcap)]
  have hu : unpackMut P a b = .ok ⟨xs.length, cap⟩ := by
    unfold unpackMut
    rw [hbv]
    simp only [Res.bind_ok]
    rw [if_neg (by omega)]
    rfl
  refine ⟨hu, hu, ?_⟩
  unfold elems
  have : b.drop (dataStart P) = xs.flatten ++ stale := by
    rw [hb, ← List.append_assoc, drop_append_len _ _ _ (by simp [hp, hds])]
  rw [this]
  exact chunks_flatten_append P.sizeT xs stale hel


theorem tryFromUsize_ok (k n : Nat) (h : n < 2 ^ (8 * k)) : Pod.tryFromUsize k n = .ok (toLe k n) := by
  simp [Pod.tryFromUsize, h]

theorem tryFromUsize_err (k n : Nat) (h : ¬ n < 2 ^ (8 * k)) : Pod.tryFromUsize k n = .err (.custom 0) := by
  simp [Pod.tryFromUsize, h]

/-- `push` on a laid-out buffer: vector semantics, and bit-identical bytes on failure. -/
theorem push_spec {P a b xs cap} (h : Lay P a b xs cap) (x : Bytes) (hx : x.length = P.sizeT) :
    (xs.length < cap ∧ xs.length + 1 < 2 ^ (8 * P.wL) →
        ∃ b', push P a b x = (b', .ok ()) ∧ Lay P a b' (xs ++ [x]) cap) ∧
    (¬ (xs.length < cap ∧ xs.length + 1 < 2 ^ (8 * P.wL)) →
        ∃ e, push P a b x = (b, .err e)) := by
  have hu := (lay_unpack h).1
  have hlen := lay_length h
  obtain ⟨hw, hel, hle, hfit, hcap, hcs, pad, stale, hb, hp, hd⟩ := h
  have hfl := flatten_length_of P.sizeT xs hel
  constructor
  · intro ⟨hlt, hfit'⟩
    -- stale = slot ++ rest where the new element goes into slot
    have hst : P.sizeT ≤ stale.length := by
      simp only [List.length_append, hfl] at hd
      have : (xs.length + 1) * P.sizeT ≤ cap * P.sizeT := Nat.mul_le_mul_right _ (by omega)
      rw [Nat.succ_mul] at this
      omega
    have hstale : stale = stale.take P.sizeT ++ stale.drop P.sizeT := (List.take_append_drop _ _).symm
    have hb1 : b = (toLe P.wL xs.length ++ (pad ++ xs.flatten)) ++ (stale.take P.sizeT ++ stale.drop P.sizeT) := by
      rw [← hstale, hb]; simp
    have hw1 : writeAt b (dataStart P + xs.length * P.sizeT) x =
        .ok ((toLe P.wL xs.length ++ (pad ++ xs.flatten)) ++ (x ++ stale.drop P.sizeT)) := by
      rw [hb1]
      exact writeAt_seg _ _ _ x _ (by simp [hp, hfl, hlen.2]; omega) (by simp [hx, List.length_take]; omega)
    have hw2 : writeAt ((toLe P.wL xs.length ++ (pad ++ xs.flatten)) ++ (x ++ stale.drop P.sizeT)) 0
        (toLe P.wL (xs.length + 1)) =
        .ok (toLe P.wL (xs.length + 1) ++ (pad ++ ((xs ++ [x]).flatten ++ stale.drop P.sizeT))) := by
      have := writeAt_seg [] (toLe P.wL xs.length) ((pad ++ xs.flatten) ++ (x ++ stale.drop P.sizeT))
        (toLe P.wL (xs.length + 1)) 0 rfl (by simp)
      simp only [List.nil_append, List.append_assoc] at this ⊢
      rw [this]
      simp
    refine ⟨toLe P.wL (xs.length + 1) ++ (pad ++ ((xs ++ [x]).flatten ++ stale.drop P.sizeT)), ?_, ?_⟩
    · unfold push
      rw [hu]
      simp only
      rw [if_neg (by omega), min_succ_usize _ _ hle hcap, tryFromUsize_ok _ _ hfit']
      simp only [hw1, hw2]
    · refine ⟨hw, ?_, by simp; omega, by simpa using hfit', hcap, hcs, pad, stale.drop P.sizeT, by simp, hp, ?_⟩
      · intro y hy
        rcases List.mem_append.mp hy with hy | hy
        · exact hel y hy
        · simp at hy; rw [hy]; exact hx
      · simp only [List.flatten_append, List.flatten_cons, List.flatten_nil, List.append_nil,
          List.length_append, List.length_drop, hx] at hd ⊢
        omega
  · intro hn
    unfold push
    rw [hu]
    simp only
    by_cases hlt : xs.length ≥ cap
    · exact ⟨_, by rw [if_pos hlt]⟩
    · rw [if_neg hlt, min_succ_usize _ _ hle hcap]
      have : ¬ xs.length + 1 < 2 ^ (8 * P.wL) := fun h' => hn ⟨by omega, h'⟩
      rw [tryFromUsize_err _ _ this]
      exact ⟨_, rfl⟩


theorem flatten_take_drop (xs : List Bytes) (i : Nat) (hi : i < xs.length) :
    xs.flatten = (xs.take i).flatten ++ (xs[i] ++ (xs.drop (i + 1)).flatten) := by
  conv => lhs; rw [← List.take_append_drop i xs]
  rw [List.flatten_append, List.drop_eq_getElem_cons hi, List.flatten_cons]

/-- `remove` on a laid-out buffer. -/
theorem remove_spec {P a b xs cap} (h : Lay P a b xs cap) (i : Nat) :
    (∀ hi : i < xs.length, ∃ b', remove P a b i = (b', .ok xs[i]) ∧ Lay P a b' (xs.eraseIdx i) cap) ∧
    (¬ i < xs.length → ∃ e, remove P a b i = (b, .err e)) := by
  have hu := (lay_unpack h).1
  have hlen := lay_length h
  obtain ⟨hw, hel, hle, hfit, hcap, hcs, pad, stale, hb, hp, hd⟩ := h
  constructor
  · intro hi
    let pre := xs.take i
    let post := xs.drop (i + 1)
    have hpre : pre.flatten.length = i * P.sizeT := by
      rw [flatten_length_of P.sizeT pre (fun y hy => hel y (List.mem_of_mem_take hy))]
      simp only [pre, List.length_take]; rw [Nat.min_eq_left (by omega)]
    have hpost : post.flatten.length = (xs.length - i - 1) * P.sizeT := by
      rw [flatten_length_of P.sizeT post (fun y hy => hel y (List.mem_of_mem_drop hy))]
      simp only [post, List.length_drop]; congr 1
    have hxi : xs[i].length = P.sizeT := hel _ (List.getElem_mem hi)
    have hF := flatten_take_drop xs i hi
    -- b = A ++ (G ++ (M ++ C))
    have hb1 : b = (toLe P.wL xs.length ++ (pad ++ pre.flatten)) ++ (xs[i] ++ (post.flatten ++ stale)) := by
      rw [hb, hF]; simp [pre, post]
    have hA : (toLe P.wL xs.length ++ (pad ++ pre.flatten)).length = dataStart P + i * P.sizeT := by
      simp [hp, hpre, hlen.2]; omega
    have hmul : (i + 1) * P.sizeT = i * P.sizeT + P.sizeT := Nat.succ_mul _ _
    have hmul2 : xs.length * P.sizeT = (i + 1) * P.sizeT + (xs.length - i - 1) * P.sizeT := by
      rw [← Nat.add_mul]; congr 1; omega
    have hs1 : slice b (dataStart P + i * P.sizeT) (dataStart P + (i + 1) * P.sizeT) = .ok xs[i] := by
      rw [hb1]; exact slice_seg _ _ _ _ _ hA.symm (by rw [hA, hxi]; omega)
    have hc1 : copyWithin b (dataStart P + (i + 1) * P.sizeT) (dataStart P + xs.length * P.sizeT)
        (dataStart P + i * P.sizeT) =
        .ok ((toLe P.wL xs.length ++ (pad ++ pre.flatten)) ++
          (post.flatten ++ (xs[i] ++ (post.flatten ++ stale)).drop post.flatten.length)) := by
      rw [hb1]
      exact copyWithin_left _ _ _ _ _ _ _ (by rw [hA, hxi]; omega) (by rw [hpost]; omega) hA.symm
    have hn1 : xs.length - 1 < 2 ^ (8 * P.wL) := by omega
    have hw2 : writeAt ((toLe P.wL xs.length ++ (pad ++ pre.flatten)) ++
          (post.flatten ++ (xs[i] ++ (post.flatten ++ stale)).drop post.flatten.length)) 0
        (toLe P.wL (xs.length - 1)) =
        .ok (toLe P.wL (xs.length - 1) ++ (pad ++ ((xs.eraseIdx i).flatten ++
          (xs[i] ++ (post.flatten ++ stale)).drop post.flatten.length))) := by
      have := writeAt_seg [] (toLe P.wL xs.length) ((pad ++ pre.flatten) ++
          (post.flatten ++ (xs[i] ++ (post.flatten ++ stale)).drop post.flatten.length))
        (toLe P.wL (xs.length - 1)) 0 rfl (by simp)
      simp only [List.nil_append, List.append_assoc] at this ⊢
      rw [this]
      simp [List.eraseIdx_eq_take_drop_succ, pre, post]
    refine ⟨toLe P.wL (xs.length - 1) ++ (pad ++ ((xs.eraseIdx i).flatten ++
          (xs[i] ++ (post.flatten ++ stale)).drop post.flatten.length)), ?_, ?_⟩
    · unfold remove
      rw [hu]
      simp only
      rw [if_neg (by omega)]
      simp only [hs1]
      rw [if_neg (by have := le_usize _ _ hle hcap; rw [usizeMax_eq] at *; omega)]
      simp only [hc1, tryFromUsize_ok _ _ hn1, hw2]
    · refine ⟨hw, fun y hy => hel y (List.mem_of_mem_eraseIdx hy), by rw [List.length_eraseIdx_of_lt hi]; omega,
        by rw [List.length_eraseIdx_of_lt hi]; omega, hcap, hcs, pad,
        (xs[i] ++ (post.flatten ++ stale)).drop post.flatten.length, ?_, hp, ?_⟩
      · rw [List.length_eraseIdx_of_lt hi]
      · have h1 : ((xs.eraseIdx i).flatten).length = (xs.length - 1) * P.sizeT := by
          rw [flatten_length_of P.sizeT _ (fun y hy => hel y (List.mem_of_mem_eraseIdx hy)),
            List.length_eraseIdx_of_lt hi]
        have hfl := flatten_length_of P.sizeT xs hel
        simp only [List.length_append, List.length_drop, h1, hxi, hpost, hfl] at hd ⊢
        have : (xs.length - 1) * P.sizeT + P.sizeT = xs.length * P.sizeT := by
          rw [← Nat.succ_mul]; congr 1; omega
        omega
  · intro hn
    unfold remove
    rw [hu]
    simp only
    exact ⟨_, by rw [if_pos (by omega)]⟩


/-- in-place element write on a laid-out buffer -/
theorem set_spec {P a b xs cap} (h : Lay P a b xs cap) (i : Nat) (x : Bytes) (hx : x.length = P.sizeT)
    (hi : i < xs.length) :
    ∃ b', setElem P a b i x = (b', .ok ()) ∧ Lay P a b' (xs.set i x) cap := by
  have hu := (lay_unpack h).1
  have hlen := lay_length h
  obtain ⟨hw, hel, hle, hfit, hcap, hcs, pad, stale, hb, hp, hd⟩ := h
  have hpre : (xs.take i).flatten.length = i * P.sizeT := by
    rw [flatten_length_of P.sizeT _ (fun y hy => hel y (List.mem_of_mem_take hy))]
    simp only [List.length_take]; rw [Nat.min_eq_left (by omega)]
  have hxi : xs[i].length = P.sizeT := hel _ (List.getElem_mem hi)
  have hF := flatten_take_drop xs i hi
  have hb1 : b = (toLe P.wL xs.length ++ (pad ++ (xs.take i).flatten)) ++
      (xs[i] ++ ((xs.drop (i + 1)).flatten ++ stale)) := by
    rw [hb, hF]; simp
  have hw1 : writeAt b (dataStart P + i * P.sizeT) x =
      .ok ((toLe P.wL xs.length ++ (pad ++ (xs.take i).flatten)) ++
        (x ++ ((xs.drop (i + 1)).flatten ++ stale))) := by
    rw [hb1]
    exact writeAt_seg _ _ _ x _ (by simp [hp, hpre, hlen.2]; omega) (by rw [hx, hxi])
  have hset : (xs.set i x).flatten = (xs.take i).flatten ++ (x ++ (xs.drop (i + 1)).flatten) := by
    rw [List.set_eq_take_append_cons_drop, if_pos hi]
    simp
  refine ⟨(toLe P.wL xs.length ++ (pad ++ (xs.take i).flatten)) ++
        (x ++ ((xs.drop (i + 1)).flatten ++ stale)), ?_, ?_⟩
  · unfold setElem
    rw [hu]
    simp only
    rw [if_neg (by omega)]
    simp only [hw1]
  · refine ⟨hw, ?_, by simpa using hle, by simpa using hfit, hcap, hcs, pad, stale, ?_, hp, ?_⟩
    · intro y hy
      rcases List.mem_or_eq_of_mem_set hy with hy | hy
      · exact hel y hy
      · rw [hy]; exact hx
    · rw [hset]; simp
    · rw [hset]
      rw [hF] at hd
      simp only [List.length_append, hx, hxi] at hd ⊢
      omega

/-- stable sort of the visible slice on a laid-out buffer -/
theorem sort_spec {P a b xs cap} (h : Lay P a b xs cap) (le : Bytes → Bytes → Bool) :
    ∃ b', sortBy P a b le = (b', .ok ()) ∧ Lay P a b' (xs.mergeSort le) cap := by
  have hu := (lay_unpack h).1
  have hel' := (lay_unpack h).2.2
  have hlen := lay_length h
  obtain ⟨hw, hel, hle, hfit, hcap, hcs, pad, stale, hb, hp, hd⟩ := h
  have hmem : ∀ y ∈ xs.mergeSort le, y.length = P.sizeT := fun y hy => hel y (List.mem_mergeSort.mp hy)
  have hl1 := flatten_length_of P.sizeT xs hel
  have hl2 := flatten_length_of P.sizeT (xs.mergeSort le) hmem
  rw [List.length_mergeSort] at hl2
  have hb1 : b = (toLe P.wL xs.length ++ pad) ++ (xs.flatten ++ stale) := by rw [hb]; simp
  have hw1 : writeAt b (dataStart P) (xs.mergeSort le).flatten =
      .ok ((toLe P.wL xs.length ++ pad) ++ ((xs.mergeSort le).flatten ++ stale)) := by
    rw [hb1]
    exact writeAt_seg _ _ _ _ _ (by simp [hp, hlen.2]) (by rw [hl1, hl2])
  refine ⟨(toLe P.wL xs.length ++ pad) ++ ((xs.mergeSort le).flatten ++ stale), ?_, ?_⟩
  · unfold sortBy
    rw [hu]
    simp only [hel', hw1]
  · refine ⟨hw, hmem, by rw [List.length_mergeSort]; exact hle, by rw [List.length_mergeSort]; exact hfit,
      hcap, hcs, pad, stale, by rw [List.length_mergeSort]; simp, hp, ?_⟩
    simp only [List.length_append, hl1, hl2] at hd ⊢
    exact hd

theorem castSlice_cap {P : Params} {addr len cap : Nat} (h : castSlice P addr len = .ok cap) :
    cap * P.sizeT = len := by
  unfold castSlice at h
  split at h
  · simp at h
  · split at h
    · rename_i h1; cases h; rw [h1]; simp
    · split at h
      · rename_i hs
        cases h
        rcases hs with ⟨h0, hm⟩ | ⟨h0, hl⟩
        · rw [if_pos h0]; exact Nat.div_mul_cancel (Nat.dvd_of_mod_eq_zero hm)
        · simp [h0, hl]
      · simp at h

/-- `init` on any buffer the view can be built over: the empty list with the buffer's capacity. -/
theorem init_spec {P : Params} (hw : WfP P) {a : Nat} {b : Bytes} {v : View}
    (hv : buildView P a b = .ok v) (hcap : v.cap < usizeMax) :
    ∃ b', init P a b = (b', .ok ⟨0, v.cap⟩) ∧ Lay P a b' [] v.cap ∧ b'.length = b.length := by
  have hds := dataStart_eq P hw
  rw [buildView_char P hw a b] at hv
  split at hv
  · simp at hv
  · rename_i hl
    cases hc : castSlice P (a + dataStart P) (b.length - dataStart P) with
    | panic => simp [hc, Res.bind] at hv
    | err e => simp [hc, Res.bind] at hv
    | ok cap =>
      simp only [hc, Res.bind, Res.ok.injEq] at hv
      subst hv
      have hcl := castSlice_cap hc
      have hwl : P.wL ≤ b.length := by omega
      have hbv : buildView P a b = .ok ⟨Pod.toUsize (b.take P.wL), cap⟩ := by
        rw [buildView_char P hw a b, if_neg hl, hc]; rfl
      have hb1 : b = [] ++ (b.take P.wL ++ b.drop P.wL) := by simp
      have hw1 : writeAt b 0 (toLe P.wL 0) = .ok ([] ++ (toLe P.wL 0 ++ b.drop P.wL)) := by
        conv => lhs; rw [hb1]
        exact writeAt_seg [] _ _ _ 0 rfl (by simp [List.length_take]; omega)
      refine ⟨toLe P.wL 0 ++ b.drop P.wL, ?_, ?_, by simp; omega⟩
      · unfold init
        rw [hbv]
        simp only [tryFromUsize_ok P.wL 0 (Nat.pow_pos (by omega)), hw1, List.nil_append]
      · refine ⟨hw, by simp, by simp, by simpa using Nat.pow_pos (by omega), hcap, by rw [hcl]; exact hc,
          (b.drop P.wL).take (headerPadding P), (b.drop P.wL).drop (headerPadding P),
            by simp only [List.flatten_nil, List.nil_append, List.length_nil, List.take_append_drop], ?_, ?_⟩
        · simp [List.length_take, List.length_drop]; omega
        · simp [List.length_drop]; omega

end ListView
