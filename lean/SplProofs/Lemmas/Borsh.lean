import SplModel.Borsh
import SplProofs.Lemmas.Le
import SplProofs.Lemmas.Seg

namespace Borsh
open Bytes

/-- the round-trip law: decoding a value's encoding followed by anything returns the value and
    exactly the rest -/
def Lawful {α} (c : Codec α) : Prop := ∀ a tail, c.dec (c.enc a ++ tail) = some (a, tail)

theorem uint_lawful (k : Nat) : Lawful (uint k) := by
  intro a tail
  simp only [uint]
  rw [dif_neg (by simp)]
  have h1 : (toLe k a.val ++ tail).take k = toLe k a.val := take_append_len _ _ _ (by simp)
  have h2 : (toLe k a.val ++ tail).drop k = tail := drop_append_len _ _ _ (by simp)
  simp only [h1, h2, fromLe_toLe k a.val a.isLt, Nat.mod_eq_of_lt a.isLt]

theorem bool_lawful : Lawful bool := by
  intro a tail
  cases a <;> simp [bool]

theorem unit_lawful : Lawful unit := by
  intro a tail; simp [unit]

theorem bytes_lawful : Lawful bytes := by
  intro a tail
  obtain ⟨b, hb⟩ := a
  simp only [bytes, List.append_assoc]
  rw [if_neg (by simp)]
  have h1 : (toLe 4 b.length ++ (b ++ tail)).take 4 = toLe 4 b.length := take_append_len _ _ _ (by simp)
  have h2 : (toLe 4 b.length ++ (b ++ tail)).drop 4 = b ++ tail := drop_append_len _ _ _ (by simp)
  have h3 : fromLe (toLe 4 b.length) = b.length := fromLe_toLe 4 _ (by simpa using hb)
  simp only [h1, h2, h3]
  rw [dif_neg (by simp), dif_pos hb]
  have h4 : (b ++ tail).take b.length = b := take_append_len _ _ _ rfl
  have h5 : (toLe 4 b.length ++ (b ++ tail)).drop (4 + b.length) = tail := by
    rw [drop_append_add _ _ _ b.length (by simp), drop_append_len _ _ _ rfl]
  simp [h4, h5]

theorem option_lawful {α} (c : Codec α) (h : Lawful c) : Lawful (option c) := by
  intro a tail
  cases a with
  | none => simp [option]
  | some x => simp [option, h x tail]

theorem pair_lawful {α β} (c1 : Codec α) (c2 : Codec β) (h1 : Lawful c1) (h2 : Lawful c2) :
    Lawful (pair c1 c2) := by
  intro a tail
  simp only [pair, List.append_assoc, h1 a.1 (c2.enc a.2 ++ tail), h2 a.2 tail, Option.map_some]

theorem sum_lawful {α β} (c1 : Codec α) (c2 : Codec β) (h1 : Lawful c1) (h2 : Lawful c2) :
    Lawful (sum c1 c2) := by
  intro a tail
  cases a with
  | inl x => simp [sum, h1 x tail]
  | inr y => simp [sum, h2 y tail]

theorem sum3_lawful {α β γ} (c1 : Codec α) (c2 : Codec β) (c3 : Codec γ) (h1 : Lawful c1)
    (h2 : Lawful c2) (h3 : Lawful c3) : Lawful (sum3 c1 c2 c3) := by
  intro a tail
  rcases a with x | y | z
  · simp [sum3, h1 x tail]
  · simp [sum3, h2 y tail]
  · simp [sum3, h3 z tail]

theorem decMany_enc {α} (c : Codec α) (h : Lawful c) (l : List α) (tail : Bytes) :
    decMany c l.length (l.flatMap c.enc ++ tail) = some (l, tail) := by
  induction l with
  | nil => simp [decMany]
  | cons x xs ih =>
    simp only [List.length_cons, decMany, List.flatMap_cons, List.append_assoc, h x _, ih, Option.map_some]

theorem vec_lawful {α} (c : Codec α) (h : Lawful c) : Lawful (vec c) := by
  intro a tail
  obtain ⟨l, hl⟩ := a
  have h1 : (toLe 4 l.length ++ (l.flatMap c.enc ++ tail)).take 4 = toLe 4 l.length :=
    take_append_len _ _ _ (by simp)
  have h2 : (toLe 4 l.length ++ (l.flatMap c.enc ++ tail)).drop 4 = l.flatMap c.enc ++ tail :=
    drop_append_len _ _ _ (by simp)
  have h3 : fromLe (toLe 4 l.length) = l.length := fromLe_toLe 4 _ (by simpa using hl)
  show (vec c).dec (toLe 4 l.length ++ l.flatMap c.enc ++ tail) = some (⟨l, hl⟩, tail)
  unfold vec
  simp only [List.append_assoc]
  rw [if_neg (by simp)]
  simp only [h1, h2, h3, decMany_enc c h l tail]
  rw [dif_pos hl]

theorem iso_lawful {α β} (c : Codec α) (f : α → β) (g : β → α) (h : Lawful c) (hfg : ∀ b, f (g b) = b) :
    Lawful (iso c f g) := by
  intro b tail
  simp [iso, h (g b) tail, hfg b]

end Borsh
