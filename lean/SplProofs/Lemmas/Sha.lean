import SplModel.Sha256
namespace Sha256

theorem compress_size (h : Array UInt32) (blk : Array UInt8) : (compress h blk).size = 8 := by
  unfold compress
  simp only [Id.run]
  rfl

theorem fold_size (bs : List (Array UInt8)) (h : Array UInt32) (hh : h.size = 8) :
    (bs.foldl compress h).size = 8 := by
  induction bs generalizing h with
  | nil => simpa
  | cons b bs ih => exact ih _ (compress_size h b)

theorem flat_length (l : List UInt32) : (l.flatMap toBe32).length = 4 * l.length := by
  induction l with
  | nil => rfl
  | cons x xs ih => simp [List.flatMap_cons, toBe32, ih]; omega

theorem digest_length (m : Bytes) : (digest m).length = 32 := by
  have h := fold_size (blocks (pad m).toArray) H0 rfl
  show ((List.foldl compress H0 (blocks (pad m).toArray)).toList.flatMap toBe32).length = 32
  rw [flat_length, Array.length_toList, h]

end Sha256
