import SplModel.Tlv
import SplProofs.Lemmas.Le
import SplProofs.Lemmas.Seg

namespace Tlv
open Bytes

/-- An abstract TLV entry: an 8-byte tag and its value bytes. -/
structure Entry where
  tag : Bytes
  val : Bytes
  deriving DecidableEq, Repr

/-- the 12-byte header + value of one entry -/
def encEntry (e : Entry) : Bytes := e.tag ++ (toLe 4 e.val.length ++ e.val)

/-- the concatenation of the entries in order -/
def enc (es : List Entry) : Bytes := es.flatMap encEntry

/-- well-formed entry: 8-byte non-zero tag, length representable in 32 bits -/
def WfE (e : Entry) : Prop := e.tag.length = 8 ∧ e.tag ≠ uninit ∧ e.val.length < 2 ^ 32

theorem DL_eq : DL = 8 := by decide
theorem LW_eq : LW = 4 := by decide
theorem HDR_eq : HDR = 12 := by decide
theorem uninit_eq : uninit = zeros 8 := by decide
theorem uninit_length : uninit.length = 8 := by decide

@[simp] theorem enc_nil : enc [] = [] := rfl
@[simp] theorem enc_cons (e : Entry) (es : List Entry) : enc (e :: es) = encEntry e ++ enc es := by
  simp [enc]
theorem enc_append (a b : List Entry) : enc (a ++ b) = enc a ++ enc b := by simp [enc]

theorem encEntry_length (e : Entry) (h : e.tag.length = 8) : (encEntry e).length = 12 + e.val.length := by
  simp [encEntry, h]; omega

/-- reading the header of `encEntry e ++ rest` -/
theorem hdr_facts (e : Entry) (rest : Bytes) (h : WfE e) :
    (encEntry e ++ rest).take DL = e.tag ∧
    lengthToUsize (((encEntry e ++ rest).drop DL).take LW) = e.val.length ∧
    (encEntry e ++ rest).drop (HDR + e.val.length) = rest ∧
    HDR ≤ (encEntry e ++ rest).length ∧
    HDR + e.val.length ≤ (encEntry e ++ rest).length ∧
    ((encEntry e ++ rest).drop HDR).take e.val.length = e.val := by
  obtain ⟨h8, _, hl⟩ := h
  rw [DL_eq, LW_eq, HDR_eq]
  have e1 : encEntry e ++ rest = e.tag ++ (toLe 4 e.val.length ++ (e.val ++ rest)) := by
    simp [encEntry]
  rw [e1]
  refine ⟨take_append_len _ _ _ h8.symm, ?_, ?_, by simp [h8]; omega, by simp [h8]; omega, ?_⟩
  · rw [drop_append_len _ _ _ h8.symm, take_append_len _ _ _ (by simp)]
    exact fromLe_toLe 4 _ (by simpa using hl)
  · rw [drop_append_add _ _ _ (4 + e.val.length) (by omega), drop_append_add _ _ _ e.val.length (by simp),
      drop_append_len _ _ _ rfl]
  · rw [drop_append_add _ _ _ 4 (by omega), drop_append_len _ _ _ (by simp), take_append_len _ _ _ rfl]

theorem encEntry_ne_nil (e : Entry) (h : WfE e) (rest : Bytes) : (encEntry e ++ rest).isEmpty = false := by
  have := (hdr_facts e rest h).2.2.2.1
  rw [HDR_eq] at this
  cases hh : encEntry e ++ rest with
  | nil => rw [hh] at this; simp at this
  | cons _ _ => rfl

theorem getIndicesGo_succ (fuel : Nat) (rest : Bytes) (off : Nat) (disc : Bytes) (init : Bool)
    (want : Option Nat) (cur : Nat) :
    getIndicesGo (fuel + 1) rest off disc init want cur =
      if rest.isEmpty then .err .invalidAccountData
      else
        if rest.length < HDR then .err .invalidAccountData
        else
          if rest.take DL = disc then
            if want = some cur then .ok (idxUnchecked off cur)
            else getIndicesGo fuel (rest.drop (HDR + lengthToUsize ((rest.drop DL).take LW)))
              (off + HDR + lengthToUsize ((rest.drop DL).take LW)) disc init want (cur + 1)
          else if rest.take DL = uninit then
            if init then .ok (idxUnchecked off cur) else .err eTypeNotFound
          else getIndicesGo fuel (rest.drop (HDR + lengthToUsize ((rest.drop DL).take LW)))
            (off + HDR + lengthToUsize ((rest.drop DL).take LW)) disc init want cur := by
  rfl

theorem getDiscsGo_succ (fuel : Nat) (rest : Bytes) (off : Nat) (acc : List Bytes) :
    getDiscsGo (fuel + 1) rest off acc =
      if rest.isEmpty then .ok (acc.reverse, off)
      else if rest.length < DL then
        if rest.all (· = 0) then .ok (acc.reverse, off) else .err .invalidAccountData
      else
        if rest.take DL = uninit then .ok (acc.reverse, off)
        else if rest.length < HDR then .err .invalidAccountData
        else
          if HDR + lengthToUsize ((rest.drop DL).take LW) > rest.length then .err .invalidAccountData
          else getDiscsGo fuel (rest.drop (HDR + lengthToUsize ((rest.drop DL).take LW)))
            (off + HDR + lengthToUsize ((rest.drop DL).take LW)) (rest.take DL :: acc) := by
  rfl

/-- one iteration of `get_indices` over a well-formed entry -/
theorem getIndicesGo_step (f : Nat) (e : Entry) (rest : Bytes) (h : WfE e) (off : Nat) (disc : Bytes)
    (init : Bool) (want : Option Nat) (cur : Nat) :
    getIndicesGo (f + 1) (encEntry e ++ rest) off disc init want cur =
      if e.tag = disc then
        if want = some cur then .ok (idxUnchecked off cur)
        else getIndicesGo f rest (off + HDR + e.val.length) disc init want (cur + 1)
      else getIndicesGo f rest (off + HDR + e.val.length) disc init want cur := by
  obtain ⟨h1, h2, h3, h4, _, _⟩ := hdr_facts e rest h
  rw [getIndicesGo_succ, encEntry_ne_nil e h rest]
  simp only [Bool.false_eq_true, if_false]
  rw [if_neg (by omega)]
  simp only [h1, h2, h3]
  by_cases hd : e.tag = disc
  · simp only [hd, if_true]
  · simp only [hd, if_false, if_neg h.2.1]

/-- one iteration of `get_discriminators_and_end_index` over a well-formed entry -/
theorem getDiscsGo_step (f : Nat) (e : Entry) (rest : Bytes) (h : WfE e) (off : Nat) (acc : List Bytes) :
    getDiscsGo (f + 1) (encEntry e ++ rest) off acc =
      getDiscsGo f rest (off + HDR + e.val.length) (e.tag :: acc) := by
  obtain ⟨h1, h2, h3, h4, h5, _⟩ := hdr_facts e rest h
  rw [getDiscsGo_succ, encEntry_ne_nil e h rest]
  simp only [Bool.false_eq_true, if_false]
  rw [if_neg (by rw [DL_eq]; rw [HDR_eq] at h4; omega)]
  simp only [h1, h2, h3, if_neg h.2.1]
  rw [if_neg (by omega), if_neg (by omega)]

/-- the abstract walk of `get_indices` over an entry list, continuing with `k` at the tail -/
def walkIdx (k : Nat → Nat → Res Idx) : List Entry → Nat → Bytes → Option Nat → Nat → Res Idx
  | [], off, _, _, cur => k off cur
  | e :: es, off, disc, want, cur =>
    if e.tag = disc then
      if want = some cur then .ok (idxUnchecked off cur)
      else walkIdx k es (off + HDR + e.val.length) disc want (cur + 1)
    else walkIdx k es (off + HDR + e.val.length) disc want cur

theorem getIndicesGo_enc (es : List Entry) (hw : ∀ e ∈ es, WfE e) (tail : Bytes) (f : Nat) (off : Nat)
    (disc : Bytes) (init : Bool) (want : Option Nat) (cur : Nat) :
    getIndicesGo (f + es.length) (enc es ++ tail) off disc init want cur =
      walkIdx (fun o c => getIndicesGo f tail o disc init want c) es off disc want cur := by
  induction es generalizing off cur with
  | nil => simp [walkIdx]
  | cons e es ih =>
    have he := hw e (List.mem_cons_self)
    have hw' : ∀ x ∈ es, WfE x := fun x hx => hw x (List.mem_cons_of_mem _ hx)
    simp only [enc_cons, List.append_assoc, List.length_cons, walkIdx]
    rw [show f + (es.length + 1) = (f + es.length) + 1 by omega, getIndicesGo_step _ e _ he]
    rw [ih hw', ih hw']

theorem getDiscsGo_enc (es : List Entry) (hw : ∀ e ∈ es, WfE e) (tail : Bytes) (f : Nat) (off : Nat)
    (acc : List Bytes) :
    getDiscsGo (f + es.length) (enc es ++ tail) off acc =
      getDiscsGo f tail (off + (enc es).length) ((es.map (·.tag)).reverse ++ acc) := by
  induction es generalizing off acc with
  | nil => simp
  | cons e es ih =>
    have he := hw e (List.mem_cons_self)
    have hw' : ∀ x ∈ es, WfE x := fun x hx => hw x (List.mem_cons_of_mem _ hx)
    simp only [enc_cons, List.append_assoc, List.length_cons]
    rw [show f + (es.length + 1) = (f + es.length) + 1 by omega, getDiscsGo_step _ e _ he, ih hw']
    have hl := encEntry_length e he.1
    rw [HDR_eq]
    simp only [List.length_append, hl, List.map_cons, List.reverse_cons, List.append_assoc,
      List.singleton_append]
    congr 1; omega


/-! ### totality of the two walks -/

theorem getDiscsGo_ne_panic (fuel : Nat) (rest : Bytes) (off : Nat) (acc : List Bytes)
    (hf : rest.length < fuel) : getDiscsGo fuel rest off acc ≠ .panic := by
  induction fuel generalizing rest off acc with
  | zero => omega
  | succ f ih =>
    rw [getDiscsGo_succ]
    split
    · simp
    · split
      · split <;> simp
      · split
        · simp
        · split
          · simp
          · split
            · simp
            · rename_i h1 h2 h3 h4 h5
              apply ih
              rw [List.length_drop, HDR_eq] at *
              omega

theorem getIndicesGo_ne_panic (fuel : Nat) (rest : Bytes) (off : Nat) (disc : Bytes) (init : Bool)
    (want : Option Nat) (cur : Nat) (hf : rest.length < fuel) :
    getIndicesGo fuel rest off disc init want cur ≠ .panic := by
  induction fuel generalizing rest off cur with
  | zero => omega
  | succ f ih =>
    rw [getIndicesGo_succ]
    split
    · simp
    · split
      · simp
      · rename_i h1 h2
        have hlt : (rest.drop (HDR + lengthToUsize ((rest.drop DL).take LW))).length < f := by
          rw [List.length_drop, HDR_eq] at *
          omega
        split
        · split
          · simp
          · exact ih _ _ _ hlt
        · split
          · split <;> simp
          · exact ih _ _ _ hlt

/-- a successful `get_indices` points at a 12-byte header that lies inside the buffer -/
theorem getIndicesGo_ok_bounds (fuel : Nat) (rest : Bytes) (off : Nat) (disc : Bytes) (init : Bool)
    (want : Option Nat) (cur : Nat) (ix : Idx)
    (h : getIndicesGo fuel rest off disc init want cur = .ok ix) :
    off ≤ ix.typeStart ∧ ix.lengthStart = ix.typeStart + 8 ∧ ix.valueStart = ix.typeStart + 12 ∧
    ix.valueStart ≤ off + rest.length := by
  induction fuel generalizing rest off cur with
  | zero => simp [getIndicesGo] at h
  | succ f ih =>
    rw [getIndicesGo_succ] at h
    split at h
    · simp at h
    · split at h
      · simp at h
      · rename_i h1 h2
        rw [HDR_eq] at h2
        have hrec : ∀ c, getIndicesGo f (rest.drop (HDR + lengthToUsize ((rest.drop DL).take LW)))
            (off + HDR + lengthToUsize ((rest.drop DL).take LW)) disc init want c = .ok ix →
            off ≤ ix.typeStart ∧ ix.lengthStart = ix.typeStart + 8 ∧ ix.valueStart = ix.typeStart + 12 ∧
            ix.valueStart ≤ off + rest.length := by
          intro c hc
          obtain ⟨a1, a2, a3, a4⟩ := ih _ _ _ hc
          rw [List.length_drop] at a4
          refine ⟨by omega, a2, a3, ?_⟩
          rw [HDR_eq] at *
          omega
        split at h
        · split at h
          · cases h
            refine ⟨?_, ?_, ?_, ?_⟩ <;> simp only [idxUnchecked, DL_eq, LW_eq] <;> omega
          · exact hrec _ h
        · split at h
          · split at h
            · cases h
              refine ⟨?_, ?_, ?_, ?_⟩ <;> simp only [idxUnchecked, DL_eq, LW_eq] <;> omega
            · simp at h
          · exact hrec _ h

/-! ### decomposition of arbitrary bytes by a successful walk -/

/-- how a run of entries may end: end of buffer, fewer than 8 trailing zero bytes, or an
    all-zero 8-byte tag (anything may follow) -/
def Terminated (tail : Bytes) : Prop :=
  tail = [] ∨ (tail.length < 8 ∧ ∀ b ∈ tail, b = 0) ∨ (8 ≤ tail.length ∧ tail.take 8 = uninit)

theorem step_decomp (rest : Bytes) (h12 : HDR ≤ rest.length) (hne : rest.take DL ≠ uninit)
    (hfit : HDR + lengthToUsize ((rest.drop DL).take LW) ≤ rest.length) :
    let e : Entry := ⟨rest.take DL, (rest.drop HDR).take (lengthToUsize ((rest.drop DL).take LW))⟩
    WfE e ∧ rest = encEntry e ++ rest.drop (HDR + lengthToUsize ((rest.drop DL).take LW)) ∧
    e.val.length = lengthToUsize ((rest.drop DL).take LW) := by
  rw [HDR_eq, DL_eq, LW_eq] at *
  intro e
  have hl4 : ((rest.drop 8).take 4).length = 4 := by simp [List.length_take, List.length_drop]; omega
  have hlt : lengthToUsize ((rest.drop 8).take 4) < 2 ^ 32 := by
    have := fromLe_lt ((rest.drop 8).take 4)
    rw [hl4] at this
    exact this
  have hvl : e.val.length = lengthToUsize ((rest.drop 8).take 4) := by
    simp only [e, List.length_take, List.length_drop]; omega
  refine ⟨⟨by simp [e, List.length_take]; omega, hne, by rw [hvl]; exact hlt⟩, ?_, hvl⟩
  unfold encEntry
  rw [hvl]
  have : toLe 4 (lengthToUsize ((rest.drop 8).take 4)) = (rest.drop 8).take 4 := by
    have := toLe_fromLe ((rest.drop 8).take 4)
    rw [hl4] at this
    exact this
  rw [this]
  simp only [e, List.append_assoc]
  -- rest = take 8 ++ take 4 (drop 8) ++ take n (drop 12) ++ drop (12+n)
  have a1 : rest = rest.take 8 ++ rest.drop 8 := (List.take_append_drop 8 rest).symm
  have a2 : rest.drop 8 = (rest.drop 8).take 4 ++ rest.drop 12 := by
    have := (List.take_append_drop 4 (rest.drop 8)).symm
    rwa [List.drop_drop] at this
  have a3 : rest.drop 12 = (rest.drop 12).take (lengthToUsize ((rest.drop 8).take 4)) ++
      rest.drop (12 + lengthToUsize ((rest.drop 8).take 4)) := by
    have := (List.take_append_drop (lengthToUsize ((rest.drop 8).take 4)) (rest.drop 12)).symm
    rwa [List.drop_drop] at this
  conv => lhs; rw [a1, a2, a3]

theorem getDiscsGo_ok_decomp (fuel : Nat) (rest : Bytes) (off : Nat) (acc : List Bytes)
    (l : List Bytes) (e : Nat) (h : getDiscsGo fuel rest off acc = .ok (l, e)) :
    ∃ es tail, rest = enc es ++ tail ∧ (∀ x ∈ es, WfE x) ∧ Terminated tail ∧
      l = acc.reverse ++ es.map (·.tag) ∧ e = off + (enc es).length := by
  induction fuel generalizing rest off acc with
  | zero => simp [getDiscsGo] at h
  | succ f ih =>
    rw [getDiscsGo_succ] at h
    split at h
    · rename_i he
      cases h
      exact ⟨[], [], by simp [List.isEmpty_iff.mp he], by simp, Or.inl rfl, by simp, by simp⟩
    · split at h
      · rename_i hlt
        split at h
        · rename_i hall
          cases h
          refine ⟨[], rest, by simp, by simp, Or.inr (Or.inl ⟨by rw [DL_eq] at hlt; exact hlt, ?_⟩), by simp, by simp⟩
          intro b hb
          have := List.all_eq_true.mp hall b hb
          simpa using this
        · simp at h
      · rename_i hge
        split at h
        · rename_i hz
          cases h
          exact ⟨[], rest, by simp, by simp, Or.inr (Or.inr ⟨by rw [DL_eq] at hge; omega, by rw [DL_eq] at hz; exact hz⟩),
            by simp, by simp⟩
        · rename_i hnz
          split at h
          · simp at h
          · rename_i h12
            split at h
            · simp at h
            · rename_i hfit
              obtain ⟨hwf, hdec, hvl⟩ := step_decomp rest (by omega) hnz (by omega)
              obtain ⟨es, tail, e1, e2, e3, e4, e5⟩ := ih _ _ _ h
              refine ⟨(⟨rest.take DL, (rest.drop HDR).take (lengthToUsize ((rest.drop DL).take LW))⟩ : Entry) :: es, tail, ?_, ?_, e3, ?_, ?_⟩
              · rw [enc_cons, List.append_assoc, ← e1]; exact hdec
              · intro x hx
                rcases List.mem_cons.mp hx with rfl | hx
                · exact hwf
                · exact e2 x hx
              · rw [e4]; simp
              · rw [e5, enc_cons, List.length_append, encEntry_length _ hwf.1, hvl, HDR_eq]; omega

/-- the walk stops successfully at any terminated tail -/
theorem getDiscsGo_tail (f : Nat) (tail : Bytes) (ht : Terminated tail) (off : Nat) (acc : List Bytes) :
    getDiscsGo (f + 1) tail off acc = .ok (acc.reverse, off) := by
  rw [getDiscsGo_succ]
  rcases ht with rfl | ⟨hl, hz⟩ | ⟨hl, hz⟩
  · simp
  · by_cases he : tail.isEmpty = true
    · simp [he]
    · rw [if_neg he, if_pos (by rw [DL_eq]; exact hl)]
      have : tail.all (· = 0) = true := by
        rw [List.all_eq_true]; intro b hb; simpa using hz b hb
      rw [if_pos this]
  · have he : tail.isEmpty = false := by
      cases tail with
      | nil => simp at hl
      | cons _ _ => rfl
    rw [he]
    simp only [Bool.false_eq_true, if_false]
    rw [if_neg (by rw [DL_eq]; omega), if_pos (by rw [DL_eq]; exact hz)]


/-! ### lookups on a well-formed buffer -/

/-- the `r`-th entry of type `t` (counting from `cur`), with its offset -/
def locate : List Entry → Nat → Bytes → Nat → Nat → Option (Nat × Entry)
  | [], _, _, _, _ => none
  | e :: es, off, t, r, cur =>
    if e.tag = t then
      if r = cur then some (off, e) else locate es (off + HDR + e.val.length) t r (cur + 1)
    else locate es (off + HDR + e.val.length) t r cur

/-- where the walk ends up when the entry is not there: end offset and repetition counter -/
def walkEnd : List Entry → Nat → Bytes → Nat → Nat × Nat
  | [], off, _, cur => (off, cur)
  | e :: es, off, t, cur =>
    if e.tag = t then walkEnd es (off + HDR + e.val.length) t (cur + 1)
    else walkEnd es (off + HDR + e.val.length) t cur

theorem walkIdx_some (k : Nat → Nat → Res Idx) (es : List Entry) (off : Nat) (t : Bytes) (r cur : Nat) :
    walkIdx k es off t (some r) cur =
      match locate es off t r cur with
      | some (o, _) => .ok (idxUnchecked o r)
      | none => k (walkEnd es off t cur).1 (walkEnd es off t cur).2 := by
  induction es generalizing off cur with
  | nil => simp [walkIdx, locate, walkEnd]
  | cons e es ih =>
    simp only [walkIdx, locate, walkEnd]
    by_cases ht : e.tag = t
    · simp only [ht, if_true]
      by_cases hr : r = cur
      · simp [hr]
      · have : ¬ (some r = some cur) := by simpa using hr
        simp only [this, if_false, hr, ih]
    · simp only [ht, if_false, ih]

theorem walkIdx_none (k : Nat → Nat → Res Idx) (es : List Entry) (off : Nat) (t : Bytes) (cur : Nat) :
    walkIdx k es off t none cur = k (walkEnd es off t cur).1 (walkEnd es off t cur).2 := by
  induction es generalizing off cur with
  | nil => simp [walkIdx, walkEnd]
  | cons e es ih =>
    simp only [walkIdx, walkEnd]
    by_cases ht : e.tag = t
    · simp [ht, ih]
    · simp [ht, ih]

theorem walkEnd_spec (es : List Entry) (hw : ∀ e ∈ es, WfE e) (off : Nat) (t : Bytes) (cur : Nat) :
    walkEnd es off t cur = (off + (enc es).length, cur + (es.filter (·.tag = t)).length) := by
  induction es generalizing off cur with
  | nil => simp [walkEnd]
  | cons e es ih =>
    have he := hw e (List.mem_cons_self)
    have hw' : ∀ x ∈ es, WfE x := fun x hx => hw x (List.mem_cons_of_mem _ hx)
    simp only [walkEnd, enc_cons, List.length_append, encEntry_length e he.1, HDR_eq]
    by_cases ht : e.tag = t
    · simp only [ht, if_true, ih hw', List.filter_cons, decide_true, List.length_cons]
      congr 1 <;> omega
    · simp only [ht, if_false, ih hw', List.filter_cons, decide_false]
      congr 1; omega

/-- `locate` finds exactly the `r`-th entry of type `t`, at its true offset -/
theorem locate_some (es : List Entry) (hw : ∀ e ∈ es, WfE e) (off : Nat) (t : Bytes) (r cur o : Nat)
    (e : Entry) (h : locate es off t r cur = some (o, e)) :
    ∃ pre post, es = pre ++ e :: post ∧ e.tag = t ∧ o = off + (enc pre).length ∧
      cur + (pre.filter (·.tag = t)).length = r := by
  induction es generalizing off cur with
  | nil => simp [locate] at h
  | cons x es ih =>
    have hx := hw x (List.mem_cons_self)
    have hw' : ∀ y ∈ es, WfE y := fun y hy => hw y (List.mem_cons_of_mem _ hy)
    simp only [locate] at h
    by_cases ht : x.tag = t
    · simp only [ht, if_true] at h
      by_cases hr : r = cur
      · simp only [hr, if_true, Option.some.injEq, Prod.mk.injEq] at h
        obtain ⟨rfl, rfl⟩ := h
        exact ⟨[], es, by simp, ht, by simp, by simp [hr]⟩
      · simp only [hr, if_false] at h
        obtain ⟨pre, post, e1, e2, e3, e4⟩ := ih hw' _ _ h
        refine ⟨x :: pre, post, by simp [e1], e2, ?_, ?_⟩
        · rw [e3, enc_cons, List.length_append, encEntry_length x hx.1, HDR_eq]; omega
        · simp only [List.filter_cons, ht, decide_true, if_true, List.length_cons]; omega
    · simp only [ht, if_false] at h
      obtain ⟨pre, post, e1, e2, e3, e4⟩ := ih hw' _ _ h
      refine ⟨x :: pre, post, by simp [e1], e2, ?_, ?_⟩
      · rw [e3, enc_cons, List.length_append, encEntry_length x hx.1, HDR_eq]; omega
      · simp only [List.filter_cons, ht, decide_false]; exact e4

theorem locate_none (es : List Entry) (off : Nat) (t : Bytes) (r cur : Nat) (hc : cur ≤ r)
    (h : locate es off t r cur = none) : cur + (es.filter (·.tag = t)).length ≤ r := by
  induction es generalizing off cur with
  | nil => simpa using hc
  | cons x es ih =>
    simp only [locate] at h
    by_cases ht : x.tag = t
    · simp only [ht, if_true] at h
      by_cases hr : r = cur
      · simp [hr] at h
      · simp only [hr, if_false] at h
        have := ih _ _ (by omega) h
        simp only [List.filter_cons, ht, decide_true, if_true, List.length_cons]; omega
    · simp only [ht, if_false] at h
      have := ih _ _ hc h
      simp only [List.filter_cons, ht, decide_false]; exact this

/-- the search (`init = false`) fails on any terminated tail when the type is not the zero tag -/
theorem getIndicesGo_tail_search (f : Nat) (tail : Bytes) (ht : Terminated tail) (off : Nat) (t : Bytes)
    (hne : t ≠ uninit) (want : Option Nat) (cur : Nat) :
    ∃ e, getIndicesGo (f + 1) tail off t false want cur = .err e := by
  rw [getIndicesGo_succ]
  by_cases he : tail.isEmpty = true
  · exact ⟨_, by rw [if_pos he]⟩
  · rw [if_neg he]
    by_cases h12 : tail.length < HDR
    · exact ⟨_, by rw [if_pos h12]⟩
    · rw [if_neg h12]
      have hz : tail.take DL = uninit := by
        rcases ht with rfl | ⟨hl, _⟩ | ⟨_, hz⟩
        · simp at he
        · rw [HDR_eq] at h12; omega
        · rw [DL_eq]; exact hz
      rw [hz, if_neg (fun h => hne h.symm), if_pos rfl]
      exact ⟨_, rfl⟩

/-- `get_bytes` on a well-formed buffer: exactly the `r`-th entry of type `t` at its true
    offset, or an error when there is none. -/
theorem getBytes_wf (es : List Entry) (hw : ∀ e ∈ es, WfE e) (tail : Bytes) (ht : Terminated tail)
    (t : Bytes) (hne : t ≠ uninit) (r : Nat) :
    match locate es 0 t r 0 with
    | some (o, e) => getBytes (enc es ++ tail) t r = .ok (o + 12, o + 12 + e.val.length) ∧
        ((enc es ++ tail).drop (o + 12)).take e.val.length = e.val
    | none => ∃ err, getBytes (enc es ++ tail) t r = .err err := by
  have hlen : (enc es ++ tail).length + 1 = (tail.length + 1) + es.length + (enc es).length - es.length := by
    simp; omega
  have hfuel : (enc es ++ tail).length + 1 = ((enc es).length - es.length + tail.length + 1) + es.length := by
    have : es.length ≤ (enc es).length := by
      clear hlen
      induction es with
      | nil => simp
      | cons x xs ih =>
        have hx := hw x (List.mem_cons_self)
        have := ih (fun y hy => hw y (List.mem_cons_of_mem _ hy))
        rw [enc_cons, List.length_append, encEntry_length x hx.1]; simp; omega
    simp; omega
  have hgi : getIndices (enc es ++ tail) t false (some r) =
      match locate es 0 t r 0 with
      | some (o, _) => .ok (idxUnchecked o r)
      | none => getIndicesGo ((enc es).length - es.length + tail.length + 1) tail
          (walkEnd es 0 t 0).1 t false (some r) (walkEnd es 0 t 0).2 := by
    unfold getIndices
    rw [hfuel, getIndicesGo_enc es hw, walkIdx_some]
  cases hloc : locate es 0 t r 0 with
  | none =>
    simp only
    rw [hloc] at hgi
    obtain ⟨e, he⟩ := getIndicesGo_tail_search ((enc es).length - es.length + tail.length) tail ht
      (walkEnd es 0 t 0).1 t hne (some r) (walkEnd es 0 t 0).2
    refine ⟨e, ?_⟩
    unfold getBytes
    rw [hgi, he]; rfl
  | some p =>
    obtain ⟨o, e⟩ := p
    simp only
    rw [hloc] at hgi
    obtain ⟨pre, post, e1, e2, e3, e4⟩ := locate_some es hw 0 t r 0 o e hloc
    have hwe : WfE e := hw e (by rw [e1]; simp)
    have hd : enc es ++ tail = enc pre ++ (encEntry e ++ (enc post ++ tail)) := by
      rw [e1, enc_append, enc_cons]; simp
    obtain ⟨h1, h2, h3, h4, h5, h6⟩ := hdr_facts e (enc post ++ tail) hwe
    rw [DL_eq, LW_eq, HDR_eq] at *
    have ho : o = (enc pre).length := by omega
    have hsl : slice (enc es ++ tail) (o + 8) (o + 8 + 4) = .ok (toLe 4 e.val.length) := by
      rw [hd]
      have : enc pre ++ (encEntry e ++ (enc post ++ tail)) =
          (enc pre ++ e.tag) ++ (toLe 4 e.val.length ++ (e.val ++ (enc post ++ tail))) := by
        simp [encEntry]
      rw [this]
      exact slice_seg _ _ _ _ _ (by simp [ho, hwe.1]) (by simp [ho, hwe.1])
    constructor
    · unfold getBytes
      rw [hgi]
      simp only [Res.bind_ok, idxUnchecked, DL_eq, LW_eq, hsl]
      have : lengthToUsize (toLe 4 e.val.length) = e.val.length :=
        fromLe_toLe 4 _ (by simpa using hwe.2.2)
      rw [this]
      rw [if_neg (by rw [hd]; simp only [List.length_append] at h5 ⊢; omega)]
      rfl
    · rw [hd, drop_append_add _ _ _ 12 (by omega)]
      exact h6

end Tlv
