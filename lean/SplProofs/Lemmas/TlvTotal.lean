/-
  Range and length facts about the TLV mutation primitives that hold for *every* byte string
  (no well-formedness hypothesis): a successful allocate / resize / lookup returns a range of the
  requested length inside the (equally long) resulting buffer.
-/
import SplProofs.Lemmas.TlvMut

namespace Tlv
open Bytes

theorem writeAt_ok_length (d : Bytes) (off : Nat) (bs d1 : Bytes) (h : writeAt d off bs = .ok d1) :
    d1.length = d.length := by
  unfold writeAt at h
  split at h
  · cases h
    simp [List.length_take, List.length_drop]; omega
  · cases h

theorem writeAt_fits (d : Bytes) (off : Nat) (bs : Bytes) (h : off + bs.length ≤ d.length) :
    ∃ d1, writeAt d off bs = .ok d1 := by
  unfold writeAt; rw [if_pos h]; exact ⟨_, rfl⟩

theorem copyWithin_ok_length (d : Bytes) (lo hi dst : Nat) (d1 : Bytes) (h : copyWithin d lo hi dst = .ok d1) :
    d1.length = d.length ∧ lo ≤ hi ∧ dst + (hi - lo) ≤ d.length := by
  unfold copyWithin at h
  split at h
  · cases h
    rename_i hc
    refine ⟨?_, hc.1, hc.2.2⟩
    simp [List.length_take, List.length_drop]; omega
  · cases h

theorem fillZ_ok_length (d : Bytes) (lo hi : Nat) (d1 : Bytes) (h : fillZ d lo hi = .ok d1) :
    d1.length = d.length := by
  unfold fillZ at h
  split at h
  · cases h
    simp [List.length_take, List.length_drop, zeros]; omega
  · cases h

/-- whatever `alloc` returns on success is a range of exactly the requested length inside the
    returned buffer -/
theorem alloc_ok_range (d t : Bytes) (len : Nat) (a : Bool) (d1 : Bytes) (lo hi rep : Nat)
    (h : alloc d t len a = (d1, .ok ((lo, hi), rep))) : hi = lo + len ∧ hi ≤ d1.length := by
  unfold alloc at h
  cases h1 : getIndices d t true (if a then none else some 0) with
  | panic => simp [h1] at h
  | err e => simp [h1] at h
  | ok ix =>
    simp only [h1] at h
    cases h2 : slice d ix.typeStart ix.lengthStart with
    | panic => simp [h2] at h
    | err e => simp [h2] at h
    | ok cur =>
      simp only [h2] at h
      by_cases hc : cur = uninit
      · rw [if_pos hc] at h
        cases h3 : lengthFromUsize len with
        | panic => simp [h3] at h
        | err e => simp [h3] at h
        | ok nl =>
          simp only [h3] at h
          by_cases hroom : d.length < ix.valueStart + len
          · rw [if_pos hroom] at h; simp at h
          · rw [if_neg hroom] at h
            cases h4 : writeAt d ix.typeStart t with
            | panic => simp [h4] at h
            | err e => simp [h4] at h
            | ok d2 =>
              simp only [h4] at h
              cases h5 : writeAt d2 ix.lengthStart nl with
              | panic => simp [h5] at h
              | err e => simp [h5] at h
              | ok d3 =>
                simp only [h5, Prod.mk.injEq, Res.ok.injEq] at h
                obtain ⟨rfl, ⟨rfl, rfl⟩, rfl⟩ := h
                have l1 := writeAt_ok_length _ _ _ _ h4
                have l2 := writeAt_ok_length _ _ _ _ h5
                omega
      · rw [if_neg hc] at h; simp at h

/-- whatever `realloc` returns on success is a range of exactly the requested length inside the
    returned buffer -/
theorem realloc_ok_range (d t : Bytes) (n r : Nat) (d1 : Bytes) (lo hi : Nat)
    (h : realloc d t n r = (d1, .ok (lo, hi))) : hi = lo + n ∧ hi ≤ d1.length := by
  unfold realloc at h
  cases h1 : getIndices d t false (some r) with
  | panic => simp [h1] at h
  | err e => simp [h1] at h
  | ok ix =>
    simp only [h1] at h
    cases h2 : getDiscsAndEnd d with
    | panic => simp [h2] at h
    | err e => simp [h2] at h
    | ok p =>
      obtain ⟨ds, endIdx⟩ := p
      simp only [h2] at h
      cases h3 : slice d ix.lengthStart ix.valueStart with
      | panic => simp [h3] at h
      | err e => simp [h3] at h
      | ok lb =>
        simp only [h3] at h
        split at h
        · simp at h
        · cases h4 : lengthFromUsize n with
          | panic => simp [h4] at h
          | err e => simp [h4] at h
          | ok nl =>
            simp only [h4] at h
            cases h5 : writeAt d ix.lengthStart nl with
            | panic => simp [h5] at h
            | err e => simp [h5] at h
            | ok d2 =>
              simp only [h5] at h
              have l2 := writeAt_ok_length _ _ _ _ h5
              cases h6 : copyWithin d2 (ix.valueStart + lengthToUsize lb) endIdx (ix.valueStart + n) with
              | panic => simp [h6] at h
              | err e => simp [h6] at h
              | ok d3 =>
                simp only [h6] at h
                have ⟨l3, c1, c2⟩ := copyWithin_ok_length _ _ _ _ _ h6
                split at h
                · cases h7 : fillZ d3 (endIdx - (lengthToUsize lb - n)) endIdx with
                  | panic => simp [h7] at h
                  | err e => simp [h7] at h
                  | ok d4 =>
                    simp only [h7, Prod.mk.injEq, Res.ok.injEq] at h
                    obtain ⟨rfl, rfl, rfl⟩ := h
                    have l4 := fillZ_ok_length _ _ _ _ h7
                    omega
                · split at h
                  · cases h7 : fillZ d3 (ix.valueStart + lengthToUsize lb) (ix.valueStart + n) with
                    | panic => simp [h7] at h
                    | err e => simp [h7] at h
                    | ok d4 =>
                      simp only [h7, Prod.mk.injEq, Res.ok.injEq] at h
                      obtain ⟨rfl, rfl, rfl⟩ := h
                      have l4 := fillZ_ok_length _ _ _ _ h7
                      omega
                  · simp only [Prod.mk.injEq, Res.ok.injEq] at h
                    obtain ⟨rfl, rfl, rfl⟩ := h
                    omega

theorem getBytes_ok_range (d t : Bytes) (r lo hi : Nat) (hg : getBytes d t r = .ok (lo, hi)) :
    lo ≤ hi ∧ hi ≤ d.length := by
  unfold getBytes at hg
  cases hi' : getIndices d t false (some r) with
  | panic => simp [hi'] at hg
  | err e => simp [hi'] at hg
  | ok ix =>
    simp only [hi', Res.bind_ok] at hg
    cases hs : slice d ix.lengthStart ix.valueStart with
    | panic => simp [hs] at hg
    | err e => simp [hs] at hg
    | ok lb =>
      simp only [hs, Res.bind_ok] at hg
      split at hg
      · simp at hg
      · rename_i hle
        simp only [Res.pure_eq, Res.ok.injEq, Prod.mk.injEq] at hg
        omega

end Tlv
