import SplProofs.Lemmas.Resolution
import SplProofs.C01
import SplProofs.C09

namespace Resolution
open Bytes ExtraMeta Tlv

/-- decoding of a stored list value: `ListView::<ExtraAccountMeta>::unpack` + element cast -/
def decodeList (v : Bytes) : Res (List Meta) :=
  match ListView.unpack LP 0 v with
  | .ok view => .ok ((ListView.elems LP v view).map ofBytes)
  | .err e => .err e
  | .panic => .panic

theorem toBytes_length (m : Meta) (h : m.cfg.length = 32) : (toBytes m).length = 35 := by
  simp [toBytes, h]

theorem ofBytes_toBytes (m : Meta) (h : m.cfg.length = 32) : ofBytes (toBytes m) = m := by
  cases m with
  | mk d c s w =>
    simp only at h
    simp only [toBytes, ofBytes, List.headD_cons, List.drop_succ_cons, List.drop_zero]
    have h1 : (c ++ [s, w]).take 32 = c := by rw [List.take_append_of_le_length (by omega), List.take_of_length_le (by omega)]
    have h2 : (c ++ [s, w]).drop 32 = [s, w] := by
      rw [List.drop_append_of_le_length (by omega), List.drop_of_length_le (by omega)]; rfl
    have h3 : (c ++ [s, w]).drop 33 = [w] := by
      have : (c ++ [s, w]).drop 33 = ((c ++ [s, w]).drop 32).drop 1 := by rw [List.drop_drop]
      rw [this, h2]; rfl
    simp [h1, h2, h3]

theorem dataStartLP : ListView.dataStart LP = 4 := by decide

/-- the list-view layout over a slot of exactly `4 + 35 n` bytes has capacity `n` -/
theorem buildView_slot (slot : Bytes) (n : Nat) (hl : slot.length = 4 + 35 * n) :
    ∃ l, ListView.buildView LP 0 slot = .ok ⟨l, n⟩ := by
  rw [C10.buildView_char LP wfLP 0 slot, dataStartLP, if_neg (by omega)]
  have : slot.length - 4 = 35 * n := by omega
  rw [this]
  have hc : ListView.castSlice LP (0 + 4) (35 * n) = .ok n := by
    unfold ListView.castSlice
    have a1 : LP.alignT = 1 := rfl
    have a2 : LP.sizeT = 35 := rfl
    rw [a1, a2]
    rw [if_neg (by omega), if_neg (by omega), if_pos (Or.inl ⟨by omega, Nat.mul_mod_right _ _⟩), if_pos (by omega)]
    congr 1
    exact Nat.mul_div_cancel_left n (by omega)
  rw [hc]
  exact ⟨_, rfl⟩

theorem fillList_spec (ms : List Meta) (hm : ∀ m ∈ ms, m.cfg.length = 32) (b : Bytes) (xs : List Bytes)
    (cap : Nat) (hlay : ListView.Lay LP 0 b xs cap) (hroom : xs.length + ms.length ≤ cap)
    (hcap : cap < 2 ^ 31) :
    ∃ b', fillList b ms = (b', .ok ()) ∧ ListView.Lay LP 0 b' (xs ++ ms.map toBytes) cap ∧
      b'.length = b.length := by
  induction ms generalizing b xs with
  | nil => exact ⟨b, rfl, by simpa using hlay, rfl⟩
  | cons m rest ih =>
    have hml := toBytes_length m (hm m (List.mem_cons_self))
    have hp := (ListView.push_spec hlay (toBytes m) (by rw [hml]; rfl)).1
      ⟨by simp at hroom; omega, by
        simp only [LP]
        have : xs.length + 1 < 2 ^ 32 := by simp at hroom; omega
        simpa using this⟩
    obtain ⟨b1, e1, e2⟩ := hp
    obtain ⟨b2, f1, f2, f3⟩ := ih (fun x hx => hm x (List.mem_cons_of_mem _ hx)) b1 (xs ++ [toBytes m]) e2
      (by simp at hroom ⊢; omega)
    refine ⟨b2, ?_, by simpa using f2, ?_⟩
    · simp only [fillList, e1, f1]
    · rw [f3, (ListView.lay_length e2).1, (ListView.lay_length hlay).1]

/-- writing a list into a slot of the advertised size always succeeds and decodes back exactly -/
theorem writeList_spec (slot : Bytes) (ms : List Meta) (hm : ∀ m ∈ ms, m.cfg.length = 32)
    (hl : slot.length = 4 + 35 * ms.length) (hn : ms.length < 2 ^ 31) :
    ∃ slot', writeList slot ms = (slot', .ok ()) ∧ slot'.length = slot.length ∧
      decodeList slot' = .ok ms := by
  obtain ⟨l, hb⟩ := buildView_slot slot ms.length hl
  have hcap : (⟨l, ms.length⟩ : ListView.View).cap < ListView.usizeMax := by
    rw [ListView.usizeMax_eq]; simp only; omega
  obtain ⟨b0, i1, i2, i3⟩ := ListView.init_spec wfLP hb hcap
  obtain ⟨b1, f1, f2, f3⟩ := fillList_spec ms hm b0 [] ms.length i2 (by simp) hn
  refine ⟨b1, ?_, by rw [f3, i3], ?_⟩
  · simp only [writeList, i1, f1]
  · simp only [List.nil_append] at f2
    obtain ⟨_, u2, u3⟩ := ListView.lay_unpack f2
    unfold decodeList
    simp only [List.length_map] at u2 u3
    rw [u2]
    simp only [u3, List.map_map]
    congr 1
    rw [List.map_congr_left (g := id)]
    · simp
    · intro m hmem
      exact ofBytes_toBytes m (hm m hmem)

/-- reading a list back from canonical bytes = decoding the abstract value of its entry -/
theorem readList_canon (s : AState) (hw : AWf s) (t : Bytes) (hne : t ≠ uninit) :
    (∀ v, C01.aGet s t 0 = some v → readList (encS s) t = decodeList v) ∧
    (C01.aGet s t 0 = none → (readList (encS s) t).isErr = true) := by
  obtain ⟨hu, _, hl⟩ := C01.C01_reopen s hw
  obtain ⟨h1, h2⟩ := hl t hne 0
  constructor
  · intro v hv
    obtain ⟨lo, hg, hb⟩ := h1 v hv
    unfold readList decodeList
    rw [hu, hg]
    simp only
    have : lo + v.length - lo = v.length := by omega
    rw [this, hb]
    cases ListView.unpack LP 0 v <;> rfl
  · intro hn
    have := h2 hn
    unfold readList
    rw [hu]
    simp only
    cases hg : getBytes (encS s) t 0 with
    | ok p => rw [hg] at this; simp [Res.isErr] at this
    | err e => rfl
    | panic => rw [hg] at this; simp [Res.isErr] at this

end Resolution
