import SplProofs.Lemmas.Tlv

namespace Tlv
open Bytes

theorem enc_len_ge' (es : List Entry) (hw : ∀ e ∈ es, WfE e) : es.length ≤ (enc es).length := by
  induction es with
  | nil => simp
  | cons x xs ih =>
    have hx := hw x (List.mem_cons_self)
    have := ih (fun y hy => hw y (List.mem_cons_of_mem _ hy))
    rw [enc_cons, List.length_append, encEntry_length x hx.1]; simp; omega

theorem fuel_split (es : List Entry) (hw : ∀ e ∈ es, WfE e) (tail : Bytes) :
    (enc es ++ tail).length + 1 = ((enc es).length - es.length + tail.length + 1) + es.length := by
  have := enc_len_ge' es hw
  simp; omega

theorem getDiscsAndEnd_wf' (es : List Entry) (hw : ∀ e ∈ es, WfE e) (tail : Bytes) (ht : Terminated tail) :
    getDiscsAndEnd (enc es ++ tail) = .ok (es.map (·.tag), (enc es).length) := by
  unfold getDiscsAndEnd
  have := enc_len_ge' es hw
  have hf : (enc es ++ tail).length + 1 = (((enc es).length - es.length + tail.length) + 1) + es.length := by
    simp; omega
  rw [hf, getDiscsGo_enc es hw, getDiscsGo_tail _ tail ht]
  simp

/-- the allocation search (`init = true`) at a terminated tail -/
theorem getIndicesGo_tail_init (f : Nat) (tail : Bytes) (ht : Terminated tail) (off : Nat) (t : Bytes)
    (hne : t ≠ uninit) (want : Option Nat) (cur : Nat) :
    getIndicesGo (f + 1) tail off t true want cur =
      if tail.length < 12 then .err .invalidAccountData else .ok (idxUnchecked off cur) := by
  rw [getIndicesGo_succ]
  by_cases he : tail.isEmpty = true
  · have : tail = [] := List.isEmpty_iff.mp he
    subst this; simp
  · rw [if_neg he]
    by_cases h12 : tail.length < HDR
    · rw [if_pos h12, if_pos (by rw [HDR_eq] at h12; exact h12)]
    · rw [if_neg h12]
      have h12' : ¬ tail.length < 12 := by rw [HDR_eq] at h12; exact h12
      simp only [h12', if_false]
      have hz : tail.take DL = uninit := by
        rcases ht with rfl | ⟨hl, _⟩ | ⟨_, hz⟩
        · simp at he
        · rw [HDR_eq] at h12; omega
        · rw [DL_eq]; exact hz
      rw [hz, if_neg (fun h => hne h.symm), if_pos rfl]
      rfl

/-- `get_indices` for an allocation on a well-formed buffer -/
theorem getIndices_alloc_wf (es : List Entry) (hw : ∀ e ∈ es, WfE e) (tail : Bytes) (ht : Terminated tail)
    (t : Bytes) (hne : t ≠ uninit) (allowRep : Bool) :
    getIndices (enc es ++ tail) t true (if allowRep then none else some 0) =
      if allowRep = false ∧ (locate es 0 t 0 0).isSome then
        .ok (idxUnchecked (((locate es 0 t 0 0).map (·.1)).getD 0) 0)
      else if tail.length < 12 then .err .invalidAccountData
      else .ok (idxUnchecked (enc es).length (es.filter (·.tag = t)).length) := by
  unfold getIndices
  rw [fuel_split es hw tail, getIndicesGo_enc es hw]
  cases allowRep with
  | true =>
    simp only [if_true, Bool.true_eq_false, false_and, if_false]
    rw [walkIdx_none, walkEnd_spec es hw, getIndicesGo_tail_init _ tail ht _ t hne]
    simp
  | false =>
    simp only [Bool.false_eq_true, if_false, true_and]
    rw [walkIdx_some]
    cases hloc : locate es 0 t 0 0 with
    | some p => obtain ⟨o, e⟩ := p; simp
    | none =>
      simp only [Option.isSome_none, Bool.false_eq_true, if_false]
      rw [walkEnd_spec es hw, getIndicesGo_tail_init _ tail ht _ t hne]
      have := locate_none es 0 t 0 0 (Nat.le_refl _) hloc
      have h0 : (es.filter (·.tag = t)).length = 0 := by omega
      simp [h0]


theorem locate_isSome_iff (es : List Entry) (off : Nat) (t : Bytes) :
    (locate es off t 0 0).isSome = true ↔ ∃ e ∈ es, e.tag = t := by
  induction es generalizing off with
  | nil => simp [locate]
  | cons x xs ih =>
    simp only [locate]
    by_cases hx : x.tag = t
    · simp [hx]
    · simp only [hx, if_false, ih, List.mem_cons]
      constructor
      · rintro ⟨e, he, h⟩; exact ⟨e, Or.inr he, h⟩
      · rintro ⟨e, he | he, h⟩
        · subst he; exact absurd h hx
        · exact ⟨e, he, h⟩

theorem terminated_take (tail : Bytes) (ht : Terminated tail) (h : ¬ tail.length < 12) :
    tail.take 8 = uninit := by
  rcases ht with rfl | ⟨hl, _⟩ | ⟨_, hz⟩
  · simp at h
  · omega
  · exact hz

/-- `alloc` on a well-formed buffer, completely characterised. -/
theorem alloc_wf (es : List Entry) (hw : ∀ e ∈ es, WfE e) (tail : Bytes) (ht : Terminated tail)
    (t : Bytes) (h8 : t.length = 8) (hne : t ≠ uninit) (len : Nat) (allowRep : Bool) :
    alloc (enc es ++ tail) t len allowRep =
      if allowRep = false ∧ (∃ e ∈ es, e.tag = t) then (enc es ++ tail, .err eTypeAlreadyExists)
      else if tail.length < 12 then (enc es ++ tail, .err .invalidAccountData)
      else if ¬ len < 2 ^ 32 then (enc es ++ tail, .err .accountDataTooSmall)
      else if tail.length < 12 + len then (enc es ++ tail, .err .invalidAccountData)
      else (enc es ++ (t ++ (toLe 4 len ++ tail.drop 12)),
        .ok (((enc es).length + 12, (enc es).length + 12 + len), (es.filter (·.tag = t)).length)) := by
  unfold alloc
  rw [getIndices_alloc_wf es hw tail ht t hne allowRep]
  by_cases hex : allowRep = false ∧ (∃ e ∈ es, e.tag = t)
  · have hsome : (locate es 0 t 0 0).isSome = true := (locate_isSome_iff es 0 t).mpr hex.2
    rw [if_pos ⟨hex.1, hsome⟩, if_pos hex]
    cases hloc : locate es 0 t 0 0 with
    | none => rw [hloc] at hsome; simp at hsome
    | some p =>
      obtain ⟨o, e⟩ := p
      obtain ⟨pre, post, e1, e2, e3, e4⟩ := locate_some es hw 0 t 0 0 o e hloc
      have hwe : WfE e := hw e (by rw [e1]; simp)
      simp only [Option.map_some, Option.getD_some, idxUnchecked, DL_eq]
      have hd : enc es ++ tail = enc pre ++ (e.tag ++ ((toLe 4 e.val.length ++ e.val) ++ (enc post ++ tail))) := by
        rw [e1, enc_append, enc_cons]; simp [encEntry]
      have hs : slice (enc es ++ tail) o (o + 8) = .ok e.tag := by
        rw [hd]; exact slice_seg _ _ _ _ _ (by omega) (by rw [hwe.1]; omega)
      simp only [hs]
      rw [if_neg (by rw [e2]; exact hne)]
  · have hnone : ¬ (allowRep = false ∧ (locate es 0 t 0 0).isSome = true) := by
      intro ⟨h1, h2⟩; exact hex ⟨h1, (locate_isSome_iff es 0 t).mp h2⟩
    rw [if_neg hnone, if_neg hex]
    by_cases h12 : tail.length < 12
    · simp only [h12, if_true]
    · simp only [h12, if_false, idxUnchecked, DL_eq, LW_eq]
      have hz := terminated_take tail ht h12
      have htail : tail = tail.take 8 ++ ((tail.drop 8).take 4 ++ tail.drop 12) := by
        have a1 := (List.take_append_drop 8 tail).symm
        have a2 := (List.take_append_drop 4 (tail.drop 8)).symm
        rw [List.drop_drop] at a2
        conv => lhs; rw [a1, a2]
      have hd : enc es ++ tail = enc es ++ (tail.take 8 ++ ((tail.drop 8).take 4 ++ tail.drop 12)) := by
        rw [← htail]
      have hs : slice (enc es ++ tail) (enc es).length ((enc es).length + 8) = .ok (tail.take 8) := by
        rw [hd]; exact slice_seg _ _ _ _ _ rfl (by simp [List.length_take]; omega)
      simp only [hs, hz, if_true]
      unfold lengthFromUsize
      rw [LW_eq]
      by_cases hl : len < 2 ^ 32
      · have hl' : len < 2 ^ (8 * 4) := by simpa using hl
        simp only [hl', if_true, hl, not_true_eq_false, if_false]
        by_cases hroom : tail.length < 12 + len
        · rw [if_pos (by simp only [List.length_append]; omega), if_pos hroom]
        · rw [if_neg (by simp only [List.length_append]; omega), if_neg hroom]
          have hw1 : writeAt (enc es ++ tail) (enc es).length t =
              .ok (enc es ++ (t ++ ((tail.drop 8).take 4 ++ tail.drop 12))) := by
            rw [hd]; exact writeAt_seg _ _ _ _ _ rfl (by simp [h8, List.length_take]; omega)
          have hw2 : writeAt (enc es ++ (t ++ ((tail.drop 8).take 4 ++ tail.drop 12))) ((enc es).length + 8)
              (toLe 4 len) = .ok ((enc es ++ t) ++ (toLe 4 len ++ tail.drop 12)) := by
            have : enc es ++ (t ++ ((tail.drop 8).take 4 ++ tail.drop 12)) =
                (enc es ++ t) ++ ((tail.drop 8).take 4 ++ tail.drop 12) := by simp
            rw [this]
            exact writeAt_seg _ _ _ _ _ (by simp [h8]) (by simp [List.length_take, List.length_drop]; omega)
          simp only [hw1, hw2, List.append_assoc]
      · have hl' : ¬ len < 2 ^ (8 * 4) := by simpa using hl
        simp only [hl', if_false, hl, not_false_eq_true, if_true]


theorem locate_of_split (pre post : List Entry) (e : Entry) (hw : ∀ x ∈ pre, WfE x) (t : Bytes)
    (htag : e.tag = t) (off r cur : Nat) (hc : cur + (pre.filter (·.tag = t)).length = r) :
    locate (pre ++ e :: post) off t r cur = some (off + (enc pre).length, e) := by
  induction pre generalizing off cur with
  | nil =>
    simp only [List.filter_nil, List.length_nil, Nat.add_zero] at hc
    simp [locate, htag, hc]
  | cons x xs ih =>
    have hx := hw x (List.mem_cons_self)
    have hw' : ∀ y ∈ xs, WfE y := fun y hy => hw y (List.mem_cons_of_mem _ hy)
    simp only [List.cons_append, locate, enc_cons, List.length_append, encEntry_length x hx.1]
    by_cases ht : x.tag = t
    · simp only [List.filter_cons, ht, decide_true, if_true, List.length_cons] at hc
      simp only [ht, if_true]
      rw [if_neg (by omega), ih hw' _ (cur + 1) (by omega), HDR_eq]
      congr 2; omega
    · simp only [List.filter_cons, ht, decide_false] at hc
      simp only [ht, if_false]
      rw [ih hw' _ cur (by simpa using hc), HDR_eq]
      congr 2; omega

theorem copyWithin_same (d : Bytes) (lo hi : Nat) (h1 : lo ≤ hi) (h2 : hi ≤ d.length) :
    copyWithin d lo hi lo = .ok d := by
  unfold copyWithin
  rw [if_pos ⟨h1, h2, by omega⟩]
  congr 1
  have : lo + (hi - lo) = hi := by omega
  rw [this]
  have a1 : d = d.take lo ++ d.drop lo := (List.take_append_drop lo d).symm
  have a2 : d.drop lo = (d.drop lo).take (hi - lo) ++ d.drop hi := by
    have := (List.take_append_drop (hi - lo) (d.drop lo)).symm
    rw [List.drop_drop] at this
    rwa [show lo + (hi - lo) = hi by omega] at this
  conv => rhs; rw [a1, a2]

/-- `realloc` of the `r`-th entry of type `t` on a well-formed buffer, completely characterised. -/
theorem realloc_wf (pre post : List Entry) (e : Entry) (hw : ∀ x ∈ pre ++ e :: post, WfE x)
    (tail : Bytes) (ht : Terminated tail) (t : Bytes) (hne : t ≠ uninit) (htag : e.tag = t) (r : Nat)
    (hc : (pre.filter (·.tag = t)).length = r) (n : Nat) :
    realloc (enc (pre ++ e :: post) ++ tail) t n r =
      if e.val.length < n ∧ tail.length < n - e.val.length then
        (enc (pre ++ e :: post) ++ tail, .err .invalidAccountData)
      else if ¬ n < 2 ^ 32 then (enc (pre ++ e :: post) ++ tail, .err .accountDataTooSmall)
      else if e.val.length < n then
        (enc (pre ++ ⟨t, e.val ++ zeros (n - e.val.length)⟩ :: post) ++ tail.drop (n - e.val.length),
          .ok ((enc pre).length + 12, (enc pre).length + 12 + n))
      else if n < e.val.length then
        (enc (pre ++ ⟨t, e.val.take n⟩ :: post) ++ (zeros (e.val.length - n) ++ tail),
          .ok ((enc pre).length + 12, (enc pre).length + 12 + n))
      else (enc (pre ++ e :: post) ++ tail, .ok ((enc pre).length + 12, (enc pre).length + 12 + n)) := by
  have hwe : WfE e := hw e (by simp)
  have hwpre : ∀ x ∈ pre, WfE x := fun x hx => hw x (by simp [hx])
  have ht8 : t.length = 8 := by rw [← htag]; exact hwe.1
  have hvl : e.val.length < 2 ^ 32 := hwe.2.2
  -- the index search
  have hgi : getIndices (enc (pre ++ e :: post) ++ tail) t false (some r) =
      .ok (idxUnchecked (enc pre).length r) := by
    unfold getIndices
    rw [fuel_split _ hw tail, getIndicesGo_enc _ hw, walkIdx_some,
      locate_of_split pre post e hwpre t htag 0 r 0 (by omega)]
    simp
  have hge := getDiscsAndEnd_wf' _ hw tail ht
  -- name the segments
  have hd : enc (pre ++ e :: post) ++ tail =
      (enc pre ++ t) ++ (toLe 4 e.val.length ++ (e.val ++ (enc post ++ tail))) := by
    rw [enc_append, enc_cons]; simp [encEntry, htag]
  have hA : (enc pre ++ t).length = (enc pre).length + 8 := by simp [ht8]
  have hEnd : (enc (pre ++ e :: post)).length = (enc pre).length + 12 + e.val.length + (enc post).length := by
    rw [enc_append, enc_cons]; simp [encEntry_length e hwe.1]; omega
  have hsl : slice (enc (pre ++ e :: post) ++ tail) ((enc pre).length + 8) ((enc pre).length + 8 + 4) =
      .ok (toLe 4 e.val.length) := by
    rw [hd]; exact slice_seg _ _ _ _ _ hA.symm (by simp [ht8])
  have hold : lengthToUsize (toLe 4 e.val.length) = e.val.length := fromLe_toLe 4 _ (by simpa using hvl)
  unfold realloc
  rw [hgi, hge]
  simp only [idxUnchecked, DL_eq, LW_eq, hsl, hold]
  by_cases hgrowfail : e.val.length < n ∧ tail.length < n - e.val.length
  · rw [if_pos hgrowfail, if_pos ⟨hgrowfail.1, by rw [hEnd]; simp only [List.length_append]; omega⟩]
  · rw [if_neg hgrowfail]
    rw [if_neg (by
      intro ⟨h1, h2⟩
      apply hgrowfail
      refine ⟨h1, ?_⟩
      rw [hEnd] at h2; simp only [List.length_append] at h2; omega)]
    unfold lengthFromUsize
    rw [LW_eq]
    by_cases hn : n < 2 ^ 32
    · have hn' : n < 2 ^ (8 * 4) := by simpa using hn
      simp only [hn', if_true, hn, not_true_eq_false, if_false]
      have hw1 : writeAt (enc (pre ++ e :: post) ++ tail) ((enc pre).length + 8) (toLe 4 n) =
          .ok ((enc pre ++ t) ++ (toLe 4 n ++ (e.val ++ (enc post ++ tail)))) := by
        rw [hd]; exact writeAt_seg _ _ _ _ _ hA.symm (by simp)
      simp only [hw1]
      have hApl : ((enc pre ++ t) ++ toLe 4 n).length = (enc pre).length + 12 := by simp [ht8]
      by_cases hgrow : e.val.length < n
      · -- grow: tail = G ++ T'
        have hroom : n - e.val.length ≤ tail.length := by
          by_cases h : tail.length < n - e.val.length
          · exact absurd ⟨hgrow, h⟩ hgrowfail
          · omega
        have hGl : (tail.take (n - e.val.length)).length = n - e.val.length := by
          simp [List.length_take]; omega
        have hd1 : (enc pre ++ t) ++ (toLe 4 n ++ (e.val ++ (enc post ++ tail))) =
            ((enc pre ++ t) ++ toLe 4 n) ++ (e.val ++ (enc post ++
              (tail.take (n - e.val.length) ++ tail.drop (n - e.val.length)))) := by
          rw [List.take_append_drop]; simp
        obtain ⟨d2, hc1, hf1⟩ := grow_seg ((enc pre ++ t) ++ toLe 4 n) e.val (enc post)
          (tail.take (n - e.val.length)) (tail.drop (n - e.val.length))
          ((enc pre).length + 8 + 4 + e.val.length) ((enc (pre ++ e :: post)).length)
          ((enc pre).length + 8 + 4 + n) (by rw [hApl]) (by rw [hEnd]; first | done | omega) (by rw [hGl]; first | done | omega : (enc pre).length + 8 + 4 + n = (enc pre).length + 8 + 4 + e.val.length + (tail.take (n - e.val.length)).length)
        rw [hd1]
        simp only [hc1]
        rw [if_neg (by omega), if_pos hgrow]
        simp only [hf1, hGl]
        simp only [enc_append, enc_cons, encEntry, List.length_append, zeros_len, List.append_assoc]
        have : e.val.length + (n - e.val.length) = n := by omega
        have e1 : (enc pre).length + 8 + 4 = (enc pre).length + 12 := by omega
        rw [this, e1, if_pos hgrow]
      · by_cases hshrink : n < e.val.length
        · -- shrink: v = v1 ++ v2
          have hv1 : (e.val.take n).length = n := by simp [List.length_take]; omega
          have hv2 : (e.val.drop n).length = e.val.length - n := by simp
          have hd1 : (enc pre ++ t) ++ (toLe 4 n ++ (e.val ++ (enc post ++ tail))) =
              ((enc pre ++ t) ++ toLe 4 n) ++ (e.val.take n ++ (e.val.drop n ++ (enc post ++ tail))) := by
            have := List.take_append_drop n e.val
            simp only [List.append_assoc]
            conv => lhs; rw [← this]
            simp only [List.append_assoc]
          obtain ⟨d2, hc1, hf1⟩ := shrink_seg ((enc pre ++ t) ++ toLe 4 n) (e.val.take n) (e.val.drop n)
            (enc post) tail ((enc pre).length + 8 + 4 + e.val.length) ((enc (pre ++ e :: post)).length)
            ((enc pre).length + 8 + 4 + n) (by rw [hApl, hv1]) (by rw [hv2]; first | done | omega : (enc pre).length + 8 + 4 + e.val.length = (enc pre).length + 8 + 4 + n + (e.val.drop n).length) (by rw [hEnd]; first | done | omega)
          rw [hd1]
          simp only [hc1]
          rw [if_pos hshrink]
          rw [hv2] at hf1
          simp only [hf1]
          have e1 : (enc pre).length + 8 + 4 = (enc pre).length + 12 := by omega
          simp only [enc_append, enc_cons, encEntry, hv1, List.append_assoc, if_neg hgrow, e1, if_pos hshrink]
        · -- same size
          have heq : n = e.val.length := by omega
          subst heq
          have hc1 := copyWithin_same ((enc pre ++ t) ++ (toLe 4 e.val.length ++ (e.val ++ (enc post ++ tail))))
            ((enc pre).length + 8 + 4 + e.val.length) ((enc (pre ++ e :: post)).length)
            (by rw [hEnd]; omega) (by rw [hEnd]; simp only [List.length_append, ht8, toLe_length]; omega)
          simp only [hc1]
          have e1 : (enc pre).length + 8 + 4 = (enc pre).length + 12 := by omega
          rw [if_neg (by omega), if_neg (by omega), ← hd, e1, if_neg (by omega), if_neg (by omega)]
    · have hn' : ¬ n < 2 ^ (8 * 4) := by simpa using hn
      simp only [hn', if_false, hn, not_false_eq_true, if_true]

end Tlv
