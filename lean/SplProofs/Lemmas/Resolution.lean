import SplModel.Resolution
import SplProofs.C02
import SplProofs.C05
import SplProofs.C10

namespace Resolution
open Bytes ExtraMeta

theorem wfLP : C10.WfP LP := by unfold C10.WfP LP; decide

theorem chunks_lengths (k n : Nat) (b : Bytes) (h : n * k ≤ b.length) :
    ∀ c ∈ Pod.chunks k n b, c.length = k := by
  induction n generalizing b with
  | zero => intro c hc; simp [Pod.chunks] at hc
  | succ n ih =>
    intro c hc
    rw [Nat.succ_mul] at h
    simp only [Pod.chunks, List.mem_cons] at hc
    rcases hc with rfl | hc
    · simp [List.length_take]; omega
    · exact ih (b.drop k) (by simp [List.length_drop]; omega) c hc

theorem readList_ne_panic (stored disc : Bytes) : readList stored disc ≠ .panic := by
  unfold readList
  have t := C02.C02_total stored disc 0 0
  cases hu : Tlv.unpack stored with
  | panic => exact absurd hu t.1
  | err e => simp
  | ok u =>
    simp only
    cases hg : Tlv.getBytes stored disc 0 with
    | panic => exact absurd hg t.2.2.1
    | err e => simp
    | ok p =>
      obtain ⟨lo, hi⟩ := p
      simp only
      cases hl : ListView.unpack LP 0 ((stored.drop lo).take (hi - lo)) with
      | panic => exact absurd hl (C10.C10_total LP wfLP 0 _).1
      | err e => simp
      | ok v => simp

/-- every config read from stored data has a 32-byte address config -/
theorem readList_cfg_len (stored disc : Bytes) (cfgs : List Meta) (h : readList stored disc = .ok cfgs) :
    ∀ m ∈ cfgs, m.cfg.length = 32 := by
  unfold readList at h
  cases hu : Tlv.unpack stored with
  | panic => simp [hu] at h
  | err e => simp [hu] at h
  | ok u =>
    simp only [hu] at h
    cases hg : Tlv.getBytes stored disc 0 with
    | panic => simp [hg] at h
    | err e => simp [hg] at h
    | ok p =>
      obtain ⟨lo, hi⟩ := p
      simp only [hg] at h
      cases hl : ListView.unpack LP 0 ((stored.drop lo).take (hi - lo)) with
      | panic => simp [hl] at h
      | err e => simp [hl] at h
      | ok v =>
        simp only [hl, Res.ok.injEq] at h
        subst h
        obtain ⟨h1, h2, h3, _, _, h6, _⟩ := C10.C10_ok LP wfLP 0 _ v hl
        have hds : ListView.dataStart LP = 4 := by decide
        intro m hm
        simp only [List.mem_map] at hm
        obtain ⟨c, hc, rfl⟩ := hm
        have hcl : c.length = 35 := by
          unfold ListView.elems at hc
          apply chunks_lengths 35 v.len _ _ c hc
          rw [List.length_drop, hds]
          by_cases h0 : v.len = 0
          · simp [h0]
          · have := h6 (v.len - 1) (by omega)
            have e : v.len - 1 + 1 = v.len := by omega
            rw [e, hds] at this
            simp only [LP] at this ⊢
            omega
        simp [ofBytes, List.length_take, List.length_drop, hcl]

/-- resolution always carries the configured flags -/
theorem resolve_flags (pda : List Bytes → Bytes → Option Bytes) (m : Meta) (ix prog : Bytes)
    (accts : List Acct) (am : AccountMeta) (h : resolve pda m ix prog accts = .ok am) :
    am.signer = Pod.toBool m.isSigner ∧ am.writable = Pod.toBool m.isWritable := by
  unfold resolve at h
  split at h
  · cases h; exact ⟨rfl, rfl⟩
  · split at h
    · -- PDA kinds
      revert h
      generalize (if m.disc = 1 then Res.ok prog else
        match accts[m.disc.toNat - TOP]? with
        | none => Res.err eAccountNotFound
        | some a => Res.ok a.key) = pr
      intro h
      cases pr with
      | panic => simp at h
      | err e => simp at h
      | ok p =>
        simp only at h
        cases hu : Seeds.unpackAddressConfig m.cfg with
        | panic => simp [hu] at h
        | err e => simp [hu] at h
        | ok seeds =>
          simp only [hu] at h
          cases hr : resolvePda pda seeds ix p accts with
          | panic => simp [hr] at h
          | err e => simp [hr] at h
          | ok k => simp only [hr, Res.ok.injEq] at h; cases h; exact ⟨rfl, rfl⟩
    · split at h
      · cases hk : Seeds.kdUnpack m.cfg with
        | panic => simp [hk] at h
        | err e => simp [hk] at h
        | ok kd =>
          simp only [hk] at h
          cases hr : resolveKeyData kd ix accts with
          | panic => simp [hr] at h
          | err e => simp [hr] at h
          | ok k => simp only [hr, Res.ok.injEq] at h; cases h; exact ⟨rfl, rfl⟩
      · simp at h

end Resolution
