/-
  Translation validation for generic-token: the boolean predicates that the translator regenerates
  from the Rust source on every run (`SplModel/Generated/TokenFns.lean`, expression by expression)
  denote exactly the hand-written model functions the C16 / C17 theorems are about.  The proofs
  case-split on the atoms of the predicates and finish with `simp_all`, so a behaviour-preserving
  rearrangement of the source expression still checks, while a change of meaning does not.
-/
import SplModel.Token
import SplModel.Generated.TokenFns

namespace TokenGen
open Token Bytes Gen.Token Gen.TokenFns

theorem toNat_ne_zero (b : UInt8) : (b.toNat != 0) = (b != 0) := by
  by_cases hb : b = 0
  · subst hb; decide
  · have : b.toNat ≠ 0 := fun h0 => hb (UInt8.toNat_inj.mp (by simpa using h0))
    have e1 : (b.toNat != 0) = true := by simpa using this
    have e2 : (b != 0) = true := by simpa using hb
    rw [e1, e2]

theorem gen_isInit (d : Bytes) (off : Nat) :
    token_is_initialized_token_data d off = .ok (isInitializedTokenData d off) := by
  simp only [token_is_initialized_token_data, isInitializedTokenData, byteAt, RX.ne, RX.lit_eq, RX.getOr_ok, RX.cmp_ok]
  cases h : d[off]? with
  | none => rfl
  | some b =>
    simp only [Option.map_some, Option.getD_some]
    rw [toNat_ne_zero]

theorem gen_tokenAccountValid (d : Bytes) :
    token_Account_valid_account_data d = .ok (tokenAccountValid d) := by
  simp only [token_Account_valid_account_data, token_is_initialized_account, tokenAccountValid, isInitializedAccount,
    gen_isInit, RX.eq, RX.len_eq, RX.lit_eq, RX.cmp_ok, RX.and_ok, RX.or_ok, RX.ifB_ok, RX.bindN_ok]
  cases h1 : (d.length == SPL_TOKEN_ACCOUNT_LENGTH) <;>
    cases h2 : isInitializedTokenData d SPL_TOKEN_ACCOUNT_STATE_OFFSET <;> simp_all

theorem gen_tokenMintValid (d : Bytes) :
    token_Mint_valid_account_data d = .ok (tokenMintValid d) := by
  simp only [token_Mint_valid_account_data, token_is_initialized_mint, tokenMintValid, isInitializedMint,
    gen_isInit, RX.eq, RX.len_eq, RX.lit_eq, RX.cmp_ok, RX.and_ok, RX.or_ok, RX.ifB_ok, RX.bindN_ok]
  cases h1 : (d.length == SPL_TOKEN_MINT_LENGTH) <;>
    cases h2 : isInitializedTokenData d SPL_TOKEN_MINT_IS_INITIALIZED_OFFSET <;> simp_all

theorem gen_t22AccountValid (d : Bytes) :
    token_2022_Account_valid_account_data d = t22AccountValid d := by
  simp only [token_2022_Account_valid_account_data, t22AccountValid, gen_tokenAccountValid, token_is_initialized_account,
    gen_isInit, RX.or_ok, RX.and_ok, RX.ifB_ok, RX.bindN_ok, RX.gt, RX.ne, RX.eq, RX.cmp_ok, RX.len_eq, RX.lit_eq, RX.index_ok, Token.index, isInitializedAccount]
  cases hv : tokenAccountValid d <;>
    cases h1 : decide (d.length > SPL_TOKEN_ACCOUNT_LENGTH) <;>
    cases h2 : (d.length != SPL_TOKEN_MULTISIG_LENGTH) <;>
    cases h3 : d[SPL_TOKEN_ACCOUNT_LENGTH]? <;>
    cases h5 : isInitializedTokenData d SPL_TOKEN_ACCOUNT_STATE_OFFSET <;>
    simp_all <;>
    (rename_i b; cases h4 : (ACCOUNTTYPE_ACCOUNT == b.toNat) <;> simp_all)

theorem gen_t22MintValid (d : Bytes) :
    token_2022_Mint_valid_account_data d = t22MintValid d := by
  simp only [token_2022_Mint_valid_account_data, t22MintValid, gen_tokenMintValid, token_is_initialized_mint,
    gen_isInit, RX.or_ok, RX.and_ok, RX.ifB_ok, RX.bindN_ok, RX.gt, RX.ne, RX.eq, RX.cmp_ok, RX.len_eq, RX.lit_eq, RX.index_ok, Token.index, isInitializedMint]
  cases hv : tokenMintValid d <;>
    cases h1 : decide (d.length > SPL_TOKEN_ACCOUNT_LENGTH) <;>
    cases h2 : (d.length != SPL_TOKEN_MULTISIG_LENGTH) <;>
    cases h3 : d[SPL_TOKEN_ACCOUNT_LENGTH]? <;>
    cases h5 : isInitializedTokenData d SPL_TOKEN_MINT_IS_INITIALIZED_OFFSET <;>
    simp_all <;>
    (rename_i b; cases h4 : (ACCOUNTTYPE_MINT == b.toNat) <;> simp_all)

theorem gen_isKnown (p : Bytes) : lib_is_known_spl_token_id p = .ok (isKnownId p) := by
  simp only [lib_is_known_spl_token_id, isKnownId, RX.eqBytes, RX.or_ok]
  cases h1 : (p == TOKEN_ID) <;> cases h2 : (p == TOKEN_2022_ID) <;> simp_all
end TokenGen
