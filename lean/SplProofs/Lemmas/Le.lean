import SplModel.Basic

namespace Bytes

@[simp] theorem toLe_length (k n : Nat) : (toLe k n).length = k := by
  induction k generalizing n with
  | zero => rfl
  | succ k ih => simp [toLe, ih]

theorem fromLe_toLe (k n : Nat) (h : n < 2 ^ (8 * k)) : fromLe (toLe k n) = n := by
  induction k generalizing n with
  | zero => simp at h; simp [toLe, fromLe, h]
  | succ k ih =>
    have h' : n / 256 < 2 ^ (8 * k) := by
      have : 2 ^ (8 * (k + 1)) = 256 * 2 ^ (8 * k) := by
        rw [Nat.mul_succ, Nat.pow_add]; simp [Nat.mul_comm]
      rw [this] at h
      exact Nat.div_lt_of_lt_mul h
    simp only [toLe, fromLe, ih _ h', UInt8.toNat_ofNat']
    omega

theorem fromLe_lt (b : Bytes) : fromLe b < 2 ^ (8 * b.length) := by
  induction b with
  | nil => simp [fromLe]
  | cons x xs ih =>
    have : 2 ^ (8 * (xs.length + 1)) = 256 * 2 ^ (8 * xs.length) := by
      rw [Nat.mul_succ, Nat.pow_add]; simp [Nat.mul_comm]
    simp only [fromLe, List.length_cons, this]
    have hx := x.toNat_lt
    omega

theorem toLe_fromLe (b : Bytes) : toLe b.length (fromLe b) = b := by
  induction b with
  | nil => rfl
  | cons x xs ih =>
    have hx := x.toNat_lt
    have h1 : (x.toNat + 256 * fromLe xs) % 256 = x.toNat := by omega
    have h2 : (x.toNat + 256 * fromLe xs) / 256 = fromLe xs := by omega
    simp only [List.length_cons, toLe, fromLe, h1, h2, ih, UInt8.ofNat_toNat]

/-- byte `j` of the little-endian encoding is `n / 256^j % 256` -/
theorem toLe_getElem (k n j : Nat) (h : j < k) :
    (toLe k n)[j]? = some (UInt8.ofNat (n / 256 ^ j % 256)) := by
  induction k generalizing n j with
  | zero => omega
  | succ k ih =>
    cases j with
    | zero => simp [toLe]
    | succ j =>
      simp only [toLe, List.getElem?_cons_succ]
      rw [ih (n / 256) j (by omega), Nat.pow_succ, Nat.div_div_eq_div_mul, Nat.mul_comm]

theorem zeros_get? (n i : Nat) (h : i < n) : (zeros n)[i]? = some 0 := by
  unfold zeros
  rw [List.getElem?_replicate]; simp [h]

end Bytes
