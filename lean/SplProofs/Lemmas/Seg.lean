/-
  Segment lemmas: the buffer primitives on a buffer written as named segments
  `A ++ (B ++ C)`; offsets are hypotheses (`off = A.length`) discharged by `simp; omega`.
-/
import SplModel.Basic

namespace Bytes

theorem take_append_len {α} (a b : List α) (n : Nat) (h : n = a.length) : (a ++ b).take n = a := by
  subst h; simp

theorem drop_append_len {α} (a b : List α) (n : Nat) (h : n = a.length) : (a ++ b).drop n = b := by
  subst h; simp

theorem take_append_add {α} (a b : List α) (n m : Nat) (h : n = a.length + m) :
    (a ++ b).take n = a ++ b.take m := by
  subst h; simp [List.take_append, List.take_of_length_le]

theorem drop_append_add {α} (a b : List α) (n m : Nat) (h : n = a.length + m) :
    (a ++ b).drop n = b.drop m := by
  subst h; simp [List.drop_append]

@[simp] theorem zeros_len (n : Nat) : (zeros n).length = n := by simp [zeros]

theorem zeros_append (a b : Nat) : zeros a ++ zeros b = zeros (a + b) := by
  simp [zeros, List.replicate_append_replicate]

theorem writeAt_seg (A B C x : Bytes) (off : Nat) (h : off = A.length) (hx : x.length = B.length) :
    writeAt (A ++ (B ++ C)) off x = .ok (A ++ (x ++ C)) := by
  unfold writeAt
  rw [if_pos (by simp [h, hx])]
  rw [take_append_len A _ off h, drop_append_add A _ (off + x.length) B.length (by omega),
    drop_append_len B C _ rfl]

theorem slice_seg (A B C : Bytes) (lo hi : Nat) (h1 : lo = A.length) (h2 : hi = A.length + B.length) :
    slice (A ++ (B ++ C)) lo hi = .ok B := by
  unfold slice
  rw [if_pos (by simp [h1, h2])]
  rw [drop_append_len A _ lo h1, take_append_len B C _ (by omega)]

theorem fillZ_seg (A B C : Bytes) (lo hi : Nat) (h1 : lo = A.length) (h2 : hi = A.length + B.length) :
    fillZ (A ++ (B ++ C)) lo hi = .ok (A ++ (zeros B.length ++ C)) := by
  unfold fillZ
  rw [if_pos (by simp [h1, h2])]
  rw [take_append_len A _ lo h1, drop_append_add A _ hi B.length h2, drop_append_len B C _ rfl]
  have : hi - lo = B.length := by omega
  rw [this]

/-- move `M` left over `G`: `A ++ G ++ M ++ C` → `A ++ M ++ (tail of the old bytes)` -/
theorem copyWithin_left (A G M C : Bytes) (lo hi dst : Nat) (hlo : lo = A.length + G.length)
    (hhi : hi = lo + M.length) (hd : dst = A.length) :
    copyWithin (A ++ (G ++ (M ++ C))) lo hi dst =
      .ok (A ++ (M ++ (G ++ (M ++ C)).drop M.length)) := by
  unfold copyWithin
  rw [if_pos (by simp [hlo, hhi, hd]; omega)]
  have e1 : (A ++ (G ++ (M ++ C))).take dst = A := take_append_len A _ dst hd
  have e2 : ((A ++ (G ++ (M ++ C))).drop lo).take (hi - lo) = M := by
    rw [drop_append_add A _ lo G.length hlo, drop_append_len G _ _ rfl,
      take_append_len M C _ (by omega)]
  have e3 : (A ++ (G ++ (M ++ C))).drop (dst + (hi - lo)) = (G ++ (M ++ C)).drop M.length := by
    rw [drop_append_add A _ _ M.length (by omega)]
  rw [e1, e2, e3]

/-- move `M` right by `|G|` bytes: `A ++ M ++ G ++ C` (G is overwritten) -/
theorem copyWithin_right (A M G C : Bytes) (lo hi dst : Nat) (hlo : lo = A.length)
    (hhi : hi = lo + M.length) (hd : dst = A.length + G.length) :
    copyWithin (A ++ (M ++ (G ++ C))) lo hi dst =
      .ok ((A ++ (M ++ (G ++ C))).take dst ++ (M ++ C)) := by
  unfold copyWithin
  rw [if_pos (by simp [hlo, hhi, hd]; omega)]
  have e2 : ((A ++ (M ++ (G ++ C))).drop lo).take (hi - lo) = M := by
    rw [drop_append_len A _ lo hlo, take_append_len M _ _ (by omega)]
  have e3 : (A ++ (M ++ (G ++ C))).drop (dst + (hi - lo)) = C := by
    rw [drop_append_add A _ _ (M.length + G.length) (by omega),
      drop_append_add M _ _ G.length (by omega), drop_append_len G C _ rfl]
  rw [e2, e3]


/-- grow: move `Q` right over the gap `G`, then zero the opened gap -/
theorem grow_seg (A v Q G T : Bytes) (lo hi dst : Nat) (hlo : lo = A.length + v.length)
    (hhi : hi = lo + Q.length) (hdst : dst = lo + G.length) :
    ∃ d2, copyWithin (A ++ (v ++ (Q ++ (G ++ T)))) lo hi dst = .ok d2 ∧
      fillZ d2 lo dst = .ok (A ++ (v ++ (zeros G.length ++ (Q ++ T)))) := by
  have hAv : (A ++ v).length = lo := by simp [hlo]
  have hd : A ++ (v ++ (Q ++ (G ++ T))) = (A ++ v) ++ (Q ++ (G ++ T)) := by simp
  let X := (Q ++ (G ++ T)).take G.length
  have hX : X.length = G.length := by simp [X, List.length_take]; omega
  refine ⟨(A ++ v) ++ (X ++ (Q ++ T)), ?_, ?_⟩
  · unfold copyWithin
    rw [if_pos (by simp [hlo, hhi, hdst]; omega)]
    rw [hd]
    have e1 : ((A ++ v) ++ (Q ++ (G ++ T))).take dst = (A ++ v) ++ X :=
      take_append_add _ _ _ G.length (by omega)
    have e2 : (((A ++ v) ++ (Q ++ (G ++ T))).drop lo).take (hi - lo) = Q := by
      rw [drop_append_len _ _ _ hAv.symm, take_append_len _ _ _ (by omega)]
    have e3 : ((A ++ v) ++ (Q ++ (G ++ T))).drop (dst + (hi - lo)) = T := by
      rw [drop_append_add _ _ _ (Q.length + G.length) (by omega),
        drop_append_add _ _ _ G.length (by omega), drop_append_len _ _ _ rfl]
    rw [e1, e2, e3]; simp
  · have := fillZ_seg (A ++ v) X (Q ++ T) lo dst hAv.symm (by omega)
    rw [hX] at this
    simp only [List.append_assoc] at this ⊢
    exact this

/-- shrink: move `Q` left over the released bytes `v2`, then zero the vacated end -/
theorem shrink_seg (A v1 v2 Q T : Bytes) (lo hi dst : Nat) (hdst : dst = A.length + v1.length)
    (hlo : lo = dst + v2.length) (hhi : hi = lo + Q.length) :
    ∃ d2, copyWithin (A ++ (v1 ++ (v2 ++ (Q ++ T)))) lo hi dst = .ok d2 ∧
      fillZ d2 (hi - v2.length) hi = .ok (A ++ (v1 ++ (Q ++ (zeros v2.length ++ T)))) := by
  have hAv : (A ++ v1).length = dst := by simp [hdst]
  have hd : A ++ (v1 ++ (v2 ++ (Q ++ T))) = (A ++ v1) ++ (v2 ++ (Q ++ T)) := by simp
  let Y := (v2 ++ Q).drop Q.length
  have hY : Y.length = v2.length := by simp [Y, List.length_drop]
  refine ⟨((A ++ v1) ++ Q) ++ (Y ++ T), ?_, ?_⟩
  · rw [hd]
    have := copyWithin_left (A ++ v1) v2 Q T lo hi dst (by omega) hhi hAv.symm
    rw [this]
    congr 1
    have : (v2 ++ (Q ++ T)).drop Q.length = Y ++ T := by
      rw [← List.append_assoc, List.drop_append_of_le_length (by simp)]
    rw [this]; simp
  · have := fillZ_seg ((A ++ v1) ++ Q) Y T (hi - v2.length) hi (by simp; omega) (by simp [hY]; omega)
    rw [hY] at this
    simp only [List.append_assoc] at this ⊢
    exact this

end Bytes
