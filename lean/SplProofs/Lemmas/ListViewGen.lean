/-
  Translation validation for list-view: the layout arithmetic regenerated from the Rust source on every
  run (`SplModel/Generated/ListViewFns.lean`: `header_padding`, `size_of`, `calculate_layout`, statement
  by statement; the element and prefix types enter through their size and alignment) denotes the model
  functions `headerPadding`, `sizeOf`, `dataStart` that the C09 / C10 theorems are about.
-/
import SplProofs.C10
import SplModel.Generated.ListViewFns

namespace ListViewGen
open Bytes ListView C10 Gen.ListViewFns

theorem gen_header_padding (P : Params) (alignL : Nat) (h : WfP P) :
    header_padding P.sizeT P.alignT P.wL alignL = guardL alignL (.ok (headerPadding P)) := by
  have ha : P.alignT ≤ 2 ^ 29 := h.2
  unfold header_padding guardL headerPadding
  simp only [RX.ne, RX.eq, RX.lit_eq, RX.cmp_ok, RX.ifN_ok, RX.bindNN_ok, RX.or_ok, RX.wrappingRem, RX.wrappingSub]
  by_cases hl : alignL = 1
  · subst hl
    simp only [bne_self_eq_false, Bool.false_eq_true, if_false, ne_eq, not_true_eq_false]
    by_cases h0 : P.alignT = 0
    · simp [h0]
    · by_cases h1 : P.alignT = 1
      · simp [h1]
      · have hb0 : (P.alignT == 0) = false := by simpa using h0
        have hb1 : (P.alignT == 1) = false := by simpa using h1
        simp only [hb0, hb1, Bool.false_eq_true, if_false, h0, h1, or_self, RX.bindNN_ok]
        by_cases hr : P.wL % P.alignT = 0
        · simp [hr]
        · have hrb : (P.wL % P.alignT == 0) = false := by simpa using hr
          simp only [hrb, Bool.false_eq_true, if_false, hr, RX.bindNN_ok]
          have hlt : P.wL % P.alignT < P.alignT := Nat.mod_lt _ (by omega)
          have e : P.alignT + 2 ^ 64 - P.wL % P.alignT = 2 ^ 64 + (P.alignT - P.wL % P.alignT) := by omega
          have hsmall : P.alignT - P.wL % P.alignT < 2 ^ 64 := by
            have : (2:Nat) ^ 29 < 2 ^ 64 := by decide
            omega
          rw [e, Nat.add_mod, Nat.mod_self, Nat.zero_add, Nat.mod_mod, Nat.mod_eq_of_lt hsmall]
          simp
  · have hb : (alignL != 1) = true := by simpa using hl
    simp [hb, hl]

theorem u64max_eq : RX.u64max = usizeMax := rfl

theorem gen_size_of (P : Params) (alignL n : Nat) (h : WfP P) :
    size_of P.sizeT P.alignT P.wL alignL n = guardL alignL (ListView.sizeOf P n) := by
  unfold size_of
  rw [gen_header_padding P alignL h]
  unfold guardL
  by_cases hl : alignL = 1
  · simp only [hl, ne_eq, not_true_eq_false, if_false, RX.bindNN_ok]
    unfold ListView.sizeOf
    simp only [RX.checkedMul, RX.checkedAdd, RX.andThen, RX.okOrElse, RX.lit_eq, RX.bindNN_ok, u64max_eq, eCalculationFailure]
    by_cases h1 : P.sizeT * n > usizeMax
    · simp [h1]
    · simp only [h1, if_false]
      by_cases h2 : P.sizeT * n + P.wL > usizeMax
      · simp [h2]
      · simp only [h2, if_false]
        by_cases h3 : P.sizeT * n + P.wL + headerPadding P > usizeMax
        · simp [h3]
        · simp [h3]
  · simp [hl, RX.bindNN]

theorem gen_calculate_layout (P : Params) (alignL len : Nat) (h : WfP P) :
    calculate_layout P.sizeT P.alignT P.wL alignL len =
      guardL alignL (if len < dataStart P then .err eBufferTooSmall else .ok [0, P.wL, dataStart P, len]) := by
  unfold calculate_layout
  rw [gen_header_padding P alignL h]
  unfold guardL
  by_cases hl : alignL = 1
  · simp only [hl, ne_eq, not_true_eq_false, if_false, RX.bindNN_ok, RX.lit_eq, RX.saturatingAdd, RX.lt, RX.cmp_ok, RX.ifN_ok,
      u64max_eq, eBufferTooSmall]
    have hd : min (P.wL + headerPadding P) usizeMax = dataStart P := rfl
    rw [hd]
    by_cases hlt : len < dataStart P
    · simp [hlt]
    · simp [hlt, RX.okList, RX.bindNN]
  · simp [hl, RX.bindNN]

end ListViewGen
