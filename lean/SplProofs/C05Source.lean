/-
  C05 (continued) — translation validation of the dispatch of `ExtraAccountMeta::resolve`: the arms of
  `match self.discriminator { … }`, regenerated from the Rust source (patterns and guards, in source
  order, guards translated expression by expression), select exactly the kind the model uses.
-/
import SplProofs.C05
import SplModel.Generated.FormatConsts

namespace C05
open ExtraMeta Bytes

/-- try the arm indices in turn -/
macro "pick_arm" : tactic => `(tactic| first
  | (refine ⟨0, ?_⟩; (first | (simp [*, Res.map]; done) | (simp_all [Res.map]; done))) | (refine ⟨1, ?_⟩; (first | (simp [*, Res.map]; done) | (simp_all [Res.map]; done)))
  | (refine ⟨2, ?_⟩; (first | (simp [*, Res.map]; done) | (simp_all [Res.map]; done))) | (refine ⟨3, ?_⟩; (first | (simp [*, Res.map]; done) | (simp_all [Res.map]; done)))
  | (refine ⟨4, ?_⟩; (first | (simp [*, Res.map]; done) | (simp_all [Res.map]; done))) | (refine ⟨5, ?_⟩; (first | (simp [*, Res.map]; done) | (simp_all [Res.map]; done))))

/-- For every kind byte, the first arm of the source's `match` whose pattern/guard holds is an arm of
    the kind (0 fixed address, 1 PDA, 2 key from data, 3 rejected) that the model's `resolve` — the
    function `C05_fixed`, `C05_pda`, `C05_keydata`, `C05_unknown` characterise — dispatches to. -/
theorem C05_source_dispatch (x : UInt8) :
    ∃ k, RX.firstArm (Gen.Format.resolveArmGuards x.toNat) = .ok k ∧
      Gen.Format.resolveArmKinds[k]? =
        some (if x = 0 then 0 else if x = 1 ∨ x.toNat ≥ 128 then 1 else if x = 2 then 2 else 3) := by
  have hx : x.toNat < 256 := x.toNat_lt
  have e0 : (x = 0) ↔ x.toNat = 0 := by rw [← UInt8.toNat_inj]; rfl
  have e1 : (x = 1) ↔ x.toNat = 1 := by rw [← UInt8.toNat_inj]; rfl
  have e2 : (x = 2) ↔ x.toNat = 2 := by rw [← UInt8.toNat_inj]; rfl
  simp only [Gen.Format.resolveArmGuards, Gen.Format.resolveArmKinds, RX.firstArm, RX.armStep_ok, RX.eq, RX.ge, RX.le, RX.cmp_ok,
    RX.lit_eq, RX.or_ok, RX.and_ok, Gen.Format.U8_TOP_BIT, e0, e1, e2]
  -- one case per class of kind bytes; in each, whichever arm the source puts first is found by trying the
  -- indices in turn, so the proof does not depend on the order or the number (≤ 6) of the arms
  by_cases h0 : x.toNat = 0
  · pick_arm
  · by_cases h1 : x.toNat = 1
    · pick_arm
    · by_cases h128 : x.toNat ≥ 128
      · have h255 : x.toNat ≤ 255 := by omega
        have hn2 : ¬ x.toNat = 2 := by omega
        pick_arm
      · by_cases h2 : x.toNat = 2
        · pick_arm
        · pick_arm

end C05
