/-
  C02 — TLV decoding is total and matches the format on arbitrary bytes.
  `unpack` is the shared `check_data` of the three views; `getBytes` / `getValue` /
  `getDiscriminators` are the lookups.  Quantification: every byte string, every 8-byte
  non-zero type tag, every repetition number, every value size.
-/
import SplProofs.Lemmas.Tlv

namespace C02
open Tlv Bytes

/-- The format: a run of well-formed entries (8-byte non-zero type, LE u32 length, that many
    value bytes) ended by the end of the buffer, by fewer than 8 trailing zero bytes, or by an
    all-zero type tag. -/
def WellFormed (d : Bytes) : Prop :=
  ∃ es tail, d = enc es ++ tail ∧ (∀ e ∈ es, WfE e) ∧ Terminated tail

/-- Opening, listing and looking up never panic — on every byte string. -/
theorem C02_total (d t : Bytes) (r k : Nat) :
    unpack d ≠ .panic ∧ getDiscriminators d ≠ .panic ∧ getBytes d t r ≠ .panic ∧
    getValue d t r k ≠ .panic := by
  have h1 : getDiscsAndEnd d ≠ .panic := getDiscsGo_ne_panic _ _ _ _ (by omega)
  have h2 : getIndices d t false (some r) ≠ .panic := getIndicesGo_ne_panic _ _ _ _ _ _ _ (by omega)
  have hb : getBytes d t r ≠ .panic := by
    unfold getBytes
    cases hi : getIndices d t false (some r) with
    | panic => exact absurd hi h2
    | err e => simp
    | ok ix =>
      simp only [Res.bind_ok]
      cases hs : slice d ix.lengthStart ix.valueStart with
      | panic =>
        -- the walk only returns indices whose 12-byte header lies inside the buffer
        exfalso
        obtain ⟨_, a2, a3, a4⟩ := getIndicesGo_ok_bounds _ _ _ _ _ _ _ _ hi
        unfold slice at hs
        rw [if_pos (by omega)] at hs
        cases hs
      | err e => simp
      | ok lb => simp only [Res.bind_ok]; split <;> simp
  refine ⟨?_, ?_, hb, ?_⟩
  · unfold unpack; cases h : getDiscsAndEnd d <;> simp_all [Res.map]
  · unfold getDiscriminators; cases h : getDiscsAndEnd d <;> simp_all [Res.map]
  · unfold getValue
    cases hg : getBytes d t r with
    | panic => exact absurd hg hb
    | err e => simp
    | ok p => obtain ⟨lo, hi⟩ := p; simp only [Res.bind_ok]; split <;> simp


theorem enc_len_ge (es : List Entry) (hw : ∀ e ∈ es, WfE e) : es.length ≤ (enc es).length := by
  induction es with
  | nil => simp
  | cons x xs ih =>
    have hx := hw x (List.mem_cons_self)
    have := ih (fun y hy => hw y (List.mem_cons_of_mem _ hy))
    rw [enc_cons, List.length_append, encEntry_length x hx.1]; simp; omega

/-- on a well-formed buffer the end-index walk returns the tags in order and the end of the run -/
theorem getDiscsAndEnd_wf (es : List Entry) (hw : ∀ e ∈ es, WfE e) (tail : Bytes) (ht : Terminated tail) :
    getDiscsAndEnd (enc es ++ tail) = .ok (es.map (·.tag), (enc es).length) := by
  unfold getDiscsAndEnd
  have := enc_len_ge es hw
  have hf : (enc es ++ tail).length + 1 = (((enc es).length - es.length + tail.length) + 1) + es.length := by
    simp; omega
  rw [hf, getDiscsGo_enc es hw, getDiscsGo_tail _ tail ht]
  simp

/-- Opening succeeds exactly when the bytes are in the format. -/
theorem C02_accept_iff (d : Bytes) : unpack d = .ok () ↔ WellFormed d := by
  constructor
  · intro h
    unfold unpack at h
    cases hg : getDiscsAndEnd d with
    | panic => simp [hg, Res.map] at h
    | err e => simp [hg, Res.map] at h
    | ok p =>
      obtain ⟨l, e⟩ := p
      obtain ⟨es, tail, e1, e2, e3, _, _⟩ := getDiscsGo_ok_decomp _ _ _ _ _ _ hg
      exact ⟨es, tail, e1, e2, e3⟩
  · intro ⟨es, tail, e1, e2, e3⟩
    unfold unpack
    rw [e1, getDiscsAndEnd_wf es e2 tail e3]
    rfl

/-- Anything else is rejected with an error (never a panic): truncated header, value running
    past the end, non-zero short tail. -/
theorem C02_rejects (d : Bytes) (h : ¬ WellFormed d) : (unpack d).isErr = true := by
  have ht := (C02_total d [] 0 0).1
  cases hu : unpack d with
  | ok u => exact absurd ((C02_accept_iff d).mp (by rw [hu])) h
  | err e => rfl
  | panic => exact absurd hu ht

/-- On success the listed types are exactly the entries' types, in order. -/
theorem C02_types (es : List Entry) (hw : ∀ e ∈ es, WfE e) (tail : Bytes) (ht : Terminated tail) :
    getDiscriminators (enc es ++ tail) = .ok (es.map (·.tag)) := by
  unfold getDiscriminators
  rw [getDiscsAndEnd_wf es hw tail ht]
  rfl

/-- On success a lookup by (type, repetition) returns precisely the value bytes of the n-th
    entry of that type at its true offset inside the buffer, or an error if there is none. -/
theorem C02_lookup (es : List Entry) (hw : ∀ e ∈ es, WfE e) (tail : Bytes) (ht : Terminated tail)
    (t : Bytes) (hne : t ≠ uninit) (r : Nat) :
    (∀ pre e post, es = pre ++ e :: post → e.tag = t → (pre.filter (·.tag = t)).length = r →
        getBytes (enc es ++ tail) t r = .ok ((enc pre).length + 12, (enc pre).length + 12 + e.val.length) ∧
        ((enc es ++ tail).drop ((enc pre).length + 12)).take e.val.length = e.val) ∧
    ((es.filter (·.tag = t)).length ≤ r → (getBytes (enc es ++ tail) t r).isErr = true) := by
  have hg := getBytes_wf es hw tail ht t hne r
  constructor
  · intro pre e post hes htag hcount
    cases hloc : locate es 0 t r 0 with
    | none =>
      exfalso
      have := locate_none es 0 t r 0 (Nat.zero_le _) hloc
      rw [hes] at this
      simp only [List.filter_append, List.filter_cons, htag, decide_true, if_true, List.length_append,
        List.length_cons] at this
      omega
    | some p =>
      obtain ⟨o, e'⟩ := p
      rw [hloc] at hg
      obtain ⟨pre', post', e1, e2, e3, e4⟩ := locate_some es hw 0 t r 0 o e' hloc
      -- the r-th entry of type t is unique: pre' = pre
      have key : ∀ (a b : List Entry) (x y : Entry) (p q : List Entry), a ++ x :: p = b ++ y :: q →
          x.tag = t → y.tag = t → (a.filter (·.tag = t)).length = (b.filter (·.tag = t)).length →
          a = b ∧ x = y := by
        intro a
        induction a with
        | nil =>
          intro b x y p q h hx hy hc
          cases b with
          | nil => simp at h; exact ⟨rfl, h.1⟩
          | cons b0 bs =>
            simp at h
            obtain ⟨rfl, _⟩ := h
            simp [List.filter_cons, hx] at hc
        | cons a0 as ih =>
          intro b x y p q h hx hy hc
          cases b with
          | nil =>
            simp at h
            obtain ⟨rfl, _⟩ := h
            simp [List.filter_cons, hy] at hc
          | cons b0 bs =>
            simp only [List.cons_append, List.cons.injEq] at h
            obtain ⟨rfl, h⟩ := h
            have hc' : (as.filter (·.tag = t)).length = (bs.filter (·.tag = t)).length := by
              simp only [List.filter_cons] at hc
              split at hc <;> simp_all
            obtain ⟨r1, r2⟩ := ih bs x y p q h hx hy hc'
            exact ⟨by rw [r1], r2⟩
      obtain ⟨hp, he⟩ := key pre' pre e' e post' post (by rw [← e1, hes]) e2 htag (by omega)
      subst hp; subst he
      have : o = (enc pre').length := by omega
      rw [this] at hg
      exact hg
  · intro hcount
    cases hloc : locate es 0 t r 0 with
    | none =>
      rw [hloc] at hg
      obtain ⟨e, he⟩ := hg
      rw [he]; rfl
    | some p =>
      exfalso
      obtain ⟨o, e'⟩ := p
      obtain ⟨pre', post', e1, e2, e3, e4⟩ := locate_some es hw 0 t r 0 o e' hloc
      rw [e1] at hcount
      simp only [List.filter_append, List.filter_cons, e2, decide_true, if_true, List.length_append,
        List.length_cons] at hcount
      omega

/-- A fixed-size (typed) lookup succeeds exactly when the entry exists and its size equals the
    requested type's size. -/
theorem C02_sized (d t : Bytes) (r k : Nat) :
    (∀ lo hi, getValue d t r k = .ok (lo, hi) ↔ (getBytes d t r = .ok (lo, hi) ∧ hi - lo = k)) ∧
    (∀ lo hi, getBytes d t r = .ok (lo, hi) → hi - lo ≠ k → (getValue d t r k).isErr = true) ∧
    (∀ e, getBytes d t r = .err e → getValue d t r k = .err e) := by
  unfold getValue
  refine ⟨?_, ?_, ?_⟩
  · intro lo hi
    cases hg : getBytes d t r with
    | panic => simp
    | err e => simp
    | ok p =>
      obtain ⟨lo', hi'⟩ := p
      simp only [Res.bind_ok]
      by_cases hk : hi' - lo' = k
      · simp [hk]
        rintro rfl rfl; exact hk
      · simp [hk]
        rintro rfl rfl; exact hk
  · intro lo hi hg hk
    simp [hg, hk, Res.isErr]
  · intro e hg
    simp [hg]

/-! Non-vacuity: a concrete well-formed buffer with a repeated type and a short zero tail. -/
example : WellFormed (enc [⟨[1,1,1,1,1,1,1,1], [7]⟩, ⟨[2,0,0,0,0,0,0,0], []⟩, ⟨[1,1,1,1,1,1,1,1], [8, 9]⟩] ++ [0, 0, 0]) :=
  ⟨_, [0, 0, 0], rfl, by
    intro e he
    simp at he
    rcases he with rfl | rfl | rfl <;> refine ⟨rfl, by decide, by decide⟩,
   Or.inr (Or.inl ⟨by decide, by decide⟩)⟩
example : getBytes (enc [⟨[1,1,1,1,1,1,1,1], [7]⟩, ⟨[2,0,0,0,0,0,0,0], []⟩, ⟨[1,1,1,1,1,1,1,1], [8, 9]⟩] ++ [0, 0, 0])
    [1,1,1,1,1,1,1,1] 1 = .ok (37, 39) := by decide

end C02
