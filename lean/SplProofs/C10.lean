/-
  C10 — ListView decoding is total, bounds-safe and alignment-safe.
  Quantification: every byte string, every base address, every element size/alignment, every
  prefix width up to 16 bytes (so all 2^(8 wL) stored lengths, including the type's maximum).
-/
import SplModel.ListView
import SplProofs.Lemmas.Le

namespace C10
open ListView Bytes

/-- Parameters of a supported instantiation: a prefix of at most 16 bytes and an alignment
    Rust can express. -/
def WfP (P : Params) : Prop := P.wL ≤ 16 ∧ P.alignT ≤ 2 ^ 29

theorem pad_lt (P : Params) : headerPadding P ≤ P.alignT := by
  unfold headerPadding
  split
  · omega
  · simp only; split <;> omega

theorem dataStart_eq (P : Params) (h : WfP P) : dataStart P = P.wL + headerPadding P := by
  unfold dataStart usizeMax
  have := pad_lt P
  obtain ⟨h1, h2⟩ := h
  have : (2:Nat) ^ 29 = 536870912 := by decide
  have : (2:Nat) ^ 64 - 1 = 18446744073709551615 := by decide
  omega

/-- the shared opening path, characterised -/
theorem buildView_char (P : Params) (h : WfP P) (a : Nat) (b : Bytes) :
    buildView P a b =
      if b.length < dataStart P then .err eBufferTooSmall
      else (castSlice P (a + dataStart P) (b.length - dataStart P)).bind
        (fun cap => .ok ⟨Pod.toUsize (b.take P.wL), cap⟩) := by
  unfold buildView
  have hds := dataStart_eq P h
  by_cases hl : b.length < dataStart P
  · simp [hl]
  · have hw : P.wL ≤ b.length := by omega
    simp only [hl, if_false]
    have s1 : slice b 0 P.wL = .ok (b.take P.wL) := by
      simp [slice, hw]
    have s2 : slice b (dataStart P) b.length = .ok (b.drop (dataStart P)) := by
      have : dataStart P ≤ b.length := by omega
      simp [slice, this, List.take_of_length_le]
    have s3 : Pod.fromBytes P.wL (b.take P.wL) = .ok (b.take P.wL) := by
      simp [Pod.fromBytes, List.length_take, Nat.min_eq_left hw]
    simp only [s1, s2, s3, Res.bind_ok, List.length_drop]
    cases castSlice P (a + dataStart P) (b.length - dataStart P) <;> rfl

theorem castSlice_ne_panic (P : Params) (addr len : Nat) : castSlice P addr len ≠ .panic := by
  unfold castSlice
  split
  · simp
  · split
    · simp
    · split <;> simp

/-- Opening never panics: read-only, mutable and initialising. -/
theorem C10_total (P : Params) (h : WfP P) (a : Nat) (b : Bytes) :
    unpack P a b ≠ .panic ∧ unpackMut P a b ≠ .panic ∧ (init P a b).2 ≠ .panic := by
  have hb := buildView_char P h a b
  have hne : buildView P a b ≠ .panic := by
    rw [hb]; split
    · simp
    · have := castSlice_ne_panic P (a + dataStart P) (b.length - dataStart P)
      cases hc : castSlice P (a + dataStart P) (b.length - dataStart P) <;> simp_all [Res.bind]
  refine ⟨?_, ?_, ?_⟩
  · unfold unpack
    cases hv : buildView P a b with
    | panic => exact absurd hv hne
    | err e => simp
    | ok v => simp only [Res.bind_ok]; split <;> simp
  · unfold unpackMut
    cases hv : buildView P a b with
    | panic => exact absurd hv hne
    | err e => simp
    | ok v => simp only [Res.bind_ok]; split <;> simp
  · unfold init
    cases hv : buildView P a b with
    | panic => exact absurd hv hne
    | err e => simp
    | ok v =>
      simp only
      have hz : Pod.tryFromUsize P.wL 0 = .ok (toLe P.wL 0) := by
        simp [Pod.tryFromUsize, Nat.pow_pos]
      rw [hz]
      simp only
      have hw : P.wL ≤ b.length := by
        rw [hb] at hv
        split at hv
        · simp at hv
        · have := dataStart_eq P h; omega
      have : writeAt b 0 (toLe P.wL 0) = .ok ([] ++ (toLe P.wL 0 ++ b.drop P.wL)) := by
        simp [writeAt, hw]
      rw [this]; simp

/-- A successful opening: length ≤ capacity = (buffer − header) / element size (0 for
    zero-sized elements), the data region is aligned for the element type, and every visible
    element lies inside the buffer. -/
theorem C10_ok (P : Params) (h : WfP P) (a : Nat) (b : Bytes) (v : View)
    (hu : unpack P a b = .ok v) :
    v.len ≤ v.cap ∧ dataStart P ≤ b.length ∧
    (0 < P.sizeT → v.cap = (b.length - dataStart P) / P.sizeT ∧ (b.length - dataStart P) % P.sizeT = 0) ∧
    (P.sizeT = 0 → v.cap = 0 ∧ b.length = dataStart P) ∧
    (1 < P.alignT → (a + dataStart P) % P.alignT = 0) ∧
    (∀ i, i < v.len → dataStart P + (i + 1) * P.sizeT ≤ b.length) ∧
    v.len = Pod.toUsize (b.take P.wL) := by
  unfold unpack at hu
  rw [buildView_char P h a b] at hu
  split at hu
  · simp at hu
  · rename_i hl
    cases hc : castSlice P (a + dataStart P) (b.length - dataStart P) with
    | panic => simp [hc, Res.bind] at hu
    | err e => simp [hc, Res.bind] at hu
    | ok cap =>
      simp only [hc, Res.bind, Res.bind_ok] at hu
      by_cases hgt : Pod.toUsize (b.take P.wL) > cap
      · simp [hgt] at hu
      · simp only [hgt, if_false, Res.pure_eq, Res.ok.injEq] at hu
        cases hu
        have hle : Pod.toUsize (b.take P.wL) ≤ cap := by omega
        unfold castSlice at hc
        split at hc
        · simp at hc
        · rename_i hal
          have hal' : 1 < P.alignT → (a + dataStart P) % P.alignT = 0 := by
            intro h1
            by_cases h0 : (a + dataStart P) % P.alignT = 0
            · exact h0
            · exact absurd ⟨h1, h0⟩ hal
          split at hc
          · rename_i hs1
            cases hc
            refine ⟨hle, by omega, ?_, ?_, hal', ?_, rfl⟩
            · intro _; dsimp only; rw [hs1]; exact ⟨(Nat.div_one _).symm, Nat.mod_one _⟩
            · intro h0; omega
            · intro i hi; dsimp only at hi; rw [hs1]; omega
          · split at hc
            · rename_i hs
              cases hc
              rcases hs with ⟨hs0, hmod⟩ | ⟨hs0, hlen0⟩
              · have hcap : (if P.sizeT ≠ 0 then (b.length - dataStart P) / P.sizeT else 0) =
                    (b.length - dataStart P) / P.sizeT := if_pos hs0
                rw [hcap] at hle
                refine ⟨by dsimp only; rw [hcap]; exact hle, by omega,
                  fun _ => ⟨by dsimp only; rw [hcap], hmod⟩, fun h0 => absurd h0 hs0, hal', ?_, rfl⟩
                intro i hi
                dsimp only at hi
                have h1 : (i + 1) ≤ (b.length - dataStart P) / P.sizeT := by omega
                have h2 := Nat.mul_le_mul_right P.sizeT h1
                have h3 := Nat.div_mul_le_self (b.length - dataStart P) P.sizeT
                omega
              · have hcap : (if P.sizeT ≠ 0 then (b.length - dataStart P) / P.sizeT else 0) = 0 :=
                  if_neg (by simp [hs0])
                rw [hcap] at hle
                refine ⟨by dsimp only; rw [hcap]; exact hle, by omega, fun h0 => by omega,
                  fun _ => ⟨by dsimp only; rw [hcap], by omega⟩, hal', ?_, rfl⟩
                intro i hi; dsimp only at hi; omega
            · simp at hc

/-- Too short, a data region that is not a whole number of elements, a misaligned data region,
    or a stored length above the capacity: rejected with an error. -/
theorem C10_rejects (P : Params) (h : WfP P) (a : Nat) (b : Bytes) :
    (b.length < dataStart P → (unpack P a b).isErr = true) ∧
    (dataStart P ≤ b.length → 1 < P.sizeT → (b.length - dataStart P) % P.sizeT ≠ 0 →
        (unpack P a b).isErr = true) ∧
    (dataStart P ≤ b.length → P.sizeT = 0 → b.length ≠ dataStart P → (unpack P a b).isErr = true) ∧
    (dataStart P ≤ b.length → 1 < P.alignT → (a + dataStart P) % P.alignT ≠ 0 →
        (unpack P a b).isErr = true) ∧
    (dataStart P ≤ b.length → 0 < P.sizeT →
        Pod.toUsize (b.take P.wL) > (b.length - dataStart P) / P.sizeT → (unpack P a b).isErr = true) := by
  have key : ∀ (Pr : Prop), (∀ v, unpack P a b = .ok v → ¬ Pr) → Pr → (unpack P a b).isErr = true := by
    intro Pr hno hp
    have := (C10_total P h a b).1
    cases hu : unpack P a b with
    | ok w => exact absurd hp (hno w hu)
    | err e => rfl
    | panic => exact absurd hu this
  refine ⟨?_, ?_, ?_, ?_, ?_⟩
  · intro hl
    exact key _ (fun v hv => by have := (C10_ok P h a b v hv).2.1; omega) hl
  · intro _ hs hm
    exact key _ (fun v hv => by have := ((C10_ok P h a b v hv).2.2.1 (by omega)).2; exact fun h' => h' this) hm
  · intro _ hs hm
    exact key _ (fun v hv => by have := ((C10_ok P h a b v hv).2.2.2.1 hs).2; exact fun h' => h' this) hm
  · intro _ ha hm
    exact key _ (fun v hv => by have := (C10_ok P h a b v hv).2.2.2.2.1 ha; exact fun h' => h' this) hm
  · intro _ hs hm
    exact key _ (fun v hv => by
      obtain ⟨h1, _, h3, _, _, _, h7⟩ := C10_ok P h a b v hv
      have := (h3 hs).1
      omega) hm

/-- Read-only and mutable opening accept exactly the same buffers and expose the same view. -/
theorem C10_same (P : Params) (a : Nat) (b : Bytes) : unpack P a b = unpackMut P a b := rfl

/-! Non-vacuity: u64 elements behind a 4-byte prefix (4 bytes of padding), two stored. -/
example : WfP ⟨8, 8, 4⟩ := by unfold WfP; decide
example : unpack ⟨8, 8, 4⟩ 8 ([2, 0, 0, 0] ++ zeros 4 ++ zeros 24) = .ok ⟨2, 3⟩ := by decide
example : (unpack ⟨8, 8, 4⟩ 4 ([2, 0, 0, 0] ++ zeros 4 ++ zeros 24)).isErr = true := by decide
example : (unpack ⟨1, 1, 16⟩ 0 (List.replicate 20 0xff)).isErr = true := by decide

/-- Length-prefix types with an alignment requirement of their own (e.g. the primitive `u16`, which
    satisfies the `PodLength` bounds) are not supported: every opening, initialisation and size
    computation is an error — never a panic — and a buffer-taking operation returns the buffer
    untouched.  For align-1 prefix types the guard is the identity, so all theorems above apply. -/
theorem C10_aligned_prefix {α} (alignL : Nat) (r : Res α) (b : Bytes) (rb : Bytes × Res α) :
    (alignL ≠ 1 → guardL alignL r = .err .invalidArgument ∧ guardLB alignL b rb = (b, .err .invalidArgument)) ∧
    (alignL = 1 → guardL alignL r = r ∧ guardLB alignL b rb = rb) ∧
    (r ≠ .panic → guardL alignL r ≠ .panic) := by
  refine ⟨fun h => ?_, fun h => ?_, fun h => ?_⟩
  · simp [guardL, guardLB, h]
  · simp [guardL, guardLB, h]
  · unfold guardL; split
    · simp
    · exact h

/-- the one-byte prefix (`u8`) is within the theorems' range -/
example : WfP ⟨8, 8, 1⟩ := by unfold WfP; decide
example : unpack ⟨4, 4, 1⟩ 4 ([2] ++ zeros 3 ++ zeros 8) = .ok ⟨2, 2⟩ := by decide

end C10
