/-
  C08 — off-chain and CPI resolution agree and keep stored order.
  Precondition (as in the property): the initial account infos mirror the instruction's metas
  (`Mirror`), and the fetcher returns the data the infos hold (`Consistent`).
-/
import SplProofs.C06

namespace C08
open Resolution ExtraMeta Bytes C06

variable (pda : List Bytes → Bytes → Option Bytes)

/-- the initial account infos have the keys of the instruction's metas, in order -/
def Mirror (ix : Instruction) (infos : List Info) : Prop := infos.map (·.key) = ix.accounts.map (·.key)

/-- the fetcher returns the data held by every info it may be asked about -/
def Consistent (fetch : Bytes → Res (Option Bytes)) (infos pool : List Info) : Prop :=
  ∀ i ∈ infos ++ pool, fetch i.key = .ok (some i.data)

theorem fetchAll_mirror (fetch : Bytes → Res (Option Bytes)) (metas : List AccountMeta) (infos : List Info)
    (hm : infos.map (·.key) = metas.map (·.key)) (hc : ∀ i ∈ infos, fetch i.key = .ok (some i.data)) :
    fetchAll fetch metas = .ok (infos.map infoAcct) := by
  induction metas generalizing infos with
  | nil =>
    cases infos with
    | nil => rfl
    | cons _ _ => simp at hm
  | cons m ms ih =>
    cases infos with
    | nil => simp at hm
    | cons i is =>
      simp only [List.map_cons, List.cons.injEq] at hm
      simp only [fetchAll]
      rw [← hm.1, hc i (List.mem_cons_self)]
      simp only
      rw [ih is hm.2 (fun x hx => hc x (List.mem_cons_of_mem _ hx))]
      simp [infoAcct, hm.1]

/-- the two loops in lockstep: same metas, and the off-chain helper's known accounts are the CPI
    helper's infos seen as (key, data) -/
theorem loops_agree (fetch : Bytes → Res (Option Bytes)) (ixd prog : Bytes) (pool : List Info)
    (hc : ∀ i ∈ pool, fetch i.key = .ok (some i.data)) (cfgs : List Meta) (infos : List Info)
    (metas : List AccountMeta) :
    (∀ metas' infos', addCpiLoop pda ixd prog pool cfgs infos metas = .ok (metas', infos') →
        addIxLoop pda fetch ixd prog cfgs (infos.map infoAcct) metas = .ok metas') ∧
    (∀ app, addIxLoop pda fetch ixd prog cfgs (infos.map infoAcct) metas = .ok (metas ++ app) →
        (∀ m ∈ app, ∃ i ∈ pool, i.key = m.key) →
        ∃ infos', addCpiLoop pda ixd prog pool cfgs infos metas = .ok (metas ++ app, infos')) := by
  induction cfgs generalizing infos metas with
  | nil =>
    constructor
    · intro metas' infos' h
      simp only [addCpiLoop, Res.ok.injEq, Prod.mk.injEq] at h
      simp [addIxLoop, h.1]
    · intro app h _
      simp only [addIxLoop, Res.ok.injEq] at h
      exact ⟨infos, by simp only [addCpiLoop]; rw [← h]⟩
  | cons c rest ih =>
    constructor
    · intro metas' infos' h
      simp only [addCpiLoop] at h
      simp only [addIxLoop]
      cases hr : resolveOne pda c ixd prog (infos.map infoAcct) metas with
      | panic => simp [hr] at h
      | err e => simp [hr] at h
      | ok m =>
        simp only [hr] at h ⊢
        cases hf : pool.find? (fun x => x.key = m.key) with
        | none => simp [hf] at h
        | some info =>
          simp only [hf] at h
          have hk : info.key = m.key := by have := List.find?_some hf; simpa using this
          have hin : info ∈ pool := List.mem_of_find?_eq_some hf
          have hfe := hc info hin
          rw [hk] at hfe
          rw [hfe]
          simp only
          have := (ih (infos ++ [info]) (metas ++ [m])).1 metas' infos' h
          simpa [infoAcct, hk] using this
    · intro app h hpool
      simp only [addIxLoop] at h
      simp only [addCpiLoop]
      cases hr : resolveOne pda c ixd prog (infos.map infoAcct) metas with
      | panic => simp [hr] at h
      | err e => simp [hr] at h
      | ok m =>
        simp only [hr] at h ⊢
        cases hfe : fetch m.key with
        | panic => simp [hfe] at h
        | err e => simp [hfe] at h
        | ok data =>
          simp only [hfe] at h
          -- the rest of the loop appends app' to metas ++ [m], so app = m :: app'
          obtain ⟨app', e1, _⟩ := addIxLoop_spec pda fetch _ _ _ _ _ _ h
          have happ : app = m :: app' := by
            have : metas ++ app = metas ++ (m :: app') := by rw [e1]; simp
            exact List.append_cancel_left this
          subst happ
          obtain ⟨i, hi, hik⟩ := hpool m (List.mem_cons_self)
          cases hf : pool.find? (fun x => x.key = m.key) with
          | none =>
            have := List.find?_eq_none.mp hf i hi
            simp [hik] at this
          | some info =>
            simp only
            have hk : info.key = m.key := by have := List.find?_some hf; simpa using this
            have hin : info ∈ pool := List.mem_of_find?_eq_some hf
            have hd := hc info hin
            rw [hk, hfe] at hd
            simp only [Res.ok.injEq] at hd
            subst hd
            have h' : addIxLoop pda fetch ixd prog rest ((infos ++ [info]).map infoAcct) (metas ++ [m]) =
                .ok ((metas ++ [m]) ++ app') := by
              simpa [infoAcct, hk] using h
            obtain ⟨infos', hcpi⟩ := (ih (infos ++ [info]) (metas ++ [m])).2 app' h'
              (fun x hx => hpool x (List.mem_cons_of_mem _ hx))
            exact ⟨infos', by simpa using hcpi⟩

/-- If the CPI helper succeeds, the off-chain helper succeeds with identical metas. -/
theorem C08_cpi_implies_off (fetch : Bytes → Res (Option Bytes)) (ix ix' : Instruction)
    (infos infos' pool : List Info) (stored disc : Bytes)
    (hm : Mirror ix infos) (hc : Consistent fetch infos pool)
    (h : addToCpi pda ix infos stored disc pool = .ok (ix', infos')) :
    addToInstruction pda fetch ix stored disc = .ok ix' := by
  unfold addToCpi at h
  unfold addToInstruction
  cases hr : readList stored disc with
  | panic => simp [hr] at h
  | err e => simp [hr] at h
  | ok cfgs =>
    simp only [hr] at h ⊢
    rw [fetchAll_mirror fetch ix.accounts infos hm (fun i hi => hc i (List.mem_append_left _ hi))]
    simp only
    cases hl : addCpiLoop pda ix.data ix.prog pool cfgs infos ix.accounts with
    | panic => simp [hl] at h
    | err e => simp [hl] at h
    | ok p =>
      obtain ⟨metas', infos''⟩ := p
      simp only [hl, Res.ok.injEq, Prod.mk.injEq] at h
      have := (loops_agree pda fetch ix.data ix.prog pool (fun i hi => hc i (List.mem_append_right _ hi))
        cfgs infos ix.accounts).1 metas' infos'' hl
      rw [this]
      simp only [Res.ok.injEq]
      exact h.1

/-- If the off-chain helper succeeds and the pool holds an info for every appended key, the CPI
    helper succeeds with identical metas. -/
theorem C08_off_implies_cpi (fetch : Bytes → Res (Option Bytes)) (ix ix' : Instruction)
    (infos pool : List Info) (stored disc : Bytes)
    (hm : Mirror ix infos) (hc : Consistent fetch infos pool)
    (h : addToInstruction pda fetch ix stored disc = .ok ix')
    (hpool : ∀ m ∈ ix'.accounts.drop ix.accounts.length, ∃ i ∈ pool, i.key = m.key) :
    ∃ infos', addToCpi pda ix infos stored disc pool = .ok (ix', infos') := by
  unfold addToInstruction at h
  unfold addToCpi
  cases hr : readList stored disc with
  | panic => simp [hr] at h
  | err e => simp [hr] at h
  | ok cfgs =>
    simp only [hr] at h ⊢
    rw [fetchAll_mirror fetch ix.accounts infos hm (fun i hi => hc i (List.mem_append_left _ hi))] at h
    simp only at h
    cases hl : addIxLoop pda fetch ix.data ix.prog cfgs (infos.map infoAcct) ix.accounts with
    | panic => simp [hl] at h
    | err e => simp [hl] at h
    | ok metas' =>
      simp only [hl, Res.ok.injEq] at h
      obtain ⟨app, e1, _⟩ := addIxLoop_spec pda fetch _ _ _ _ _ _ hl
      subst e1
      subst h
      simp only [List.drop_left] at hpool
      obtain ⟨infos', hcpi⟩ := (loops_agree pda fetch ix.data ix.prog pool
        (fun i hi => hc i (List.mem_append_right _ hi)) cfgs infos ix.accounts).2 app hl hpool
      exact ⟨infos', by rw [hcpi]⟩

/-- Hence they either both fail or both succeed (given a complete pool); neither panics on
    configs read from stored data. -/
theorem C08_both_fail (fetch : Bytes → Res (Option Bytes)) (ix : Instruction)
    (infos pool : List Info) (stored disc : Bytes)
    (hm : Mirror ix infos) (hc : Consistent fetch infos pool)
    (h : (addToInstruction pda fetch ix stored disc).isOk = false) :
    (addToCpi pda ix infos stored disc pool).isOk = false := by
  cases hcpi : addToCpi pda ix infos stored disc pool with
  | ok p =>
    obtain ⟨ix', infos'⟩ := p
    have := C08_cpi_implies_off pda fetch ix ix' infos infos' pool stored disc hm hc hcpi
    rw [this] at h; simp [Res.isOk] at h
  | err e => rfl
  | panic => rfl

/-- Stored order, untouched prefix, lockstep infos: one appended meta per stored config in stored
    order after the pre-existing metas, and one appended info (from the pool) per appended meta
    with the same key. -/
theorem C08_lockstep (ix ix' : Instruction) (infos infos' pool : List Info) (stored disc : Bytes)
    (h : addToCpi pda ix infos stored disc pool = .ok (ix', infos')) :
    ∃ cfgs app appI, readList stored disc = .ok cfgs ∧ ix'.accounts = ix.accounts ++ app ∧
      app.length = cfgs.length ∧ infos' = infos ++ appI ∧ appI.map (·.key) = app.map (·.key) := by
  obtain ⟨cfgs, app, appI, h1, h2, h3, _, _, h6, h7, _⟩ := C06_cpi pda ix ix' infos infos' pool stored disc h
  exact ⟨cfgs, app, appI, h1, h2, h6.1, h3, h7⟩

/-- Whatever the order of the pool: for pools that are permutations of each other (and hold
    consistent data) the CPI helper appends identical metas, hence infos with identical keys. -/
theorem C08_pool_perm (fetch : Bytes → Res (Option Bytes)) (ix ix1 ix2 : Instruction)
    (infos infos1 infos2 pool1 pool2 : List Info) (stored disc : Bytes)
    (hm : Mirror ix infos) (hc1 : Consistent fetch infos pool1) (hc2 : Consistent fetch infos pool2)
    (h1 : addToCpi pda ix infos stored disc pool1 = .ok (ix1, infos1))
    (h2 : addToCpi pda ix infos stored disc pool2 = .ok (ix2, infos2)) :
    ix1 = ix2 ∧ infos1.map (·.key) = infos2.map (·.key) := by
  have o1 := C08_cpi_implies_off pda fetch ix ix1 infos infos1 pool1 stored disc hm hc1 h1
  have o2 := C08_cpi_implies_off pda fetch ix ix2 infos infos2 pool2 stored disc hm hc2 h2
  rw [o1] at o2
  simp only [Res.ok.injEq] at o2
  subst o2
  obtain ⟨c1, a1, i1, r1, m1, _, e1, k1⟩ := C08_lockstep pda ix ix1 infos infos1 pool1 stored disc h1
  obtain ⟨c2, a2, i2, r2, m2, _, e2, k2⟩ := C08_lockstep pda ix ix1 infos infos2 pool2 stored disc h2
  have : a1 = a2 := List.append_cancel_left (m1.symm.trans m2)
  subst this
  refine ⟨rfl, ?_⟩
  rw [e1, e2, List.map_append, List.map_append, k1, k2]

/-! Non-vacuity: a concrete scenario — a stored list of two fixed-key configs, the first of which
    repeats a key that the instruction already holds read-only (so it is de-escalated). -/
def exK (b : UInt8) : Bytes := List.replicate 32 b
def exT : Bytes := [1, 1, 1, 1, 1, 1, 1, 1]
def exStored : Bytes := (init (zeros 100) exT [⟨0, exK 7, 1, 1⟩, ⟨0, exK 9, 0, 1⟩]).1
def exPda (mats : List Bytes) (_ : Bytes) : Option Bytes := mats.head?
def exIx : Instruction := ⟨exK 3, [⟨exK 7, false, false⟩, ⟨exK 8, true, true⟩], [5, 5]⟩
def exInfos : List Info := [⟨exK 7, false, false, [1]⟩, ⟨exK 8, true, true, []⟩]
def exPool : List Info := [⟨exK 9, false, true, [2, 2]⟩, ⟨exK 7, false, false, [1]⟩]
def exFetch (k : Bytes) : Res (Option Bytes) :=
  if k = exK 7 then .ok (some [1]) else if k = exK 8 then .ok (some []) else if k = exK 9 then .ok (some [2, 2]) else .ok none

/-- the precondition of the agreement theorems is satisfiable … -/
example : Mirror exIx exInfos ∧ Consistent exFetch exInfos exPool := by
  constructor
  · unfold Mirror; decide
  · unfold Consistent; decide
set_option maxRecDepth 20000 in
/-- … on a scenario where both helpers succeed, the colliding key is appended read-only and the pool is out of order -/
example : addToCpi exPda exIx exInfos exStored exT exPool =
    .ok (⟨exK 3, [⟨exK 7, false, false⟩, ⟨exK 8, true, true⟩, ⟨exK 7, false, false⟩, ⟨exK 9, false, true⟩], [5, 5]⟩,
         exInfos ++ [⟨exK 7, false, false, [1]⟩, ⟨exK 9, false, true, [2, 2]⟩]) := by decide
set_option maxRecDepth 20000 in
example : addToInstruction exPda exFetch exIx exStored exT =
    .ok ⟨exK 3, [⟨exK 7, false, false⟩, ⟨exK 8, true, true⟩, ⟨exK 7, false, false⟩, ⟨exK 9, false, true⟩], [5, 5]⟩ := by decide

/-- **Lockstep after any outcome.**  Whether `add_to_cpi_instruction`'s loop succeeds or stops
    with an error (unresolvable config, key missing from the pool), what it leaves behind is the
    untouched pre-existing metas and infos followed by equally many appended metas and infos with
    pairwise equal keys: a caller that handles the error never holds a meta without its info. -/
theorem C08_lockstep_any_outcome (ixd prog : Bytes) (pool : List Info) (cfgs : List Meta)
    (infos : List Info) (metas : List AccountMeta) :
    ∃ app appI, (addCpiLoopT pda ixd prog pool cfgs infos metas).1 = (metas ++ app, infos ++ appI) ∧
      appI.map (·.key) = app.map (·.key) ∧ app.length ≤ cfgs.length := by
  obtain ⟨k, app, appI, hk, e1, e2, e3⟩ := C06_after_error_cpi pda ixd prog pool cfgs infos metas
  refine ⟨app, appI, e1, e3, ?_⟩
  have := e2.1
  simp only [List.length_take] at this
  omega

/-- the traced loop is the loop: same status, same result on success -/
theorem C08_trace_agrees (ixd prog : Bytes) (pool : List Info) (cfgs : List Meta)
    (infos : List Info) (metas : List AccountMeta) :
    (addCpiLoopT pda ixd prog pool cfgs infos metas).2 = (addCpiLoop pda ixd prog pool cfgs infos metas).map (fun _ => ()) ∧
    ∀ r, addCpiLoop pda ixd prog pool cfgs infos metas = .ok r → (addCpiLoopT pda ixd prog pool cfgs infos metas).1 = r :=
  addCpiLoopT_agrees pda ixd prog pool cfgs infos metas

end C08
