/-
  C14 — PodOption is a faithful, unambiguous Option encoding.
  Generic over every value type `T` with decidable equality and every choice of none value
  (so addresses, 64-bit integers, … at once).
-/
import SplModel.PodOption
import SplProofs.Lemmas.Le

namespace C14
open PodOption

variable {T : Type} [DecidableEq T] (N : Nullable T)

/-- Reads as none exactly when the stored value equals the none value; some(v) otherwise. -/
theorem C14_get (v : T) :
    (get N v = none ↔ v = N.noneVal) ∧ (v ≠ N.noneVal → get N v = some v) := by
  unfold PodOption.get
  by_cases h : v = N.noneVal <;> simp [h]

/-- Option/COption → PodOption → Option is the identity on every accepted input. -/
theorem C14_roundtrip (o : Option T) (v : T) (h : tryFrom N o = .ok v) : get N v = o := by
  cases o with
  | none => simp [tryFrom] at h; subst h; simp [PodOption.get]
  | some x =>
    unfold tryFrom at h
    by_cases hx : x = N.noneVal
    · simp [hx] at h
    · simp [hx] at h; subst h; simp [PodOption.get, hx]

/-- The only rejected input is some(none-value); nothing panics. -/
theorem C14_reject (o : Option T) :
    ((tryFrom N o).isErr = true ↔ o = some N.noneVal) ∧ tryFrom N o ≠ .panic ∧
    ((serdeDe N o).isErr = true ↔ o = some N.noneVal) := by
  cases o with
  | none => simp [tryFrom, serdeDe, Res.isErr]
  | some x =>
    by_cases hx : x = N.noneVal <;> simp [tryFrom, serdeDe, Res.isErr, hx]

/-- PodOption → Option → PodOption is the identity (every stored value is re-accepted). -/
theorem C14_back (v : T) : tryFrom N (get N v) = .ok v := by
  unfold PodOption.get
  by_cases h : v = N.noneVal <;> simp [h, tryFrom]

/-- The memory/Borsh encoding is that of the wrapped value (the wrapper is the identity), the
    default is none, and Serde writes none as null (`Option::None`). -/
theorem C14_encoding (v : T) :
    wrap v = v ∧ get N (PodOption.default N) = none ∧
    (serdeSer N v = none ↔ v = N.noneVal) := by
  refine ⟨rfl, by simp [PodOption.get, PodOption.default], ?_⟩
  unfold serdeSer PodOption.get
  by_cases h : v = N.noneVal <;> simp [h]

/-- Address instance at byte level: a stored 32-byte value reads as none exactly when every one of
    its bytes is zero — the none test looks at the whole value, not a prefix. -/
theorem C14_address_bytes (b : Bytes) (hb : b.length = 32) :
    get addrN b = none ↔ ∀ i, i < 32 → b[i]? = some 0 := by
  rw [(C14_get addrN b).1]
  constructor
  · intro h i hi
    subst h
    exact Bytes.zeros_get? 32 i hi
  · intro h
    apply List.ext_getElem?
    intro i
    show b[i]? = (Bytes.zeros 32)[i]?
    by_cases hi : i < 32
    · rw [h i hi, Bytes.zeros_get? 32 i hi]
    · rw [List.getElem?_eq_none (by omega), List.getElem?_eq_none (by simp [Bytes.zeros]; omega)]

/-- Every address that differs from the none marker in a single byte (so in particular in a single
    bit), at any of the 32 positions, reads as some of itself and is accepted by every conversion. -/
theorem C14_address_single_byte (i : Nat) (hi : i < 32) (x : UInt8) (hx : x ≠ 0) :
    get addrN ((Bytes.zeros 32).set i x) = some ((Bytes.zeros 32).set i x) ∧
    tryFrom addrN (some ((Bytes.zeros 32).set i x)) = .ok ((Bytes.zeros 32).set i x) := by
  have hlen : (Bytes.zeros 32).length = 32 := by unfold Bytes.zeros; exact List.length_replicate ..
  have hne : (Bytes.zeros 32).set i x ≠ addrN.noneVal := by
    intro h
    have h1 : ((Bytes.zeros 32).set i x)[i]? = (Bytes.zeros 32)[i]? := by rw [h]; rfl
    rw [Bytes.zeros_get? 32 i hi, List.getElem?_set_self (by rw [hlen]; exact hi)] at h1
    exact hx (Option.some.inj h1)
  exact ⟨(C14_get addrN _).2 hne, by simp [tryFrom, hne]⟩

/-- 64-bit instance at byte level: the value reads as none exactly when its eight little-endian
    bytes are all zero. -/
theorem C14_u64_bytes (n : Nat) (hn : n < 2 ^ 64) :
    get u64N n = none ↔ Bytes.toLe 8 n = Bytes.zeros 8 := by
  rw [(C14_get u64N n).1]
  constructor
  · intro h; subst h; decide
  · intro h
    have h1 := Bytes.fromLe_toLe 8 n (by simpa using hn)
    rw [h] at h1
    show n = 0
    rw [← h1]; decide

/-! Non-vacuity of the byte-level statements. -/
example : get addrN ((Bytes.zeros 32).set 31 0x80) ≠ none := by decide
example : get addrN (Bytes.zeros 32) = none := by decide
example : get u64N (2 ^ 63) = some (2 ^ 63) ∧ Bytes.toLe 8 (2 ^ 63) ≠ Bytes.zeros 8 := by decide

/-! Non-vacuity: a 2-byte "address" with none value [0,0]. -/
example : tryFrom (⟨[0, 0]⟩ : Nullable (List Nat)) (some [0, 1]) = .ok [0, 1] := by decide
example : (tryFrom (⟨[0, 0]⟩ : Nullable (List Nat)) (some [0, 0])).isErr = true := by decide

end C14
