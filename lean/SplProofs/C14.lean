/-
  C14 — PodOption is a faithful, unambiguous Option encoding.
  Generic over every value type `T` with decidable equality and every choice of none value
  (so addresses, 64-bit integers, … at once).
-/
import SplModel.PodOption

namespace C14
open PodOption

variable {T : Type} [DecidableEq T] (N : Nullable T)

/-- Reads as none exactly when the stored value equals the none value; some(v) otherwise. -/
theorem C14_get (v : T) :
    (get N v = none ↔ v = N.noneVal) ∧ (v ≠ N.noneVal → get N v = some v) := by
  unfold PodOption.get
  by_cases h : v = N.noneVal <;> simp [h]

/-- Option/COption → PodOption → Option is the identity on every accepted input. -/
theorem C14_roundtrip (o : Option T) (v : T) (h : tryFrom N o = .ok v) : get N v = o := by
  cases o with
  | none => simp [tryFrom] at h; subst h; simp [PodOption.get]
  | some x =>
    unfold tryFrom at h
    by_cases hx : x = N.noneVal
    · simp [hx] at h
    · simp [hx] at h; subst h; simp [PodOption.get, hx]

/-- The only rejected input is some(none-value); nothing panics. -/
theorem C14_reject (o : Option T) :
    ((tryFrom N o).isErr = true ↔ o = some N.noneVal) ∧ tryFrom N o ≠ .panic ∧
    ((serdeDe N o).isErr = true ↔ o = some N.noneVal) := by
  cases o with
  | none => simp [tryFrom, serdeDe, Res.isErr]
  | some x =>
    by_cases hx : x = N.noneVal <;> simp [tryFrom, serdeDe, Res.isErr, hx]

/-- PodOption → Option → PodOption is the identity (every stored value is re-accepted). -/
theorem C14_back (v : T) : tryFrom N (get N v) = .ok v := by
  unfold PodOption.get
  by_cases h : v = N.noneVal <;> simp [h, tryFrom]

/-- The memory/Borsh encoding is that of the wrapped value (the wrapper is the identity), the
    default is none, and Serde writes none as null (`Option::None`). -/
theorem C14_encoding (v : T) :
    wrap v = v ∧ get N (PodOption.default N) = none ∧
    (serdeSer N v = none ↔ v = N.noneVal) := by
  refine ⟨rfl, by simp [PodOption.get, PodOption.default], ?_⟩
  unfold serdeSer PodOption.get
  by_cases h : v = N.noneVal <;> simp [h]

/-! Non-vacuity: a 2-byte "address" with none value [0,0]. -/
example : tryFrom (⟨[0, 0]⟩ : Nullable (List Nat)) (some [0, 1]) = .ok [0, 1] := by decide
example : (tryFrom (⟨[0, 0]⟩ : Nullable (List Nat)) (some [0, 0])).isErr = true := by decide

end C14
