/-
  C11 — seed and key-data address configs round-trip canonically within 32 bytes.
  Quantification: every seed list (any count, literal of any length, all u8 parameters),
  every 32-byte array, every key-data config and every byte prefix.
-/
import SplProofs.Lemmas.Seeds

namespace C11
open Seeds Bytes

/-- The canonical 32-byte layout of a seed list. -/
def canon (ss : List Seed) : Bytes := ss.flatMap packOne ++ zeros (32 - totalSpec ss)

/-- Packed sizes: 2+n per n-byte literal (no wrap-around for any n), 3, 2, 4; the one-byte size
    used by the code agrees with it whenever either is at most 32, and exceeds 32 otherwise. -/
theorem C11_size (b : Bytes) (i l a d : UInt8) :
    specSize (.literal b) = 2 + b.length ∧ specSize (.instr i l) = 3 ∧
    specSize (.acctKey i) = 2 ∧ specSize (.acctData a d l) = 4 ∧
    (∀ s, tlvSize s ≤ 32 ↔ specSize s ≤ 32) ∧ (∀ s, specSize s ≤ 32 → tlvSize s = specSize s) := by
  refine ⟨rfl, rfl, rfl, rfl, ?_, ?_⟩
  · intro s; cases s <;> simp [tlvSize, specSize] <;> omega
  · intro s h; cases s <;> simp [tlvSize, specSize] at * <;> omega

/-- Packing succeeds exactly when the list has no uninitialised seed and its packed size
    totals at most 32 bytes; otherwise it returns an error; it never panics. -/
theorem C11_pack_iff (ss : List Seed) :
    ((packIntoAddressConfig ss).isOk = true ↔ ((∀ s ∈ ss, s ≠ .uninit) ∧ totalSpec ss ≤ 32)) ∧
    (¬ ((∀ s ∈ ss, s ≠ .uninit) ∧ totalSpec ss ≤ 32) → (packIntoAddressConfig ss).isErr = true) ∧
    packIntoAddressConfig ss ≠ .panic := by
  have h := packLoop_spec ss 0 [] rfl (by omega)
  simp only [List.nil_append, Nat.sub_zero, Nat.zero_add] at h
  unfold packIntoAddressConfig
  by_cases hc : (∀ s ∈ ss, s ≠ .uninit) ∧ totalSpec ss ≤ 32
  · rw [h.1 hc]
    exact ⟨⟨fun _ => hc, fun _ => rfl⟩, fun hn => absurd hc hn, by simp⟩
  · obtain ⟨e, he⟩ := h.2 hc
    rw [he]; simp [Res.isOk, Res.isErr, hc]

/-- A successful packing is the canonical layout: the seeds back to back, unused bytes zero. -/
theorem C11_pack_canonical (ss : List Seed) (c : Bytes) (h : packIntoAddressConfig ss = .ok c) :
    c = canon ss ∧ c.length = 32 ∧ (∀ s ∈ ss, s ≠ .uninit) ∧ totalSpec ss ≤ 32 := by
  have hs := packLoop_spec ss 0 [] rfl (by omega)
  simp only [List.nil_append, Nat.sub_zero, Nat.zero_add] at hs
  unfold packIntoAddressConfig at h
  by_cases hc : (∀ s ∈ ss, s ≠ .uninit) ∧ totalSpec ss ≤ 32
  · rw [hs.1 hc] at h
    cases h
    refine ⟨rfl, ?_, hc.1, hc.2⟩
    have : (ss.flatMap packOne).length = totalSpec ss := by
      clear hs hc
      induction ss with
      | nil => rfl
      | cons s r ih => simp [List.flatMap_cons, packOne_length, ih]
    simp [this, zeros_length]; omega
  · obtain ⟨e, he⟩ := hs.2 hc
    rw [he] at h; cases h

theorem flatMap_packOne_length (ss : List Seed) : (ss.flatMap packOne).length = totalSpec ss := by
  induction ss with
  | nil => rfl
  | cons s r ih => simp [List.flatMap_cons, packOne_length, ih]

/-- Then unpacking returns the identical list (no silent truncation). -/
theorem C11_pack_unpack (ss : List Seed) (c : Bytes) (h : packIntoAddressConfig ss = .ok c) :
    unpackAddressConfig c = .ok ss := by
  obtain ⟨hc, hl, hne, htot⟩ := C11_pack_canonical ss c h
  unfold unpackAddressConfig
  rw [if_neg (by simp [hl])]
  rw [hc]
  have hw : ∀ s ∈ ss, WfSeed s := by
    intro s hs
    apply wf_of_small s (hne s hs)
    have : specSize s ≤ totalSpec ss := by
      clear hc hl hne htot h
      induction ss with
      | nil => cases hs
      | cons x r ih =>
        simp only [totalSpec_cons]
        rcases List.mem_cons.mp hs with rfl | hs
        · omega
        · have := ih hs; omega
    have := tlvSize_le_spec s
    omega
  have hlen : ss.length < 33 := by
    have h2 : ∀ (l : List Seed), (∀ s ∈ l, WfSeed s) → 2 * l.length ≤ totalSpec l := by
      intro l
      induction l with
      | nil => intro _; simp
      | cons x r ih =>
        intro hx
        have hx1 := hx x (List.mem_cons_self)
        have : 2 ≤ specSize x := by
          obtain ⟨h1, _, _⟩ := hx1
          cases x <;> simp [specSize] at * <;> omega
        have := ih (fun s hs => hx s (List.mem_cons_of_mem _ hs))
        simp only [List.length_cons, totalSpec_cons]; omega
    have := h2 ss hw
    omega
  have ht : zeros (32 - totalSpec ss) = [] ∨ ∃ t, zeros (32 - totalSpec ss) = 0 :: t := by
    cases hk : 32 - totalSpec ss with
    | zero => left; rfl
    | succ k => right; exact ⟨zeros k, by simp [zeros, List.replicate_succ]⟩
  have := unpackLoop_canon ss hw (zeros (32 - totalSpec ss)) ht [] 33 hlen
  simpa [canon] using this

/-- For any 32 bytes unpacking is total. -/
theorem C11_unpack_total (c : Bytes) (hl : c.length = 32) : unpackAddressConfig c ≠ .panic := by
  unfold unpackAddressConfig
  rw [if_neg (by simp [hl])]
  exact (unpackLoop_sound 33 c (by omega) (by omega) []).1

/-- Whenever unpacking succeeds, re-packing the result reproduces the consumed prefix followed
    by zeros. -/
theorem C11_unpack_pack (c : Bytes) (hl : c.length = 32) (ss : List Seed)
    (h : unpackAddressConfig c = .ok ss) :
    packIntoAddressConfig ss = .ok (c.take (totalSpec ss) ++ zeros (32 - totalSpec ss)) := by
  unfold unpackAddressConfig at h
  rw [if_neg (by simp [hl])] at h
  obtain ⟨ss', tail, e1, e2, e3, _⟩ := (unpackLoop_sound 33 c (by omega) (by omega) []).2 ss h
  simp only [List.reverse_nil, List.nil_append] at e1
  subst e1
  have hlen := flatMap_packOne_length ss
  have htot : totalSpec ss ≤ 32 := by
    have : c.length = (ss.flatMap packOne).length + tail.length := by rw [e2]; simp
    omega
  have hs := packLoop_spec ss 0 [] rfl (by omega)
  simp only [List.nil_append, Nat.sub_zero, Nat.zero_add] at hs
  unfold packIntoAddressConfig
  rw [hs.1 ⟨fun s hs => (e3 s hs).1, htot⟩]
  congr 2
  rw [e2, List.take_append_of_le_length (by omega), ← hlen, List.take_length]

/-! ### the single-entry key-from-data configuration -/

/-- Packing succeeds exactly for initialised configs, into the canonical layout. -/
theorem C11_keydata_pack (k : PubkeyData) :
    (k = .uninit → (kdPackIntoAddressConfig k).isErr = true) ∧
    (k ≠ .uninit → kdPackIntoAddressConfig k = .ok (kdPackOne k ++ zeros (32 - kdSize k))) ∧
    kdPackIntoAddressConfig k ≠ .panic := by
  cases k with
  | uninit => simp [kdPackIntoAddressConfig, kdPack, kdSize, Res.isErr]
  | instr i =>
    simp only [kdPackIntoAddressConfig, kdPack, kdSize, kdPackOne, ne_eq, not_true_eq_false,
      if_false, reduceCtorEq, not_false_eq_true, forall_const, false_implies, true_and]
    have : writeAt (zeros 32) 0 [1, i] = .ok ([1, i] ++ zeros 30) := by
      simp [writeAt, zeros]
    simp [this]
  | acctData a d =>
    simp only [kdPackIntoAddressConfig, kdPack, kdSize, kdPackOne, ne_eq, not_true_eq_false,
      if_false, reduceCtorEq, not_false_eq_true, forall_const, false_implies, true_and]
    have : writeAt (zeros 32) 0 [2, a, d] = .ok ([2, a, d] ++ zeros 29) := by
      simp [writeAt, zeros]
    simp [this]

/-- Unpacking any byte string (every prefix length) is total; on an initialised result,
    re-packing reproduces the consumed prefix; and pack-then-unpack is the identity. -/
theorem C11_keydata_unpack (b : Bytes) :
    kdUnpack b ≠ .panic ∧
    (∀ k, kdUnpack b = .ok k → k ≠ .uninit →
        b.take (kdSize k) = kdPackOne k ∧ kdSize k ≤ b.length) ∧
    (∀ k tail, k ≠ .uninit → kdUnpack (kdPackOne k ++ tail) = .ok k) := by
  refine ⟨?_, ?_, ?_⟩
  · cases b with
    | nil => simp [kdUnpack]
    | cons d r =>
      unfold kdUnpack; simp only
      split
      · simp
      · split
        · cases r <;> simp
        · split
          · match r with
            | a :: dd :: t => simp
            | [] => simp
            | [_] => simp
          · simp
  · intro k h hne
    cases b with
    | nil => simp [kdUnpack] at h
    | cons d r =>
      unfold kdUnpack at h; simp only at h
      split at h
      · cases h; exact absurd rfl hne
      · split at h
        · rename_i hd; subst hd
          cases r with
          | nil => simp at h
          | cons i t => cases h; simp [kdSize, kdPackOne]
        · split at h
          · rename_i hd; subst hd
            match r, h with
            | a :: dd :: t, h => cases h; simp [kdSize, kdPackOne]
            | [], h => simp at h
            | [_], h => simp at h
          · simp at h
  · intro k tail hne
    cases k with
    | uninit => exact absurd rfl hne
    | instr i => simp [kdPackOne, kdUnpack]
    | acctData a d => simp [kdPackOne, kdUnpack]

/-! Non-vacuity -/
example : packIntoAddressConfig [.literal [7, 7], .instr 1 2, .acctKey 3, .acctData 4 5 6] =
    .ok ([1, 2, 7, 7, 2, 1, 2, 3, 3, 4, 4, 5, 6] ++ zeros 19) := by decide
example : (packIntoAddressConfig [.literal (zeros 31)]).isErr = true := by decide

end C11
