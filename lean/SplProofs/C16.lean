/-
  C16 — the generic token parser agrees with the real token layouts.
  `TokenRef` is the model of the reference codecs (SPL Token `Pack`, Token-2022
  `StateWithExtensions::unpack`); whenever it accepts, the generic parser returns the same
  fields.  Quantification: every byte string, every packed state, any extension tail.
-/
import SplProofs.C17
import SplModel.TokenRef
import SplProofs.Lemmas.Le
import SplProofs.Lemmas.Seg

namespace C16
open Token Bytes Gen.Token TokenRef C17

/-- The view of a reference account that the generic parser reports. -/
def accView (a : RefAccount) : Token.Account := ⟨a.mint, a.owner, a.amount⟩
def mintView (m : RefMint) : Token.Mint := ⟨m.supply, m.decimals⟩

theorem unpackAccount_some {b : Bytes} {a : RefAccount} (h : unpackAccount b = some a) :
    b.length = 165 ∧ a.mint = b.take 32 ∧ a.owner = (b.drop 32).take 32 ∧
    a.amount = fromLe ((b.drop 64).take 8) ∧ byteAt b 108 ≠ 0 := by
  unfold unpackAccount at h
  cases hu : unpackAccountUnchecked b with
  | none => simp [hu] at h
  | some a' =>
    simp only [hu, Option.bind_eq_bind, Option.bind_some] at h
    split at h
    · rename_i hst
      cases h
      unfold unpackAccountUnchecked at hu
      split at hu
      · simp at hu
      · rename_i hl
        have hl : b.length = 165 := by simpa using hl
        cases hd : unpackCOptionKey (seg b 72 36) with
        | none => simp [hd] at hu
        | some dl =>
          simp only [hd, Option.bind_eq_bind, Option.bind_some] at hu
          split at hu
          · simp at hu
          · cases hn : unpackCOptionU64 (seg b 109 12) with
            | none => simp [hn] at hu
            | some nat =>
              simp only [hn, Option.bind_some] at hu
              cases hc : unpackCOptionKey (seg b 129 36) with
              | none => simp [hc] at hu
              | some cl =>
                simp only [hc, Option.bind_some, Option.pure_def, Option.some.injEq] at hu
                subst hu
                refine ⟨hl, by simp [seg], by simp [seg], by simp [seg], ?_⟩
                have h108 : 108 < b.length := by omega
                simpa [seg, byteAt, List.getElem?_eq_getElem h108, List.take_one,
                  List.head?_drop] using hst
    · simp at h

theorem unpackMint_some {b : Bytes} {m : RefMint} (h : unpackMint b = some m) :
    b.length = 82 ∧ m.supply = fromLe ((b.drop 36).take 8) ∧ m.decimals = byteAt b 44 ∧
    byteAt b 45 ≠ 0 := by
  unfold unpackMint at h
  cases hu : unpackMintUnchecked b with
  | none => simp [hu] at h
  | some m' =>
    simp only [hu, Option.bind_eq_bind, Option.bind_some] at h
    split at h
    · rename_i hst
      cases h
      unfold unpackMintUnchecked at hu
      split at hu
      · simp at hu
      · rename_i hl
        have hl : b.length = 82 := by simpa using hl
        cases hd : unpackCOptionKey (seg b 0 36) with
        | none => simp [hd] at hu
        | some dl =>
          simp only [hd, Option.bind_eq_bind, Option.bind_some] at hu
          have h45 : 45 < b.length := by omega
          have h44 : 44 < b.length := by omega
          have e45 : (seg b 45 1).headD 0 = byteAt b 45 := by
            simp [seg, byteAt, List.getElem?_eq_getElem h45, List.take_one, List.head?_drop]
          have e44 : (seg b 44 1).headD 0 = byteAt b 44 := by
            simp [seg, byteAt, List.getElem?_eq_getElem h44, List.take_one, List.head?_drop]
          rw [e45, e44] at hu
          by_cases hz : byteAt b 45 = 0
          · simp only [hz, if_true, Option.bind_some] at hu
            cases hc : unpackCOptionKey (seg b 46 36) with
            | none => simp [hc] at hu
            | some cl =>
              simp only [hc, Option.bind_some, Option.pure_def, Option.some.injEq] at hu
              subst hu
              simp at hst
          · by_cases ho : byteAt b 45 = 1
            · rw [ho] at hu
              simp only [show ((1 : UInt8) = 0) = False by decide, if_false, if_true,
                Option.bind_some] at hu
              cases hc : unpackCOptionKey (seg b 46 36) with
              | none => simp [hc] at hu
              | some cl =>
                simp only [hc, Option.bind_some, Option.pure_def, Option.some.injEq] at hu
                subst hu
                refine ⟨hl, by simp [seg], rfl, ?_⟩
                rw [ho]; decide
            · simp [hz, ho] at hu
    · simp at h

/-- SPL Token: every account the reference codec accepts parses to the same fields. -/
theorem C16_account_token (b : Bytes) (a : RefAccount) (h : unpackAccount b = some a) :
    genericAccount b TOKEN_ID = .ok (some (accView a)) := by
  obtain ⟨hl, h1, h2, h3, h4⟩ := unpackAccount_some h
  rw [C17_account_some_iff]
  exact ⟨Or.inl ⟨rfl, hl, h4⟩, by simp [accView, h1, h2, h3]⟩

/-- SPL Token: every mint the reference codec accepts parses to the same fields. -/
theorem C16_mint_token (b : Bytes) (m : RefMint) (h : unpackMint b = some m) :
    genericMint b TOKEN_ID = .ok (some (mintView m)) := by
  obtain ⟨hl, h1, h2, h3⟩ := unpackMint_some h
  rw [C17_mint_some_iff]
  exact ⟨Or.inl ⟨rfl, hl, h3⟩, by simp [mintView, h1, h2]⟩

/-- Token-2022: every account `StateWithExtensions::<Account>::unpack` accepts — base layout or
    with any extension tail — parses to the same fields. -/
theorem C16_account_t22 (b : Bytes) (a : RefAccount) (h : t22UnpackAccount b = some a) :
    genericAccount b TOKEN_2022_ID = .ok (some (accView a)) := by
  unfold t22UnpackAccount at h
  split at h
  · simp at h
  · rename_i hlen
    have hlen : b.length ≠ 355 ∧ 165 ≤ b.length := by omega
    cases hu : unpackAccount (b.take 165) with
    | none => simp [hu] at h
    | some a' =>
      simp only [hu, Option.bind_eq_bind, Option.bind_some] at h
      obtain ⟨hl, h1, h2, h3, h4⟩ := unpackAccount_some hu
      have h108 : byteAt b 108 ≠ 0 := by
        simpa [byteAt, List.getElem?_take] using h4
      have hv : accView a' = ⟨b.take 32, (b.drop 32).take 32, fromLe ((b.drop 64).take 8)⟩ := by
        simp [accView, h1, h2, h3, List.take_take, List.drop_take]
      rw [C17_account_some_iff]
      split at h
      · rename_i he
        cases h
        have : b.length = 165 := by
          have : b.length ≤ 165 := by simpa [List.isEmpty_iff] using he
          omega
        exact ⟨Or.inr ⟨rfl, h108, Or.inl this⟩, hv⟩
      · rename_i he
        have hgt : 165 < b.length := by
          have : ¬ b.length ≤ 165 := by simpa [List.isEmpty_iff] using he
          omega
        split at h
        · simp at h
        · split at h
          · rename_i hty
            cases h
            refine ⟨Or.inr ⟨rfl, h108, Or.inr ⟨hgt, hlen.1, ?_⟩⟩, hv⟩
            rw [List.getElem?_eq_getElem hgt]
            simpa [List.head?_drop, List.getElem?_eq_getElem hgt] using hty
          · simp at h

/-- Token-2022: every mint `StateWithExtensions::<Mint>::unpack` accepts parses to the same
    fields. -/
theorem C16_mint_t22 (b : Bytes) (m : RefMint) (h : t22UnpackMint b = some m) :
    genericMint b TOKEN_2022_ID = .ok (some (mintView m)) := by
  unfold t22UnpackMint at h
  split at h
  · simp at h
  · rename_i hlen
    have hlen : b.length ≠ 355 ∧ 82 ≤ b.length := by omega
    cases hu : unpackMint (b.take 82) with
    | none => simp [hu] at h
    | some m' =>
      simp only [hu, Option.bind_eq_bind, Option.bind_some] at h
      obtain ⟨hl, h1, h2, h3⟩ := unpackMint_some hu
      have h45 : byteAt b 45 ≠ 0 := by
        simpa [byteAt, List.getElem?_take] using h3
      have hv : mintView m' = ⟨fromLe ((b.drop 36).take 8), byteAt b 44⟩ := by
        simp [mintView, h1, h2, List.take_take, List.drop_take, byteAt, List.getElem?_take]
      rw [C17_mint_some_iff]
      split at h
      · rename_i he
        cases h
        have : b.length = 82 := by
          have : b.length ≤ 82 := by simpa [List.isEmpty_iff] using he
          omega
        exact ⟨Or.inr ⟨rfl, h45, Or.inl this⟩, hv⟩
      · split at h
        · simp at h
        · rename_i hge
          have hgt : 165 < b.length := by
            have : ¬ (b.length - 82 < 84) := by simpa using hge
            omega
          split at h
          · simp at h
          · split at h
            · rename_i hty
              cases h
              refine ⟨Or.inr ⟨rfl, h45, Or.inr ⟨hgt, hlen.1, ?_⟩⟩, hv⟩
              rw [List.getElem?_eq_getElem hgt]
              simpa [List.head?_drop, List.getElem?_eq_getElem hgt] using hty
            · simp at h

/-- Uninitialised state never parses, under any program id, at any length. -/
theorem C16_uninit (b p : Bytes) :
    (byteAt b 108 = 0 → genericAccount b p = .ok none) ∧
    (byteAt b 45 = 0 → genericMint b p = .ok none) := by
  rw [C17_account_none_iff, C17_mint_none_iff]
  constructor <;> intro h <;> rintro (⟨_, _, h'⟩ | ⟨_, h', _⟩) <;> exact h' h

/-- A base-layout account or mint parses identically under both token program ids. -/
theorem C16_base_eq (b : Bytes) :
    (b.length = 165 → genericAccount b TOKEN_ID = genericAccount b TOKEN_2022_ID) ∧
    (b.length = 82 → genericMint b TOKEN_ID = genericMint b TOKEN_2022_ID) := by
  have hne : TOKEN_2022_ID ≠ TOKEN_ID := by decide
  constructor <;> intro hl
  · have hiff : AcctCond b TOKEN_ID ↔ AcctCond b TOKEN_2022_ID := by
      unfold AcctCond; constructor
      · rintro (⟨_, h1, h2⟩ | ⟨h, _⟩)
        · exact Or.inr ⟨rfl, h2, Or.inl h1⟩
        · exact absurd h hne.symm
      · rintro (⟨h, _⟩ | ⟨_, h2, _⟩)
        · exact absurd h hne
        · exact Or.inl ⟨rfl, hl, h2⟩
    simp only [C17_account_char]
    by_cases hc : AcctCond b TOKEN_ID
    · rw [if_pos hc, if_pos (hiff.mp hc)]
    · rw [if_neg hc, if_neg (fun h => hc (hiff.mpr h))]
  · have hiff : MintCond b TOKEN_ID ↔ MintCond b TOKEN_2022_ID := by
      unfold MintCond; constructor
      · rintro (⟨_, h1, h2⟩ | ⟨h, _⟩)
        · exact Or.inr ⟨rfl, h2, Or.inl h1⟩
        · exact absurd h hne.symm
      · rintro (⟨h, _⟩ | ⟨_, h2, _⟩)
        · exact absurd h hne
        · exact Or.inl ⟨rfl, hl, h2⟩
    simp only [C17_mint_char]
    by_cases hc : MintCond b TOKEN_ID
    · rw [if_pos hc, if_pos (hiff.mp hc)]
    · rw [if_neg hc, if_neg (fun h => hc (hiff.mpr h))]

theorem seg_skip (A R : Bytes) (off len k : Nat) (h : off = A.length + k) :
    seg (A ++ R) off len = seg R k len := by
  unfold seg; rw [drop_append_add A R off k h]

theorem seg_here (B R : Bytes) (len : Nat) (h : len = B.length) : seg (B ++ R) 0 len = B := by
  unfold seg; simp [take_append_len B R len h]

theorem seg_last (B : Bytes) (len : Nat) (h : len = B.length) : seg B 0 len = B := by
  unfold seg; subst h; simp

/-- well-formed reference account: 32-byte keys, 64-bit amounts, an initialised state -/
structure WfAccount (a : RefAccount) : Prop where
  mint : a.mint.length = 32
  owner : a.owner.length = 32
  amount : a.amount < 2 ^ 64
  delegate : ∀ k, a.delegate = some k → k.length = 32
  state : a.state = 1 ∨ a.state = 2
  native : ∀ n, a.isNative = some n → n < 2 ^ 64
  damount : a.delegatedAmount < 2 ^ 64
  close : ∀ k, a.closeAuthority = some k → k.length = 32

theorem toLe_len (k n : Nat) : (toLe k n).length = k := by
  induction k generalizing n with
  | zero => rfl
  | succ k ih => simp [toLe, ih]

theorem packKey_len (o : Option Bytes) (h : ∀ k, o = some k → k.length = 32) : (packCOptionKey o).length = 36 := by
  cases o with
  | none => simp [packCOptionKey]
  | some k => simp [packCOptionKey, h k rfl]

theorem packU64_len (o : Option Nat) : (packCOptionU64 o).length = 12 := by
  cases o with
  | none => simp [packCOptionU64]
  | some k => simp [packCOptionU64, toLe_len]

theorem unpackKey_pack (o : Option Bytes) : unpackCOptionKey (packCOptionKey o) = some o := by
  cases o with
  | none => simp [packCOptionKey, unpackCOptionKey, zeros]
  | some k => simp [packCOptionKey, unpackCOptionKey]

theorem unpackU64_pack (o : Option Nat) (h : ∀ n, o = some n → n < 2 ^ 64) :
    unpackCOptionU64 (packCOptionU64 o) = some o := by
  cases o with
  | none => simp [packCOptionU64, unpackCOptionU64, zeros]
  | some n =>
    simp [packCOptionU64, unpackCOptionU64]
    exact fromLe_toLe 8 n (h n rfl)

theorem packAccount_len (a : RefAccount) (w : WfAccount a) : (packAccount a).length = 165 := by
  simp [packAccount, w.mint, w.owner, toLe_len, packKey_len _ w.delegate, packU64_len, packKey_len _ w.close]

/-- The reference codec is a codec: unpacking a packed (initialised, well-formed) account gives it back. -/
theorem unpackAccount_pack (a : RefAccount) (w : WfAccount a) : unpackAccount (packAccount a) = some a := by
  have hl := packAccount_len a w
  have hd := packKey_len _ w.delegate
  have hc := packKey_len _ w.close
  have hn := packU64_len a.isNative
  have e : packAccount a = a.mint ++ (a.owner ++ (toLe 8 a.amount ++ (packCOptionKey a.delegate ++ ([a.state] ++
      (packCOptionU64 a.isNative ++ (toLe 8 a.delegatedAmount ++ packCOptionKey a.closeAuthority)))))) := by
    simp [packAccount]
  have s0 : seg (packAccount a) 0 32 = a.mint := by rw [e]; exact seg_here _ _ _ w.mint.symm
  have s1 : seg (packAccount a) 32 32 = a.owner := by
    rw [e, seg_skip _ _ 32 32 0 (by rw [w.mint])]; exact seg_here _ _ _ w.owner.symm
  have s2 : seg (packAccount a) 64 8 = toLe 8 a.amount := by
    rw [e, seg_skip _ _ 64 8 32 (by rw [w.mint]), seg_skip _ _ 32 8 0 (by rw [w.owner])]
    exact seg_here _ _ _ (toLe_len _ _).symm
  have s3 : seg (packAccount a) 72 36 = packCOptionKey a.delegate := by
    rw [e, seg_skip _ _ 72 36 40 (by rw [w.mint]), seg_skip _ _ 40 36 8 (by rw [w.owner]),
      seg_skip _ _ 8 36 0 (by rw [toLe_len])]
    exact seg_here _ _ _ hd.symm
  have s4 : seg (packAccount a) 108 1 = [a.state] := by
    rw [e, seg_skip _ _ 108 1 76 (by rw [w.mint]), seg_skip _ _ 76 1 44 (by rw [w.owner]),
      seg_skip _ _ 44 1 36 (by rw [toLe_len]), seg_skip _ _ 36 1 0 (by rw [hd])]
    exact seg_here _ _ _ rfl
  have s5 : seg (packAccount a) 109 12 = packCOptionU64 a.isNative := by
    rw [e, seg_skip _ _ 109 12 77 (by rw [w.mint]), seg_skip _ _ 77 12 45 (by rw [w.owner]),
      seg_skip _ _ 45 12 37 (by rw [toLe_len]), seg_skip _ _ 37 12 1 (by rw [hd]),
      seg_skip _ _ 1 12 0 (by simp)]
    exact seg_here _ _ _ hn.symm
  have s6 : seg (packAccount a) 121 8 = toLe 8 a.delegatedAmount := by
    rw [e, seg_skip _ _ 121 8 89 (by rw [w.mint]), seg_skip _ _ 89 8 57 (by rw [w.owner]),
      seg_skip _ _ 57 8 49 (by rw [toLe_len]), seg_skip _ _ 49 8 13 (by rw [hd]),
      seg_skip _ _ 13 8 12 (by simp), seg_skip _ _ 12 8 0 (by rw [hn])]
    exact seg_here _ _ _ (toLe_len _ _).symm
  have s7 : seg (packAccount a) 129 36 = packCOptionKey a.closeAuthority := by
    rw [e, seg_skip _ _ 129 36 97 (by rw [w.mint]), seg_skip _ _ 97 36 65 (by rw [w.owner]),
      seg_skip _ _ 65 36 57 (by rw [toLe_len]), seg_skip _ _ 57 36 21 (by rw [hd]),
      seg_skip _ _ 21 36 20 (by simp), seg_skip _ _ 20 36 8 (by rw [hn]),
      seg_skip _ _ 8 36 0 (by rw [toLe_len])]
    exact seg_last _ _ hc.symm
  have hst : ¬ a.state.toNat > 2 := by rcases w.state with h | h <;> rw [h] <;> decide
  have hst0 : a.state ≠ 0 := by rcases w.state with h | h <;> rw [h] <;> decide
  unfold unpackAccount unpackAccountUnchecked
  rw [if_neg (by rw [hl]; decide)]
  simp only [s0, s1, s2, s3, s4, s5, s6, s7, unpackKey_pack, unpackU64_pack _ w.native, List.headD_cons,
    Option.bind_eq_bind, Option.bind_some, if_neg hst, Option.pure_def,
    fromLe_toLe 8 _ w.amount, fromLe_toLe 8 _ w.damount]
  rw [if_pos hst0]

structure WfMint (m : RefMint) : Prop where
  auth : ∀ k, m.mintAuthority = some k → k.length = 32
  supply : m.supply < 2 ^ 64
  init : m.isInitialized = true
  freeze : ∀ k, m.freezeAuthority = some k → k.length = 32

theorem packMint_len (m : RefMint) (w : WfMint m) : (packMint m).length = 82 := by
  simp [packMint, packKey_len _ w.auth, packKey_len _ w.freeze]

theorem unpackMint_pack (m : RefMint) (w : WfMint m) : unpackMint (packMint m) = some m := by
  have hl := packMint_len m w
  have ha := packKey_len _ w.auth
  have hf := packKey_len _ w.freeze
  have e : packMint m = packCOptionKey m.mintAuthority ++ (toLe 8 m.supply ++ ([m.decimals] ++
      ([if m.isInitialized then 1 else 0] ++ packCOptionKey m.freezeAuthority))) := by
    simp [packMint]
  have s0 : seg (packMint m) 0 36 = packCOptionKey m.mintAuthority := by rw [e]; exact seg_here _ _ _ ha.symm
  have s1 : seg (packMint m) 36 8 = toLe 8 m.supply := by
    rw [e, seg_skip _ _ 36 8 0 (by rw [ha])]; exact seg_here _ _ _ (toLe_len _ _).symm
  have s2 : seg (packMint m) 44 1 = [m.decimals] := by
    rw [e, seg_skip _ _ 44 1 8 (by rw [ha]), seg_skip _ _ 8 1 0 (by rw [toLe_len])]; exact seg_here _ _ _ rfl
  have s3 : seg (packMint m) 45 1 = [if m.isInitialized then 1 else 0] := by
    rw [e, seg_skip _ _ 45 1 9 (by rw [ha]), seg_skip _ _ 9 1 1 (by rw [toLe_len]), seg_skip _ _ 1 1 0 (by simp)]
    exact seg_here _ _ _ rfl
  have s4 : seg (packMint m) 46 36 = packCOptionKey m.freezeAuthority := by
    rw [e, seg_skip _ _ 46 36 10 (by rw [ha]), seg_skip _ _ 10 36 2 (by rw [toLe_len]), seg_skip _ _ 2 36 1 (by simp),
      seg_skip _ _ 1 36 0 (by simp)]
    exact seg_last _ _ hf.symm
  unfold unpackMint unpackMintUnchecked
  rw [if_neg (by rw [hl]; decide)]
  simp only [s0, s1, s2, s3, s4, unpackKey_pack, List.headD_cons, Option.bind_eq_bind, Option.bind_some,
    Option.pure_def, fromLe_toLe 8 _ w.supply, w.init]
  cases m with
  | mk a s d i f =>
    have hi : i = true := w.init
    subst hi
    simp



/-- From states rather than bytes: every well-formed initialised account state — any keys, any amount,
    any option tags, state initialised or frozen — packed by the reference codec parses to its mint,
    owner and amount under both program ids, and under Token-2022 also with the account-type marker
    followed by extension data of any length and content (total length 355 excepted: that is the
    multisig length, which the reference codec rejects too). -/
theorem C16_packed_account (a : RefAccount) (w : WfAccount a) (ext : Bytes) :
    genericAccount (packAccount a) TOKEN_ID = .ok (some (accView a)) ∧
    genericAccount (packAccount a) TOKEN_2022_ID = .ok (some (accView a)) ∧
    ((packAccount a ++ 2 :: ext).length ≠ 355 →
      genericAccount (packAccount a ++ 2 :: ext) TOKEN_2022_ID = .ok (some (accView a))) := by
  have hu := unpackAccount_pack a w
  have hl := packAccount_len a w
  refine ⟨C16_account_token _ a hu, C16_account_t22 _ a ?_, fun h355 => C16_account_t22 _ a ?_⟩
  · unfold t22UnpackAccount
    rw [if_neg (by rw [hl]; decide)]
    have : (packAccount a).take 165 = packAccount a := List.take_of_length_le (by omega)
    have hd : (packAccount a).drop 165 = [] := List.drop_of_length_le (by omega)
    simp [this, hd, hu]
  · unfold t22UnpackAccount
    rw [if_neg (by intro h; rcases h with h | h; exact h355 h; simp at h; omega)]
    have ht : (packAccount a ++ 2 :: ext).take 165 = packAccount a := take_append_len _ _ _ hl.symm
    have hd : (packAccount a ++ 2 :: ext).drop 165 = 2 :: ext := drop_append_len _ _ _ hl.symm
    simp [ht, hd, hu]

/-- The same for mints: base layout under both ids, and under Token-2022 padded with zeros to the
    account length, the mint marker and any extension data. -/
theorem C16_packed_mint (m : RefMint) (w : WfMint m) (ext : Bytes) :
    genericMint (packMint m) TOKEN_ID = .ok (some (mintView m)) ∧
    genericMint (packMint m) TOKEN_2022_ID = .ok (some (mintView m)) ∧
    ((packMint m ++ (zeros 83 ++ 1 :: ext)).length ≠ 355 →
      genericMint (packMint m ++ (zeros 83 ++ 1 :: ext)) TOKEN_2022_ID = .ok (some (mintView m))) := by
  have hu := unpackMint_pack m w
  have hl := packMint_len m w
  refine ⟨C16_mint_token _ m hu, C16_mint_t22 _ m ?_, fun h355 => C16_mint_t22 _ m ?_⟩
  · unfold t22UnpackMint
    rw [if_neg (by rw [hl]; decide)]
    have : (packMint m).take 82 = packMint m := List.take_of_length_le (by omega)
    have hd : (packMint m).drop 82 = [] := List.drop_of_length_le (by omega)
    simp [this, hd, hu]
  · unfold t22UnpackMint
    rw [if_neg (by intro h; rcases h with h | h; exact h355 h; simp at h; omega)]
    have ht : (packMint m ++ (zeros 83 ++ 1 :: ext)).take 82 = packMint m := take_append_len _ _ _ hl.symm
    have hd : (packMint m ++ (zeros 83 ++ 1 :: ext)).drop 82 = zeros 83 ++ 1 :: ext := drop_append_len _ _ _ hl.symm
    have h83 : (zeros 83 ++ 1 :: ext).take 83 = zeros 83 := take_append_len _ _ _ (by simp)
    have d83 : (zeros 83 ++ 1 :: ext).drop 83 = 1 :: ext := drop_append_len _ _ _ (by simp)
    simp [ht, hd, hu, h83, d83]
    omega


/-! non-vacuity: a concrete well-formed state (delegate set, native, frozen) and its 165-byte packing -/
def exAccount : RefAccount :=
  ⟨List.replicate 32 1, List.replicate 32 2, 1000000, some (List.replicate 32 3), 2, some 5, 7, none⟩
example : WfAccount exAccount :=
  ⟨by decide, by decide, by decide, (by intro k h; cases h; decide), by decide, (by intro n h; cases h; decide),
   by decide, (by intro k h; cases h)⟩
set_option maxRecDepth 20000 in
example : (packAccount exAccount).length = 165 ∧ unpackAccount (packAccount exAccount) = some exAccount := by decide
example : WfMint ⟨none, 42, 9, true, some (List.replicate 32 4)⟩ :=
  { auth := (by intro k h; cases h), supply := (by decide), init := rfl, freeze := (by intro k h; cases h; decide) }

set_option maxRecDepth 20000 in
/-- The canned native-mint account data (regenerated from the source on every run) is exactly the
    reference packing of the documented state — no authority, supply 0, 9 decimals, initialised, no
    freeze authority — and parses to (0, 9) under both token programs. -/
theorem C16_native_mint :
    NATIVE_MINT_ACCOUNT_DATA = packMint ⟨none, 0, 9, true, none⟩ ∧
    unpackMint NATIVE_MINT_ACCOUNT_DATA = some ⟨none, 0, 9, true, none⟩ ∧
    genericMint NATIVE_MINT_ACCOUNT_DATA TOKEN_ID = .ok (some ⟨0, 9⟩) ∧
    genericMint NATIVE_MINT_ACCOUNT_DATA TOKEN_2022_ID = .ok (some ⟨0, 9⟩) ∧
    NATIVE_MINT_ID.length = 32 := by decide

/-- **Length frame for the reference codecs.**  On a buffer of 357 bytes or more the SPL Token
    `Pack` codecs and Token-2022's `StateWithExtensions::unpack` (as modelled) return what they
    return on the buffer's first 166 bytes followed by 191 zeros; together with `C17_length_frame`
    the agreement theorems above are evaluated on 10 MiB and 4 GiB buffers through their heads
    (`tokrefbig` cases). -/
theorem C16_length_frame (d : Bytes) (h : 357 ≤ d.length) :
    unpackAccount d = unpackAccount (TokenFrame.compress d) ∧
    unpackMint d = unpackMint (TokenFrame.compress d) ∧
    t22UnpackAccount d = t22UnpackAccount (TokenFrame.compress d) ∧
    t22UnpackMint d = t22UnpackMint (TokenFrame.compress d) := by
  obtain ⟨hH, hT, e⟩ := TokenFrame.split d h
  have := TokenFrame.ref_app hH hT TokenFrame.zeros_len
  rw [← e] at this
  exact this

end C16
