/-
  C16 — the generic token parser agrees with the real token layouts.
  `TokenRef` is the model of the reference codecs (SPL Token `Pack`, Token-2022
  `StateWithExtensions::unpack`); whenever it accepts, the generic parser returns the same
  fields.  Quantification: every byte string, every packed state, any extension tail.
-/
import SplProofs.C17
import SplModel.TokenRef

namespace C16
open Token Bytes Gen.Token TokenRef C17

/-- The view of a reference account that the generic parser reports. -/
def accView (a : RefAccount) : Token.Account := ⟨a.mint, a.owner, a.amount⟩
def mintView (m : RefMint) : Token.Mint := ⟨m.supply, m.decimals⟩

theorem unpackAccount_some {b : Bytes} {a : RefAccount} (h : unpackAccount b = some a) :
    b.length = 165 ∧ a.mint = b.take 32 ∧ a.owner = (b.drop 32).take 32 ∧
    a.amount = fromLe ((b.drop 64).take 8) ∧ byteAt b 108 ≠ 0 := by
  unfold unpackAccount at h
  cases hu : unpackAccountUnchecked b with
  | none => simp [hu] at h
  | some a' =>
    simp only [hu, Option.bind_eq_bind, Option.bind_some] at h
    split at h
    · rename_i hst
      cases h
      unfold unpackAccountUnchecked at hu
      split at hu
      · simp at hu
      · rename_i hl
        have hl : b.length = 165 := by simpa using hl
        cases hd : unpackCOptionKey (seg b 72 36) with
        | none => simp [hd] at hu
        | some dl =>
          simp only [hd, Option.bind_eq_bind, Option.bind_some] at hu
          split at hu
          · simp at hu
          · cases hn : unpackCOptionU64 (seg b 109 12) with
            | none => simp [hn] at hu
            | some nat =>
              simp only [hn, Option.bind_some] at hu
              cases hc : unpackCOptionKey (seg b 129 36) with
              | none => simp [hc] at hu
              | some cl =>
                simp only [hc, Option.bind_some, Option.pure_def, Option.some.injEq] at hu
                subst hu
                refine ⟨hl, by simp [seg], by simp [seg], by simp [seg], ?_⟩
                have h108 : 108 < b.length := by omega
                simpa [seg, byteAt, List.getElem?_eq_getElem h108, List.take_one,
                  List.head?_drop] using hst
    · simp at h

theorem unpackMint_some {b : Bytes} {m : RefMint} (h : unpackMint b = some m) :
    b.length = 82 ∧ m.supply = fromLe ((b.drop 36).take 8) ∧ m.decimals = byteAt b 44 ∧
    byteAt b 45 ≠ 0 := by
  unfold unpackMint at h
  cases hu : unpackMintUnchecked b with
  | none => simp [hu] at h
  | some m' =>
    simp only [hu, Option.bind_eq_bind, Option.bind_some] at h
    split at h
    · rename_i hst
      cases h
      unfold unpackMintUnchecked at hu
      split at hu
      · simp at hu
      · rename_i hl
        have hl : b.length = 82 := by simpa using hl
        cases hd : unpackCOptionKey (seg b 0 36) with
        | none => simp [hd] at hu
        | some dl =>
          simp only [hd, Option.bind_eq_bind, Option.bind_some] at hu
          have h45 : 45 < b.length := by omega
          have h44 : 44 < b.length := by omega
          have e45 : (seg b 45 1).headD 0 = byteAt b 45 := by
            simp [seg, byteAt, List.getElem?_eq_getElem h45, List.take_one, List.head?_drop]
          have e44 : (seg b 44 1).headD 0 = byteAt b 44 := by
            simp [seg, byteAt, List.getElem?_eq_getElem h44, List.take_one, List.head?_drop]
          rw [e45, e44] at hu
          by_cases hz : byteAt b 45 = 0
          · simp only [hz, if_true, Option.bind_some] at hu
            cases hc : unpackCOptionKey (seg b 46 36) with
            | none => simp [hc] at hu
            | some cl =>
              simp only [hc, Option.bind_some, Option.pure_def, Option.some.injEq] at hu
              subst hu
              simp at hst
          · by_cases ho : byteAt b 45 = 1
            · rw [ho] at hu
              simp only [show ((1 : UInt8) = 0) = False by decide, if_false, if_true,
                Option.bind_some] at hu
              cases hc : unpackCOptionKey (seg b 46 36) with
              | none => simp [hc] at hu
              | some cl =>
                simp only [hc, Option.bind_some, Option.pure_def, Option.some.injEq] at hu
                subst hu
                refine ⟨hl, by simp [seg], rfl, ?_⟩
                rw [ho]; decide
            · simp [hz, ho] at hu
    · simp at h

/-- SPL Token: every account the reference codec accepts parses to the same fields. -/
theorem C16_account_token (b : Bytes) (a : RefAccount) (h : unpackAccount b = some a) :
    genericAccount b TOKEN_ID = .ok (some (accView a)) := by
  obtain ⟨hl, h1, h2, h3, h4⟩ := unpackAccount_some h
  rw [C17_account_some_iff]
  exact ⟨Or.inl ⟨rfl, hl, h4⟩, by simp [accView, h1, h2, h3]⟩

/-- SPL Token: every mint the reference codec accepts parses to the same fields. -/
theorem C16_mint_token (b : Bytes) (m : RefMint) (h : unpackMint b = some m) :
    genericMint b TOKEN_ID = .ok (some (mintView m)) := by
  obtain ⟨hl, h1, h2, h3⟩ := unpackMint_some h
  rw [C17_mint_some_iff]
  exact ⟨Or.inl ⟨rfl, hl, h3⟩, by simp [mintView, h1, h2]⟩

/-- Token-2022: every account `StateWithExtensions::<Account>::unpack` accepts — base layout or
    with any extension tail — parses to the same fields. -/
theorem C16_account_t22 (b : Bytes) (a : RefAccount) (h : t22UnpackAccount b = some a) :
    genericAccount b TOKEN_2022_ID = .ok (some (accView a)) := by
  unfold t22UnpackAccount at h
  split at h
  · simp at h
  · rename_i hlen
    have hlen : b.length ≠ 355 ∧ 165 ≤ b.length := by omega
    cases hu : unpackAccount (b.take 165) with
    | none => simp [hu] at h
    | some a' =>
      simp only [hu, Option.bind_eq_bind, Option.bind_some] at h
      obtain ⟨hl, h1, h2, h3, h4⟩ := unpackAccount_some hu
      have h108 : byteAt b 108 ≠ 0 := by
        simpa [byteAt, List.getElem?_take] using h4
      have hv : accView a' = ⟨b.take 32, (b.drop 32).take 32, fromLe ((b.drop 64).take 8)⟩ := by
        simp [accView, h1, h2, h3, List.take_take, List.drop_take]
      rw [C17_account_some_iff]
      split at h
      · rename_i he
        cases h
        have : b.length = 165 := by
          have : b.length ≤ 165 := by simpa [List.isEmpty_iff] using he
          omega
        exact ⟨Or.inr ⟨rfl, h108, Or.inl this⟩, hv⟩
      · rename_i he
        have hgt : 165 < b.length := by
          have : ¬ b.length ≤ 165 := by simpa [List.isEmpty_iff] using he
          omega
        split at h
        · simp at h
        · split at h
          · rename_i hty
            cases h
            refine ⟨Or.inr ⟨rfl, h108, Or.inr ⟨hgt, hlen.1, ?_⟩⟩, hv⟩
            rw [List.getElem?_eq_getElem hgt]
            simpa [List.head?_drop, List.getElem?_eq_getElem hgt] using hty
          · simp at h

/-- Token-2022: every mint `StateWithExtensions::<Mint>::unpack` accepts parses to the same
    fields. -/
theorem C16_mint_t22 (b : Bytes) (m : RefMint) (h : t22UnpackMint b = some m) :
    genericMint b TOKEN_2022_ID = .ok (some (mintView m)) := by
  unfold t22UnpackMint at h
  split at h
  · simp at h
  · rename_i hlen
    have hlen : b.length ≠ 355 ∧ 82 ≤ b.length := by omega
    cases hu : unpackMint (b.take 82) with
    | none => simp [hu] at h
    | some m' =>
      simp only [hu, Option.bind_eq_bind, Option.bind_some] at h
      obtain ⟨hl, h1, h2, h3⟩ := unpackMint_some hu
      have h45 : byteAt b 45 ≠ 0 := by
        simpa [byteAt, List.getElem?_take] using h3
      have hv : mintView m' = ⟨fromLe ((b.drop 36).take 8), byteAt b 44⟩ := by
        simp [mintView, h1, h2, List.take_take, List.drop_take, byteAt, List.getElem?_take]
      rw [C17_mint_some_iff]
      split at h
      · rename_i he
        cases h
        have : b.length = 82 := by
          have : b.length ≤ 82 := by simpa [List.isEmpty_iff] using he
          omega
        exact ⟨Or.inr ⟨rfl, h45, Or.inl this⟩, hv⟩
      · split at h
        · simp at h
        · rename_i hge
          have hgt : 165 < b.length := by
            have : ¬ (b.length - 82 < 84) := by simpa using hge
            omega
          split at h
          · simp at h
          · split at h
            · rename_i hty
              cases h
              refine ⟨Or.inr ⟨rfl, h45, Or.inr ⟨hgt, hlen.1, ?_⟩⟩, hv⟩
              rw [List.getElem?_eq_getElem hgt]
              simpa [List.head?_drop, List.getElem?_eq_getElem hgt] using hty
            · simp at h

/-- Uninitialised state never parses, under any program id, at any length. -/
theorem C16_uninit (b p : Bytes) :
    (byteAt b 108 = 0 → genericAccount b p = .ok none) ∧
    (byteAt b 45 = 0 → genericMint b p = .ok none) := by
  rw [C17_account_none_iff, C17_mint_none_iff]
  constructor <;> intro h <;> rintro (⟨_, _, h'⟩ | ⟨_, h', _⟩) <;> exact h' h

/-- A base-layout account or mint parses identically under both token program ids. -/
theorem C16_base_eq (b : Bytes) :
    (b.length = 165 → genericAccount b TOKEN_ID = genericAccount b TOKEN_2022_ID) ∧
    (b.length = 82 → genericMint b TOKEN_ID = genericMint b TOKEN_2022_ID) := by
  have hne : TOKEN_2022_ID ≠ TOKEN_ID := by decide
  constructor <;> intro hl
  · have hiff : AcctCond b TOKEN_ID ↔ AcctCond b TOKEN_2022_ID := by
      unfold AcctCond; constructor
      · rintro (⟨_, h1, h2⟩ | ⟨h, _⟩)
        · exact Or.inr ⟨rfl, h2, Or.inl h1⟩
        · exact absurd h hne.symm
      · rintro (⟨h, _⟩ | ⟨_, h2, _⟩)
        · exact absurd h hne
        · exact Or.inl ⟨rfl, hl, h2⟩
    simp only [C17_account_char]
    by_cases hc : AcctCond b TOKEN_ID
    · rw [if_pos hc, if_pos (hiff.mp hc)]
    · rw [if_neg hc, if_neg (fun h => hc (hiff.mpr h))]
  · have hiff : MintCond b TOKEN_ID ↔ MintCond b TOKEN_2022_ID := by
      unfold MintCond; constructor
      · rintro (⟨_, h1, h2⟩ | ⟨h, _⟩)
        · exact Or.inr ⟨rfl, h2, Or.inl h1⟩
        · exact absurd h hne.symm
      · rintro (⟨h, _⟩ | ⟨_, h2, _⟩)
        · exact absurd h hne
        · exact Or.inl ⟨rfl, hl, h2⟩
    simp only [C17_mint_char]
    by_cases hc : MintCond b TOKEN_ID
    · rw [if_pos hc, if_pos (hiff.mp hc)]
    · rw [if_neg hc, if_neg (fun h => hc (hiff.mpr h))]

end C16
