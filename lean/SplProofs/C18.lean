/-
  C18 — compile-time and run-time discriminators agree with SHA-256; conversions are lossless
  and little-endian.  `Sha256.digest` is the model-side independent SHA-256 (validated against
  NIST vectors and the `sha2` crate on every run; not proved to be SHA-256).
-/
import SplProofs.Lemmas.Sha
import SplProofs.Lemmas.Le
import SplModel.Discriminator

namespace C18
open Bytes Discriminator

/-- The documented constants (regenerated from the source on every run). -/
theorem C18_documented_constants :
    Gen.Disc.LENGTH = 8 ∧ Gen.Disc.RT_SLICE_END = 8 ∧ Gen.Disc.CT_SLICE_END = 8 ∧
    Gen.Disc.ATTR_NAME = "discriminator_hash_input" := by decide

/-- A SHA-256 digest has 32 bytes (so an 8-byte prefix always exists). -/
theorem C18_len (m : Bytes) : (Sha256.digest m).length = 32 := Sha256.digest_length m

/-- For every hash input the compile-time discriminator, the run-time discriminator and the
    first 8 bytes of SHA-256 of its bytes are identical (and neither path fails). -/
theorem C18_agree (s : Bytes) :
    rtDisc s = .ok ((Sha256.digest s).take 8) ∧ ctDisc s = .ok ((Sha256.digest s).take 8) ∧
    ((Sha256.digest s).take 8).length = 8 := by
  have hl := Sha256.digest_length s
  have h8 : ((Sha256.digest s).take 8).length = 8 := by simp [List.length_take, hl]
  refine ⟨?_, ?_, h8⟩
  · simp only [rtDisc, Sha256.hashv, List.flatten_cons, List.flatten_nil, List.append_nil,
      Gen.Disc.RT_SLICE_END, Gen.Disc.LENGTH, h8, if_true]
  · simp only [ctDisc, Gen.Disc.CT_SLICE_END, Gen.Disc.LENGTH, h8, if_true]

theorem cooked_escape (s : List Char) (acc : List Char) (fuel : Nat)
    (hf : (s.flatMap RustLit.escChar).length + 1 ≤ fuel) :
    RustLit.cooked fuel (s.flatMap RustLit.escChar ++ ['"']) acc = some (acc.reverse ++ s) := by
  induction s generalizing acc fuel with
  | nil =>
    cases fuel with
    | zero => simp at hf
    | succ f => simp [RustLit.cooked]
  | cons c s ih =>
    simp only [List.flatMap_cons, List.length_append] at hf
    simp only [List.flatMap_cons, List.append_assoc]
    by_cases h1 : c = '"'
    · subst h1
      have e : RustLit.escChar '"' = ['\\', '"'] := by decide
      rw [e] at hf ⊢
      cases fuel with
      | zero => simp at hf
      | succ f =>
        have := ih ('"' :: acc) f (by simp only [List.length_cons, List.length_nil] at hf; omega)
        simp only [List.cons_append, List.nil_append, RustLit.cooked]
        simp only [show ('\\' : Char) ≠ '"' by decide, if_false, if_true,
          show ('"' : Char) ≠ 'x' by decide, show ('"' : Char) ≠ 'u' by decide,
          show ('"' : Char) ≠ 'n' by decide, show ('"' : Char) ≠ 'r' by decide,
          show ('"' : Char) ≠ 't' by decide, show ('"' : Char) ≠ '\\' by decide,
          show ('"' : Char) ≠ '0' by decide, show ('"' : Char) ≠ '\'' by decide]
        rw [this]; simp
    · by_cases h2 : c = '\\'
      · subst h2
        have e : RustLit.escChar '\\' = ['\\', '\\'] := by decide
        rw [e] at hf ⊢
        cases fuel with
        | zero => simp at hf
        | succ f =>
          have := ih ('\\' :: acc) f (by simp only [List.length_cons, List.length_nil] at hf; omega)
          simp only [List.cons_append, List.nil_append, RustLit.cooked]
          simp only [show ('\\' : Char) ≠ '"' by decide, if_false, if_true,
            show ('\\' : Char) ≠ 'x' by decide, show ('\\' : Char) ≠ 'u' by decide,
            show ('\\' : Char) ≠ 'n' by decide, show ('\\' : Char) ≠ 'r' by decide,
            show ('\\' : Char) ≠ 't' by decide]
          rw [this]; simp
      · by_cases h3 : c = '\r'
        · subst h3
          have e : RustLit.escChar '\r' = ['\\', 'r'] := by decide
          rw [e] at hf ⊢
          cases fuel with
          | zero => simp at hf
          | succ f =>
            have := ih ('\r' :: acc) f (by simp only [List.length_cons, List.length_nil] at hf; omega)
            simp only [List.cons_append, List.nil_append, RustLit.cooked]
            simp only [show ('\\' : Char) ≠ '"' by decide, if_false, if_true,
              show ('r' : Char) ≠ 'x' by decide, show ('r' : Char) ≠ 'u' by decide,
              show ('r' : Char) ≠ 'n' by decide]
            rw [this]; simp
        · have e : RustLit.escChar c = [c] := by simp [RustLit.escChar, h1, h2, h3]
          rw [e] at hf ⊢
          cases fuel with
          | zero => simp at hf
          | succ f =>
            have := ih (c :: acc) f (by simp only [List.length_cons, List.length_nil] at hf; omega)
            simp only [List.cons_append, List.nil_append, RustLit.cooked, h1, h2, h3, if_false]
            rw [this]; simp

/-- The attribute's string literal is taken verbatim: for every string `s` (any Unicode
    scalar values, quotes, backslashes, whitespace at either end, empty, any length) the
    literal `escape s` denotes exactly `s` — no trimming, normalisation or re-escaping — so the
    derive hashes exactly the UTF-8 bytes of `s`. -/
theorem C18_literal (s : List Char) :
    RustLit.value (RustLit.escape s) = some s ∧
    ctDiscOfLiteral (RustLit.escape s) = ctDisc (String.ofList s).toUTF8.toList := by
  have h : RustLit.value (RustLit.escape s) = some s := by
    simp only [RustLit.escape, RustLit.value]
    rw [cooked_escape s [] _ (by simp)]
    simp
  exact ⟨h, by simp only [ctDiscOfLiteral, h]⟩

/-- Conversions are lossless and little-endian; a slice converts only if it is exactly 8
    bytes long. -/
theorem C18_conv (n : Nat) (hn : n < 2 ^ 64) (d b : Bytes) (hd : d.length = 8) :
    toU64 (fromU64 n) = n ∧ (fromU64 n).length = 8 ∧ fromU64 (toU64 d) = d ∧
    (∀ j, j < 8 → (fromU64 n)[j]? = some (UInt8.ofNat (n / 256 ^ j % 256))) ∧
    toArray (fromArray d) = d ∧
    ((tryFromSlice b).isOk = true ↔ b.length = 8) ∧ (∀ v, tryFromSlice b = .ok v → v = b) ∧
    tryFromSlice b ≠ .panic := by
  refine ⟨fromLe_toLe 8 n hn, toLe_length 8 n, ?_, fun j hj => toLe_getElem 8 n j hj, rfl, ?_, ?_, ?_⟩
  · have := toLe_fromLe d
    rw [hd] at this
    exact this
  · unfold tryFromSlice
    by_cases h : b.length = 8 <;> simp [Gen.Disc.LENGTH, h, Res.isOk]
  · intro v hv
    unfold tryFromSlice at hv
    by_cases h : b.length = 8 <;> simp [Gen.Disc.LENGTH, h] at hv
    exact hv.symm
  · unfold tryFromSlice
    by_cases h : b.length = 8 <;> simp [Gen.Disc.LENGTH, h]

/-! Non-vacuity -/
example : RustLit.value (RustLit.escape [' ', 'a', '"', '\\', '\r', '\n', 'é', ' ']) =
    some [' ', 'a', '"', '\\', '\r', '\n', 'é', ' '] := by decide
example : fromU64 0x0102030405060708 = [8, 7, 6, 5, 4, 3, 2, 1] := by decide

end C18
