/-
  C13 — Pod integers and bool convert losslessly and encode little-endian.
  Generic in the width `k` (bytes), so u16 … u128 and any other width at once.
-/
import SplProofs.Lemmas.Le
import SplModel.Pod

namespace C13
open Bytes Pod

/-- primitive → Pod → primitive is the identity for every value of the width. -/
theorem C13_roundtrip (k n : Nat) (h : n < 2 ^ (8 * k)) :
    toPrimitive (fromPrimitive k n) = n := fromLe_toLe k n h

/-- Pod → primitive → Pod is the identity for every `k`-byte Pod value. -/
theorem C13_roundtrip_bytes (b : Bytes) : fromPrimitive b.length (toPrimitive b) = b :=
  toLe_fromLe b

/-- The in-memory bytes are the primitive's little-endian bytes: exactly `k` of them, byte `j`
    being `n / 256^j % 256`. -/
theorem C13_le (k n j : Nat) (h : j < k) :
    (fromPrimitive k n).length = k ∧
    (fromPrimitive k n)[j]? = some (UInt8.ofNat (n / 256 ^ j % 256)) :=
  ⟨toLe_length k n, toLe_getElem k n j h⟩

/-- Signed widths: two's complement, lossless in both directions. -/
theorem C13_signed (k : Nat) (hk : 0 < k) (i : Int)
    (hlo : -(2 ^ (8 * k - 1) : Nat) ≤ i) (hhi : i < (2 ^ (8 * k - 1) : Nat)) :
    ofSigned k i < 2 ^ (8 * k) ∧
    toSigned k (toPrimitive (fromPrimitive k (ofSigned k i))) = i := by
  have hpow : 2 ^ (8 * k) = 2 * 2 ^ (8 * k - 1) := by
    have : 8 * k = (8 * k - 1) + 1 := by omega
    conv => lhs; rw [this, Nat.pow_succ]
    omega
  have hpos : 0 < 2 ^ (8 * k - 1) := Nat.pow_pos (by omega)
  generalize hH : 2 ^ (8 * k - 1) = H at *
  have hlt : ofSigned k i < 2 ^ (8 * k) := by
    unfold ofSigned
    rw [hpow]
    have h1 : 0 ≤ i % ((2 * H : Nat) : Int) := Int.emod_nonneg _ (by omega)
    have h2 : i % ((2 * H : Nat) : Int) < ((2 * H : Nat) : Int) := Int.emod_lt_of_pos _ (by omega)
    omega
  refine ⟨hlt, ?_⟩
  rw [C13_roundtrip k _ hlt]
  unfold toSigned ofSigned
  rw [hH, hpow]
  by_cases hi : 0 ≤ i
  · have : i % ((2 * H : Nat) : Int) = i := Int.emod_eq_of_lt hi (by omega)
    rw [this]
    have : i.toNat < H := by omega
    simp only [this, if_true]
    omega
  · have : i % ((2 * H : Nat) : Int) = i + ((2 * H : Nat) : Int) := by
      rw [← Int.add_emod_right]
      exact Int.emod_eq_of_lt (by omega) (by omega)
    rw [this]
    have : ¬ (i + ((2 * H : Nat) : Int)).toNat < H := by omega
    simp only [this, if_false]
    omega

/-- Every non-zero byte reads as true; booleans are written as 0 or 1; bool → PodBool → bool is
    the identity. -/
theorem C13_bool (x : UInt8) (p : Bool) :
    (toBool x = true ↔ x ≠ 0) ∧ (fromBool p = 0 ∨ fromBool p = 1) ∧ toBool (fromBool p) = p := by
  refine ⟨by simp [Pod.toBool], ?_, ?_⟩ <;> cases p <;> simp [Pod.fromBool, Pod.toBool]

/-- Conversion from a machine-size integer succeeds exactly when the value fits the width, and
    then round-trips. -/
theorem C13_usize (k n : Nat) (hn : n < 2 ^ 64) :
    ((tryFromUsize k n).isOk = true ↔ n < 2 ^ (8 * k)) ∧
    (∀ b, tryFromUsize k n = .ok b → b.length = k ∧ toUsize b = n) ∧
    (tryFromUsize k n ≠ .panic) := by
  unfold tryFromUsize
  by_cases h : n < 2 ^ (8 * k)
  · simp only [h, if_true, Res.isOk, true_iff]
    refine ⟨trivial, ?_, by simp⟩
    intro b hb
    cases hb
    refine ⟨toLe_length k n, ?_⟩
    unfold toUsize
    rw [fromLe_toLe k n h]
    omega
  · simp [h, Res.isOk]

/-- Casting bytes to one Pod value succeeds exactly when the length matches, and aliases the
    same bytes. -/
theorem C13_cast (k : Nat) (b : Bytes) :
    ((fromBytes k b).isOk = true ↔ b.length = k) ∧ (∀ v, fromBytes k b = .ok v → v = b) ∧
    fromBytes k b ≠ .panic := by
  unfold fromBytes
  by_cases h : b.length = k <;> simp [h, Res.isOk]

theorem chunks_flatten (k n : Nat) (b : Bytes) (h : b.length = n * k) :
    (chunks k n b).flatten = b ∧ (chunks k n b).length = n ∧ ∀ c ∈ chunks k n b, c.length = k := by
  induction n generalizing b with
  | zero =>
    have : b = [] := List.eq_nil_of_length_eq_zero (by omega)
    simp [chunks, this]
  | succ n ih =>
    have hk : k ≤ b.length := by rw [h, Nat.succ_mul]; omega
    have hd : (b.drop k).length = n * k := by
      rw [List.length_drop, h, Nat.succ_mul]; omega
    obtain ⟨h1, h2, h3⟩ := ih (b.drop k) hd
    refine ⟨?_, ?_, ?_⟩
    · simp [chunks, h1]
    · simp [chunks, h2]
    · intro c hc
      simp only [chunks, List.mem_cons] at hc
      rcases hc with rfl | hc
      · simp [List.length_take]; omega
      · exact h3 c hc

/-- Casting bytes to a Pod slice succeeds exactly when the length is a whole multiple of the
    element size; the elements are the consecutive `k`-byte chunks, i.e. they alias the same
    bytes (`pod_slice_to_bytes` gives the input back). -/
theorem C13_slice (k : Nat) (hk : 0 < k) (b : Bytes) :
    ((sliceFromBytes k b).isOk = true ↔ b.length % k = 0) ∧
    (∀ xs, sliceFromBytes k b = .ok xs →
        sliceToBytes xs = b ∧ xs.length = b.length / k ∧ ∀ c ∈ xs, c.length = k) ∧
    sliceFromBytes k b ≠ .panic := by
  unfold sliceFromBytes
  have hk0 : k ≠ 0 := by omega
  by_cases h : b.length % k = 0
  · simp only [hk0, h, if_true, if_false, Res.isOk, true_iff]
    refine ⟨trivial, ?_, by simp⟩
    intro xs hxs
    cases hxs
    have hl : b.length = b.length / k * k := by
      have := Nat.div_add_mod b.length k
      rw [h, Nat.add_zero, Nat.mul_comm] at this
      exact this.symm
    exact chunks_flatten k (b.length / k) b hl
  · simp [hk0, h, Res.isOk]

/-! Non-vacuity -/
example : toSigned 2 (toPrimitive (fromPrimitive 2 (ofSigned 2 (-32768)))) = -32768 := by decide
example : fromPrimitive 4 0x01020304 = [4, 3, 2, 1] := by decide
example : (sliceFromBytes 2 [1, 0, 2, 0]).isOk = true := by decide

end C13
