/-
  C17 (continued) — translation validation: the predicates regenerated from the Rust source are the
  model's.  Kept in its own module so that a change of the source expression breaks exactly this
  obligation and leaves the theorems of `SplProofs.C17` (which are about the model) standing.
-/
import SplProofs.C17
import SplProofs.Lemmas.TokenGen

namespace C17
open Token Bytes Gen.Token

/-! ### the model's predicates are the source's expressions -/

/-- The validity predicates of the four implementors, the initialised-byte tests and
    `is_known_spl_token_id`, as *regenerated from the current Rust source* expression by expression,
    are equal — on every input, including which inputs panic — to the model functions that all the
    theorems above are about. -/
theorem C17_source_predicates (d p : Bytes) (off : Nat) :
    Gen.TokenFns.token_is_initialized_token_data d off = .ok (isInitializedTokenData d off) ∧
    Gen.TokenFns.token_Account_valid_account_data d = .ok (tokenAccountValid d) ∧
    Gen.TokenFns.token_Mint_valid_account_data d = .ok (tokenMintValid d) ∧
    Gen.TokenFns.token_2022_Account_valid_account_data d = t22AccountValid d ∧
    Gen.TokenFns.token_2022_Mint_valid_account_data d = t22MintValid d ∧
    Gen.TokenFns.lib_is_known_spl_token_id p = .ok (isKnownId p) :=
  ⟨TokenGen.gen_isInit d off, TokenGen.gen_tokenAccountValid d, TokenGen.gen_tokenMintValid d,
   TokenGen.gen_t22AccountValid d, TokenGen.gen_t22MintValid d, TokenGen.gen_isKnown p⟩

end C17
