/-
  C07 — the account check accepts exactly the prescribed trailing accounts.
  Parametric in the PDA function.  Quantification: all stored bytes, instruction data, program
  ids and provided account lists.
-/
import SplProofs.Lemmas.Resolution

namespace C07
open Resolution ExtraMeta Bytes

variable (pda : List Bytes → Bytes → Option Bytes)

theorem checkLoop_iff (infos : List Info) (ix prog : Bytes) (initial : Nat) (cfgs : List Meta) (i0 : Nat) :
    checkLoop pda infos ix prog initial cfgs i0 = .ok () ↔
      ∀ j, (hj : j < cfgs.length) → ∃ m, resolve pda cfgs[j] ix prog (infos.map infoAcct) = .ok m ∧
        (infos.map infoMeta)[j + i0 + initial]? = some m := by
  induction cfgs generalizing i0 with
  | nil => simp [checkLoop]
  | cons c rest ih =>
    simp only [checkLoop]
    cases hr : resolve pda c ix prog (infos.map infoAcct) with
    | panic =>
      constructor
      · intro h; cases h
      · intro h
        obtain ⟨m, h1, _⟩ := h 0 (by simp)
        simp [hr] at h1
    | err e =>
      constructor
      · intro h; cases h
      · intro h
        obtain ⟨m, h1, _⟩ := h 0 (by simp)
        simp [hr] at h1
    | ok m =>
      simp only
      by_cases hm : (infos.map infoMeta)[i0 + initial]? = some m
      · rw [if_pos hm, ih (i0 + 1)]
        constructor
        · intro h j hj
          cases j with
          | zero => exact ⟨m, by simpa using hr, by simpa using hm⟩
          | succ k =>
            obtain ⟨m', h1, h2⟩ := h k (by simpa using hj)
            refine ⟨m', by simpa using h1, ?_⟩
            rw [← h2]; congr 1; omega
        · intro h j hj
          obtain ⟨m', h1, h2⟩ := h (j + 1) (by simpa using hj)
          refine ⟨m', by simpa using h1, ?_⟩
          rw [← h2]; congr 1; omega
      · rw [if_neg hm]
        constructor
        · intro h; cases h
        · intro h
          obtain ⟨m', h1, h2⟩ := h 0 (by simp)
          simp only [List.getElem_cons_zero, hr, Res.ok.injEq] at h1
          subst h1
          simp only [Nat.zero_add] at h2
          exact absurd h2 hm

/-- Validation succeeds if and only if the stored data reads as a config list no longer than
    the provided list and, for each config in order, the provided account at the corresponding
    trailing position has exactly the resolved key and the configured signer and writable flags
    (the config being resolved against the whole provided list). -/
theorem C07_iff (infos : List Info) (ix prog stored disc : Bytes) :
    checkAccountInfos pda infos ix prog stored disc = .ok () ↔
      ∃ cfgs, readList stored disc = .ok cfgs ∧ cfgs.length ≤ infos.length ∧
        ∀ j, (hj : j < cfgs.length) → ∃ m, resolve pda cfgs[j] ix prog (infos.map infoAcct) = .ok m ∧
          (infos.map infoMeta)[infos.length - cfgs.length + j]? = some m := by
  unfold checkAccountInfos
  cases hr : readList stored disc with
  | panic => simp
  | err e => simp
  | ok cfgs =>
    simp only
    by_cases hl : infos.length < cfgs.length
    · rw [if_pos hl]
      simp only [reduceCtorEq, Res.ok.injEq, false_iff, not_exists, not_and]
      intro c hc hle; subst hc; omega
    · rw [if_neg hl, checkLoop_iff]
      constructor
      · intro h
        refine ⟨cfgs, rfl, by omega, ?_⟩
        intro j hj
        obtain ⟨m, h1, h2⟩ := h j hj
        refine ⟨m, h1, ?_⟩
        rw [← h2]; congr 1; omega
      · rintro ⟨c, hc, hle, h⟩
        simp only [Res.ok.injEq] at hc
        subst hc
        intro j hj
        obtain ⟨m, h1, h2⟩ := h j hj
        refine ⟨m, h1, ?_⟩
        rw [← h2]; congr 1; omega

theorem checkLoop_ne_panic (infos : List Info) (ix prog : Bytes) (initial : Nat) (cfgs : List Meta)
    (hc : ∀ m ∈ cfgs, m.cfg.length = 32) (i0 : Nat) :
    checkLoop pda infos ix prog initial cfgs i0 ≠ .panic := by
  induction cfgs generalizing i0 with
  | nil => simp [checkLoop]
  | cons c rest ih =>
    simp only [checkLoop]
    cases hr : resolve pda c ix prog (infos.map infoAcct) with
    | panic => exact absurd hr (C05.C05_total pda c (hc c (List.mem_cons_self)) _ _ _)
    | err e => simp
    | ok m =>
      simp only
      split
      · exact ih (fun x hx => hc x (List.mem_cons_of_mem _ hx)) _
      · simp

/-- Never a panic: fewer accounts than configs, malformed stored data, unresolvable configs and
    mismatching accounts are all rejected with an error. -/
theorem C07_total (infos : List Info) (ix prog stored disc : Bytes) :
    checkAccountInfos pda infos ix prog stored disc ≠ .panic := by
  unfold checkAccountInfos
  cases hr : readList stored disc with
  | panic => exact absurd hr (readList_ne_panic stored disc)
  | err e => simp
  | ok cfgs =>
    simp only
    split
    · simp
    · exact checkLoop_ne_panic pda infos ix prog _ cfgs (readList_cfg_len stored disc cfgs hr) 0

/-- Hence every deviation that breaks the correspondence is rejected with an error: a wrong key,
    a flipped flag, a reordering, a missing or surplus account, fewer accounts than configs,
    malformed stored data. -/
theorem C07_rejects (infos : List Info) (ix prog stored disc : Bytes) :
    -- fewer accounts than configs
    (∀ cfgs, readList stored disc = .ok cfgs → infos.length < cfgs.length →
        (checkAccountInfos pda infos ix prog stored disc).isErr = true) ∧
    -- malformed / missing stored list
    ((readList stored disc).isErr = true → (checkAccountInfos pda infos ix prog stored disc).isErr = true) ∧
    -- some trailing account differs from its resolved config in key or either flag
    (∀ cfgs, readList stored disc = .ok cfgs → cfgs.length ≤ infos.length →
        (∃ j, ∃ hj : j < cfgs.length, ∀ m, resolve pda cfgs[j] ix prog (infos.map infoAcct) = .ok m →
            (infos.map infoMeta)[infos.length - cfgs.length + j]? ≠ some m) →
        (checkAccountInfos pda infos ix prog stored disc).isErr = true) := by
  have tot := C07_total pda infos ix prog stored disc
  have key : checkAccountInfos pda infos ix prog stored disc ≠ .ok () →
      (checkAccountInfos pda infos ix prog stored disc).isErr = true := by
    intro h
    cases hc : checkAccountInfos pda infos ix prog stored disc with
    | ok u => cases u; exact absurd hc h
    | err e => rfl
    | panic => exact absurd hc tot
  refine ⟨?_, ?_, ?_⟩
  · intro cfgs hr hlt
    apply key
    intro hok
    rw [C07_iff] at hok
    obtain ⟨c, hc, hle, _⟩ := hok
    rw [hr] at hc; cases hc; omega
  · intro he
    apply key
    intro hok
    rw [C07_iff] at hok
    obtain ⟨c, hc, _, _⟩ := hok
    rw [hc] at he; simp [Res.isErr] at he
  · intro cfgs hr hle ⟨j, hj, hbad⟩
    apply key
    intro hok
    rw [C07_iff] at hok
    obtain ⟨c, hc, _, h⟩ := hok
    rw [hr] at hc; cases hc
    obtain ⟨m, h1, h2⟩ := h j hj
    exact hbad m h1 h2

/-! Non-vacuity: a concrete scenario — a stored list of two fixed-key configs, the first of which
    repeats a key that the instruction already holds read-only (so it is de-escalated). -/
def exK (b : UInt8) : Bytes := List.replicate 32 b
def exT : Bytes := [1, 1, 1, 1, 1, 1, 1, 1]
def exStored : Bytes := (init (zeros 100) exT [⟨0, exK 7, 1, 1⟩, ⟨0, exK 9, 0, 1⟩]).1
def exPda (mats : List Bytes) (_ : Bytes) : Option Bytes := mats.head?

set_option maxRecDepth 20000 in
example : checkAccountInfos exPda [⟨exK 8, true, true, []⟩, ⟨exK 7, true, true, []⟩, ⟨exK 9, false, true, []⟩] [5] (exK 3) exStored exT = .ok () := by decide
set_option maxRecDepth 20000 in
/-- one flipped flag -/
example : (checkAccountInfos exPda [⟨exK 8, true, true, []⟩, ⟨exK 7, true, false, []⟩, ⟨exK 9, false, true, []⟩] [5] (exK 3) exStored exT).isErr = true := by decide
set_option maxRecDepth 20000 in
/-- fewer accounts than configs -/
example : (checkAccountInfos exPda [⟨exK 9, false, true, []⟩] [5] (exK 3) exStored exT).isErr = true := by decide

end C07
