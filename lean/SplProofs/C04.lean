/-
  C04 — failed TLV mutations leave the buffer untouched.
  The atomicity theorems hold for *every* byte string `d` (reachable or not): the model performs
  the header writes and the room / length checks in the source's order, so they are not true by
  construction.  The no-panic theorem holds for every buffer that opens.
-/
import SplProofs.Lemmas.TlvRefine
import SplProofs.Lemmas.TlvTotal
import SplProofs.C02

namespace C04
open Tlv Bytes

/-- A failed allocate returns exactly the bytes it was given. -/
theorem C04_alloc_atomic (d t : Bytes) (len : Nat) (allowRep : Bool) :
    (alloc d t len allowRep).2.isErr = true → (alloc d t len allowRep).1 = d := by
  unfold alloc
  cases h1 : getIndices d t true (if allowRep then none else some 0) with
  | panic => simp [Res.isErr]
  | err e => intro _; rfl
  | ok ix =>
    simp only
    cases h2 : slice d ix.typeStart ix.lengthStart with
    | panic => simp [Res.isErr]
    | err e => simp [Res.isErr]
    | ok cur =>
      simp only
      by_cases hc : cur = uninit
      · rw [if_pos hc]
        cases h3 : lengthFromUsize len with
        | panic => simp [Res.isErr]
        | err e => intro _; rfl
        | ok nl =>
          simp only
          by_cases hroom : d.length < ix.valueStart + len
          · rw [if_pos hroom]; intro _; rfl
          · rw [if_neg hroom]
            cases h4 : writeAt d ix.typeStart t with
            | panic => simp [Res.isErr]
            | err e => simp [Res.isErr]
            | ok d1 =>
              simp only
              cases h5 : writeAt d1 ix.lengthStart nl <;> simp [Res.isErr]
      · rw [if_neg hc]; intro _; rfl

/-- A failed initialise-with-default returns exactly the bytes it was given. -/
theorem C04_init_atomic (d t dflt : Bytes) (allowRep : Bool) :
    (initValue d t dflt allowRep).2.isErr = true → (initValue d t dflt allowRep).1 = d := by
  have ha := C04_alloc_atomic d t dflt.length allowRep
  unfold initValue
  cases hx : alloc d t dflt.length allowRep with
  | mk d1 r =>
    rw [hx] at ha
    cases r with
    | ok p =>
      obtain ⟨⟨lo, hi⟩, rep⟩ := p
      simp only
      split <;> simp [Res.isErr]
    | err e => intro _; exact ha rfl
    | panic => simp [Res.isErr]

/-- A failed allocate-and-pack returns exactly the bytes it was given. -/
theorem C04_allocpack_atomic (d t packed : Bytes) (allowRep : Bool) :
    (allocAndPack d t packed allowRep).2.isErr = true → (allocAndPack d t packed allowRep).1 = d := by
  have ha := C04_alloc_atomic d t packed.length allowRep
  unfold allocAndPack
  cases hx : alloc d t packed.length allowRep with
  | mk d1 r =>
    rw [hx] at ha
    cases r with
    | ok p =>
      obtain ⟨⟨lo, hi⟩, rep⟩ := p
      simp only
      split <;> simp [Res.isErr]
    | err e => intro _; exact ha rfl
    | panic => simp [Res.isErr]

/-- A failed resize returns exactly the bytes it was given. -/
theorem C04_realloc_atomic (d t : Bytes) (n r : Nat) :
    (realloc d t n r).2.isErr = true → (realloc d t n r).1 = d := by
  unfold realloc
  cases h1 : getIndices d t false (some r) with
  | panic => simp [Res.isErr]
  | err e => intro _; rfl
  | ok ix =>
    simp only
    cases h2 : getDiscsAndEnd d with
    | panic => simp [Res.isErr]
    | err e => intro _; rfl
    | ok p =>
      obtain ⟨l, endIdx⟩ := p
      simp only
      cases h3 : slice d ix.lengthStart ix.valueStart with
      | panic => simp [Res.isErr]
      | err e => simp [Res.isErr]
      | ok lb =>
        simp only
        by_cases hg : lengthToUsize lb < n ∧ endIdx + (n - lengthToUsize lb) > d.length
        · rw [if_pos hg]; intro _; rfl
        · rw [if_neg hg]
          cases h4 : lengthFromUsize n with
          | panic => simp [Res.isErr]
          | err e => intro _; rfl
          | ok nl =>
            simp only
            cases h5 : writeAt d ix.lengthStart nl with
            | panic => simp [Res.isErr]
            | err e => simp [Res.isErr]
            | ok d1 =>
              simp only
              cases h6 : copyWithin d1 (ix.valueStart + lengthToUsize lb) endIdx (ix.valueStart + n) with
              | panic => simp [Res.isErr]
              | err e => simp [Res.isErr]
              | ok d2 =>
                simp only
                by_cases c1 : lengthToUsize lb > n
                · rw [if_pos c1]
                  cases h7 : fillZ d2 (endIdx - (lengthToUsize lb - n)) endIdx <;> simp [Res.isErr]
                · rw [if_neg c1]
                  by_cases c2 : lengthToUsize lb < n
                  · rw [if_pos c2]
                    cases h7 : fillZ d2 (ix.valueStart + lengthToUsize lb) (ix.valueStart + n) <;> simp [Res.isErr]
                  · rw [if_neg c2]; simp [Res.isErr]

/-- Hence after any failed allocate / initialise / allocate-and-pack / resize a buffer that
    opened still opens (it is bit-for-bit the same). -/
theorem C04_still_opens (d t v : Bytes) (n r : Nat) (allowRep : Bool) (h : unpack d = .ok ()) :
    ((alloc d t n allowRep).2.isErr = true → unpack (alloc d t n allowRep).1 = .ok ()) ∧
    ((initValue d t v allowRep).2.isErr = true → unpack (initValue d t v allowRep).1 = .ok ()) ∧
    ((allocAndPack d t v allowRep).2.isErr = true → unpack (allocAndPack d t v allowRep).1 = .ok ()) ∧
    ((realloc d t n r).2.isErr = true → unpack (realloc d t n r).1 = .ok ()) := by
  refine ⟨fun he => ?_, fun he => ?_, fun he => ?_, fun he => ?_⟩
  · rw [C04_alloc_atomic d t n allowRep he]; exact h
  · rw [C04_init_atomic d t v allowRep he]; exact h
  · rw [C04_allocpack_atomic d t v allowRep he]; exact h
  · rw [C04_realloc_atomic d t n r he]; exact h

/-- When writing a variable-length value into an existing entry fails, no byte outside that
    entry's value region changes (and if the entry does not exist nothing changes at all). -/
theorem C04_pack_confined (d t packed : Bytes) (r : Nat)
    (hf : (packVarLen d t r packed).2.isErr = true) :
    (∀ lo hi, getBytes d t r = .ok (lo, hi) →
        (packVarLen d t r packed).1.take lo = d.take lo ∧
        (packVarLen d t r packed).1.drop hi = d.drop hi ∧
        (packVarLen d t r packed).1.length = d.length) ∧
    ((getBytes d t r).isErr = true → (packVarLen d t r packed).1 = d) := by
  unfold packVarLen at hf ⊢
  cases hg : getBytes d t r with
  | panic => simp [hg, Res.isErr] at hf
  | err e => simp [Res.isErr]
  | ok p =>
    obtain ⟨lo, hi⟩ := p
    simp only [hg] at hf ⊢
    refine ⟨?_, by simp [Res.isErr]⟩
    intro lo' hi' hlh
    simp only [Res.ok.injEq, Prod.mk.injEq] at hlh
    obtain ⟨rfl, rfl⟩ := hlh
    cases hw : writeAt d lo (packed.take (hi - lo)) with
    | panic => simp [hw, Res.isErr] at hf
    | err e => simp [hw, Res.isErr] at hf
    | ok d1 =>
      simp only [hw]
      have hd1 : (if packed.length ≤ hi - lo then (d1, (Res.ok () : Res Unit))
          else (d1, .err .invalidInstructionData)).1 = d1 := by split <;> rfl
      rw [hd1]
      unfold writeAt at hw
      split at hw
      · rename_i hfit
        cases hw
        -- getBytes only returns ranges inside the buffer
        have hhi : hi ≤ d.length ∧ lo ≤ hi := by
          unfold getBytes at hg
          cases hi' : getIndices d t false (some r) with
          | panic => simp [hi'] at hg
          | err e => simp [hi'] at hg
          | ok ix =>
            simp only [hi', Res.bind_ok] at hg
            cases hs : slice d ix.lengthStart ix.valueStart with
            | panic => simp [hs] at hg
            | err e => simp [hs] at hg
            | ok lb =>
              simp only [hs, Res.bind_ok] at hg
              split at hg
              · simp at hg
              · rename_i hle
                simp only [Res.pure_eq, Res.ok.injEq, Prod.mk.injEq] at hg
                omega
        have hk : (packed.take (hi - lo)).length ≤ hi - lo := by simp [List.length_take]; omega
        refine ⟨?_, ?_, ?_⟩
        · rw [List.take_append_of_le_length (by simp [List.length_take]; omega), List.take_take,
            Nat.min_eq_left (Nat.le_refl _)]
        · have hlen : (d.take lo).length = lo := by simp [List.length_take]; omega
          rw [drop_append_add _ _ hi (hi - lo) (by omega)]
          rw [List.drop_append]
          have : hi - lo - (packed.take (hi - lo)).length + (lo + (packed.take (hi - lo)).length) = hi := by omega
          by_cases hz : hi - lo ≤ (packed.take (hi - lo)).length
          · have heq : (packed.take (hi - lo)).length = hi - lo := by omega
            rw [List.drop_of_length_le (by omega), List.nil_append, List.drop_drop]
            congr 1; omega
          · rw [List.drop_of_length_le (by omega), List.nil_append, List.drop_drop]
            congr 1
            omega
        · simp [List.length_take, List.length_drop]; omega
      · cases hw

/-- On every buffer that opens, with a genuine (8-byte, non-zero) type tag, no mutating operation
    panics — whether or not the buffer is canonical. -/
theorem C04_no_panic (d : Bytes) (h : unpack d = .ok ()) (t : Bytes) (h8 : t.length = 8)
    (hne : t ≠ uninit) (n r : Nat) (allowRep : Bool) :
    (alloc d t n allowRep).2 ≠ .panic ∧ (realloc d t n r).2 ≠ .panic := by
  obtain ⟨es, tail, rfl, hw, ht⟩ := (C02.C02_accept_iff d).mp h
  constructor
  · rw [alloc_wf es hw tail ht t h8 hne n allowRep]
    split
    · simp
    · split
      · simp
      · split
        · simp
        · split <;> simp
  · by_cases hcount : (es.filter (·.tag = t)).length ≤ r
    · obtain ⟨e, he⟩ := getIndices_search_wf es hw tail ht t hne r hcount
      have : realloc (enc es ++ tail) t n r = (enc es ++ tail, .err e) := by
        unfold realloc; rw [he]
      rw [this]; simp
    · -- the entry exists: split the list around it
      cases hf : findIdx es t r with
      | none => exact absurd (findIdx_none es t r hf) hcount
      | some i =>
        obtain ⟨e, e1, e2, e3, e4⟩ := findIdx_some es t r i hf
        have hwes : ∀ x ∈ es.take i ++ e :: es.drop (i + 1), WfE x := by rw [← e2]; exact hw
        have hr := realloc_wf (es.take i) (es.drop (i + 1)) e hwes tail ht t hne e3 r e4 n
        rw [← e2] at hr
        rw [hr]
        split
        · simp
        · split
          · simp
          · split
            · simp
            · split <;> simp

/-- Writes through the mutable views and variable-length packs never panic — on every byte string. -/
theorem C04_write_no_panic (d t v : Bytes) (r : Nat) :
    (writeValue d t r v).2 ≠ .panic ∧ (packVarLen d t r v).2 ≠ .panic := by
  have hnp := (C02.C02_total d t r 0).2.2.1
  constructor
  · unfold writeValue
    cases hg : getBytes d t r with
    | panic => exact absurd hg hnp
    | err e => simp
    | ok p =>
      obtain ⟨lo, hi⟩ := p
      simp only
      have ⟨h1, h2⟩ := getBytes_ok_range d t r lo hi hg
      split
      · simp
      · rename_i hne
        have hv : hi - lo = v.length := by
          by_cases hh : hi - lo = v.length
          · exact hh
          · exact absurd hh (by simpa using hne)
        obtain ⟨d1, hw⟩ := writeAt_fits d lo v (by omega)
        rw [hw]; simp
  · unfold packVarLen
    cases hg : getBytes d t r with
    | panic => exact absurd hg hnp
    | err e => simp
    | ok p =>
      obtain ⟨lo, hi⟩ := p
      simp only
      have ⟨h1, h2⟩ := getBytes_ok_range d t r lo hi hg
      obtain ⟨d1, hw⟩ := writeAt_fits d lo (v.take (hi - lo)) (by simp [List.length_take]; omega)
      rw [hw]; simp only
      split <;> simp

/-- initialise-with-default and allocate-and-pack never panic on a buffer that opens. -/
theorem C04_init_no_panic (d : Bytes) (h : unpack d = .ok ()) (t : Bytes) (h8 : t.length = 8)
    (hne : t ≠ uninit) (v : Bytes) (allowRep : Bool) :
    (initValue d t v allowRep).2 ≠ .panic ∧ (allocAndPack d t v allowRep).2 ≠ .panic := by
  have ha := (C04_no_panic d h t h8 hne v.length 0 allowRep).1
  constructor
  · unfold initValue
    cases hx : alloc d t v.length allowRep with
    | mk d1 res =>
      rw [hx] at ha
      cases res with
      | panic => exact absurd rfl ha
      | err e => simp
      | ok p =>
        obtain ⟨⟨lo, hi⟩, rep⟩ := p
        have ⟨e1, e2⟩ := alloc_ok_range d t v.length allowRep d1 lo hi rep hx
        obtain ⟨d2, hw⟩ := writeAt_fits d1 lo v (by omega)
        simp only [hw]; simp
  · unfold allocAndPack
    cases hx : alloc d t v.length allowRep with
    | mk d1 res =>
      rw [hx] at ha
      cases res with
      | panic => exact absurd rfl ha
      | err e => simp
      | ok p =>
        obtain ⟨⟨lo, hi⟩, rep⟩ := p
        have ⟨e1, e2⟩ := alloc_ok_range d t v.length allowRep d1 lo hi rep hx
        obtain ⟨d2, hw⟩ := writeAt_fits d1 lo v (by omega)
        simp only [hw]; simp

/-- A resize to a length that does not fit the 4-byte length field never succeeds, whatever the
    buffer and however much room it has (the `bigrealloc` cases run this on a buffer of more than
    4 GiB); by `C04_realloc_atomic` a reported error leaves the bytes untouched. -/
theorem C04_unrepresentable_resize (d t : Bytes) (len rep : Nat) (h : 2 ^ 32 ≤ len) :
    (realloc d t len rep).2.isOk = false := by
  have hl : ∀ x, lengthFromUsize len ≠ .ok x := by
    intro x; unfold lengthFromUsize
    have e : (2:Nat) ^ (8 * LW) = 2 ^ 32 := by decide
    rw [e, if_neg (by omega)]; simp
  unfold realloc
  cases h1 : getIndices d t false (some rep) with
  | panic => rfl
  | err e => rfl
  | ok ix =>
    simp only
    cases h2 : getDiscsAndEnd d with
    | panic => rfl
    | err e => rfl
    | ok p =>
      obtain ⟨ds, endIdx⟩ := p
      simp only
      cases h3 : slice d ix.lengthStart ix.valueStart with
      | panic => rfl
      | err e => rfl
      | ok lenBytes =>
        simp only
        split
        · rfl
        · cases h4 : lengthFromUsize len with
          | panic => rfl
          | err e => rfl
          | ok nl => exact absurd h4 (hl nl)

/-- A length that does not fit the 4-byte length field is never allocated, whatever the buffer (in
    particular however much room it has): the result is not a success, and by `C04_alloc_atomic` a
    reported error leaves the bytes untouched. -/
theorem C04_unrepresentable_length (d t : Bytes) (len : Nat) (allowRep : Bool) (h : 2 ^ 32 ≤ len) :
    (alloc d t len allowRep).2.isOk = false ∧
    ((alloc d t len allowRep).2.isErr = true → (alloc d t len allowRep).1 = d) := by
  refine ⟨?_, C04_alloc_atomic d t len allowRep⟩
  have hl : ∀ x, lengthFromUsize len ≠ .ok x := by
    intro x; unfold lengthFromUsize
    have e : (2:Nat) ^ (8 * LW) = 2 ^ 32 := by decide
    rw [e, if_neg (by omega)]; simp
  unfold alloc
  cases h1 : getIndices d t true (if allowRep then none else some 0) with
  | panic => rfl
  | err e => rfl
  | ok ix =>
    simp only
    cases h2 : slice d ix.typeStart ix.lengthStart with
    | panic => rfl
    | err e => rfl
    | ok cur =>
      simp only
      by_cases hc : cur = uninit
      · rw [if_pos hc]
        cases h3 : lengthFromUsize len with
        | panic => rfl
        | err e => rfl
        | ok nl => exact absurd h3 (hl nl)
      · rw [if_neg hc]; rfl

/-! non-vacuity: the hypotheses of the theorems above are met by concrete non-trivial buffers -/
example : (alloc (zeros 20) [1,1,1,1,1,1,1,1] 9 false).2.isErr = true ∧ unpack (zeros 20) = .ok () := by decide
example : (realloc (Tlv.encS ⟨[⟨[1,1,1,1,1,1,1,1], [7, 8]⟩, ⟨[1,1,1,1,1,1,1,2], [9]⟩], 3⟩) [1,1,1,1,1,1,1,1] 6 0).2.isErr = true := by decide
example : (packVarLen (Tlv.encS ⟨[⟨[1,1,1,1,1,1,1,1], [7, 8]⟩, ⟨[1,1,1,1,1,1,1,2], [9]⟩], 3⟩) [1,1,1,1,1,1,1,1] 0 [1, 2, 3]).2.isErr = true := by decide

end C04
