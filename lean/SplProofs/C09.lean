/-
  C09 — the list view behaves as a capacity-bounded vector over the bytes.
  `Lay P a b xs cap` (SplProofs/Lemmas/ListView.lean) *is* the documented byte layout:
  b = LE count (wL bytes) ++ padding ++ elements back to back ++ stale bytes up to capacity.
  Quantification: every element size/alignment, prefix width ≤ 16 bytes, base address,
  capacity, element values and operation history.
-/
import SplProofs.Lemmas.ListView

namespace C09
open ListView Bytes C10

/-- One operation of a history. -/
inductive Op where
  | push (x : Bytes)
  | remove (i : Nat)
  | set (i : Nat) (x : Bytes)
  | sort (le : Bytes → Bytes → Bool)
  | reopen

/-- Observable outcome of an operation. -/
inductive Out where
  | unit
  | val (x : Bytes)
  | view (len cap : Nat) (elems : List Bytes)
  | err
  | panic
  deriving DecidableEq

/-- The reference: a vector with a capacity and a length-prefix limit. -/
def vstep (cap wL : Nat) (xs : List Bytes) : Op → List Bytes × Out
  | .push x => if xs.length < cap ∧ xs.length + 1 < 2 ^ (8 * wL) then (xs ++ [x], .unit) else (xs, .err)
  | .remove i => if h : i < xs.length then (xs.eraseIdx i, .val xs[i]) else (xs, .err)
  | .set i x => if i < xs.length then (xs.set i x, .unit) else (xs, .panic)
  | .sort le => (xs.mergeSort le, .unit)
  | .reopen => (xs, .view xs.length cap xs)

/-- The model of the code on the bytes. -/
def mstep (P : Params) (a : Nat) (b : Bytes) : Op → Bytes × Out
  | .push x => match push P a b x with
    | (b', .ok _) => (b', .unit) | (b', .err _) => (b', .err) | (b', .panic) => (b', .panic)
  | .remove i => match remove P a b i with
    | (b', .ok x) => (b', .val x) | (b', .err _) => (b', .err) | (b', .panic) => (b', .panic)
  | .set i x => match setElem P a b i x with
    | (b', .ok _) => (b', .unit) | (b', .err _) => (b', .err) | (b', .panic) => (b', .panic)
  | .sort le => match sortBy P a b le with
    | (b', .ok _) => (b', .unit) | (b', .err _) => (b', .err) | (b', .panic) => (b', .panic)
  | .reopen => match unpack P a b, unpackMut P a b with
    | .ok v, .ok v' => if v = v' then (b, .view v.len v.cap (elems P b v)) else (b, .panic)
    | _, _ => (b, .err)

def sized (P : Params) : Op → Prop
  | .push x => x.length = P.sizeT
  | .set _ x => x.length = P.sizeT
  | _ => True

/-- One step refines the vector: same outcome, layout re-established with the same capacity;
    a failing step leaves the bytes bit-identical. -/
theorem C09_refines (P : Params) (a : Nat) (b : Bytes) (xs : List Bytes) (cap : Nat)
    (h : Lay P a b xs cap) (op : Op) (hs : sized P op) :
    (mstep P a b op).2 = (vstep cap P.wL xs op).2 ∧
    Lay P a (mstep P a b op).1 (vstep cap P.wL xs op).1 cap ∧
    ((mstep P a b op).2 = .err ∨ (mstep P a b op).2 = .panic → (mstep P a b op).1 = b) := by
  cases op with
  | push x =>
    have sp := push_spec h x hs
    simp only [mstep, vstep]
    by_cases hc : xs.length < cap ∧ xs.length + 1 < 2 ^ (8 * P.wL)
    · obtain ⟨b', e1, e2⟩ := sp.1 hc
      rw [e1, if_pos hc]; exact ⟨rfl, e2, by simp⟩
    · obtain ⟨e, e1⟩ := sp.2 hc
      rw [e1, if_neg hc]; exact ⟨rfl, h, fun _ => rfl⟩
  | remove i =>
    have sp := remove_spec h i
    simp only [mstep, vstep]
    by_cases hi : i < xs.length
    · obtain ⟨b', e1, e2⟩ := sp.1 hi
      rw [e1, dif_pos hi]; exact ⟨rfl, e2, by simp⟩
    · obtain ⟨e, e1⟩ := sp.2 hi
      rw [e1, dif_neg hi]; exact ⟨rfl, h, fun _ => rfl⟩
  | set i x =>
    simp only [mstep, vstep]
    by_cases hi : i < xs.length
    · obtain ⟨b', e1, e2⟩ := set_spec h i x hs hi
      rw [e1, if_pos hi]; exact ⟨rfl, e2, by simp⟩
    · have hu := (lay_unpack h).1
      have : setElem P a b i x = (b, .panic) := by
        unfold setElem; rw [hu]; simp only; rw [if_pos (by omega)]
      rw [this, if_neg hi]; exact ⟨rfl, h, fun _ => rfl⟩
  | sort le =>
    obtain ⟨b', e1, e2⟩ := sort_spec h le
    simp only [mstep, vstep]
    rw [e1]; exact ⟨by first | rfl | simp, e2, by simp⟩
  | reopen =>
    obtain ⟨h1, h2, h3⟩ := lay_unpack h
    simp only [mstep, vstep]
    rw [h2, h1]
    simp only [if_true, h3]
    exact ⟨by first | rfl | simp, h, fun _ => by first | rfl | simp⟩

def mrun (P : Params) (a : Nat) : Bytes → List Op → Bytes × List Out
  | b, [] => (b, [])
  | b, op :: ops =>
    let r := mstep P a b op
    let rest := mrun P a r.1 ops
    (rest.1, r.2 :: rest.2)

def vrun (cap wL : Nat) : List Bytes → List Op → List Bytes × List Out
  | xs, [] => (xs, [])
  | xs, op :: ops =>
    let r := vstep cap wL xs op
    let rest := vrun cap wL r.1 ops
    (rest.1, r.2 :: rest.2)

/-- Any finite history: the visible slice always equals what a vector with the same capacity
    would hold, every outcome coincides, the length never exceeds the capacity, and the bytes
    are always the documented layout (so re-opening at any point yields the same list). -/
theorem C09_history (P : Params) (a : Nat) (cap : Nat) (ops : List Op) (hs : ∀ op ∈ ops, sized P op)
    (b : Bytes) (xs : List Bytes) (h : Lay P a b xs cap) :
    (mrun P a b ops).2 = (vrun cap P.wL xs ops).2 ∧
    Lay P a (mrun P a b ops).1 (vrun cap P.wL xs ops).1 cap ∧
    (vrun cap P.wL xs ops).1.length ≤ cap := by
  induction ops generalizing b xs with
  | nil => exact ⟨rfl, h, h.2.2.1⟩
  | cons op ops ih =>
    obtain ⟨e1, e2, _⟩ := C09_refines P a b xs cap h op (hs op (List.mem_cons_self))
    obtain ⟨i1, i2, i3⟩ := ih (fun o ho => hs o (List.mem_cons_of_mem _ ho)) _ _ e2
    simp only [mrun, vrun]
    exact ⟨by rw [e1, i1], i2, i3⟩

/-- Initialising any buffer a view can be built over starts such a history: the empty list
    with capacity (buffer − header) / element size. -/
theorem C09_init (P : Params) (hw : WfP P) (a : Nat) (b : Bytes) (v : View)
    (hv : buildView P a b = .ok v) (hcap : v.cap < usizeMax) :
    ∃ b', init P a b = (b', .ok ⟨0, v.cap⟩) ∧ Lay P a b' [] v.cap ∧ b'.length = b.length :=
  init_spec hw hv hcap

/-- Re-opening a laid-out buffer read-only or mutably yields the same list and capacity. -/
theorem C09_reopen (P : Params) (a : Nat) (b : Bytes) (xs : List Bytes) (cap : Nat) (h : Lay P a b xs cap) :
    unpack P a b = .ok ⟨xs.length, cap⟩ ∧ unpackMut P a b = .ok ⟨xs.length, cap⟩ ∧
    elems P b ⟨xs.length, cap⟩ = xs ∧ xs.length ≤ cap :=
  ⟨(lay_unpack h).2.1, (lay_unpack h).1, (lay_unpack h).2.2, h.2.2.1⟩

theorem toUsize_lt (P : Params) (b : Bytes) : Pod.toUsize (b.take P.wL) < 2 ^ (8 * P.wL) := by
  unfold Pod.toUsize
  have h1 := fromLe_lt (b.take P.wL)
  have h2 : 2 ^ (8 * (b.take P.wL).length) ≤ 2 ^ (8 * P.wL) :=
    Nat.pow_le_pow_right (by omega) (by simp [List.length_take]; omega)
  have : min (fromLe (b.take P.wL)) (2 ^ 64 - 1) ≤ fromLe (b.take P.wL) := Nat.min_le_left _ _
  omega

theorem unpackMut_len (P : Params) (hw : WfP P) (a : Nat) (b : Bytes) (v : View)
    (hu : unpackMut P a b = .ok v) : v.len = Pod.toUsize (b.take P.wL) := by
  unfold unpackMut at hu
  rw [buildView_char P hw a b] at hu
  split at hu
  · simp at hu
  · cases hcs : castSlice P (a + dataStart P) (b.length - dataStart P) with
    | ok cap =>
      simp only [hcs, Res.bind, Res.bind_ok] at hu
      by_cases hgt : Pod.toUsize (b.take P.wL) > cap
      · simp [hgt] at hu
      · simp only [hgt, if_false, Res.pure_eq, Res.ok.injEq] at hu
        rw [← hu]
    | err e1 => simp [hcs, Res.bind] at hu
    | panic => simp [hcs, Res.bind] at hu

/-- On *every* buffer (laid out or not): a failed push or remove — full, length not
    representable in the prefix, index out of range, or a buffer that does not open — changes no
    byte at all. -/
theorem C09_fail_bytes (P : Params) (hw : WfP P) (a : Nat) (b x : Bytes) (i : Nat) :
    ((push P a b x).2.isErr = true → (push P a b x).1 = b) ∧
    ((remove P a b i).2.isErr = true → (remove P a b i).1 = b) := by
  constructor
  · unfold push
    split
    · split
      · intro _; rfl
      · split
        · split
          · split <;> simp [Res.isErr]
          · simp [Res.isErr]
        · intro _; rfl
        · simp [Res.isErr]
    · intro _; rfl
    · simp [Res.isErr]
  · unfold remove
    cases hu : unpackMut P a b with
    | panic => simp [Res.isErr]
    | err e => intro _; rfl
    | ok v =>
      simp only
      by_cases hi : i ≥ v.len
      · rw [if_pos hi]; intro _; rfl
      · rw [if_neg hi]
        cases hs1 : slice b (dataStart P + i * P.sizeT) (dataStart P + (i + 1) * P.sizeT) with
        | panic => simp [Res.isErr]
        | err e => simp [Res.isErr]
        | ok removed =>
          simp only
          by_cases ho : i + 1 > usizeMax
          · rw [if_pos ho]; intro _; rfl
          · rw [if_neg ho]
            cases hc : copyWithin b (dataStart P + (i + 1) * P.sizeT) (dataStart P + v.len * P.sizeT)
                (dataStart P + i * P.sizeT) with
            | panic => simp [Res.isErr]
            | err e => simp [Res.isErr]
            | ok b1 =>
              simp only
              -- the new length `len - 1` always fits the prefix: the error path cannot be taken
              have hv := unpackMut_len P hw a b v hu
              have hlt := toUsize_lt P b
              have hfit : v.len - 1 < 2 ^ (8 * P.wL) := by omega
              rw [tryFromUsize_ok _ _ hfit]
              simp only
              cases hw2 : writeAt b1 0 (toLe P.wL (v.len - 1)) <;> simp [Res.isErr]

/-- A buffer of the size reported for `n` elements has capacity exactly `n` (element size > 0,
    data region aligned). -/
theorem C09_sizeof (P : Params) (hw : WfP P) (a n s : Nat) (b : Bytes) (hs0 : 0 < P.sizeT)
    (hsz : ListView.sizeOf P n = .ok s) (hb : b.length = s)
    (hal : 1 < P.alignT → (a + dataStart P) % P.alignT = 0) :
    ∃ len, buildView P a b = .ok ⟨len, n⟩ := by
  have hds := dataStart_eq P hw
  unfold ListView.sizeOf at hsz
  simp only at hsz
  split at hsz
  · simp at hsz
  · split at hsz
    · simp at hsz
    · split at hsz
      · simp at hsz
      · cases hsz
        rw [buildView_char P hw a b, if_neg (by omega)]
        have hlen : b.length - dataStart P = n * P.sizeT := by rw [hb, hds, Nat.mul_comm]; omega
        rw [hlen]
        have hc : castSlice P (a + dataStart P) (n * P.sizeT) = .ok n := by
          unfold castSlice
          rw [if_neg (by intro ⟨h1, h2⟩; exact h2 (hal h1))]
          by_cases h1 : P.sizeT = 1
          · rw [if_pos h1, h1, Nat.mul_one]
          · rw [if_neg h1, if_pos (Or.inl ⟨by omega, Nat.mul_mod_left _ _⟩), if_pos (by omega),
              Nat.mul_div_cancel _ hs0]
        rw [hc]
        exact ⟨_, rfl⟩

/-! Non-vacuity: a concrete laid-out buffer (u16-sized elements, 4-byte prefix, capacity 3). -/
example : Lay ⟨2, 2, 4⟩ 0 ([1, 0, 0, 0] ++ ([] ++ ([[7, 8]].flatten ++ [9, 9, 9, 9]))) [[7, 8]] 3 := by
  refine ⟨by unfold WfP; decide, by simp, by simp, by simp, by rw [usizeMax_eq]; decide, by decide,
    [], [9, 9, 9, 9], by simp; decide, by decide, by decide⟩

end C09
