/-
  C09 (continued) — translation validation: `ListView::size_of` of the current Rust source is the
  model's `sizeOf` (the function `C09_sizeof` is about).
-/
import SplProofs.C09
import SplProofs.Lemmas.ListViewGen

namespace C09
open Bytes ListView

/-- `size_of(n)`, as regenerated from the source (checked multiplication and additions, the padding from
    `header_padding`), equals the model's `sizeOf` for every element type, prefix type and `n`, including
    when it reports `CalculationFailure`. -/
theorem C09_source_size_of (P : Params) (alignL n : Nat) (h : C10.WfP P) :
    Gen.ListViewFns.size_of P.sizeT P.alignT P.wL alignL n = guardL alignL (ListView.sizeOf P n) :=
  ListViewGen.gen_size_of P alignL n h

end C09
