/-
  C10 (continued) — translation validation: the header padding and the layout computation of the
  current Rust source are the model's.
-/
import SplProofs.Lemmas.ListViewGen

namespace C10
open Bytes ListView

/-- `header_padding` and `calculate_layout`, as regenerated from the source statement by statement, equal
    the model's `headerPadding` / `dataStart` computation for every element size and alignment, prefix width
    and prefix alignment (an aligned prefix type is rejected with `InvalidArgument`), and every buffer length:
    a buffer shorter than the data start is `BufferTooSmall`, otherwise the length field is `0..wL` and the
    data region `dataStart..len`. -/
theorem C10_source_layout (P : Params) (alignL len : Nat) (h : WfP P) :
    Gen.ListViewFns.header_padding P.sizeT P.alignT P.wL alignL = guardL alignL (.ok (headerPadding P)) ∧
    Gen.ListViewFns.calculate_layout P.sizeT P.alignT P.wL alignL len =
      guardL alignL (if len < dataStart P then .err eBufferTooSmall else .ok [0, P.wL, dataStart P, len]) :=
  ⟨ListViewGen.gen_header_padding P alignL h, ListViewGen.gen_calculate_layout P alignL len h⟩

end C10
