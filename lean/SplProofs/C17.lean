/-
  C17 — generic token parsing is total and free of type confusion.
  Property theorems only (helpers live in SplProofs/Lemmas/Token.lean).
  Quantification: every byte string `b`, every program id `p` (any byte string).
-/
import SplProofs.Lemmas.Token
import SplProofs.Lemmas.TokenFrame

namespace C17
open Token Bytes Gen.Token

/-- The documented constants (a changed constant in the source breaks this obligation). -/
theorem C17_documented_constants :
    SPL_TOKEN_ACCOUNT_MINT_OFFSET = 0 ∧ SPL_TOKEN_ACCOUNT_OWNER_OFFSET = 32 ∧
    SPL_TOKEN_ACCOUNT_AMOUNT_OFFSET = 64 ∧ SPL_TOKEN_ACCOUNT_STATE_OFFSET = 108 ∧
    SPL_TOKEN_ACCOUNT_LENGTH = 165 ∧ SPL_TOKEN_MINT_SUPPLY_OFFSET = 36 ∧
    SPL_TOKEN_MINT_DECIMALS_OFFSET = 44 ∧ SPL_TOKEN_MINT_IS_INITIALIZED_OFFSET = 45 ∧
    SPL_TOKEN_MINT_LENGTH = 82 ∧ ACCOUNTTYPE_ACCOUNT = 2 ∧ ACCOUNTTYPE_MINT = 1 ∧
    SPL_TOKEN_MULTISIG_LENGTH = 355 ∧ TOKEN_ID.length = 32 ∧ TOKEN_2022_ID.length = 32 ∧
    TOKEN_ID ≠ TOKEN_2022_ID := by
  decide

/-- The exact acceptance condition of the account parser. -/
def AcctCond (b p : Bytes) : Prop :=
  (p = TOKEN_ID ∧ b.length = 165 ∧ byteAt b 108 ≠ 0) ∨
  (p = TOKEN_2022_ID ∧ byteAt b 108 ≠ 0 ∧
    (b.length = 165 ∨ (165 < b.length ∧ b.length ≠ 355 ∧ b[165]? = some 2)))

/-- The exact acceptance condition of the mint parser. -/
def MintCond (b p : Bytes) : Prop :=
  (p = TOKEN_ID ∧ b.length = 82 ∧ byteAt b 45 ≠ 0) ∨
  (p = TOKEN_2022_ID ∧ byteAt b 45 ≠ 0 ∧
    (b.length = 82 ∨ (165 < b.length ∧ b.length ≠ 355 ∧ b[165]? = some 1)))

instance (b p : Bytes) : Decidable (AcctCond b p) := by unfold AcctCond; infer_instance
instance (b p : Bytes) : Decidable (MintCond b p) := by unfold MintCond; infer_instance

/-- Exact characterisation of the account parser on every input (no panic branch). -/
theorem C17_account_char (b p : Bytes) :
    genericAccount b p =
      .ok (if AcctCond b p
           then some ⟨b.take 32, (b.drop 32).take 32, fromLe ((b.drop 64).take 8)⟩
           else none) := by
  have hne : TOKEN_2022_ID ≠ TOKEN_ID := by decide
  unfold genericAccount AcctCond
  by_cases hp : p = TOKEN_ID
  · subst hp
    simp only [if_true]
    by_cases hv : tokenAccountValid b = true
    · have hl := tokenAccountValid_len hv
      rw [if_pos hv, unpackAccountFields_ok (by omega)]
      have hi : byteAt b 108 ≠ 0 := by
        simpa [tokenAccountValid, SPL_TOKEN_ACCOUNT_LENGTH, isInitializedAccount,
          isInitializedTokenData, SPL_TOKEN_ACCOUNT_STATE_OFFSET, hl] using hv
      simp [Res.map, hl, hi]
    · rw [if_neg hv]
      have : ¬ (b.length = 165 ∧ byteAt b 108 ≠ 0) := by
        intro h
        apply hv
        simp [tokenAccountValid, SPL_TOKEN_ACCOUNT_LENGTH, isInitializedAccount,
          isInitializedTokenData, SPL_TOKEN_ACCOUNT_STATE_OFFSET, h.1, h.2]
      simp [this, hne.symm]
  · rw [if_neg hp]
    by_cases hp2 : p = TOKEN_2022_ID
    · subst hp2
      simp only [if_true]
      cases hv : t22AccountValid b with
      | panic => exact absurd hv (t22AccountValid_ne_panic b)
      | err e =>
        exfalso
        unfold t22AccountValid at hv
        split at hv
        · simp at hv
        · split at hv
          · rename_i hlen
            have hlen' : 165 < b.length := by simpa [SPL_TOKEN_ACCOUNT_LENGTH] using hlen
            rw [index_ok (by simpa [SPL_TOKEN_ACCOUNT_LENGTH] using hlen')] at hv
            split at hv
            · simp only [Res.bind_ok] at hv; split at hv <;> simp at hv
            · simp at hv
          · simp at hv
      | ok v =>
        simp only [Res.bind_ok]
        cases v with
        | true =>
          have hc := t22AccountValid_true hv
          have hl : 72 ≤ b.length := by rcases hc with h | h <;> omega
          rw [if_pos rfl, unpackAccountFields_ok hl]
          have : byteAt b 108 ≠ 0 ∧
              (b.length = 165 ∨ (165 < b.length ∧ b.length ≠ 355 ∧ b[165]? = some 2)) := by
            rcases hc with h | h
            · exact ⟨h.2, Or.inl h.1⟩
            · exact ⟨h.2.2.2, Or.inr ⟨h.1, h.2.1, h.2.2.1⟩⟩
          simp [Res.map, this, hne]
        | false =>
          have : ¬ (byteAt b 108 ≠ 0 ∧
              (b.length = 165 ∨ (165 < b.length ∧ b.length ≠ 355 ∧ b[165]? = some 2))) := by
            intro ⟨hi, hc⟩
            have : t22AccountValid b = .ok true := by
              unfold t22AccountValid
              rcases hc with h | ⟨h1, h2, h3⟩
              · have : tokenAccountValid b = true := by
                  simp [tokenAccountValid, SPL_TOKEN_ACCOUNT_LENGTH, isInitializedAccount,
                    isInitializedTokenData, SPL_TOKEN_ACCOUNT_STATE_OFFSET, h, hi]
                simp [this]
              · have hnv : ¬ tokenAccountValid b = true := by
                  intro hv'; have := tokenAccountValid_len hv'; omega
                rw [if_neg hnv, if_pos (by simpa [SPL_TOKEN_ACCOUNT_LENGTH] using h1)]
                rw [if_pos (by simpa [SPL_TOKEN_MULTISIG_LENGTH] using h2)]
                rw [index_ok (by simpa [SPL_TOKEN_ACCOUNT_LENGTH] using h1)]
                have h165 : b[165] = 2 := by
                  rw [List.getElem?_eq_getElem h1] at h3; exact Option.some.inj h3
                simp [SPL_TOKEN_ACCOUNT_LENGTH, ACCOUNTTYPE_ACCOUNT, h165, isInitializedAccount,
                  isInitializedTokenData, SPL_TOKEN_ACCOUNT_STATE_OFFSET, hi]
            rw [this] at hv; simp at hv
          simp [this, hp]
    · rw [if_neg hp2]; simp [hp, hp2]

/-- Exact characterisation of the mint parser on every input (no panic branch). -/
theorem C17_mint_char (b p : Bytes) :
    genericMint b p =
      .ok (if MintCond b p
           then some ⟨fromLe ((b.drop 36).take 8), byteAt b 44⟩
           else none) := by
  have hne : TOKEN_2022_ID ≠ TOKEN_ID := by decide
  unfold genericMint MintCond
  by_cases hp : p = TOKEN_ID
  · subst hp
    simp only [if_true]
    by_cases hv : tokenMintValid b = true
    · have hl := tokenMintValid_len hv
      rw [if_pos hv, unpackMintFields_ok (by omega)]
      have hi : byteAt b 45 ≠ 0 := by
        simpa [tokenMintValid, SPL_TOKEN_MINT_LENGTH, isInitializedMint,
          isInitializedTokenData, SPL_TOKEN_MINT_IS_INITIALIZED_OFFSET, hl] using hv
      have h44 : 44 < b.length := by omega
      simp [Res.map, hl, hi]
    · rw [if_neg hv]
      have : ¬ (b.length = 82 ∧ byteAt b 45 ≠ 0) := by
        intro h
        apply hv
        simp [tokenMintValid, SPL_TOKEN_MINT_LENGTH, isInitializedMint,
          isInitializedTokenData, SPL_TOKEN_MINT_IS_INITIALIZED_OFFSET, h.1, h.2]
      simp [this, hne.symm]
  · rw [if_neg hp]
    by_cases hp2 : p = TOKEN_2022_ID
    · subst hp2
      simp only [if_true]
      cases hv : t22MintValid b with
      | panic => exact absurd hv (t22MintValid_ne_panic b)
      | err e =>
        exfalso
        unfold t22MintValid at hv
        split at hv
        · simp at hv
        · split at hv
          · rename_i hlen
            have hlen' : 165 < b.length := by simpa [SPL_TOKEN_ACCOUNT_LENGTH] using hlen
            rw [index_ok (by simpa [SPL_TOKEN_ACCOUNT_LENGTH] using hlen')] at hv
            split at hv
            · simp only [Res.bind_ok] at hv; split at hv <;> simp at hv
            · simp at hv
          · simp at hv
      | ok v =>
        simp only [Res.bind_ok]
        cases v with
        | true =>
          have hc := t22MintValid_true hv
          have hl : 45 ≤ b.length := by rcases hc with h | h <;> omega
          rw [if_pos rfl, unpackMintFields_ok hl]
          have : byteAt b 45 ≠ 0 ∧
              (b.length = 82 ∨ (165 < b.length ∧ b.length ≠ 355 ∧ b[165]? = some 1)) := by
            rcases hc with h | h
            · exact ⟨h.2, Or.inl h.1⟩
            · exact ⟨h.2.2.2, Or.inr ⟨h.1, h.2.1, h.2.2.1⟩⟩
          have h44 : 44 < b.length := by omega
          simp [Res.map, this, hne]
        | false =>
          have : ¬ (byteAt b 45 ≠ 0 ∧
              (b.length = 82 ∨ (165 < b.length ∧ b.length ≠ 355 ∧ b[165]? = some 1))) := by
            intro ⟨hi, hc⟩
            have : t22MintValid b = .ok true := by
              unfold t22MintValid
              rcases hc with h | ⟨h1, h2, h3⟩
              · have : tokenMintValid b = true := by
                  simp [tokenMintValid, SPL_TOKEN_MINT_LENGTH, isInitializedMint,
                    isInitializedTokenData, SPL_TOKEN_MINT_IS_INITIALIZED_OFFSET, h, hi]
                simp [this]
              · have hnv : ¬ tokenMintValid b = true := by
                  intro hv'; have := tokenMintValid_len hv'; omega
                rw [if_neg hnv, if_pos (by simpa [SPL_TOKEN_ACCOUNT_LENGTH] using h1)]
                rw [if_pos (by simpa [SPL_TOKEN_MULTISIG_LENGTH] using h2)]
                rw [index_ok (by simpa [SPL_TOKEN_ACCOUNT_LENGTH] using h1)]
                have h165 : b[165] = 1 := by
                  rw [List.getElem?_eq_getElem h1] at h3; exact Option.some.inj h3
                simp [SPL_TOKEN_ACCOUNT_LENGTH, ACCOUNTTYPE_MINT, h165, isInitializedMint,
                  isInitializedTokenData, SPL_TOKEN_MINT_IS_INITIALIZED_OFFSET, hi]
            rw [this] at hv; simp at hv
          simp [this, hp]
    · rw [if_neg hp2]; simp [hp, hp2]

theorem C17_account_some_iff (b p : Bytes) (a : Account) :
    genericAccount b p = .ok (some a) ↔
      AcctCond b p ∧ a = ⟨b.take 32, (b.drop 32).take 32, fromLe ((b.drop 64).take 8)⟩ := by
  rw [C17_account_char]
  by_cases hc : AcctCond b p
  · rw [if_pos hc]; simp [hc, eq_comm]
  · rw [if_neg hc]; simp [hc]

theorem C17_mint_some_iff (b p : Bytes) (m : Mint) :
    genericMint b p = .ok (some m) ↔
      MintCond b p ∧ m = ⟨fromLe ((b.drop 36).take 8), byteAt b 44⟩ := by
  rw [C17_mint_char]
  by_cases hc : MintCond b p
  · rw [if_pos hc]; simp [hc, eq_comm]
  · rw [if_neg hc]; simp [hc]

theorem C17_account_none_iff (b p : Bytes) : genericAccount b p = .ok none ↔ ¬ AcctCond b p := by
  rw [C17_account_char]
  by_cases hc : AcctCond b p
  · rw [if_pos hc]; simp [hc]
  · rw [if_neg hc]; simp [hc]

theorem C17_mint_none_iff (b p : Bytes) : genericMint b p = .ok none ↔ ¬ MintCond b p := by
  rw [C17_mint_char]
  by_cases hc : MintCond b p
  · rw [if_pos hc]; simp [hc]
  · rw [if_neg hc]; simp [hc]

/-- Total: a value or nothing, never a panic — every byte string, every program id. -/
theorem C17_total (b p : Bytes) :
    genericAccount b p ≠ .panic ∧ genericMint b p ≠ .panic := by
  rw [C17_account_char, C17_mint_char]; simp

/-- No byte string parses as both an account and a mint under the same program id. -/
theorem C17_exclusive (b p : Bytes) (a : Account) (m : Mint) :
    ¬ (genericAccount b p = .ok (some a) ∧ genericMint b p = .ok (some m)) := by
  rw [C17_account_some_iff, C17_mint_some_iff]
  intro ⟨⟨ha, _⟩, ⟨hm, _⟩⟩
  have hne : TOKEN_2022_ID ≠ TOKEN_ID := by decide
  rcases ha with ⟨rfl, hl, _⟩ | ⟨rfl, _, hl⟩
  · rcases hm with ⟨_, hl', _⟩ | ⟨h, _⟩
    · omega
    · exact hne h.symm
  · rcases hm with ⟨h, _⟩ | ⟨_, _, hl'⟩
    · exact hne h
    · rcases hl with h | ⟨h1, _, h3⟩ <;> rcases hl' with h' | ⟨h1', _, h3'⟩
      · omega
      · omega
      · omega
      · rw [h3] at h3'; simp at h3'

/-- An unknown program id never parses. -/
theorem C17_unknown (b p : Bytes) (h1 : p ≠ TOKEN_ID) (h2 : p ≠ TOKEN_2022_ID) :
    genericAccount b p = .ok none ∧ genericMint b p = .ok none := by
  rw [C17_account_none_iff, C17_mint_none_iff]
  constructor <;> rintro (⟨h, _⟩ | ⟨h, _⟩) <;> contradiction

/-- Under the original token program only the exact base lengths parse. -/
theorem C17_token_lengths (b : Bytes) :
    (genericAccount b TOKEN_ID ≠ .ok none → b.length = 165) ∧
    (genericMint b TOKEN_ID ≠ .ok none → b.length = 82) := by
  have hne : TOKEN_ID ≠ TOKEN_2022_ID := by decide
  simp only [ne_eq, C17_account_none_iff, C17_mint_none_iff, Classical.not_not]
  constructor <;> intro h <;>
    rcases h with ⟨_, h, _⟩ | ⟨h, _⟩ <;> first | exact h | exact absurd h hne

/-- Under Token-2022 a buffer longer than the base account parses only if it is not 355 bytes
    long and carries the matching account-type marker at offset 165. -/
theorem C17_t22_extended (b : Bytes) (hl : 165 < b.length) :
    (genericAccount b TOKEN_2022_ID ≠ .ok none → b.length ≠ 355 ∧ b[165]? = some 2) ∧
    (genericMint b TOKEN_2022_ID ≠ .ok none → b.length ≠ 355 ∧ b[165]? = some 1) := by
  have hne : TOKEN_2022_ID ≠ TOKEN_ID := by decide
  simp only [ne_eq, C17_account_none_iff, C17_mint_none_iff, Classical.not_not]
  constructor <;> intro h <;>
    rcases h with ⟨h, _⟩ | ⟨_, _, h | h⟩ <;>
    first | exact absurd h hne | omega | exact ⟨h.2.1, h.2.2⟩

/-- Under Token-2022, buffers no longer than the base account length parse only at the exact
    base lengths (165 for accounts, 82 for mints). -/
theorem C17_t22_base (b : Bytes) (hl : b.length ≤ 165) :
    (genericAccount b TOKEN_2022_ID ≠ .ok none → b.length = 165) ∧
    (genericMint b TOKEN_2022_ID ≠ .ok none → b.length = 82) := by
  have hne : TOKEN_2022_ID ≠ TOKEN_ID := by decide
  simp only [ne_eq, C17_account_none_iff, C17_mint_none_iff, Classical.not_not]
  constructor <;> intro h <;>
    rcases h with ⟨h, _⟩ | ⟨_, _, h | h⟩ <;>
    first | exact absurd h hne | omega

/-- Any value returned consists of exactly the bytes at the documented offsets (which are
    therefore inside the buffer). -/
theorem C17_offsets (b p : Bytes) :
    (∀ a, genericAccount b p = .ok (some a) →
        a.mint = (b.drop 0).take 32 ∧ a.owner = (b.drop 32).take 32 ∧
        a.amount = fromLe ((b.drop 64).take 8) ∧ 72 ≤ b.length) ∧
    (∀ m, genericMint b p = .ok (some m) →
        m.supply = fromLe ((b.drop 36).take 8) ∧ b[44]? = some m.decimals ∧ 45 ≤ b.length) := by
  constructor
  · intro a h
    rw [C17_account_some_iff] at h
    obtain ⟨hc, rfl⟩ := h
    have : 72 ≤ b.length := by
      rcases hc with ⟨_, h, _⟩ | ⟨_, _, h | h⟩ <;> omega
    simp [this]
  · intro m h
    rw [C17_mint_some_iff] at h
    obtain ⟨hc, rfl⟩ := h
    have h44 : 44 < b.length := by
      rcases hc with ⟨_, h, _⟩ | ⟨_, _, h | h⟩ <;> omega
    have h45 : 45 ≤ b.length := by
      rcases hc with ⟨_, h, _⟩ | ⟨_, _, h | h⟩ <;> omega
    simp [byteAt, List.getElem?_eq_getElem h44, h45]

set_option maxRecDepth 8000
/-! Non-vacuity: concrete buffers that do parse (so the implications above are not empty). -/
example : MintCond (zeros 44 ++ [9, 1] ++ zeros 36) TOKEN_ID := by
  left; refine ⟨rfl, by decide, by decide⟩
example : AcctCond (zeros 108 ++ [1] ++ zeros 56 ++ [2, 7]) TOKEN_2022_ID := by
  right; refine ⟨rfl, by decide, Or.inr ⟨by decide, by decide, by decide⟩⟩
example : ¬ AcctCond (zeros 108 ++ [1] ++ zeros 56 ++ [1, 7]) TOKEN_2022_ID := by
  rintro (⟨h, _⟩ | ⟨_, _, h | ⟨_, _, h⟩⟩)
  · exact absurd h (by decide)
  · exact absurd h (by decide)
  · exact absurd h (by decide)

/-! ### the trait-level checked getters -/

def progOf (t22 : Bool) : Bytes := if t22 then TOKEN_2022_ID else TOKEN_ID

theorem accountValid_len (t22 : Bool) (d : Bytes) (h : accountValidOf t22 d = .ok true) : 165 ≤ d.length := by
  cases t22 with
  | false =>
    simp only [accountValidOf, Bool.false_eq_true, if_false, Res.ok.injEq] at h
    have := tokenAccountValid_len h; omega
  | true =>
    simp only [accountValidOf, if_true] at h
    rcases t22AccountValid_true h with h1 | h1 <;> omega

theorem mintValid_len (t22 : Bool) (d : Bytes) (h : mintValidOf t22 d = .ok true) : 82 ≤ d.length := by
  cases t22 with
  | false =>
    simp only [mintValidOf, Bool.false_eq_true, if_false, Res.ok.injEq] at h
    have := tokenMintValid_len h; omega
  | true =>
    simp only [mintValidOf, if_true] at h
    rcases t22MintValid_true h with h1 | h1 <;> omega

theorem genericAccount_of (t22 : Bool) (d : Bytes) :
    genericAccount d (progOf t22) = checkedGetter (accountValidOf t22 d) (unpackAccountFields d) := by
  have hne : TOKEN_2022_ID ≠ TOKEN_ID := by decide
  cases t22 with
  | false =>
    simp only [progOf, Bool.false_eq_true, if_false, genericAccount, if_true, accountValidOf, checkedGetter]
    cases tokenAccountValid d <;> simp
  | true =>
    simp only [progOf, if_true, genericAccount, if_neg hne, accountValidOf, checkedGetter]
    obtain ⟨v, hv⟩ := t22AccountValid_ok d
    rw [hv]
    cases v <;> simp

theorem genericMint_of (t22 : Bool) (d : Bytes) :
    genericMint d (progOf t22) = checkedGetter (mintValidOf t22 d) (unpackMintFields d) := by
  have hne : TOKEN_2022_ID ≠ TOKEN_ID := by decide
  cases t22 with
  | false =>
    simp only [progOf, Bool.false_eq_true, if_false, genericMint, if_true, mintValidOf, checkedGetter]
    cases tokenMintValid d <;> simp
  | true =>
    simp only [progOf, if_true, genericMint, if_neg hne, mintValidOf, checkedGetter]
    obtain ⟨v, hv⟩ := t22MintValid_ok d
    rw [hv]
    cases v <;> simp

/-- The trait-level checked getters of all four implementors (`t22 = false`: `token::{Account,Mint}`,
    `t22 = true`: `token_2022::{Account,Mint}`) are total and return exactly the field that the
    program-id-dispatching parser returns under that implementor's program id. -/
theorem C17_trait_getters (t22 : Bool) (d : Bytes) :
    getAccountMint t22 d = (genericAccount d (progOf t22)).map (Option.map (·.mint)) ∧
    getAccountOwner t22 d = (genericAccount d (progOf t22)).map (Option.map (·.owner)) ∧
    getAccountAmount t22 d = (genericAccount d (progOf t22)).map (Option.map (·.amount)) ∧
    getMintSupply t22 d = (genericMint d (progOf t22)).map (Option.map (·.supply)) ∧
    getMintDecimals t22 d = (genericMint d (progOf t22)).map (Option.map (·.decimals)) ∧
    getAccountMint t22 d ≠ .panic ∧ getAccountOwner t22 d ≠ .panic ∧ getAccountAmount t22 d ≠ .panic ∧
    getMintSupply t22 d ≠ .panic ∧ getMintDecimals t22 d ≠ .panic := by
  rw [genericAccount_of, genericMint_of]
  have hav : ∃ v, accountValidOf t22 d = .ok v := by
    cases t22 with
    | false => exact ⟨_, rfl⟩
    | true => exact t22AccountValid_ok d
  have hmv : ∃ v, mintValidOf t22 d = .ok v := by
    cases t22 with
    | false => exact ⟨_, rfl⟩
    | true => exact t22MintValid_ok d
  obtain ⟨va, ha⟩ := hav
  obtain ⟨vm, hm⟩ := hmv
  have A : getAccountMint t22 d = (checkedGetter (accountValidOf t22 d) (unpackAccountFields d)).map (Option.map (·.mint)) ∧
      getAccountOwner t22 d = (checkedGetter (accountValidOf t22 d) (unpackAccountFields d)).map (Option.map (·.owner)) ∧
      getAccountAmount t22 d = (checkedGetter (accountValidOf t22 d) (unpackAccountFields d)).map (Option.map (·.amount)) ∧
      getAccountMint t22 d ≠ .panic ∧ getAccountOwner t22 d ≠ .panic ∧ getAccountAmount t22 d ≠ .panic := by
    unfold getAccountMint getAccountOwner getAccountAmount
    cases va with
    | false => rw [ha]; simp [checkedGetter, Res.map]
    | true =>
      have hl := accountValid_len t22 d ha
      rw [ha, unpackAccountFields_ok (by omega), pubkey_ok _ (by simp [SPL_TOKEN_ACCOUNT_MINT_OFFSET]; omega),
        pubkey_ok _ (by simp [SPL_TOKEN_ACCOUNT_OWNER_OFFSET]; omega), u64_ok _ (by simp [SPL_TOKEN_ACCOUNT_AMOUNT_OFFSET]; omega)]
      simp [checkedGetter, Res.map, SPL_TOKEN_ACCOUNT_MINT_OFFSET, SPL_TOKEN_ACCOUNT_OWNER_OFFSET, SPL_TOKEN_ACCOUNT_AMOUNT_OFFSET]
  have B : getMintSupply t22 d = (checkedGetter (mintValidOf t22 d) (unpackMintFields d)).map (Option.map (·.supply)) ∧
      getMintDecimals t22 d = (checkedGetter (mintValidOf t22 d) (unpackMintFields d)).map (Option.map (·.decimals)) ∧
      getMintSupply t22 d ≠ .panic ∧ getMintDecimals t22 d ≠ .panic := by
    unfold getMintSupply getMintDecimals
    cases vm with
    | false => rw [hm]; simp [checkedGetter, Res.map]
    | true =>
      have hl := mintValid_len t22 d hm
      have h44 : 44 < d.length := by omega
      rw [hm, unpackMintFields_ok (by omega), u64_ok _ (by simp [SPL_TOKEN_MINT_SUPPLY_OFFSET]; omega),
        index_ok (by simpa [SPL_TOKEN_MINT_DECIMALS_OFFSET] using h44)]
      simp [checkedGetter, Res.map, SPL_TOKEN_MINT_SUPPLY_OFFSET, SPL_TOKEN_MINT_DECIMALS_OFFSET, byteAt,
        List.getElem?_eq_getElem h44]
  exact ⟨A.1, A.2.1, A.2.2.1, B.1, B.2.1, A.2.2.2.1, A.2.2.2.2.1, A.2.2.2.2.2, B.2.2.1, B.2.2.2⟩

/-- **Length frame.**  For a buffer of 357 bytes or more — up to the 10 MiB of the largest account,
    or the 4 GiB where a 32-bit length wraps — every parser and checked getter returns what it
    returns on the 357-byte stand-in made of the buffer's first 166 bytes and zeros: nothing past
    byte 165 is read and no length beyond 356 is special.  (The driver evaluates `tokbig` /
    `tokgetbig` cases this way.) -/
theorem C17_length_frame (d p : Bytes) (t22 : Bool) (h : 357 ≤ d.length) :
    genericAccount d p = genericAccount (TokenFrame.compress d) p ∧
    genericMint d p = genericMint (TokenFrame.compress d) p ∧
    getAccountMint t22 d = getAccountMint t22 (TokenFrame.compress d) ∧
    getAccountOwner t22 d = getAccountOwner t22 (TokenFrame.compress d) ∧
    getAccountAmount t22 d = getAccountAmount t22 (TokenFrame.compress d) ∧
    getMintSupply t22 d = getMintSupply t22 (TokenFrame.compress d) ∧
    getMintDecimals t22 d = getMintDecimals t22 (TokenFrame.compress d) := by
  obtain ⟨hH, hT, e⟩ := TokenFrame.split d h
  have := TokenFrame.generic_app hH hT TokenFrame.zeros_len p t22
  rw [← e] at this
  exact this

/-- the frame is not vacuous: a Token-2022 account of any size ≥ 356 parses, by its head alone -/
example (T : Bytes) (hT : 190 ≤ T.length) :
    genericAccount ((zeros 108 ++ [1] ++ zeros 56 ++ [2]) ++ T) TOKEN_2022_ID = .ok (some ⟨zeros 32, zeros 32, 0⟩) := by
  rw [(TokenFrame.generic_app (H := zeros 108 ++ [1] ++ zeros 56 ++ [2]) (by decide) hT TokenFrame.zeros_len TOKEN_2022_ID true).1]
  decide

end C17
