/-
  C06 — resolved extra accounts never gain privileges.
  Parametric in the PDA function and the account fetcher.
-/
import SplProofs.Lemmas.Resolution

namespace C06
open Resolution ExtraMeta Bytes

variable (pda : List Bytes → Bytes → Option Bytes)

theorem foldl_or (w : Bool) (ws : List Bool) : ws.foldl (· || ·) w = (w || ws.any id) := by
  induction ws generalizing w with
  | nil => simp
  | cons x xs ih => simp [ih, Bool.or_assoc]

/-- De-escalation: never a signer; writable exactly when the resolved meta is writable and the key
    is either absent from the instruction or writable somewhere in it. -/
theorem C06_deescalate (m : AccountMeta) (metas : List AccountMeta) :
    (deEscalate m metas).key = m.key ∧ (deEscalate m metas).signer = false ∧
    ((deEscalate m metas).writable = true ↔
      m.writable = true ∧ ((∀ x ∈ metas, x.key ≠ m.key) ∨ (∃ x ∈ metas, x.key = m.key ∧ x.writable = true))) := by
  refine ⟨rfl, rfl, ?_⟩
  unfold deEscalate
  simp only
  cases hs : (metas.filter (fun x => x.key = m.key)).map (·.writable) with
  | nil =>
    have hnone : ∀ x ∈ metas, x.key ≠ m.key := by
      intro x hx hk
      have : x ∈ metas.filter (fun x => x.key = m.key) := by simp [hx, hk]
      have hm : x.writable ∈ (metas.filter (fun x => x.key = m.key)).map (·.writable) := List.mem_map_of_mem this
      rw [hs] at hm; cases hm
    simp only
    constructor
    · intro h; exact ⟨h, Or.inl hnone⟩
    · intro h; exact h.1
  | cons w ws =>
    simp only
    have hany : (ws.foldl (· || ·) w) = true ↔ ∃ x ∈ metas, x.key = m.key ∧ x.writable = true := by
      rw [foldl_or]
      have : (w || ws.any id) = ((metas.filter (fun x => x.key = m.key)).map (·.writable)).any id := by
        rw [hs]; simp
      rw [this]
      simp only [List.any_map, List.any_eq_true, List.mem_filter, decide_eq_true_eq, Function.comp, id]
      constructor
      · rintro ⟨x, ⟨hx, hk⟩, hw⟩; exact ⟨x, hx, hk, hw⟩
      · rintro ⟨x, hx, hk, hw⟩; exact ⟨x, ⟨hx, hk⟩, hw⟩
    have hpresent : ¬ (∀ x ∈ metas, x.key ≠ m.key) := by
      intro hall
      have : w ∈ (metas.filter (fun x => x.key = m.key)).map (·.writable) := by rw [hs]; simp
      obtain ⟨x, hx, _⟩ := List.mem_map.mp this
      simp only [List.mem_filter, decide_eq_true_eq] at hx
      exact hall x hx.1 hx.2
    cases hf : ws.foldl (· || ·) w with
    | true =>
      have := hany.mp hf
      simp only [Bool.not_true, Bool.false_and, Bool.false_eq_true, if_false]
      exact ⟨fun h => ⟨h, Or.inr this⟩, fun h => h.1⟩
    | false =>
      have hno : ¬ ∃ x ∈ metas, x.key = m.key ∧ x.writable = true := by
        intro h; have := hany.mpr h; rw [hf] at this; cases this
      cases hw : m.writable with
      | true =>
        simp only [Bool.not_false, Bool.true_and, bne_iff_ne, ne_eq, Bool.false_eq_true,
          not_false_eq_true, if_true, true_and]
        constructor
        · intro h; cases h
        · rintro (h | h)
          · exact absurd h hpresent
          · exact absurd h hno
      | false => simp

/-- what one run of either helper's loop appends: one de-escalated meta per config -/
def Appended (ixd prog : Bytes) (cfgs : List Meta) (metas app : List AccountMeta) : Prop :=
  app.length = cfgs.length ∧
  ∀ j, (hj : j < app.length) → (hc : j < cfgs.length) →
    ∃ r known, resolve pda cfgs[j] ixd prog known = .ok r ∧ app[j] = deEscalate r (metas ++ app.take j)

theorem addIxLoop_spec (fetch : Bytes → Res (Option Bytes)) (ixd prog : Bytes) (cfgs : List Meta)
    (known : List Acct) (metas metas' : List AccountMeta)
    (h : addIxLoop pda fetch ixd prog cfgs known metas = .ok metas') :
    ∃ app, metas' = metas ++ app ∧ Appended pda ixd prog cfgs metas app := by
  induction cfgs generalizing known metas with
  | nil =>
    simp only [addIxLoop, Res.ok.injEq] at h
    exact ⟨[], by simp [h], rfl, fun j hj => by simp at hj⟩
  | cons c rest ih =>
    simp only [addIxLoop, resolveOne] at h
    cases hr : resolve pda c ixd prog known with
    | panic => simp [hr] at h
    | err e => simp [hr] at h
    | ok r =>
      simp only [hr] at h
      cases hf : fetch (deEscalate r metas).key with
      | panic => simp [hf] at h
      | err e => simp [hf] at h
      | ok data =>
        simp only [hf] at h
        obtain ⟨app, e1, e2, e3⟩ := ih _ _ h
        refine ⟨deEscalate r metas :: app, by simp [e1], by simp [e2], ?_⟩
        intro j hj hc
        cases j with
        | zero => exact ⟨r, known, by simpa using hr, by simp⟩
        | succ k =>
          obtain ⟨r', kn, h1, h2⟩ := e3 k (by simpa using hj) (by simpa using hc)
          refine ⟨r', kn, by simpa using h1, ?_⟩
          simp only [List.getElem_cons_succ, List.take_succ_cons]
          rw [h2]; simp

theorem addCpiLoop_spec (ixd prog : Bytes) (pool : List Info) (cfgs : List Meta)
    (infos infos' : List Info) (metas metas' : List AccountMeta)
    (h : addCpiLoop pda ixd prog pool cfgs infos metas = .ok (metas', infos')) :
    ∃ app appI, metas' = metas ++ app ∧ infos' = infos ++ appI ∧ Appended pda ixd prog cfgs metas app ∧
      appI.map (·.key) = app.map (·.key) ∧ ∀ i ∈ appI, i ∈ pool := by
  induction cfgs generalizing infos metas with
  | nil =>
    simp only [addCpiLoop, Res.ok.injEq, Prod.mk.injEq] at h
    exact ⟨[], [], by simp [h.1], by simp [h.2], ⟨rfl, fun j hj => by simp at hj⟩, rfl, by simp⟩
  | cons c rest ih =>
    simp only [addCpiLoop, resolveOne] at h
    cases hr : resolve pda c ixd prog (infos.map infoAcct) with
    | panic => simp [hr] at h
    | err e => simp [hr] at h
    | ok r =>
      simp only [hr] at h
      cases hf : pool.find? (fun x => x.key = (deEscalate r metas).key) with
      | none => simp [hf] at h
      | some info =>
        simp only [hf] at h
        obtain ⟨app, appI, e1, e2, ⟨e3, e4⟩, e5, e6⟩ := ih _ _ h
        have hk : info.key = (deEscalate r metas).key := by
          have := List.find?_some hf; simpa using this
        refine ⟨deEscalate r metas :: app, info :: appI, by simp [e1], by simp [e2],
          ⟨by simp [e3], ?_⟩, by simp [e5, hk], ?_⟩
        · intro j hj hc
          cases j with
          | zero => exact ⟨r, _, by simpa using hr, by simp⟩
          | succ k =>
            obtain ⟨r', kn, h1, h2⟩ := e4 k (by simpa using hj) (by simpa using hc)
            refine ⟨r', kn, by simpa using h1, ?_⟩
            simp only [List.getElem_cons_succ, List.take_succ_cons]
            rw [h2]; simp
        · intro i hi
          rcases List.mem_cons.mp hi with rfl | hi
          · exact List.mem_of_find?_eq_some hf
          · exact e6 i hi

/-- the privilege clauses for a list of appended metas -/
theorem appended_privileges (ixd prog : Bytes) (cfgs : List Meta) (metas app : List AccountMeta)
    (h : Appended pda ixd prog cfgs metas app) (j : Nat) (hj : j < app.length) (hc : j < cfgs.length) :
    app[j].signer = false ∧
    (app[j].writable = true → Pod.toBool cfgs[j].isWritable = true) ∧
    ((∃ x ∈ metas ++ app.take j, x.key = app[j].key) →
      (∀ x ∈ metas ++ app.take j, x.key = app[j].key → x.writable = false) → app[j].writable = false) ∧
    (Pod.toBool cfgs[j].isWritable = true →
      ((∀ x ∈ metas ++ app.take j, x.key ≠ app[j].key) ∨
        (∃ x ∈ metas ++ app.take j, x.key = app[j].key ∧ x.writable = true)) → app[j].writable = true) := by
  obtain ⟨r, known, h1, h2⟩ := h.2 j hj hc
  have hfl := resolve_flags pda cfgs[j] ixd prog known r h1
  have hd := C06_deescalate r (metas ++ app.take j)
  rw [h2]
  refine ⟨hd.2.1, ?_, ?_, ?_⟩
  · intro hw; rw [← hfl.2]; exact (hd.2.2.mp hw).1
  · intro ⟨x, hx, hk⟩ hro
    rw [hd.1] at hk hro
    cases hw : (deEscalate r (metas ++ app.take j)).writable with
    | false => rfl
    | true =>
      obtain ⟨_, h | ⟨y, hy, hyk, hyw⟩⟩ := hd.2.2.mp hw
      · exact absurd hk (h x hx)
      · have := hro y hy hyk; rw [this] at hyw; cases hyw
  · intro hcw hcond
    rw [hd.1] at hcond
    exact hd.2.2.mpr ⟨by rw [hfl.2]; exact hcw, hcond⟩

/-- Off-chain helper: the pre-existing metas are an untouched prefix, exactly one meta is
    appended per stored config, and every appended meta is non-signer, writable only if its config
    says so, read-only if the key is present only read-only among the metas before it, and
    writable if configured writable and absent or writable somewhere before it. -/
theorem C06_off_chain (fetch : Bytes → Res (Option Bytes)) (ix ix' : Instruction) (stored disc : Bytes)
    (h : addToInstruction pda fetch ix stored disc = .ok ix') :
    ∃ cfgs app, readList stored disc = .ok cfgs ∧ ix'.accounts = ix.accounts ++ app ∧
      ix'.prog = ix.prog ∧ ix'.data = ix.data ∧ Appended pda ix.data ix.prog cfgs ix.accounts app := by
  unfold addToInstruction at h
  cases hr : readList stored disc with
  | panic => simp [hr] at h
  | err e => simp [hr] at h
  | ok cfgs =>
    simp only [hr] at h
    cases hf : fetchAll fetch ix.accounts with
    | panic => simp [hf] at h
    | err e => simp [hf] at h
    | ok known =>
      simp only [hf] at h
      cases hl : addIxLoop pda fetch ix.data ix.prog cfgs known ix.accounts with
      | panic => simp [hl] at h
      | err e => simp [hl] at h
      | ok metas' =>
        simp only [hl, Res.ok.injEq] at h
        obtain ⟨app, e1, e2⟩ := addIxLoop_spec pda fetch _ _ _ _ _ _ hl
        subst h
        exact ⟨cfgs, app, rfl, e1, rfl, rfl, e2⟩

/-- CPI helper: the same, plus one appended account info per appended meta (taken from the
    pool) with the same key, in lockstep. -/
theorem C06_cpi (ix ix' : Instruction) (infos infos' pool : List Info) (stored disc : Bytes)
    (h : addToCpi pda ix infos stored disc pool = .ok (ix', infos')) :
    ∃ cfgs app appI, readList stored disc = .ok cfgs ∧ ix'.accounts = ix.accounts ++ app ∧
      infos' = infos ++ appI ∧ ix'.prog = ix.prog ∧ ix'.data = ix.data ∧
      Appended pda ix.data ix.prog cfgs ix.accounts app ∧
      appI.map (·.key) = app.map (·.key) ∧ ∀ i ∈ appI, i ∈ pool := by
  unfold addToCpi at h
  cases hr : readList stored disc with
  | panic => simp [hr] at h
  | err e => simp [hr] at h
  | ok cfgs =>
    simp only [hr] at h
    cases hl : addCpiLoop pda ix.data ix.prog pool cfgs infos ix.accounts with
    | panic => simp [hl] at h
    | err e => simp [hl] at h
    | ok p =>
      obtain ⟨metas', infos''⟩ := p
      simp only [hl, Res.ok.injEq, Prod.mk.injEq] at h
      obtain ⟨app, appI, e1, e2, e3, e4, e5⟩ := addCpiLoop_spec pda _ _ _ _ _ _ _ _ hl
      obtain ⟨h1, h2⟩ := h
      subst h1; subst h2
      exact ⟨cfgs, app, appI, rfl, e1, e2, rfl, rfl, e3, e4, e5⟩

/-- The privilege guarantees, stated for both helpers at once. -/
theorem C06_privileges (ixd prog : Bytes) (cfgs : List Meta) (metas app : List AccountMeta)
    (h : Appended pda ixd prog cfgs metas app) :
    ∀ j, (hj : j < app.length) → (hc : j < cfgs.length) →
      app[j].signer = false ∧
      (app[j].writable = true → Pod.toBool cfgs[j].isWritable = true) ∧
      ((∃ x ∈ metas, x.key = app[j].key) → (∀ x ∈ metas ++ app.take j, x.key = app[j].key → x.writable = false) →
        app[j].writable = false) ∧
      (Pod.toBool cfgs[j].isWritable = true →
        ((∀ x ∈ metas ++ app.take j, x.key ≠ app[j].key) ∨
          (∃ x ∈ metas ++ app.take j, x.key = app[j].key ∧ x.writable = true)) → app[j].writable = true) := by
  intro j hj hc
  obtain ⟨a, b, c, d⟩ := appended_privileges pda ixd prog cfgs metas app h j hj hc
  refine ⟨a, b, ?_, d⟩
  intro ⟨x, hx, hk⟩ hro
  exact c ⟨x, List.mem_append_left _ hx, hk⟩ hro

/-! ### what a failing call leaves behind -/

/-- the traced loop agrees with the loop: same status, and on success the same metas -/
theorem addIxLoopT_agrees (fetch : Bytes → Res (Option Bytes)) (ixd prog : Bytes) (cfgs : List Meta)
    (known : List Acct) (metas : List AccountMeta) :
    (addIxLoopT pda fetch ixd prog cfgs known metas).2 = (addIxLoop pda fetch ixd prog cfgs known metas).map (fun _ => ()) ∧
    ∀ m', addIxLoop pda fetch ixd prog cfgs known metas = .ok m' → (addIxLoopT pda fetch ixd prog cfgs known metas).1 = m' := by
  induction cfgs generalizing known metas with
  | nil => simp [addIxLoopT, addIxLoop, Res.map]
  | cons c rest ih =>
    simp only [addIxLoopT, addIxLoop]
    cases hr : resolveOne pda c ixd prog known metas with
    | panic => simp [Res.map]
    | err e => simp [Res.map]
    | ok m =>
      dsimp only
      cases hf : fetch m.key with
      | panic => simp [Res.map]
      | err e => simp [Res.map]
      | ok data => dsimp only; exact ih _ _

theorem addCpiLoopT_agrees (ixd prog : Bytes) (pool : List Info) (cfgs : List Meta)
    (infos : List Info) (metas : List AccountMeta) :
    (addCpiLoopT pda ixd prog pool cfgs infos metas).2 = (addCpiLoop pda ixd prog pool cfgs infos metas).map (fun _ => ()) ∧
    ∀ r, addCpiLoop pda ixd prog pool cfgs infos metas = .ok r → (addCpiLoopT pda ixd prog pool cfgs infos metas).1 = r := by
  induction cfgs generalizing infos metas with
  | nil => simp [addCpiLoopT, addCpiLoop, Res.map]
  | cons c rest ih =>
    simp only [addCpiLoopT, addCpiLoop]
    cases hr : resolveOne pda c ixd prog (infos.map infoAcct) metas with
    | panic => simp [Res.map]
    | err e => simp [Res.map]
    | ok m =>
      dsimp only
      cases hf : pool.find? (fun x => x.key = m.key) with
      | none => simp [Res.map]
      | some info => dsimp only; exact ih _ _

/-- **After an error too.**  Whatever the off-chain helper's loop returns — success, an error from
    an unresolvable config or a failed fetch — the metas it leaves in the instruction are the
    untouched pre-existing ones followed by one de-escalated meta per config of a *prefix* of the
    stored list, so `C06_privileges` applies to every one of them (with `cfgs.take k`). -/
theorem C06_after_error_off_chain (fetch : Bytes → Res (Option Bytes)) (ixd prog : Bytes) (cfgs : List Meta)
    (known : List Acct) (metas : List AccountMeta) :
    ∃ k app, k ≤ cfgs.length ∧ (addIxLoopT pda fetch ixd prog cfgs known metas).1 = metas ++ app ∧
      Appended pda ixd prog (cfgs.take k) metas app := by
  induction cfgs generalizing known metas with
  | nil => exact ⟨0, [], Nat.le_refl _, by simp [addIxLoopT], rfl, fun j hj => by simp at hj⟩
  | cons c rest ih =>
    have stop : ∃ k app, k ≤ (c :: rest).length ∧ metas = metas ++ app ∧ Appended pda ixd prog ((c :: rest).take k) metas app :=
      ⟨0, [], Nat.zero_le _, by simp, rfl, fun j hj => by simp at hj⟩
    simp only [addIxLoopT, resolveOne]
    cases hr : resolve pda c ixd prog known with
    | panic => simpa using stop
    | err e => simpa using stop
    | ok r =>
      simp only []
      cases hf : fetch (deEscalate r metas).key with
      | panic => simpa using stop
      | err e => simpa using stop
      | ok data =>
        simp only []
        obtain ⟨k, app, hk, e1, e2, e3⟩ := ih (known ++ [⟨(deEscalate r metas).key, data⟩]) (metas ++ [deEscalate r metas])
        refine ⟨k + 1, deEscalate r metas :: app, by simpa using hk, by simp [e1], by simp [e2], ?_⟩
        intro j hj hc
        cases j with
        | zero => exact ⟨r, known, by simpa using hr, by simp⟩
        | succ i =>
          obtain ⟨r', kn, h1, h2⟩ := e3 i (by simpa using hj) (by simpa using hc)
          refine ⟨r', kn, by simpa using h1, ?_⟩
          simp only [List.getElem_cons_succ, List.take_succ_cons]
          rw [h2]; simp

/-- the CPI helper after any outcome: the same, and the infos it leaves are in lockstep with the
    metas it leaves (C08's lockstep clause does not depend on the call succeeding) -/
theorem C06_after_error_cpi (ixd prog : Bytes) (pool : List Info) (cfgs : List Meta)
    (infos : List Info) (metas : List AccountMeta) :
    ∃ k app appI, k ≤ cfgs.length ∧
      (addCpiLoopT pda ixd prog pool cfgs infos metas).1 = (metas ++ app, infos ++ appI) ∧
      Appended pda ixd prog (cfgs.take k) metas app ∧ appI.map (·.key) = app.map (·.key) := by
  induction cfgs generalizing infos metas with
  | nil => exact ⟨0, [], [], Nat.le_refl _, by simp [addCpiLoopT], ⟨rfl, fun j hj => by simp at hj⟩, rfl⟩
  | cons c rest ih =>
    have stop : ∃ k app appI, k ≤ (c :: rest).length ∧ (metas, infos) = (metas ++ app, infos ++ appI) ∧
        Appended pda ixd prog ((c :: rest).take k) metas app ∧ appI.map (·.key) = app.map (·.key) :=
      ⟨0, [], [], Nat.zero_le _, by simp, ⟨rfl, fun j hj => by simp at hj⟩, rfl⟩
    simp only [addCpiLoopT, resolveOne]
    cases hr : resolve pda c ixd prog (infos.map infoAcct) with
    | panic => simpa using stop
    | err e => simpa using stop
    | ok r =>
      simp only []
      cases hf : pool.find? (fun x => x.key = (deEscalate r metas).key) with
      | none => simpa using stop
      | some info =>
        simp only []
        have hk' : info.key = (deEscalate r metas).key := by
          have := List.find?_some hf; simpa using this
        obtain ⟨k, app, appI, hk, e1, ⟨e2, e3⟩, e4⟩ := ih (infos ++ [info]) (metas ++ [deEscalate r metas])
        refine ⟨k + 1, deEscalate r metas :: app, info :: appI, by simpa using hk, by simp [e1], ⟨by simp [e2], ?_⟩, by simp [e4, hk']⟩
        intro j hj hc
        cases j with
        | zero => exact ⟨r, _, by simpa using hr, by simp⟩
        | succ i =>
          obtain ⟨r', kn, h1, h2⟩ := e3 i (by simpa using hj) (by simpa using hc)
          refine ⟨r', kn, by simpa using h1, ?_⟩
          simp only [List.getElem_cons_succ, List.take_succ_cons]
          rw [h2]; simp

/-! Non-vacuity: a writable config whose key is already present read-only is appended read-only. -/
example : deEscalate ⟨[1], true, true⟩ [⟨[1], false, false⟩, ⟨[2], false, true⟩] = ⟨[1], false, false⟩ := by decide
example : deEscalate ⟨[3], true, true⟩ [⟨[1], false, false⟩] = ⟨[3], false, true⟩ := by decide

end C06
