/-
  C15 — variable-length TLV values resize their account exactly; the derived Borsh packer is
  exact.  Part 1: `realloc_and_pack_variable_len_with_repetition` on an account in canonical
  state (any entries, any free tail).  Part 2: every Borsh codec built from the combinators
  (structs = products, enums = tagged sums, generic items = combinators over parameter codecs)
  satisfies the round-trip law, so the derived packer reports the exact length, writes exactly
  the Borsh bytes and decodes them back from an oversized slot.
-/
import SplProofs.C03
import SplProofs.Lemmas.Borsh
import SplModel.VarLen

namespace C15
open Tlv Bytes VarLen C01

theorem getElem?_lt {α} (l : List α) (i : Nat) (e : α) (h : l[i]? = some e) : i < l.length := by
  rcases Nat.lt_or_ge i l.length with h' | h'
  · exact h'
  · rw [List.getElem?_eq_none h'] at h; cases h

/-- the previous-length lookup at the start of the function -/
theorem prev_length (s : AState) (hw : AWf s) (t : Bytes) (hne : t ≠ uninit) (r i : Nat) (e : Entry)
    (hf : findIdx s.es t r = some i) (he : s.es[i]? = some e) :
    ∃ ix, getIndices (encS s) t false (some r) = .ok ix ∧
      slice (encS s) ix.lengthStart ix.valueStart = .ok (toLe 4 e.val.length) ∧
      lengthToUsize (toLe 4 e.val.length) = e.val.length := by
  obtain ⟨e', e1, e2, e3, e4⟩ := findIdx_some s.es t r i hf
  rw [he] at e1; cases e1
  have hwe : WfE e := hw e (by rw [e2]; simp)
  have hgb := getBytes_canon s hw t hne r i e he e2 e3 e4
  have hold : lengthToUsize (toLe 4 e.val.length) = e.val.length := fromLe_toLe 4 _ (by simpa using hwe.2.2)
  unfold getBytes at hgb
  cases hgi : getIndices (encS s) t false (some r) with
  | panic => simp [hgi] at hgb
  | err x => simp [hgi] at hgb
  | ok ix =>
    simp only [hgi, Res.bind_ok] at hgb
    cases hsl : slice (encS s) ix.lengthStart ix.valueStart with
    | panic => simp [hsl] at hgb
    | err x => simp [hsl] at hgb
    | ok lb =>
      simp only [hsl, Res.bind_ok] at hgb
      split at hgb
      · simp at hgb
      · simp only [Res.pure_eq, Res.ok.injEq, Prod.mk.injEq] at hgb
        -- the length bytes are the entry's length
        obtain ⟨hsp, hspl⟩ := encS_split s hw i e e2
        obtain ⟨_, a2, a3, _⟩ := getIndicesGo_ok_bounds _ _ _ _ _ _ _ _ hgi
        have hls : ix.lengthStart = offsetOf s.es i + 8 := by omega
        have hvs : ix.valueStart = offsetOf s.es i + 12 := by omega
        have : slice (encS s) ix.lengthStart ix.valueStart = .ok (toLe 4 e.val.length) := by
          rw [hsp, hls, hvs]
          have : enc (s.es.take i) ++ e.tag ++ toLe 4 e.val.length ++
              (e.val ++ (enc (s.es.drop (i + 1)) ++ zeros s.free)) =
              (enc (s.es.take i) ++ e.tag) ++ (toLe 4 e.val.length ++
                (e.val ++ (enc (s.es.drop (i + 1)) ++ zeros s.free))) := by simp
          rw [this]
          exact slice_seg _ _ _ _ _ (by simp [offsetOf, hwe.1]) (by simp [offsetOf, hwe.1])
        exact ⟨ix, rfl, this, hold⟩

theorem encS_grow (s : AState) (k : Nat) : encS s ++ zeros k = encS ⟨s.es, s.free + k⟩ := by
  simp [encS, zeros_append]

theorem encS_size (s : AState) : (encS s).length = C03.size s := by simp [encS, C03.size]

theorem realloc_eq {x : Bytes × Res (Nat × Nat)} {d : Bytes} {r lo hi r' : Nat}
    (h : x.1 = d ∧ outOfRealloc r x.2 = .okRange lo hi r') : x = (d, .ok (lo, hi)) := by
  obtain ⟨x1, x2⟩ := x
  simp only at h
  cases x2 with
  | ok p => obtain ⟨a, b⟩ := p; simp only [outOfRealloc, Out.okRange.injEq] at h; rw [h.1, h.2.1, h.2.2.1]
  | err e => simp [outOfRealloc] at h
  | panic => simp [outOfRealloc] at h

theorem unit_eq {x : Bytes × Res Unit} {d : Bytes} (h : x.1 = d ∧ outOfUnit x.2 = .okUnit) :
    x = (d, .ok ()) := by
  obtain ⟨x1, x2⟩ := x
  simp only at h
  cases x2 with
  | ok u => rw [h.1]
  | err e => simp [outOfUnit] at h
  | panic => simp [outOfUnit] at h

/-- Storing a new variable-length value over an existing entry of an account in canonical
    state: the account data becomes exactly the canonical bytes with that entry's value replaced
    — so its length changes by exactly the change in encoded size, every other entry is
    byte-identical, and the spare zero tail keeps its size. -/
theorem C15_exact (s : AState) (hw : AWf s) (o : Nat) (t : Bytes) (h8 : t.length = 8) (hne : t ≠ uninit)
    (r i : Nat) (e : Entry) (hf : findIdx s.es t r = some i) (he : s.es[i]? = some e) (packed : Bytes)
    (hp : packed.length < 2 ^ 32)
    (hcur : (encS s).length - o ≤ MAX_PERMITTED_DATA_INCREASE)
    (hgrow : (encS s).length + (packed.length - e.val.length) - o ≤ MAX_PERMITTED_DATA_INCREASE)
    (hmax : (encS s).length + packed.length < 2 ^ 64 - 1) :
    reallocAndPack ⟨encS s, o⟩ t r packed = (⟨encS ⟨s.es.set i ⟨t, packed⟩, s.free⟩, o⟩, .ok ()) ∧
    (encS ⟨s.es.set i ⟨t, packed⟩, s.free⟩).length + e.val.length = (encS s).length + packed.length := by
  have hi := getElem?_lt _ _ _ he
  obtain ⟨e', e1, e2, e3, _⟩ := findIdx_some s.es t r i hf
  rw [he] at e1; cases e1
  have hwe : WfE e := hw e (by rw [e2]; simp)
  obtain ⟨ix, hgi, hsl, hold⟩ := prev_length s hw t hne r i e hf he
  have hsetlen := C03.enc_set_length s.es i e ⟨t, packed⟩ he hw h8
  simp only at hsetlen
  have hfind : ∀ v : Bytes, findIdx (s.es.set i ⟨t, v⟩) t r = some i := by
    intro v; rw [findIdx_congr _ s.es (set_tags s.es i e _ he e3.symm) t r]; exact hf
  have hget : ∀ v : Bytes, (s.es.set i ⟨t, v⟩)[i]? = some ⟨t, v⟩ := by intro v; simp [hi]
  have hwset : ∀ (v : Bytes) (f : Nat), v.length < 2 ^ 32 → AWf ⟨s.es.set i ⟨t, v⟩, f⟩ := by
    intro v f hv x hx
    rcases List.mem_or_eq_of_mem_set hx with hx | rfl
    · exact hw x hx
    · exact ⟨h8, hne, hv⟩
  constructor
  · unfold reallocAndPack
    simp only [hgi, hsl, hold]
    by_cases hg : e.val.length < packed.length
    · -- grow: resize, reopen, realloc, pack
      rw [if_pos hg]
      have hmin : min ((encS s).length + (packed.length - e.val.length)) reallocAndPack.ListView_usizeMax =
          (encS s).length + (packed.length - e.val.length) := by
        apply Nat.min_eq_left
        unfold reallocAndPack.ListView_usizeMax
        omega
      have A : resize ⟨encS s, o⟩ ((encS s).length + (packed.length - e.val.length)) =
          .ok ⟨encS ⟨s.es, s.free + (packed.length - e.val.length)⟩, o⟩ := by
        unfold resize
        simp only
        rw [if_neg (by omega), if_neg (by omega), if_neg (by omega)]
        congr 2
        have : (encS s).length + (packed.length - e.val.length) - (encS s).length =
            packed.length - e.val.length := by omega
        rw [this, encS_grow]
      have B := (C01_reopen ⟨s.es, s.free + (packed.length - e.val.length)⟩ hw).1
      have htk : (e.val ++ zeros (packed.length - e.val.length)).take packed.length =
          e.val ++ zeros (packed.length - e.val.length) := List.take_of_length_le (by simp; omega)
      have hvl : (e.val ++ zeros (packed.length - e.val.length)).length = packed.length := by
        simp; omega
      have C : realloc (encS ⟨s.es, s.free + (packed.length - e.val.length)⟩) t packed.length r =
          (encS ⟨s.es.set i ⟨t, e.val ++ zeros (packed.length - e.val.length)⟩, s.free⟩,
            .ok (offsetOf s.es i + 12, offsetOf s.es i + 12 + packed.length)) := by
        have hre := refine_realloc ⟨s.es, s.free + (packed.length - e.val.length)⟩ hw t h8 hne packed.length r
        simp only [aStep, hf, he] at hre
        rw [if_neg (by intro h; omega), if_neg (by omega), htk] at hre
        have := realloc_eq hre
        rw [this]
        have e1 : s.free + (packed.length - e.val.length) + e.val.length - packed.length = s.free := by
          clear hmin; omega
        rw [e1]
      have D : packVarLen (encS ⟨s.es.set i ⟨t, e.val ++ zeros (packed.length - e.val.length)⟩, s.free⟩) t r packed =
          (encS ⟨s.es.set i ⟨t, packed⟩, s.free⟩, .ok ()) := by
        have hpk := refine_pack ⟨s.es.set i ⟨t, e.val ++ zeros (packed.length - e.val.length)⟩, s.free⟩
          (hwset _ _ (by rw [hvl]; exact hp)) t hne r packed
        simp only [aStep, hfind, hget] at hpk
        have e1 : packed.take (e.val ++ zeros (packed.length - e.val.length)).length = packed := by
          rw [hvl]; exact List.take_of_length_le (Nat.le_refl packed.length)
        have e2 : (e.val ++ zeros (packed.length - e.val.length)).drop packed.length = [] :=
          List.drop_of_length_le (by rw [hvl]; exact Nat.le_refl _)
        have e3 : packed.length ≤ (e.val ++ zeros (packed.length - e.val.length)).length := by rw [hvl]; exact Nat.le_refl _
        simp only [e1, e2, List.append_nil, if_pos e3, List.set_set] at hpk
        exact unit_eq hpk
      simp only [hmin, A, B, C, D]
    · -- shrink or same size: pack, realloc, resize
      rw [if_neg hg]
      have B := (C01_reopen s hw).1
      have D : packVarLen (encS s) t r packed =
          (encS ⟨s.es.set i ⟨t, packed ++ e.val.drop packed.length⟩, s.free⟩, .ok ()) := by
        have hpk := refine_pack s hw t hne r packed
        simp only [aStep, hf, he] at hpk
        rw [List.take_of_length_le (by omega), if_pos (by omega)] at hpk
        exact unit_eq hpk
      simp only [B, D]
      by_cases hrem : e.val.length - packed.length > 0
      · rw [if_pos hrem]
        have hv1 : (packed ++ e.val.drop packed.length).length = e.val.length := by
          simp [List.length_drop]; omega
        have htk : ((packed ++ e.val.drop packed.length) ++ zeros (packed.length - e.val.length)).take packed.length = packed := by
          rw [List.append_assoc, take_append_len _ _ _ rfl]
        have C : realloc (encS ⟨s.es.set i ⟨t, packed ++ e.val.drop packed.length⟩, s.free⟩) t packed.length r =
            (encS ⟨s.es.set i ⟨t, packed⟩, s.free + e.val.length - packed.length⟩,
              .ok (offsetOf s.es i + 12, offsetOf s.es i + 12 + packed.length)) := by
          have hre := refine_realloc ⟨s.es.set i ⟨t, packed ++ e.val.drop packed.length⟩, s.free⟩
            (hwset _ _ (by rw [hv1]; exact hwe.2.2)) t h8 hne packed.length r
          simp only [aStep, hfind, hget] at hre
          rw [hv1, if_neg (by intro h; omega), if_neg (by omega), htk, List.set_set] at hre
          have := realloc_eq hre
          rw [this]
          congr 3
          simp only [offsetOf]
          rw [List.take_set_of_le (Nat.le_refl i)]
          simp only [offsetOf]
          rw [List.take_set_of_le (Nat.le_refl i)]
        have hlen2 : (encS ⟨s.es.set i ⟨t, packed⟩, s.free + e.val.length - packed.length⟩).length =
            (encS s).length := by
          simp only [encS, List.length_append, zeros_len]; omega
        have A : resize ⟨encS ⟨s.es.set i ⟨t, packed⟩, s.free + e.val.length - packed.length⟩, o⟩
            ((encS s).length - (e.val.length - packed.length)) =
            .ok ⟨encS ⟨s.es.set i ⟨t, packed⟩, s.free⟩, o⟩ := by
          unfold resize
          simp only
          rw [if_neg (by rw [hlen2]; simp only [encS, List.length_append, zeros_len] at *; omega),
            if_neg (by omega), if_pos (by rw [hlen2]; omega)]
          congr 2
          simp only [encS]
          rw [take_append_add _ _ _ s.free (by simp only [encS, List.length_append, zeros_len] at *; omega)]
          congr 1
          simp only [zeros, List.take_replicate]
          congr 1
          omega
        simp only [C, A]
      · rw [if_neg hrem]
        have : e.val.drop packed.length = [] := List.drop_of_length_le (by omega)
        rw [this, List.append_nil]
  · simp only [encS, List.length_append, zeros_len] at *
    omega


/-- A missing entry is an error and the account is untouched. -/
theorem C15_missing (s : AState) (hw : AWf s) (o : Nat) (t : Bytes) (hne : t ≠ uninit) (r : Nat)
    (hf : findIdx s.es t r = none) (packed : Bytes) :
    ∃ e, reallocAndPack ⟨encS s, o⟩ t r packed = (⟨encS s, o⟩, .err e) := by
  obtain ⟨e, he⟩ := getIndices_search_wf s.es hw (zeros s.free) (terminated_zeros _) t hne r
    (findIdx_none s.es t r hf)
  refine ⟨e, ?_⟩
  unfold reallocAndPack
  simp only [encS] at he ⊢
  rw [he]

/-- Growth beyond the runtime's limit (original length + 10 KiB) is rejected with the account
    untouched. -/
theorem C15_limit (s : AState) (hw : AWf s) (o : Nat) (t : Bytes) (hne : t ≠ uninit)
    (r i : Nat) (e : Entry) (hf : findIdx s.es t r = some i) (he : s.es[i]? = some e) (packed : Bytes)
    (hg : e.val.length < packed.length)
    (hover : (encS s).length + (packed.length - e.val.length) - o > MAX_PERMITTED_DATA_INCREASE)
    (hmax : (encS s).length + packed.length < 2 ^ 64 - 1) :
    reallocAndPack ⟨encS s, o⟩ t r packed = (⟨encS s, o⟩, .err .invalidRealloc) := by
  obtain ⟨ix, hgi, hsl, hold⟩ := prev_length s hw t hne r i e hf he
  unfold reallocAndPack
  simp only [hgi, hsl, hold]
  rw [if_pos hg]
  have hmin : min ((encS s).length + (packed.length - e.val.length)) reallocAndPack.ListView_usizeMax =
      (encS s).length + (packed.length - e.val.length) := by
    apply Nat.min_eq_left
    unfold reallocAndPack.ListView_usizeMax
    omega
  rw [hmin]
  have : resize ⟨encS s, o⟩ ((encS s).length + (packed.length - e.val.length)) = .err .invalidRealloc := by
    unfold resize
    simp only
    rw [if_neg (by omega), if_pos hover]
  rw [this]

/-! ### the derived Borsh packer -/

open Borsh in
/-- For every codec satisfying the round-trip law: the packer reports the exact encoded length,
    writes exactly the Borsh bytes, and decodes them back even when the slot is larger than the
    value (`tail` = whatever follows in the slot). -/
theorem C15_borsh_packer {α} (c : Codec α) (h : Lawful c) (a : α) (tail : Bytes) :
    packedLen c a = (packBytes c a).length ∧ packBytes c a = c.enc a ∧
    unpackFrom c (packBytes c a ++ tail) = some a := by
  refine ⟨rfl, rfl, ?_⟩
  simp [unpackFrom, packBytes, h a tail]

open Borsh in
/-- The law holds for every struct or enum, including generic ones: it holds for the primitive
    codecs and is preserved by every type former (fields in sequence, optional fields, vectors,
    enum variants, renaming to a named type) for arbitrary — hence also generic-parameter —
    component codecs. -/
theorem C15_borsh_closed :
    (∀ k, Lawful (uint k)) ∧ Lawful bool ∧ Lawful unit ∧ Lawful bytes ∧
    (∀ {α} (c : Codec α), Lawful c → Lawful (option c)) ∧
    (∀ {α β} (c1 : Codec α) (c2 : Codec β), Lawful c1 → Lawful c2 → Lawful (pair c1 c2)) ∧
    (∀ {α β} (c1 : Codec α) (c2 : Codec β), Lawful c1 → Lawful c2 → Lawful (sum c1 c2)) ∧
    (∀ {α β γ} (c1 : Codec α) (c2 : Codec β) (c3 : Codec γ), Lawful c1 → Lawful c2 → Lawful c3 →
        Lawful (sum3 c1 c2 c3)) ∧
    (∀ {α} (c : Codec α), Lawful c → Lawful (vec c)) ∧
    (∀ {α β} (c : Codec α) (f : α → β) (g : β → α), Lawful c → (∀ b, f (g b) = b) → Lawful (iso c f g)) :=
  ⟨uint_lawful, bool_lawful, unit_lawful, bytes_lawful, fun c h => option_lawful c h,
   fun c1 c2 h1 h2 => pair_lawful c1 c2 h1 h2, fun c1 c2 h1 h2 => sum_lawful c1 c2 h1 h2,
   fun c1 c2 c3 h1 h2 h3 => sum3_lawful c1 c2 c3 h1 h2 h3, fun c h => vec_lawful c h,
   fun c f g h hfg => iso_lawful c f g h hfg⟩

/-! Non-vacuity: a struct { a: u8, s: String, o: Option<u32> } decoded from an oversized slot. -/
open Borsh in
example : unpackFrom (pair (uint 1) (pair bytes (option (uint 4))))
    ((pair (uint 1) (pair bytes (option (uint 4)))).enc (⟨7, by decide⟩, ⟨[104, 105], by decide⟩, some ⟨9, by decide⟩) ++ [0xEE, 0xEE]) =
    some (⟨7, by decide⟩, ⟨[104, 105], by decide⟩, some ⟨9, by decide⟩) := by
  have := (C15_borsh_packer (pair (uint 1) (pair bytes (option (uint 4))))
    (C15_borsh_closed.2.2.2.2.2.1 _ _ (C15_borsh_closed.1 1)
      (C15_borsh_closed.2.2.2.2.2.1 _ _ C15_borsh_closed.2.2.2.1
        (C15_borsh_closed.2.2.2.2.1 _ (C15_borsh_closed.1 4))))
    (⟨7, by decide⟩, ⟨[104, 105], by decide⟩, some ⟨9, by decide⟩) [0xEE, 0xEE]).2.2
  exact this

end C15
