/-
  C03 — the TLV on-wire layout is canonical: type, LE length, value, zero tail.
  Corollaries of the C01 refinement: the bytes after any successful history from a zeroed
  buffer are `encS` of the logical entry list — a pure function of that list and the buffer size.
-/
import SplProofs.C01

namespace C03
open Tlv Bytes C01

/-- the byte size an abstract state occupies: entries plus free tail -/
def size (s : AState) : Nat := (enc s.es).length + s.free

/-- total number of bytes used by the entries: a fixed 12-byte overhead per entry -/
theorem C03_overhead (es : List Entry) (hw : ∀ e ∈ es, WfE e) :
    (enc es).length = (es.map (fun e => 12 + e.val.length)).sum ∧ HDR = 12 ∧ DL = 8 ∧ LW = 4 := by
  refine ⟨?_, by decide, by decide, by decide⟩
  induction es with
  | nil => rfl
  | cons x xs ih =>
    have hx := hw x (List.mem_cons_self)
    rw [enc_cons, List.length_append, encEntry_length x hx.1,
      ih (fun y hy => hw y (List.mem_cons_of_mem _ hy))]
    simp

/-- The canonical encoding, spelled out: each entry is its 8-byte type, its length as 4
    little-endian bytes, then its value; after the last entry only zero bytes. -/
theorem C03_encoding (s : AState) :
    encS s = (s.es.map (fun e => e.tag ++ (toLe 4 e.val.length ++ e.val))).flatten ++ zeros s.free ∧
    (∀ n j, j < 4 → (toLe 4 n)[j]? = some (UInt8.ofNat (n / 256 ^ j % 256))) := by
  refine ⟨?_, fun n j hj => toLe_getElem 4 n j hj⟩
  unfold encS enc
  rw [List.flatMap_def]
  rfl

theorem enc_set_length (es : List Entry) (i : Nat) (e x : Entry) (h : es[i]? = some e)
    (hw : ∀ y ∈ es, WfE y) (hx : x.tag.length = 8) :
    (enc (es.set i x)).length + e.val.length = (enc es).length + x.val.length := by
  have hi : i < es.length := by
    rcases Nat.lt_or_ge i es.length with h' | h'
    · exact h'
    · rw [List.getElem?_eq_none h'] at h; cases h
  have hsplit : es = es.take i ++ e :: es.drop (i + 1) := by
    have : es[i] = e := by rw [List.getElem?_eq_getElem hi] at h; exact Option.some.inj h
    conv => lhs; rw [← List.take_append_drop i es, List.drop_eq_getElem_cons hi, this]
  have hwe : WfE e := hw e (by rw [hsplit]; simp)
  rw [set_eq_split es i e x h]
  conv => rhs; rw [hsplit]
  simp only [enc_append, enc_cons, List.length_append, encEntry_length e hwe.1, encEntry_length x hx]
  omega

/-- Every abstract step keeps the total size (entries + zero tail) constant: space gained by
    growing comes out of the zero tail, space released by shrinking goes back to it as zeros. -/
theorem C03_size_preserved (s : AState) (hw : AWf s) (op : Op) (hop : OpWf op) :
    size (aStep s op).1 = size s := by
  have happ : ∀ t val allowRep, t.length = 8 → size (aAppend s t val allowRep).1 = size s := by
    intro t val allowRep h8
    unfold aAppend
    split
    · rfl
    · split
      · rfl
      · split
        · rfl
        · split
          · rfl
          · rename_i c1 c2 c3 c4
            simp only [size, enc_append, enc_cons, enc_nil, List.append_nil, List.length_append,
              encEntry_length ⟨t, val⟩ h8]
            omega
  cases op with
  | alloc t len allowRep => exact happ t _ allowRep hop.1
  | init t dflt allowRep => exact happ t _ allowRep hop.1
  | allocPack t packed allowRep => simp only [aStep]; exact happ t _ allowRep hop.1
  | realloc t n r =>
    cases hf : findIdx s.es t r with
    | none => simp only [aStep, hf]
    | some i =>
      cases he : s.es[i]? with
      | none => simp only [aStep, hf, he]
      | some e =>
        simp only [aStep, hf, he]
        split
        · rfl
        · split
          · rfl
          · rename_i c1 c2
            have := enc_set_length s.es i e ⟨t, (e.val ++ zeros (n - e.val.length)).take n⟩ he hw hop.1
            simp only [List.length_take, List.length_append, zeros_len] at this
            simp only [size]
            have hroom : ¬ (e.val.length < n ∧ s.free < n - e.val.length) := c1
            by_cases hg : e.val.length < n
            · have : n - e.val.length ≤ s.free := by
                by_cases h : s.free < n - e.val.length
                · exact absurd ⟨hg, h⟩ hroom
                · omega
              omega
            · omega
  | write t r v =>
    cases hf : findIdx s.es t r with
    | none => simp only [aStep, hf]
    | some i =>
      cases he : s.es[i]? with
      | none => simp only [aStep, hf, he]
      | some e =>
        simp only [aStep, hf, he]
        split
        · rfl
        · rename_i c
          have := enc_set_length s.es i e ⟨t, v⟩ he hw hop.1
          simp only [size]
          simp only [ne_eq, Decidable.not_not] at c
          dsimp only at this
          omega
  | pack t r packed =>
    cases hf : findIdx s.es t r with
    | none => simp only [aStep, hf]
    | some i =>
      cases he : s.es[i]? with
      | none => simp only [aStep, hf, he]
      | some e =>
        simp only [aStep, hf, he]
        have := enc_set_length s.es i e ⟨t, packed.take e.val.length ++ e.val.drop packed.length⟩ he hw hop.1
        simp only [List.length_append, List.length_take, List.length_drop] at this
        simp only [size]
        omega

/-- After any history from a zeroed buffer of `n` bytes the raw bytes are exactly the canonical
    encoding of the logical entry list followed only by zero bytes up to the end of the buffer
    — a pure function of the entry list and the buffer size. -/
theorem C03_canonical (n : Nat) (ops : List Op) (hops : ∀ op ∈ ops, OpWf op) :
    (mRun (zeros n) ops).1 =
      enc (aRun ⟨[], n⟩ ops).1.es ++ zeros (n - (enc (aRun ⟨[], n⟩ ops).1.es).length) ∧
    (enc (aRun ⟨[], n⟩ ops).1.es).length ≤ n ∧ (mRun (zeros n) ops).1.length = n := by
  have hh := C01_history n ops hops
  have gen : ∀ (ops : List Op) (s : AState), AWf s → (∀ op ∈ ops, OpWf op) →
      size (aRun s ops).1 = size s := by
    intro ops
    induction ops with
    | nil => intro s _ _; rfl
    | cons op ops ih =>
      intro s hw hops
      simp only [aRun]
      rw [ih _ (C01_refines s hw op (hops op (List.mem_cons_self))).2
        (fun o ho => hops o (List.mem_cons_of_mem _ ho))]
      exact C03_size_preserved s hw op (hops op (List.mem_cons_self))
  have hsz := gen ops ⟨[], n⟩ (by intro e he; cases he) hops
  simp only [size, enc_nil, List.length_nil, Nat.zero_add] at hsz
  rw [hh.1]
  simp only [encS]
  have : (aRun ⟨[], n⟩ ops).1.free = n - (enc (aRun ⟨[], n⟩ ops).1.es).length := by omega
  refine ⟨by rw [this], by omega, by simp; omega⟩

/-- Growing reads zero, shrinking zeroes: the value after a resize is the old value followed by
    zeros (or truncated), and the bytes beyond the last entry are zeros in either case. -/
theorem C03_zero_tail (s : AState) (t : Bytes) (n r lo hi rep : Nat) (old : Bytes)
    (hok : (aStep s (.realloc t n r)).2 = .okRange lo hi rep) (hold : aGet s t r = some old) :
    aGet (aStep s (.realloc t n r)).1 t r = some ((old ++ zeros (n - old.length)).take n) ∧
    (encS (aStep s (.realloc t n r)).1).drop (enc (aStep s (.realloc t n r)).1.es).length =
      zeros (aStep s (.realloc t n r)).1.free :=
  ⟨((C01_ryw s t r).2 n lo hi rep old hok hold).1, by simp [encS]⟩

/-! non-vacuity of `C03_zero_tail`: a successful resize of a non-last entry on a concrete state -/
example : (aStep ⟨[⟨[1,1,1,1,1,1,1,1], [7, 8]⟩, ⟨[1,1,1,1,1,1,1,2], [9]⟩], 5⟩ (.realloc [1,1,1,1,1,1,1,1] 4 0)).2 = .okRange 12 16 0 ∧
    C01.aGet ⟨[⟨[1,1,1,1,1,1,1,1], [7, 8]⟩, ⟨[1,1,1,1,1,1,1,2], [9]⟩], 5⟩ [1,1,1,1,1,1,1,1] 0 = some [7, 8] := by decide
example : encS ⟨[⟨[1,1,1,1,1,1,1,1], [7, 8]⟩], 2⟩ = [1,1,1,1,1,1,1,1, 2,0,0,0, 7,8, 0,0] := by decide

end C03
