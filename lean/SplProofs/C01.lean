/-
  C01 — TLV entries: read-your-writes and isolation under any operation history.
  The bytes are related to an abstract entry list by `encS` (canonical encoding); every
  mutating operation of the model refines the abstract step (`C01_refines`), hence any history
  from a zeroed buffer does (`C01_history`); the abstract steps have the read-your-writes /
  isolation / order properties (`C01_shape`, `C01_ryw`, `C01_isolation`), and re-opening the bytes
  through any view reads the abstract list back (`C01_reopen`).
  Quantification: all buffer sizes, all 8-byte non-zero tags, all lengths, all histories.
-/
import SplProofs.Lemmas.TlvRefine
import SplProofs.C02

namespace C01
open Tlv Bytes

/-- value of the `r`-th entry of type `t` in the abstract state -/
def aGet (s : AState) (t : Bytes) (r : Nat) : Option Bytes :=
  (findIdx s.es t r).bind (fun i => s.es[i]?.map (·.val))

def tags (s : AState) : List Bytes := s.es.map (·.tag)

/-- values written by an operation are representable (the API takes them from Rust slices) -/
def OpOk : Op → Prop
  | op => OpWf op

theorem aAppend_wf (s : AState) (hw : AWf s) (t val : Bytes) (h8 : t.length = 8) (hne : t ≠ uninit)
    (allowRep : Bool) : AWf (aAppend s t val allowRep).1 := by
  unfold aAppend
  split
  · exact hw
  · split
    · exact hw
    · split
      · exact hw
      · rename_i hlen
        split
        · exact hw
        · intro e he
          simp only [List.mem_append, List.mem_singleton] at he
          rcases he with he | rfl
          · exact hw e he
          · exact ⟨h8, hne, by simpa using hlen⟩

/-- Every operation on the canonical bytes of an abstract state yields the canonical bytes of
    the abstract successor state and the abstract outcome (returned range, repetition number,
    success/failure); well-formedness is preserved. -/
theorem C01_refines (s : AState) (hw : AWf s) (op : Op) (hop : OpWf op) :
    mStep (encS s) op = (encS (aStep s op).1, (aStep s op).2) ∧ AWf (aStep s op).1 := by
  cases op with
  | alloc t len allowRep =>
    obtain ⟨h8, hne⟩ := hop
    have h := (refine_append s hw t h8 hne allowRep).1 len
    exact ⟨by simp only [mStep, aStep]; rw [h.1, h.2], aAppend_wf s hw t _ h8 hne allowRep⟩
  | init t dflt allowRep =>
    obtain ⟨h8, hne⟩ := hop
    have h := (refine_append s hw t h8 hne allowRep).2.1 dflt
    exact ⟨by simp only [mStep, aStep]; rw [h.1, h.2], aAppend_wf s hw t _ h8 hne allowRep⟩
  | allocPack t packed allowRep =>
    obtain ⟨h8, hne⟩ := hop
    have h := (refine_append s hw t h8 hne allowRep).2.2 packed
    have hwf := aAppend_wf s hw t packed h8 hne allowRep
    exact ⟨by simp only [mStep, aStep]; rw [h.1, h.2], hwf⟩
  | realloc t n r =>
    obtain ⟨h8, hne⟩ := hop
    have h := refine_realloc s hw t h8 hne n r
    refine ⟨by simp only [mStep]; rw [h.1, h.2], ?_⟩
    simp only [aStep]
    cases hf : findIdx s.es t r with
    | none => exact hw
    | some i =>
      obtain ⟨e, e1, e2, e3, e4⟩ := findIdx_some s.es t r i hf
      simp only [e1]
      split
      · exact hw
      · split
        · exact hw
        · rename_i c1 c2
          intro x hx
          rcases List.mem_or_eq_of_mem_set hx with hx | rfl
          · exact hw x hx
          · refine ⟨h8, hne, ?_⟩
            simp only [List.length_take, List.length_append, zeros_len]
            omega
  | write t r v =>
    obtain ⟨h8, hne⟩ := hop
    have h := refine_write s hw t hne r v
    refine ⟨by simp only [mStep]; rw [h.1, h.2], ?_⟩
    simp only [aStep]
    cases hf : findIdx s.es t r with
    | none => exact hw
    | some i =>
      obtain ⟨e, e1, e2, e3, e4⟩ := findIdx_some s.es t r i hf
      simp only [e1]
      split
      · exact hw
      · rename_i c
        intro x hx
        rcases List.mem_or_eq_of_mem_set hx with hx | rfl
        · exact hw x hx
        · have hwe : WfE e := hw e (by rw [e2]; simp)
          refine ⟨h8, hne, ?_⟩
          have := hwe.2.2
          simp only [ne_eq, Decidable.not_not] at c
          show v.length < 2 ^ 32
          omega
  | pack t r packed =>
    obtain ⟨h8, hne⟩ := hop
    have h := refine_pack s hw t hne r packed
    refine ⟨by simp only [mStep]; rw [h.1, h.2], ?_⟩
    simp only [aStep]
    cases hf : findIdx s.es t r with
    | none => exact hw
    | some i =>
      obtain ⟨e, e1, e2, e3, e4⟩ := findIdx_some s.es t r i hf
      simp only [e1]
      intro x hx
      rcases List.mem_or_eq_of_mem_set hx with hx | rfl
      · exact hw x hx
      · have hwe : WfE e := hw e (by rw [e2]; simp)
        refine ⟨h8, hne, ?_⟩
        have := hwe.2.2
        simp only [List.length_append, List.length_take, List.length_drop]
        omega

def mRun : Bytes → List Op → Bytes × List Out
  | d, [] => (d, [])
  | d, op :: ops => let r := mStep d op; let rest := mRun r.1 ops; (rest.1, r.2 :: rest.2)

def aRun : AState → List Op → AState × List Out
  | s, [] => (s, [])
  | s, op :: ops => let r := aStep s op; let rest := aRun r.1 ops; (rest.1, r.2 :: rest.2)

/-- Any finite operation history from a zeroed buffer of any size: the bytes are always the
    canonical encoding of the abstract entry list, and every outcome is the abstract one. -/
theorem C01_history (n : Nat) (ops : List Op) (hops : ∀ op ∈ ops, OpWf op) :
    mRun (zeros n) ops = (encS (aRun ⟨[], n⟩ ops).1, (aRun ⟨[], n⟩ ops).2) ∧
    AWf (aRun ⟨[], n⟩ ops).1 := by
  have gen : ∀ (ops : List Op) (s : AState), AWf s → (∀ op ∈ ops, OpWf op) →
      mRun (encS s) ops = (encS (aRun s ops).1, (aRun s ops).2) ∧ AWf (aRun s ops).1 := by
    intro ops
    induction ops with
    | nil => intro s hw _; exact ⟨rfl, hw⟩
    | cons op ops ih =>
      intro s hw hops
      obtain ⟨h1, h2⟩ := C01_refines s hw op (hops op (List.mem_cons_self))
      obtain ⟨i1, i2⟩ := ih (aStep s op).1 h2 (fun o ho => hops o (List.mem_cons_of_mem _ ho))
      simp only [mRun, aRun]
      rw [h1]
      simp only
      rw [i1]
      exact ⟨rfl, i2⟩
  have := gen ops ⟨[], n⟩ (by intro e he; cases he) hops
  simpa [encS] using this

/-- The shape of every abstract step: the entry list is unchanged, or gains exactly one entry at
    the end, or has exactly one entry — the `r`-th of type `t` — replaced by an entry with the
    same type.  (So the order, and every other entry's type, value, length, position and
    repetition number, are untouched.) -/
theorem C01_shape (s : AState) (op : Op) :
    (aStep s op).1.es = s.es ∨
    (∃ e, (aStep s op).1.es = s.es ++ [e]) ∨
    (∃ i e t r, findIdx s.es t r = some i ∧ e.tag = t ∧ (aStep s op).1.es = s.es.set i e) := by
  have happ : ∀ t val allowRep, (aAppend s t val allowRep).1.es = s.es ∨
      ∃ e, (aAppend s t val allowRep).1.es = s.es ++ [e] := by
    intro t val allowRep
    unfold aAppend
    split
    · left; rfl
    · split
      · left; rfl
      · split
        · left; rfl
        · split
          · left; rfl
          · right; exact ⟨_, rfl⟩
  cases op with
  | alloc t len allowRep =>
    rcases happ t (zeros len) allowRep with h | h
    · exact Or.inl h
    · exact Or.inr (Or.inl h)
  | init t dflt allowRep =>
    rcases happ t dflt allowRep with h | h
    · exact Or.inl h
    · exact Or.inr (Or.inl h)
  | allocPack t packed allowRep =>
    simp only [aStep]
    cases hx : aAppend s t packed allowRep with
    | mk s' o =>
      have := happ t packed allowRep
      rw [hx] at this
      rcases this with h | h
      · exact Or.inl h
      · exact Or.inr (Or.inl h)
  | realloc t n r =>
    cases hf : findIdx s.es t r with
    | none => left; simp only [aStep, hf]
    | some i =>
      cases he : s.es[i]? with
      | none => left; simp only [aStep, hf, he]
      | some e =>
        simp only [aStep, hf, he]
        split
        · left; rfl
        · split
          · left; rfl
          · right; right; exact ⟨i, _, t, r, hf, rfl, rfl⟩
  | write t r v =>
    cases hf : findIdx s.es t r with
    | none => left; simp only [aStep, hf]
    | some i =>
      cases he : s.es[i]? with
      | none => left; simp only [aStep, hf, he]
      | some e =>
        simp only [aStep, hf, he]
        split
        · left; rfl
        · right; right; exact ⟨i, _, t, r, hf, rfl, rfl⟩
  | pack t r packed =>
    cases hf : findIdx s.es t r with
    | none => left; simp only [aStep, hf]
    | some i =>
      cases he : s.es[i]? with
      | none => left; simp only [aStep, hf, he]
      | some e =>
        simp only [aStep, hf, he]
        right; right; exact ⟨i, _, t, r, hf, rfl, rfl⟩


theorem findIdx_congr (es es' : List Entry) (h : es.map (·.tag) = es'.map (·.tag)) (t : Bytes) (r : Nat) :
    findIdx es t r = findIdx es' t r := by
  induction es generalizing es' r with
  | nil => cases es' with
    | nil => rfl
    | cons _ _ => simp at h
  | cons x xs ih =>
    cases es' with
    | nil => simp at h
    | cons y ys =>
      simp only [List.map_cons, List.cons.injEq] at h
      simp only [findIdx, h.1, ih ys h.2]

theorem set_tags (es : List Entry) (i : Nat) (e x : Entry) (h : es[i]? = some e) (hx : x.tag = e.tag) :
    (es.set i x).map (·.tag) = es.map (·.tag) := by
  rw [set_eq_split es i e x h]
  have := findIdx_some
  have hi : i < es.length := by
    rcases Nat.lt_or_ge i es.length with h' | h'
    · exact h'
    · rw [List.getElem?_eq_none h'] at h; cases h
  conv => rhs; rw [← List.take_append_drop i es, List.drop_eq_getElem_cons hi]
  have : es[i] = e := by rw [List.getElem?_eq_getElem hi] at h; exact Option.some.inj h
  simp [hx, this]

theorem findIdx_inj (es : List Entry) (t t' : Bytes) (r r' i : Nat)
    (h : findIdx es t r = some i) (h' : findIdx es t' r' = some i) : t = t' ∧ r = r' := by
  obtain ⟨e, e1, _, e3, e4⟩ := findIdx_some es t r i h
  obtain ⟨e', e1', _, e3', e4'⟩ := findIdx_some es t' r' i h'
  rw [e1] at e1'
  cases e1'
  have : t = t' := by rw [← e3, e3']
  subst this
  exact ⟨rfl, by rw [← e4, e4']⟩

/-- Read-your-writes: after a successful write the entry reads the written value; after a
    successful resize it reads the old value zero-extended or truncated to the new length. -/
theorem C01_ryw (s : AState) (t : Bytes) (r : Nat) :
    (∀ v, (aStep s (.write t r v)).2 = .okUnit → aGet (aStep s (.write t r v)).1 t r = some v) ∧
    (∀ n lo hi rep old, (aStep s (.realloc t n r)).2 = .okRange lo hi rep → aGet s t r = some old →
        aGet (aStep s (.realloc t n r)).1 t r = some ((old ++ zeros (n - old.length)).take n) ∧
        hi - lo = n) := by
  constructor
  · intro v hok
    cases hf : findIdx s.es t r with
    | none => simp [aStep, hf] at hok
    | some i =>
      obtain ⟨e, e1, e2, e3, e4⟩ := findIdx_some s.es t r i hf
      simp only [aStep, hf, e1] at hok ⊢
      split at hok
      · simp at hok
      · rename_i c
        rw [if_neg c]
        unfold aGet
        have hi : i < s.es.length := by
          rcases Nat.lt_or_ge i s.es.length with h' | h'
          · exact h'
          · rw [List.getElem?_eq_none h'] at e1; cases e1
        rw [findIdx_congr _ s.es (set_tags s.es i e ⟨t, v⟩ e1 e3.symm) t r, hf]
        simp [hi]
  · intro n lo hi rep old hok hold
    cases hf : findIdx s.es t r with
    | none => simp [aStep, hf] at hok
    | some i =>
      obtain ⟨e, e1, e2, e3, e4⟩ := findIdx_some s.es t r i hf
      have holdv : old = e.val := by
        unfold aGet at hold
        rw [hf] at hold
        simp [e1] at hold
        exact hold.symm
      subst holdv
      simp only [aStep, hf, e1] at hok ⊢
      split at hok
      · simp at hok
      · rename_i c1
        split at hok
        · simp at hok
        · rename_i c2
          rw [if_neg c1, if_neg c2]
          have hi : i < s.es.length := by
            rcases Nat.lt_or_ge i s.es.length with h' | h'
            · exact h'
            · rw [List.getElem?_eq_none h'] at e1; cases e1
          simp only [Out.okRange.injEq] at hok
          refine ⟨?_, by omega⟩
          unfold aGet
          rw [findIdx_congr _ s.es (set_tags s.es i e ⟨t, _⟩ e1 e3.symm) t r, hf]
          simp [hi]

/-- Isolation: an operation on the entry (t, r) changes the value of no other entry
    (t', r') ≠ (t, r) — before it, after it, of the same type or not. -/
theorem C01_isolation (s : AState) (t t' : Bytes) (r r' : Nat) (hne : (t', r') ≠ (t, r)) :
    (∀ v, aGet (aStep s (.write t r v)).1 t' r' = aGet s t' r') ∧
    (∀ n, aGet (aStep s (.realloc t n r)).1 t' r' = aGet s t' r') ∧
    (∀ p, aGet (aStep s (.pack t r p)).1 t' r' = aGet s t' r') := by
  have key : ∀ (i : Nat) (e x : Entry), findIdx s.es t r = some i → s.es[i]? = some e → x.tag = t →
      aGet ⟨s.es.set i x, s.free⟩ t' r' = aGet s t' r' ∧
      ∀ f, aGet ⟨s.es.set i x, f⟩ t' r' = aGet s t' r' := by
    intro i e x hf e1 hx
    obtain ⟨e0, e1', _, e3, _⟩ := findIdx_some s.es t r i hf
    rw [e1] at e1'; cases e1'
    have hcongr := findIdx_congr _ s.es (set_tags s.es i e x e1 (by rw [hx, e3])) t' r'
    have : ∀ f, aGet ⟨s.es.set i x, f⟩ t' r' = aGet s t' r' := by
      intro f
      unfold aGet
      simp only
      rw [hcongr]
      cases hf' : findIdx s.es t' r' with
      | none => rfl
      | some j =>
        have hji : j ≠ i := by
          intro hji
          subst hji
          have := findIdx_inj s.es t t' r r' j hf hf'
          exact hne (by rw [this.1, this.2])
        simp [List.getElem?_set_ne (Ne.symm hji)]
    exact ⟨this _, this⟩
  refine ⟨?_, ?_, ?_⟩
  · intro v
    cases hf : findIdx s.es t r with
    | none => simp only [aStep, hf]
    | some i =>
      cases he : s.es[i]? with
      | none => simp only [aStep, hf, he]
      | some e =>
        simp only [aStep, hf, he]
        split
        · rfl
        · exact (key i e ⟨t, v⟩ hf he rfl).1
  · intro n
    cases hf : findIdx s.es t r with
    | none => simp only [aStep, hf]
    | some i =>
      cases he : s.es[i]? with
      | none => simp only [aStep, hf, he]
      | some e =>
        simp only [aStep, hf, he]
        split
        · rfl
        · split
          · rfl
          · exact (key i e ⟨t, _⟩ hf he rfl).2 _
  · intro p
    cases hf : findIdx s.es t r with
    | none => simp only [aStep, hf]
    | some i =>
      cases he : s.es[i]? with
      | none => simp only [aStep, hf, he]
      | some e =>
        simp only [aStep, hf, he]
        exact (key i e ⟨t, _⟩ hf he rfl).1

theorem findIdx_append_old (es : List Entry) (x : Entry) (t : Bytes) (r i : Nat)
    (h : findIdx es t r = some i) : findIdx (es ++ [x]) t r = some i := by
  induction es generalizing r i with
  | nil => simp [findIdx] at h
  | cons y ys ih =>
    simp only [List.cons_append, findIdx] at h ⊢
    by_cases hy : y.tag = t
    · simp only [hy, if_true] at h ⊢
      by_cases hr : r = 0
      · simp only [hr, if_true] at h ⊢; exact h
      · simp only [hr, if_false] at h ⊢
        cases hf : findIdx ys t (r - 1) with
        | none => simp [hf] at h
        | some j => rw [ih _ _ hf]; simpa [hf] using h
    · simp only [hy, if_false] at h ⊢
      cases hf : findIdx ys t r with
      | none => simp [hf] at h
      | some j => rw [ih _ _ hf]; simpa [hf] using h

theorem findIdx_append_new (es : List Entry) (t v : Bytes) :
    findIdx (es ++ [⟨t, v⟩]) t (es.filter (·.tag = t)).length = some es.length := by
  induction es with
  | nil => simp [findIdx]
  | cons y ys ih =>
    simp only [List.cons_append, findIdx, List.filter_cons]
    by_cases hy : y.tag = t
    · simp [hy, ih]
    · simp [hy, ih]

/-- Appending (allocate / initialise / allocate-and-pack): existing entries keep their values and
    repetition numbers, the listed types gain exactly the new type at the end, and the returned
    repetition number addresses the new entry. -/
theorem C01_append (s : AState) (t val : Bytes) (allowRep : Bool) (lo hi rep : Nat)
    (hok : (aAppend s t val allowRep).2 = .okRange lo hi rep) :
    tags (aAppend s t val allowRep).1 = tags s ++ [t] ∧
    rep = (s.es.filter (·.tag = t)).length ∧ hi - lo = val.length ∧
    aGet (aAppend s t val allowRep).1 t rep = some val ∧
    (∀ t' r' x, aGet s t' r' = some x → aGet (aAppend s t val allowRep).1 t' r' = some x) := by
  unfold aAppend at hok ⊢
  split at hok
  · simp at hok
  · split at hok
    · simp at hok
    · split at hok
      · simp at hok
      · split at hok
        · simp at hok
        · rename_i c1 c2 c3 c4
          rw [if_neg c1, if_neg c2, if_neg c3, if_neg c4]
          simp only [Out.okRange.injEq] at hok
          obtain ⟨h1, h2, h3⟩ := hok
          refine ⟨by simp [tags], h3.symm, by omega, ?_, ?_⟩
          · unfold aGet
            simp only
            rw [← h3, findIdx_append_new]
            simp
          · intro t' r' x hx
            unfold aGet at hx ⊢
            simp only
            cases hf : findIdx s.es t' r' with
            | none => simp [hf] at hx
            | some j =>
              rw [findIdx_append_old _ _ _ _ _ hf]
              rw [hf] at hx
              simp only [Option.bind_some] at hx ⊢
              have hj : j < s.es.length := by
                rcases Nat.lt_or_ge j s.es.length with h' | h'
                · exact h'
                · rw [List.getElem?_eq_none h'] at hx; simp at hx
              rw [List.getElem?_append_left hj]
              exact hx

/-- Re-opening the canonical bytes through any view (they share one check): succeeds, lists the
    types in insertion order, and every lookup by (type, repetition) returns the abstract value
    (as a range of the buffer holding exactly those bytes) or fails when there is none. -/
theorem C01_reopen (s : AState) (hw : AWf s) :
    unpack (encS s) = .ok () ∧ getDiscriminators (encS s) = .ok (tags s) ∧
    ∀ t, t ≠ uninit → ∀ r,
      (∀ v, aGet s t r = some v → ∃ lo, getBytes (encS s) t r = .ok (lo, lo + v.length) ∧
          ((encS s).drop lo).take v.length = v) ∧
      (aGet s t r = none → (getBytes (encS s) t r).isErr = true) := by
  have hwf : C02.WellFormed (encS s) := ⟨s.es, zeros s.free, rfl, hw, terminated_zeros _⟩
  refine ⟨(C02.C02_accept_iff _).mpr hwf, C02.C02_types s.es hw _ (terminated_zeros _), ?_⟩
  intro t hne r
  have hl := C02.C02_lookup s.es hw (zeros s.free) (terminated_zeros _) t hne r
  constructor
  · intro v hv
    unfold aGet at hv
    cases hf : findIdx s.es t r with
    | none => simp [hf] at hv
    | some i =>
      obtain ⟨e, e1, e2, e3, e4⟩ := findIdx_some s.es t r i hf
      rw [hf] at hv
      simp only [Option.bind_some, e1, Option.map_some, Option.some.injEq] at hv
      subst hv
      obtain ⟨h1, h2⟩ := hl.1 (s.es.take i) e (s.es.drop (i + 1)) e2 e3 e4
      exact ⟨_, h1, h2⟩
  · intro hnone
    apply hl.2
    unfold aGet at hnone
    cases hf : findIdx s.es t r with
    | none => exact findIdx_none s.es t r hf
    | some i =>
      obtain ⟨e, e1, _, _, _⟩ := findIdx_some s.es t r i hf
      rw [hf] at hnone
      simp [e1] at hnone

/-! Non-vacuity: a concrete two-entry history. -/
example : (aRun ⟨[], 40⟩ [.alloc [1,1,1,1,1,1,1,1] 2 false, .init [2,0,0,0,0,0,0,0] [9] true,
      .write [1,1,1,1,1,1,1,1] 0 [5, 6]]).1 =
    ⟨[⟨[1,1,1,1,1,1,1,1], [5, 6]⟩, ⟨[2,0,0,0,0,0,0,0], [9]⟩], 13⟩ := by decide

end C01
