/-
  C12 — extra-account lists store and reload exactly, per instruction.
  Composition of the TLV refinement (C01), the list-view refinement (C09) and the decoding
  theorems.  `s` ranges over abstract TLV states (any number of lists for other instructions,
  any free space); `ms` over config lists whose address configs are 32 bytes.
-/
import SplProofs.Lemmas.MetaList
import SplProofs.C04
import SplProofs.C10

namespace C12
open Resolution ExtraMeta Tlv Bytes

/-- bytes a list of `n` configs occupies as a TLV value: 4-byte count + 35 per config -/
def listLen (n : Nat) : Nat := 4 + 35 * n

theorem sizeOf_small (n : Nat) (hn : n < 2 ^ 26) :
    ListView.sizeOf LP n = .ok (listLen n) ∧ Resolution.sizeOf n = .ok (12 + listLen n) := by
  have hp : ListView.headerPadding LP = 0 := by decide
  have e : ListView.sizeOf LP n = .ok (listLen n) := by
    unfold ListView.sizeOf
    have a2 : LP.sizeT = 35 := rfl
    have a3 : LP.wL = 4 := rfl
    simp only [a2, a3, hp, ListView.usizeMax_eq]
    rw [if_neg (by omega), if_neg (by omega), if_neg (by omega)]
    simp [listLen]; omega
  refine ⟨e, ?_⟩
  unfold Resolution.sizeOf
  rw [e]
  simp only [HDR_eq, ListView.usizeMax_eq, listLen]
  congr 1
  omega

/-- `init` on canonical bytes: either an error with the bytes untouched, or the list appended as
    a new entry whose value decodes to exactly `ms`. -/
theorem C12_init_spec (s : AState) (hw : AWf s) (t : Bytes) (h8 : t.length = 8) (hne : t ≠ uninit)
    (ms : List Meta) (hm : ∀ m ∈ ms, m.cfg.length = 32) (hn : ms.length < 2 ^ 26) :
    (((∃ e ∈ s.es, e.tag = t) ∨ s.free < 12 + listLen ms.length) →
        ∃ e, init (encS s) t ms = (encS s, .err e)) ∧
    ((¬ ∃ e ∈ s.es, e.tag = t) → 12 + listLen ms.length ≤ s.free →
        ∃ v, init (encS s) t ms = (encS ⟨s.es ++ [⟨t, v⟩], s.free - 12 - listLen ms.length⟩, .ok ()) ∧
          v.length = listLen ms.length ∧ decodeList v = .ok ms) := by
  have hu := (C01.C01_reopen s hw).1
  have hsz := (sizeOf_small ms.length hn).1
  have hap := (refine_append s hw t h8 hne false).1 (listLen ms.length)
  have hlt : listLen ms.length < 2 ^ 32 := by unfold listLen; omega
  constructor
  · intro hfail
    have ha : aAppend s t (zeros (listLen ms.length)) false = (s, .fail) := by
      unfold aAppend
      simp only [zeros_len]
      rcases hfail with hex | hroom
      · rw [if_pos ⟨by simp, hex⟩]
      · by_cases hex : (∃ e ∈ s.es, e.tag = t)
        · rw [if_pos ⟨by simp, hex⟩]
        · rw [if_neg (by intro h; exact hex h.2)]
          by_cases c2 : s.free < 12
          · rw [if_pos c2]
          · rw [if_neg c2, if_neg (by omega), if_pos hroom]
    rw [ha] at hap
    cases hal : alloc (encS s) t (listLen ms.length) false with
    | mk d1 r =>
      rw [hal] at hap
      simp only at hap
      cases r with
      | ok p => obtain ⟨⟨lo, hi⟩, rep⟩ := p; simp [outOfRange] at hap
      | panic => simp [outOfRange] at hap
      | err e =>
        refine ⟨e, ?_⟩
        unfold init
        rw [hu, hsz]
        simp only [hal]
        rw [hap.1]
  · intro hnew hroom
    have ha : aAppend s t (zeros (listLen ms.length)) false =
        (⟨s.es ++ [⟨t, zeros (listLen ms.length)⟩], s.free - 12 - listLen ms.length⟩,
          .okRange ((enc s.es).length + 12) ((enc s.es).length + 12 + listLen ms.length)
            (s.es.filter (·.tag = t)).length) := by
      unfold aAppend
      simp only [zeros_len]
      rw [if_neg (by intro h; exact hnew h.2), if_neg (by omega), if_neg (by omega), if_neg (by omega)]
    rw [ha] at hap
    cases hal : alloc (encS s) t (listLen ms.length) false with
    | mk d1 r =>
      rw [hal] at hap
      simp only at hap
      cases r with
      | err e => simp [outOfRange] at hap
      | panic => simp [outOfRange] at hap
      | ok p =>
        obtain ⟨⟨lo, hi⟩, rep⟩ := p
        simp only [outOfRange, Out.okRange.injEq] at hap
        obtain ⟨hd1, hlo, hhi, _⟩ := hap
        -- the freshly allocated slot is all zeros, of the advertised length
        have hd1' : d1 = (enc s.es ++ t ++ toLe 4 (listLen ms.length)) ++
            (zeros (listLen ms.length) ++ zeros (s.free - 12 - listLen ms.length)) := by
          rw [hd1]; simp [encS, enc_append, encEntry]
        have hpl : (enc s.es ++ t ++ toLe 4 (listLen ms.length)).length = lo := by
          simp [h8, hlo]
        have hslot : (d1.drop lo).take (hi - lo) = zeros (listLen ms.length) := by
          rw [hd1', drop_append_len _ _ _ hpl.symm, take_append_len _ _ _ (by simp; omega)]
        obtain ⟨slot', w1, w2, w3⟩ := writeList_spec (zeros (listLen ms.length)) ms hm (by simp [listLen]) (by omega)
        have hwr : writeAt d1 lo slot' = .ok ((enc s.es ++ t ++ toLe 4 (listLen ms.length)) ++
            (slot' ++ zeros (s.free - 12 - listLen ms.length))) := by
          rw [hd1']; exact writeAt_seg _ _ _ _ _ hpl.symm (by rw [w2])
        refine ⟨slot', ?_, by rw [w2]; simp, w3⟩
        unfold init
        rw [hu, hsz]
        simp only [hal, hslot, w1, hwr]
        congr 1
        simp only [encS, enc_append, enc_cons, enc_nil, encEntry, List.append_nil, List.append_assoc]
        rw [w2]; simp

/-- Initialising a list of `n` configs in a zeroed buffer of the advertised size succeeds and
    reading it back returns exactly the same configs in order, while one byte less fails. -/
theorem C12_roundtrip (t : Bytes) (h8 : t.length = 8) (hne : t ≠ uninit) (ms : List Meta)
    (hm : ∀ m ∈ ms, m.cfg.length = 32) (hn : ms.length < 2 ^ 26) :
    Resolution.sizeOf ms.length = .ok (12 + listLen ms.length) ∧
    (∃ b, init (zeros (12 + listLen ms.length)) t ms = (b, .ok ()) ∧ readList b t = .ok ms ∧
        b.length = 12 + listLen ms.length) ∧
    (∃ e, init (zeros (12 + listLen ms.length - 1)) t ms = (zeros (12 + listLen ms.length - 1), .err e)) := by
  refine ⟨(sizeOf_small ms.length hn).2, ?_, ?_⟩
  · have h := (C12_init_spec ⟨[], 12 + listLen ms.length⟩ (by intro e he; cases he) t h8 hne ms hm hn).2
      (by simp) (by simp)
    obtain ⟨v, h1, h2, h3⟩ := h
    simp only [encS, enc_nil, List.nil_append] at h1
    refine ⟨_, h1, ?_, ?_⟩
    · have hw' : AWf ⟨[⟨t, v⟩], 12 + listLen ms.length - 12 - listLen ms.length⟩ := by
        intro e he
        simp at he; subst he
        exact ⟨h8, hne, by rw [h2]; unfold listLen; omega⟩
      have hr := (readList_canon _ hw' t hne).1 v (by simp [C01.aGet, findIdx])
      simp only [encS] at hr
      rw [hr, h3]
    · simp [encS, encEntry, h8, h2]; unfold listLen; omega
  · have h := (C12_init_spec ⟨[], 12 + listLen ms.length - 1⟩ (by intro e he; cases he) t h8 hne ms hm hn).1
      (Or.inr (by simp only; unfold listLen; omega))
    simpa [encS] using h

theorem aGet_append_other (es : List Entry) (f f' : Nat) (x : Entry) (t' : Bytes) (r : Nat)
    (h : x.tag ≠ t') : C01.aGet ⟨es ++ [x], f⟩ t' r = C01.aGet ⟨es, f'⟩ t' r := by
  unfold C01.aGet
  simp only
  have key : ∀ (es : List Entry) (r : Nat), findIdx (es ++ [x]) t' r = findIdx es t' r := by
    intro es
    induction es with
    | nil => intro r; simp [findIdx, h]
    | cons y ys ih => intro r; simp only [List.cons_append, findIdx, ih]
  rw [key]
  cases hf : findIdx es t' r with
  | none => rfl
  | some i =>
    obtain ⟨e, e1, _⟩ := findIdx_some es t' r i hf
    have hi : i < es.length := by
      rcases Nat.lt_or_ge i es.length with h' | h'
      · exact h'
      · rw [List.getElem?_eq_none h'] at e1; cases e1
    simp [List.getElem?_append_left hi]

/-- two reads agree: the same list, or both fail -/
def SameRead (a b : Res (List Meta)) : Prop :=
  (∀ l, a = .ok l ↔ b = .ok l) ∧ (a.isErr = true ↔ b.isErr = true)

theorem sameRead_of_aGet (s s' : AState) (hw : AWf s) (hw' : AWf s') (t' : Bytes) (hne' : t' ≠ uninit)
    (hg : C01.aGet s' t' 0 = C01.aGet s t' 0) : SameRead (readList (encS s') t') (readList (encS s) t') := by
  have r1 := readList_canon s' hw' t' hne'
  have r2 := readList_canon s hw t' hne'
  cases hv : C01.aGet s t' 0 with
  | some x =>
    rw [r1.1 x (by rw [hg, hv]), r2.1 x hv]
    exact ⟨fun _ => Iff.rfl, Iff.rfl⟩
  | none =>
    have e1 := r1.2 (by rw [hg, hv])
    have e2 := r2.2 hv
    constructor
    · intro l
      constructor
      · intro h; rw [h] at e1; simp [Res.isErr] at e1
      · intro h; rw [h] at e2; simp [Res.isErr] at e2
    · exact ⟨fun _ => e2, fun _ => e1⟩

/-- Lists for several instructions coexist: a successful (or failed) init of instruction `t`
    never alters what instruction `t' ≠ t` reads; and initialising the same instruction twice is
    rejected. -/
theorem C12_coexist_init (s : AState) (hw : AWf s) (t t' : Bytes) (h8 : t.length = 8) (hne : t ≠ uninit)
    (hne' : t' ≠ uninit) (htt : t ≠ t') (ms : List Meta) (hm : ∀ m ∈ ms, m.cfg.length = 32)
    (hn : ms.length < 2 ^ 26) :
    SameRead (readList (init (encS s) t ms).1 t') (readList (encS s) t') ∧
    ((init (encS s) t ms).2 = .ok () → ∃ e, (init (init (encS s) t ms).1 t ms).2 = .err e) := by
  by_cases hok : (¬ ∃ e ∈ s.es, e.tag = t) ∧ 12 + listLen ms.length ≤ s.free
  · obtain ⟨v, h1, h2, h3⟩ := (C12_init_spec s hw t h8 hne ms hm hn).2 hok.1 hok.2
    rw [h1]
    simp only
    have hw' : AWf ⟨s.es ++ [⟨t, v⟩], s.free - 12 - listLen ms.length⟩ := by
      intro e he
      simp only [List.mem_append, List.mem_singleton] at he
      rcases he with he | rfl
      · exact hw e he
      · exact ⟨h8, hne, by rw [h2]; unfold listLen; omega⟩
    constructor
    · exact sameRead_of_aGet s _ hw hw' t' hne' (aGet_append_other s.es _ s.free ⟨t, v⟩ t' 0 htt)
    · intro _
      obtain ⟨e, he⟩ := (C12_init_spec _ hw' t h8 hne ms hm hn).1 (Or.inl ⟨⟨t, v⟩, by simp, rfl⟩)
      exact ⟨e, by rw [he]⟩
  · have hfail : (∃ e ∈ s.es, e.tag = t) ∨ s.free < 12 + listLen ms.length := by
      by_cases hex : ∃ e ∈ s.es, e.tag = t
      · exact Or.inl hex
      · right
        by_cases hr : 12 + listLen ms.length ≤ s.free
        · exact absurd ⟨hex, hr⟩ hok
        · omega
    obtain ⟨e, he⟩ := (C12_init_spec s hw t h8 hne ms hm hn).1 hfail
    rw [he]
    exact ⟨⟨fun _ => Iff.rfl, Iff.rfl⟩, fun h => by simp at h⟩


theorem getElem?_lt {α} (l : List α) (i : Nat) (e : α) (h : l[i]? = some e) : i < l.length := by
  rcases Nat.lt_or_ge i l.length with h' | h'
  · exact h'
  · rw [List.getElem?_eq_none h'] at h; cases h

/-- `update` on canonical bytes: an error with the bytes untouched (no such list, or no room), or
    the list's entry replaced by a value of the new size that decodes to exactly `ms`. -/
theorem C12_update_spec (s : AState) (hw : AWf s) (t : Bytes) (h8 : t.length = 8) (hne : t ≠ uninit)
    (ms : List Meta) (hm : ∀ m ∈ ms, m.cfg.length = 32) (hn : ms.length < 2 ^ 26) :
    (findIdx s.es t 0 = none → ∃ e, update (encS s) t ms = (encS s, .err e)) ∧
    (∀ i e, findIdx s.es t 0 = some i → s.es[i]? = some e →
      (e.val.length + s.free < listLen ms.length → ∃ err, update (encS s) t ms = (encS s, .err err)) ∧
      (listLen ms.length ≤ e.val.length + s.free →
        ∃ v, update (encS s) t ms =
            (encS ⟨s.es.set i ⟨t, v⟩, s.free + e.val.length - listLen ms.length⟩, .ok ()) ∧
          v.length = listLen ms.length ∧ decodeList v = .ok ms)) := by
  have hu := (C01.C01_reopen s hw).1
  have hsz := (sizeOf_small ms.length hn).1
  have hlt : listLen ms.length < 2 ^ 32 := by unfold listLen; omega
  have hre := refine_realloc s hw t h8 hne (listLen ms.length) 0
  constructor
  · intro hf
    simp only [aStep, hf] at hre
    cases hr : realloc (encS s) t (listLen ms.length) 0 with
    | mk d1 r =>
      rw [hr] at hre
      simp only at hre
      cases r with
      | ok p => obtain ⟨lo, hi⟩ := p; simp [outOfRealloc] at hre
      | panic => simp [outOfRealloc] at hre
      | err e =>
        refine ⟨e, ?_⟩
        unfold update
        rw [hu, hsz]
        simp only [hr]
        rw [hre.1]
  · intro i e hf he
    have hi := getElem?_lt _ _ _ he
    constructor
    · intro hroom
      simp only [aStep, hf, he] at hre
      rw [if_pos ⟨by omega, by omega⟩] at hre
      cases hr : realloc (encS s) t (listLen ms.length) 0 with
      | mk d1 r =>
        rw [hr] at hre
        simp only at hre
        cases r with
        | ok p => obtain ⟨lo, hi'⟩ := p; simp [outOfRealloc] at hre
        | panic => simp [outOfRealloc] at hre
        | err e' =>
          refine ⟨e', ?_⟩
          unfold update
          rw [hu, hsz]
          simp only [hr]
          rw [hre.1]
    · intro hroom
      simp only [aStep, hf, he] at hre
      rw [if_neg (by intro h; omega), if_neg (by omega)] at hre
      cases hr : realloc (encS s) t (listLen ms.length) 0 with
      | mk d1 r =>
        rw [hr] at hre
        simp only at hre
        cases r with
        | err e' => simp [outOfRealloc] at hre
        | panic => simp [outOfRealloc] at hre
        | ok p =>
          obtain ⟨lo, hi'⟩ := p
          simp only [outOfRealloc, Out.okRange.injEq] at hre
          obtain ⟨hd1, hlo, hhi, _⟩ := hre
          -- the resized slot
          let v1 := (e.val ++ zeros (listLen ms.length - e.val.length)).take (listLen ms.length)
          have hv1 : v1.length = listLen ms.length := by
            simp only [v1, List.length_take, List.length_append, zeros_len]; omega
          let s1 : AState := ⟨s.es.set i ⟨t, v1⟩, s.free + e.val.length - listLen ms.length⟩
          have hs1e : s1.es[i]? = some ⟨t, v1⟩ := by simp [s1, hi]
          have hw1 : AWf s1 := by
            intro x hx
            rcases List.mem_or_eq_of_mem_set hx with hx | rfl
            · exact hw x hx
            · exact ⟨h8, hne, by rw [hv1]; exact hlt⟩
          have hsplit1 : s1.es = s1.es.take i ++ ⟨t, v1⟩ :: s1.es.drop (i + 1) := by
            have := set_eq_split s1.es i ⟨t, v1⟩ ⟨t, v1⟩ hs1e
            rw [← this]; simp [s1]
          obtain ⟨hsp, hspl⟩ := encS_split s1 hw1 i ⟨t, v1⟩ hsplit1
          have hoff : offsetOf s1.es i = offsetOf s.es i := by
            simp only [offsetOf, s1]
            rw [List.take_set_of_le (Nat.le_refl i)]
          simp only at hsp hspl
          rw [hoff] at hspl
          have hslot : (d1.drop lo).take (hi' - lo) = v1 := by
            rw [hd1, hsp, drop_append_len _ _ _ (by rw [hspl, hlo]), take_append_len _ _ _ (by rw [hv1]; omega)]
          obtain ⟨slot', w1, w2, w3⟩ := writeList_spec v1 ms hm (by rw [hv1]; rfl) (by omega)
          have hwr : writeAt d1 lo slot' = .ok ((enc (s1.es.take i) ++ t ++ toLe 4 v1.length) ++
              (slot' ++ (enc (s1.es.drop (i + 1)) ++ zeros s1.free))) := by
            rw [hd1, hsp]; exact writeAt_seg _ _ _ _ _ (by rw [hspl, hlo]) w2
          have htake : s1.es.take i = s.es.take i := by
            simp only [s1]; rw [List.take_set_of_le (Nat.le_refl i)]
          have hdrop : s1.es.drop (i + 1) = s.es.drop (i + 1) := by
            simp only [s1]; rw [List.drop_set_of_lt (Nat.lt_succ_self i)]
          rw [htake, hdrop] at hwr
          refine ⟨slot', ?_, by rw [w2, hv1], w3⟩
          unfold update
          rw [hu, hsz]
          simp only [hr, hslot, w1, hwr]
          congr 1
          unfold encS
          rw [set_eq_split s.es i e _ he]
          simp only [enc_append, enc_cons, encEntry, List.append_assoc, w2, s1]

/-- Updating one instruction's list — to a longer, shorter or equal list, successfully or not —
    never alters what another instruction reads. -/
theorem C12_coexist_update (s : AState) (hw : AWf s) (t t' : Bytes) (h8 : t.length = 8) (hne : t ≠ uninit)
    (hne' : t' ≠ uninit) (htt : t ≠ t') (ms : List Meta) (hm : ∀ m ∈ ms, m.cfg.length = 32)
    (hn : ms.length < 2 ^ 26) :
    SameRead (readList (update (encS s) t ms).1 t') (readList (encS s) t') ∧
    ((update (encS s) t ms).2 = .ok () → readList (update (encS s) t ms).1 t = .ok ms) := by
  have hus := C12_update_spec s hw t h8 hne ms hm hn
  cases hf : findIdx s.es t 0 with
  | none =>
    obtain ⟨e, he⟩ := hus.1 hf
    rw [he]; exact ⟨⟨fun _ => Iff.rfl, Iff.rfl⟩, fun h => by simp at h⟩
  | some i =>
    obtain ⟨e, e1, e2, e3, e4⟩ := findIdx_some s.es t 0 i hf
    have hsp := hus.2 i e hf e1
    by_cases hroom : listLen ms.length ≤ e.val.length + s.free
    · obtain ⟨v, h1, h2, h3⟩ := hsp.2 hroom
      rw [h1]
      simp only
      have hw' : AWf ⟨s.es.set i ⟨t, v⟩, s.free + e.val.length - listLen ms.length⟩ := by
        intro x hx
        rcases List.mem_or_eq_of_mem_set hx with hx | rfl
        · exact hw x hx
        · exact ⟨h8, hne, by rw [h2]; unfold listLen; omega⟩
      have htags := C01.set_tags s.es i e ⟨t, v⟩ e1 e3.symm
      constructor
      · apply sameRead_of_aGet s _ hw hw' t' hne'
        unfold C01.aGet
        simp only
        rw [C01.findIdx_congr _ s.es htags t' 0]
        cases hf' : findIdx s.es t' 0 with
        | none => rfl
        | some j =>
          have hji : j ≠ i := by
            intro hji; subst hji
            exact htt (C01.findIdx_inj s.es t t' 0 0 j hf hf').1
          simp [List.getElem?_set_ne (Ne.symm hji)]
      · intro _
        have hg : C01.aGet ⟨s.es.set i ⟨t, v⟩, s.free + e.val.length - listLen ms.length⟩ t 0 = some v := by
          unfold C01.aGet
          simp only
          rw [C01.findIdx_congr _ s.es htags t 0, hf]
          simp [getElem?_lt _ _ _ e1]
        rw [(readList_canon _ hw' t hne).1 v hg, h3]
    · obtain ⟨err, he⟩ := hsp.1 (by omega)
      rw [he]; exact ⟨⟨fun _ => Iff.rfl, Iff.rfl⟩, fun h => by simp at h⟩

/-- Fail-safe on malformed account bytes: `init`, `update` and reading return an error (never a
    panic) and leave the bytes untouched. -/
theorem C12_fail_safe (d t : Bytes) (ms : List Meta) (h : (Tlv.unpack d).isErr = true) :
    (∃ e, init d t ms = (d, .err e)) ∧ (∃ e, update d t ms = (d, .err e)) ∧
    (readList d t).isErr = true := by
  cases hu : Tlv.unpack d with
  | ok u => rw [hu] at h; simp [Res.isErr] at h
  | panic => rw [hu] at h; simp [Res.isErr] at h
  | err e =>
    refine ⟨⟨e, by unfold init; rw [hu]⟩, ⟨e, by unfold update; rw [hu]⟩, by unfold readList; rw [hu]; rfl⟩

/-- A failed initialise or update returns an error and leaves the account bit-identical on
    canonical states too (so a previously readable account stays readable): summary of the
    error branches of the two specs. -/
theorem C12_failed_unchanged (s : AState) (hw : AWf s) (t : Bytes) (h8 : t.length = 8) (hne : t ≠ uninit)
    (ms : List Meta) (hm : ∀ m ∈ ms, m.cfg.length = 32) (hn : ms.length < 2 ^ 26) :
    ((init (encS s) t ms).2 ≠ .ok () → (init (encS s) t ms).1 = encS s ∧ (init (encS s) t ms).2.isErr = true) ∧
    ((update (encS s) t ms).2 ≠ .ok () → (update (encS s) t ms).1 = encS s ∧ (update (encS s) t ms).2.isErr = true) := by
  constructor
  · intro hno
    by_cases hok : (¬ ∃ e ∈ s.es, e.tag = t) ∧ 12 + listLen ms.length ≤ s.free
    · obtain ⟨v, h1, _⟩ := (C12_init_spec s hw t h8 hne ms hm hn).2 hok.1 hok.2
      rw [h1] at hno; exact absurd rfl hno
    · have hfail : (∃ e ∈ s.es, e.tag = t) ∨ s.free < 12 + listLen ms.length := by
        by_cases hex : ∃ e ∈ s.es, e.tag = t
        · exact Or.inl hex
        · right
          by_cases hr : 12 + listLen ms.length ≤ s.free
          · exact absurd ⟨hex, hr⟩ hok
          · omega
      obtain ⟨e, he⟩ := (C12_init_spec s hw t h8 hne ms hm hn).1 hfail
      rw [he]; exact ⟨rfl, rfl⟩
  · intro hno
    have hus := C12_update_spec s hw t h8 hne ms hm hn
    cases hf : findIdx s.es t 0 with
    | none => obtain ⟨e, he⟩ := hus.1 hf; rw [he]; exact ⟨rfl, rfl⟩
    | some i =>
      obtain ⟨e, e1, _⟩ := findIdx_some s.es t 0 i hf
      by_cases hroom : listLen ms.length ≤ e.val.length + s.free
      · obtain ⟨v, h1, _⟩ := (hus.2 i e hf e1).2 hroom
        rw [h1] at hno; exact absurd rfl hno
      · obtain ⟨err, he⟩ := (hus.2 i e hf e1).1 (by omega)
        rw [he]; exact ⟨rfl, rfl⟩

/-- On *every* account that opens — canonical or not (e.g. garbage behind a terminator) — `init` and
    `update` never panic: each either succeeds, or returns an error and leaves the bytes bit-identical
    (so a previously readable account stays readable). -/
theorem C12_openable (d : Bytes) (ho : Tlv.unpack d = .ok ()) (t : Bytes) (h8 : t.length = 8)
    (hne : t ≠ uninit) (ms : List Meta) (hm : ∀ m ∈ ms, m.cfg.length = 32) (hn : ms.length < 2 ^ 26) :
    ((init d t ms).2 = .ok () ∨ ∃ e, init d t ms = (d, .err e)) ∧
    ((update d t ms).2 = .ok () ∨ ∃ e, update d t ms = (d, .err e)) := by
  have hsz := (sizeOf_small ms.length hn).1
  have hnp := C04.C04_no_panic d ho t h8 hne (listLen ms.length) 0 false
  constructor
  · unfold init
    rw [ho, hsz]
    simp only
    cases hal : alloc d t (listLen ms.length) false with
    | mk d1 r =>
      have hat := C04.C04_alloc_atomic d t (listLen ms.length) false
      rw [hal] at hat
      have hp := hnp.1
      rw [hal] at hp
      cases r with
      | panic => exact absurd rfl hp
      | err e =>
        right
        have hd : d1 = d := hat (by simp [Res.isErr])
        exact ⟨e, by rw [hd]⟩
      | ok p =>
        obtain ⟨⟨lo, hi⟩, rep⟩ := p
        left
        have ⟨e1, e2⟩ := alloc_ok_range d t _ false d1 lo hi rep hal
        have hsl : ((d1.drop lo).take (hi - lo)).length = 4 + 35 * ms.length := by
          simp only [List.length_take, List.length_drop]; unfold listLen at e1; omega
        obtain ⟨slot', w1, w2, _⟩ := writeList_spec _ ms hm hsl (by omega)
        obtain ⟨d2, hw⟩ := writeAt_fits d1 lo slot' (by rw [w2, hsl]; unfold listLen at e1; omega)
        simp only [w1, hw]
  · unfold update
    rw [ho, hsz]
    simp only
    cases hal : realloc d t (listLen ms.length) 0 with
    | mk d1 r =>
      have hat := C04.C04_realloc_atomic d t (listLen ms.length) 0
      rw [hal] at hat
      have hp := hnp.2
      rw [hal] at hp
      cases r with
      | panic => exact absurd rfl hp
      | err e =>
        right
        have hd : d1 = d := hat (by simp [Res.isErr])
        exact ⟨e, by rw [hd]⟩
      | ok p =>
        obtain ⟨lo, hi⟩ := p
        left
        have ⟨e1, e2⟩ := realloc_ok_range d t _ 0 d1 lo hi hal
        have hsl : ((d1.drop lo).take (hi - lo)).length = 4 + 35 * ms.length := by
          simp only [List.length_take, List.length_drop]; unfold listLen at e1; omega
        obtain ⟨slot', w1, w2, _⟩ := writeList_spec _ ms hm hsl (by omega)
        obtain ⟨d2, hw⟩ := writeAt_fits d1 lo slot' (by rw [w2, hsl]; unfold listLen at e1; omega)
        simp only [w1, hw]

/-- Reading a list never panics — on every byte string. -/
theorem C12_read_total (d t : Bytes) : readList d t ≠ .panic := by
  unfold readList
  have h1 := (C02.C02_total d t 0 0).1
  have h2 := (C02.C02_total d t 0 0).2.2.1
  cases hu : Tlv.unpack d with
  | panic => exact absurd hu h1
  | err e => simp
  | ok u =>
    simp only
    cases hg : getBytes d t 0 with
    | panic => exact absurd hg h2
    | err e => simp
    | ok p =>
      obtain ⟨lo, hi⟩ := p
      simp only
      have h3 := (C10.C10_total LP wfLP 0 ((d.drop lo).take (hi - lo))).1
      cases hl : ListView.unpack LP 0 ((d.drop lo).take (hi - lo)) with
      | panic => exact absurd hl h3
      | err e => simp
      | ok v => simp

/-! Non-vacuity: a concrete account with lists for two instructions (fixed-key configs).
    -/
def exK (b : UInt8) : Bytes := List.replicate 32 b
def exT1 : Bytes := [1, 1, 1, 1, 1, 1, 1, 1]
def exT2 : Bytes := [1, 1, 1, 1, 1, 1, 1, 2]
def exCfgs : List Meta := [⟨0, exK 7, 1, 1⟩, ⟨0, exK 9, 0, 1⟩]
def exStored : Bytes := (init (zeros 100) exT1 exCfgs).1
def exStoredW : Bytes := (init (zeros 160) exT1 exCfgs).1
def exStored3 : Bytes := (init exStoredW exT2 [⟨0, exK 4, 0, 0⟩]).1

set_option maxRecDepth 20000 in
/-- two instructions in one account; the first list (which sits *before* the second) is updated to a
    shorter list; the second still reads the same; a second init of the first is rejected -/
example : (init exStoredW exT2 [⟨0, exK 4, 0, 0⟩]).2 = .ok () ∧
    (update exStored3 exT1 [⟨0, exK 5, 1, 0⟩]).2 = .ok () ∧
    readList (update exStored3 exT1 [⟨0, exK 5, 1, 0⟩]).1 exT1 = .ok [⟨0, exK 5, 1, 0⟩] ∧
    readList (update exStored3 exT1 [⟨0, exK 5, 1, 0⟩]).1 exT2 = .ok [⟨0, exK 4, 0, 0⟩] ∧
    (init exStored3 exT1 []).2.isErr = true := by decide

/-- the hypotheses `AWf s`, 8-byte non-zero tags and 32-byte configs are satisfiable together -/
example : AWf ⟨[⟨exT1, zeros 74⟩, ⟨exT2, zeros 39⟩], 3⟩ ∧ exT1.length = 8 ∧ exT1 ≠ uninit ∧
    (∀ m ∈ exCfgs, m.cfg.length = 32) := by
  refine ⟨?_, by decide, by decide, by decide⟩
  intro e he
  simp at he
  rcases he with rfl | rfl <;> refine ⟨by decide, by decide, ?_⟩ <;> simp

end C12
