import SplModel.Pod
import SplModel.PodOption

namespace Driver.PodD
open Bytes Pod

def width : String → Option Nat
  | "u16" => some 2 | "i16" => some 2 | "u32" => some 4 | "u64" => some 8 | "i64" => some 8
  | "u128" => some 16 | "bool" => some 1 | _ => none

def isSigned (ty : String) : Bool := ty = "i16" || ty = "i64"
def hasBorsh (ty : String) : Bool := ty = "u32" || ty = "u64" || ty = "u128"

def showVal (ty : String) (k : Nat) (b : Bytes) : String :=
  if isSigned ty then toString (toSigned k (toPrimitive b)) else toString (toPrimitive b)

def joinComma : List String → String
  | [] => "-"
  | xs => ",".intercalate xs

def handle (toks : List String) : Option String :=
  match toks with
  | ["int", ty, n] => do
    let k ← width ty
    let i ← n.toInt?
    let rep := if isSigned ty then ofSigned k i else i.toNat
    let bytes := fromPrimitive k rep
    let back := showVal ty k bytes
    let borsh := if hasBorsh ty then Hex.ofBytes bytes else "na"
    pure s!"bytes={Hex.ofBytes bytes} back={back} borsh={borsh} json={back} wincode={Hex.ofBytes bytes}"
  | ["bool", x] => do
    let x ← x.toNat?
    let read := toBool (UInt8.ofNat x)
    let w := fromBool read
    let js := if read then "true" else "false"
    pure s!"read={if read then 1 else 0} write={w.toNat} json={js} wincode={Hex.ofBytes [w]}"
  | ["cast", ty, h] => do
    let k ← width ty
    let b ← Hex.toBytes h
    match fromBytes k b with
    | .ok v => if ty = "bool" then pure s!"ok {if toBool (v.headD 0) then 1 else 0}" else pure s!"ok {showVal ty k v}"
    | .err _ => pure "err"
    | .panic => pure "panic"
  | ["slice", ty, h] => do
    let k ← width ty
    let b ← Hex.toBytes h
    match sliceFromBytes k b with
    | .ok xs => pure s!"ok {xs.length} {joinComma (xs.map (showVal ty k))}"
    | .err _ => pure "err"
    | .panic => pure "panic"
  | ["usize", ty, n] => do
    let k ← width ty
    let n ← n.toNat?
    match tryFromUsize k n with
    | .ok b => pure s!"ok {Hex.ofBytes b} {toUsize b}"
    | .err _ => pure "err"
    | .panic => pure "panic"
  | ["tousize", _, h] => do
    let b ← Hex.toBytes h
    pure s!"ok {toUsize b}"
  | ["optaddr", tag, h] => do
    let v ← Hex.toBytes h
    let N := PodOption.addrN
    let o : Option Bytes := if tag = "some" then some v else none
    let got := PodOption.get N v
    let tr := match PodOption.tryFrom N o with
      | .ok p => s!"ok:{Hex.ofBytes p}" | .err _ => "err" | .panic => "panic"
    let g := match got with | none => "none" | some x => Hex.ofBytes x
    let jn := match PodOption.serdeSer N v with | none => 1 | some _ => 0
    let de := match PodOption.serdeDe N o with | .ok _ => "ok" | .err _ => "err" | .panic => "panic"
    pure s!"get={g} try={tr} mem={Hex.ofBytes (PodOption.wrap v)} json_null={jn} de={de} bin={de}"
  | ["optu64", tag, n] => do
    let n ← n.toNat?
    let N := PodOption.u64N
    let o : Option Nat := if tag = "some" then some n else none
    let got := PodOption.get N n
    let enc := fun (x : Nat) => Hex.ofBytes (toLe 8 x)
    let tr := match PodOption.tryFrom N o with
      | .ok p => s!"ok:{enc p}" | .err _ => "err" | .panic => "panic"
    let g := match got with | none => "none" | some x => enc x
    let jn := match PodOption.serdeSer N n with | none => 1 | some _ => 0
    let de := match PodOption.serdeDe N o with | .ok _ => "ok" | .err _ => "err" | .panic => "panic"
    pure s!"get={g} try={tr} mem={enc (PodOption.wrap n)} json_null={jn} de={de} bin={de}"
  | _ => none

end Driver.PodD
