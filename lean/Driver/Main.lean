/-
  spl_driver — line-protocol driver of the executable model.
  Reads case lines on stdin, answers every line with exactly one line on stdout.
-/
import Driver.Token
import Driver.Pod
import Driver.Disc
import Driver.Errs
import Driver.Seeds
import Driver.ListView
import Driver.Tlv
import Driver.Resolve
import Driver.VarLen

structure DState where
  lv : Driver.LvD.St := none
  tlv : Driver.TlvD.St := none
  res : Driver.ResD.St := none
  vl : Driver.VarLenD.St := none

def stateless (toks : List String) : Option String :=
  Driver.Tok.handle toks <|> Driver.PodD.handle toks <|> Driver.DiscD.handle toks <|>
  Driver.ErrsD.handle toks <|> Driver.SeedsD.handle toks

/-- Properties say "returns an error", not which: every `err|CODE` in an answer becomes `err` in the
    compared part and the codes move behind the ` | ` separator (fidelity note), exactly as the
    harness does with the implementation's answers. -/
def demoteCodes (s : String) : String :=
  match s.splitOn "err|" with
  | [] => s
  | first :: rest =>
    let step (acc : String × List String) (p : String) : String × List String :=
      let code := p.toList.takeWhile Char.isAlphanum
      (acc.1 ++ "err" ++ String.ofList (p.toList.drop code.length), acc.2 ++ [String.ofList code])
    let (main, codes) := rest.foldl step (first, [])
    if codes.isEmpty then main else main ++ " | " ++ ",".intercalate codes

def dispatch (st : DState) (line : String) : DState × String :=
  let toks := (line.trimAscii.toString.splitOn " ").filter (· ≠ "")
  match stateless toks with
  | some s => (st, s)
  | none =>
    match Driver.LvD.handle st.lv toks with
    | some (lv', s) => ({ st with lv := lv' }, s)
    | none =>
      match Driver.ResD.handle st.res toks with
      | some (r', s) =>
        -- `E` closes whichever history is open
        ({ st with res := r' }, s)
      | none =>
        match Driver.TlvD.handle st.tlv toks with
        | some (t', s) => ({ st with tlv := t' }, demoteCodes s)
        | none =>
          match Driver.VarLenD.handle st.vl toks with
          | some (v', s) => ({ st with vl := v' }, demoteCodes s)
          | none =>
            match toks, st.res, st.vl with
            | ["E"], some _, _ => ({ st with res := none }, "end")
            | ["E"], _, some _ => ({ st with vl := none }, "end")
            | _, _, _ => (st, "bad-op")

partial def loop (h : IO.FS.Stream) (out : IO.FS.Stream) (st : DState) : IO Unit := do
  let line ← h.getLine
  if line.isEmpty then return ()
  let (st', o) := dispatch st line
  out.putStrLn o
  loop h out st'

def main : IO Unit := do
  let stdin ← IO.getStdin
  let stdout ← IO.getStdout
  loop stdin stdout {}
