/-
  spl_driver — line-protocol driver of the executable model.
  Reads case lines on stdin, answers every line with exactly one line on stdout.
-/
import Driver.Token
import Driver.Pod
import Driver.Disc
import Driver.Errs
import Driver.Seeds

def dispatch (st : Unit) (line : String) : Unit × String :=
  let toks := (line.trimAscii.toString.splitOn " ").filter (· ≠ "")
  match (Driver.Tok.handle toks <|> Driver.PodD.handle toks <|> Driver.DiscD.handle toks <|> Driver.ErrsD.handle toks <|> Driver.SeedsD.handle toks) with
  | some s => (st, s)
  | none => (st, "bad-op")

partial def loop (h : IO.FS.Stream) (out : IO.FS.Stream) (st : Unit) : IO Unit := do
  let line ← h.getLine
  if line.isEmpty then return ()
  let (st', o) := dispatch st line
  out.putStrLn o
  loop h out st'

def main : IO Unit := do
  let stdin ← IO.getStdin
  let stdout ← IO.getStdout
  loop stdin stdout ()
