import SplModel.ListView

namespace Driver.LvD
open ListView Bytes

def elemParams : String → Option (Nat × Nat)
  | "u8" => some (1, 1) | "u16" => some (2, 2) | "b3" => some (3, 1) | "u32" => some (4, 4)
  | "u64" => some (8, 8) | "a16" => some (16, 16) | "m35" => some (35, 1) | "zst" => some (0, 1)
  | "t12" => some (12, 4) | "t24" => some (24, 8)
  | _ => none

def prefixWidth : String → Option Nat
  | "p16" => some 2 | "p32" => some 4 | "p64" => some 8 | "p128" => some 16
  | "p8" => some 1 | "r16" => some 2 | "p24" => some 3 | "p48" => some 6 | _ => none

/-- alignment of the prefix type itself: the Pod integers and `u8` are align-1, the primitive `u16` is not -/
def prefixAlign : String → Nat
  | "r16" => 2 | _ => 1

def params (t l : String) : Option Params := do
  let (s, a) ← elemParams t
  let w ← prefixWidth l
  pure ⟨s, a, w⟩

def elemsHex (P : Params) (xs : List Bytes) : String :=
  if xs.isEmpty then "-"
  else if P.sizeT = 0 then s!"zst*{xs.length}"
  else ",".intercalate (xs.map Hex.ofBytes)

def errLine (e : Err) : String := s!"err | {e.code}"

def viewLine (P : Params) (b : Bytes) : Res View → String
  | .ok v => s!"ok len={v.len} cap={v.cap} elems={elemsHex P (elems P b v)}"
  | .err e => errLine e
  | .panic => "panic"

structure Hist where
  P : Params
  a : Nat
  b : Bytes
  aL : Nat := 1

abbrev St := Option Hist

def bytesLe : Bytes → Bytes → Bool
  | [], _ => true
  | _ :: _, [] => false
  | x :: xs, y :: ys => if x < y then true else if y < x then false else bytesLe xs ys

def cmpLe (mode : String) (x y : Bytes) : Bool :=
  match mode with
  | "lex" => bytesLe x y
  | "first" => (match x.head?, y.head? with
      | some p, some q => p ≤ q
      | none, _ => true
      | some _, none => false)
  | _ => bytesLe y x       -- "rev"

def withBuf (b : Bytes) (s : String) : String := s!"{s} buf={Hex.ofBytes b}"

def op (h : Hist) (toks : List String) : Option (Hist × String) :=
  match toks with
  | ["init"] =>
    let (b', r) := guardLB h.aL h.b (init h.P h.a h.b)
    let s := match r with
      | .ok v => s!"ok len={v.len} cap={v.cap}"
      | .err e => errLine e
      | .panic => "panic"
    some ({ h with b := b' }, withBuf b' s)
  | ["reopen"] =>
    some (h, withBuf h.b (viewLine h.P h.b (guardL h.aL (unpackMut h.P h.a h.b))))
  | ["push", x] => do
    let x ← Hex.toBytes x
    let (b', r) := guardLB h.aL h.b (push h.P h.a h.b x)
    let s := match r with | .ok _ => "ok ()" | .err e => errLine e | .panic => "panic"
    some ({ h with b := b' }, withBuf b' s)
  | ["remove", i] => do
    let i ← i.toNat?
    let (b', r) := guardLB h.aL h.b (remove h.P h.a h.b i)
    let s := match r with
      | .ok x => if h.P.sizeT = 0 then "ok zst" else s!"ok {Hex.ofBytes x}"
      | .err e => errLine e | .panic => "panic"
    some ({ h with b := b' }, withBuf b' s)
  | ["set", i, x] => do
    let i ← i.toNat?
    let x ← Hex.toBytes x
    let (b', r) := guardLB h.aL h.b (setElem h.P h.a h.b i x)
    let s := match r with | .ok _ => "ok ()" | .err e => errLine e | .panic => "panic"
    some ({ h with b := b' }, withBuf b' s)
  | ["sort", m] =>
    let (b', r) := guardLB h.aL h.b (sortBy h.P h.a h.b (cmpLe m))
    let s := match r with | .ok _ => "ok ()" | .err e => errLine e | .panic => "panic"
    some ({ h with b := b' }, withBuf b' s)
  | ["used"] =>
    let s := match guardL h.aL (unpackMut h.P h.a h.b) with
      | .ok v => (match bytesUsed h.P v with | .ok n => s!"ok {n}" | .err e => errLine e | .panic => "panic")
      | .err e => errLine e | .panic => "panic"
    some (h, withBuf h.b s)
  | ["alloc"] =>
    let s := match guardL h.aL (unpackMut h.P h.a h.b) with
      | .ok v => (match bytesAllocated h.P v with | .ok n => s!"ok {n}" | .err e => errLine e | .panic => "panic")
      | .err e => errLine e | .panic => "panic"
    some (h, withBuf h.b s)
  | _ => none

def splitOps : List String → List (List String)
  | [] => [[]]
  | t :: ts =>
    match splitOps ts with
    | [] => [[t]]
    | g :: gs => if t = "/" then [] :: g :: gs else (t :: g) :: gs

def stripBuf (s : String) : String := (s.splitOn " buf=").headD s

/-- `O multi a / b / c` — push / remove / sort through one open `ListViewMut`: one `unpack_mut`,
    then the operations in order (the view caches nothing, so each behaves as on a fresh view) -/
def multi (h : Hist) (ops : List (List String)) : Option (Hist × String) :=
  match guardL h.aL (unpackMut h.P h.a h.b) with
  | .ok _ => do
    let (h', rs) ← ops.foldlM (fun (acc : Hist × List String) o => do
      let (h2, s) ← op acc.1 o
      pure (h2, acc.2 ++ [stripBuf s])) (h, [])
    pure (h', withBuf h'.b ("multi " ++ ";".intercalate rs))
  | .err e => some (h, withBuf h.b ("multi " ++ errLine e))
  | .panic => some (h, withBuf h.b "multi panic")

def handle (st : St) (toks : List String) : Option (St × String) :=
  match toks with
  | ["lv", t, l, off, h] => do
    let P ← params t l
    let a ← off.toNat?
    let b ← Hex.toBytes h
    pure (st, viewLine P b (guardL (prefixAlign l) (unpack P a b)))
  | ["lvsize", t, l, n] => do
    let P ← params t l
    let n ← n.toNat?
    let s := match guardL (prefixAlign l) (sizeOf P n) with | .ok k => s!"ok {k}" | .err e => errLine e | .panic => "panic"
    pure (st, s)
  | ["B", _, "lvh", t, l, off, h] => do
    let P ← params t l
    let a ← off.toNat?
    let b ← Hex.toBytes h
    pure (some ⟨P, a, b, prefixAlign l⟩, "begin")
  | "O" :: "multi" :: rest =>
    match st with
    | some h => (multi h (splitOps rest)).map (fun (h', s) => (some h', s))
    | none => none
  | "O" :: rest =>
    match st with
    | some h => (op h rest).map (fun (h', s) => (some h', s))
    | none => none
  | ["E"] => match st with
    | some _ => some (none, "end")
    | none => none
  | _ => none

end Driver.LvD
