import SplModel.Discriminator

namespace Driver.DiscD
open Bytes Discriminator

def showRes : Res Bytes → String
  | .ok b => Hex.ofBytes b
  | .err _ => "err"
  | .panic => "panic"

def utf8Chars (b : Bytes) : Option (List Char) :=
  (String.fromUTF8? (ByteArray.mk b.toArray)).map String.toList

def handle (toks : List String) : Option String :=
  match toks with
  | ["hash", s, lit] => do
    let s ← Hex.toBytes s
    let lit ← Hex.toBytes lit
    let src ← utf8Chars lit
    pure s!"rt={showRes (rtDisc s)} ct={showRes (ctDiscOfLiteral src)}"
  | ["conv", "u64", n] => do
    let n ← n.toNat?
    let d := fromU64 n
    pure s!"bytes={Hex.ofBytes d} back={toU64 d}"
  | ["conv", "slice", h] => do
    let b ← Hex.toBytes h
    match tryFromSlice b with
    | .ok d => pure s!"ok {Hex.ofBytes (toArray d)}"
    | .err _ => pure "err"
    | .panic => pure "panic"
  | _ => none

end Driver.DiscD
