import SplModel.ProgramError
import SplModel.Generated.ErrorEnums

namespace Driver.ErrsD
open ProgErr

def libEnum : String → Option (EnumDesc × List (String × String))
  | "TlvError" => some (Gen.LibErr.TlvError, Gen.LibErr.TlvError_toStrArms)
  | "ListViewError" => some (Gen.LibErr.ListViewError, Gen.LibErr.ListViewError_toStrArms)
  | "AccountResolutionError" => some (Gen.LibErr.AccountResolutionError, Gen.LibErr.AccountResolutionError_toStrArms)
  | _ => none

def handle (toks : List String) : Option String :=
  match toks with
  | ["liberr", en, c] => do
    let (e, arms) ← libEnum en
    let c ← c.toNat?
    match fromCode e c with
    | none => pure "none"
    | some i =>
      let v ← e.variants[i]?
      let code ← (codes e)[i]?
      -- Display comes from the #[error] text, to_str from the hand-written match arm
      let disp := (display v).getD "?"
      let ts := (arms.find? (·.1 = v.name)).map (·.2) |>.getD "?"
      pure s!"some {v.name} code={code} msg={Hex.ofBytes disp.toUTF8.toList} tostr={Hex.ofBytes ts.toUTF8.toList}"
  | ["hstart", name] =>
    -- hashed start code of an enum name: value and nonce
    match hashedStart 100000 name 0 with
    | some (d, k) => some s!"ok {d} nonce={k}"
    | none => some "fuel"
  | _ => none

end Driver.ErrsD
