import SplModel.ProgramError
import SplModel.Generated.ErrorEnums

namespace Driver.ErrsD
open ProgErr

def libEnum : String → Option (EnumDesc × List (String × String))
  | "TlvError" => some (Gen.LibErr.TlvError, Gen.LibErr.TlvError_toStrArms)
  | "ListViewError" => some (Gen.LibErr.ListViewError, Gen.LibErr.ListViewError_toStrArms)
  | "AccountResolutionError" => some (Gen.LibErr.AccountResolutionError, Gen.LibErr.AccountResolutionError_toStrArms)
  | _ => none

def handle (toks : List String) : Option String :=
  match toks with
  | ["liberr", en, c] => do
    let (e, arms) ← libEnum en
    let c ← c.toNat?
    match fromCode e c with
    | none => pure "none"
    | some i =>
      let v ← e.variants[i]?
      let code ← (codes e)[i]?
      -- Display comes from the #[error] text, to_str from the hand-written match arm
      let disp := (display v).getD "?"
      let ts := (arms.find? (·.1 = v.name)).map (·.2) |>.getD "?"
      pure s!"some {v.name} code={code} msg={Hex.ofBytes disp.toUTF8.toList} tostr={Hex.ofBytes ts.toUTF8.toList}"
  | ["enumdesc", kind, name, start, vars] => do
    let parseVar (t : String) : Option Variant := match t.splitOn ":" with
      | [vn, d, m] => do
        let disc ← if d = "-" then some none else d.toNat?.map some
        let attrs ← if m = "~" then some [] else do
          let b ← Hex.toBytes m
          let str ← String.fromUTF8? (ByteArray.mk b.toArray)
          some [some str]
        pure ⟨vn, disc, attrs⟩
      | _ => none
    let vs ← (vars.splitOn ",").mapM parseVar
    let e0 : EnumDesc := ⟨name, vs⟩
    let er : Res EnumDesc := if kind = "spl_hash" then
        (match start.toNat? with | some d => setFirstDiscriminant 100000 e0 d | none => .panic)
      else .ok e0
    match er with
    | .err (.custom d) => pure s!"compile-error {d}"
    | .err _ => pure "compile-error"
    | .panic => pure "panic"
    | .ok e =>
      let cs := codes e
      let hx := fun (t : String) => Hex.ofBytes t.toUTF8.toList
      let join := fun (l : List String) => ",".intercalate l
      let tostr := join (e.variants.map (fun v => hx (toStr v)))
      if kind = "tostr" then
        pure s!"codes={join (cs.map toString)} pe=- tostr={tostr} display=- lookup=-"
      else
        let disp := join (e.variants.map (fun v => hx ((display v).getD "?")))
        let look := join ((List.range cs.length).map (fun i =>
          match cs[i]? with
          | some c => if fromCode e c = some i then "ok" else "bad"
          | none => "bad"))
        pure s!"codes={join (cs.map toString)} pe={join (cs.map toString)} tostr={tostr} display={disp} lookup={look}"
  | ["hstart", name] =>
    -- hashed start code of an enum name: value and nonce
    match hashedStart 100000 name 0 with
    | some (d, k) => some s!"ok {d} nonce={k}"
    | none => some "fuel"
  | _ => none

end Driver.ErrsD
