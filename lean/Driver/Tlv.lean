import SplModel.Tlv

namespace Driver.TlvD
open Tlv Bytes

def palette : Array Bytes := #[
  [1, 1, 1, 1, 1, 1, 1, 1], [1, 1, 1, 1, 1, 1, 1, 2], [0, 0, 0, 0, 0, 0, 0, 1], [1, 0, 0, 0, 0, 0, 0, 0],
  [0, 1, 0, 0, 0, 0, 0, 0], [255, 255, 255, 255, 255, 255, 255, 255], [1, 1, 1, 1, 0, 0, 0, 0],
  [2, 1, 1, 1, 1, 1, 1, 1]]
def sizes : Array Nat := #[0, 1, 3, 5, 8, 32]

def tag? (s : String) : Option Bytes := do palette[(← s.toNat?)]?
def size? (s : String) : Option Nat := do sizes[(← s.toNat?)]?

def e (x : Err) : String := s!"err|{x.code}"

def discsStr (l : List Bytes) : String :=
  if l.isEmpty then "-" else ",".intercalate (l.map Hex.ofBytes)

def views (d : Bytes) : String :=
  match unpack d with
  | .ok _ => (match getDiscriminators d with
      | .ok l => s!"ok;{discsStr l}"
      | .err x => s!"ok;discs-{e x}"
      | .panic => "panic")
  | .err x => e x
  | .panic => "panic"

def rangeStr : Res (Nat × Nat) → String
  | .ok (lo, hi) => s!"ok:{lo}:{hi}"
  | .err x => e x
  | .panic => "panic"

def afterUnpack (d : Bytes) (f : Unit → String) : String :=
  match unpack d with
  | .ok _ => f ()
  | .err x => s!"nounpack:{e x}"
  | .panic => "panic"

abbrev St := Option Bytes

def withBuf (b : Bytes) (s : String) : String := s!"{s} buf={Hex.ofBytes b}"

/-- every mutating API call goes through `TlvStateMut::unpack(buf)?` first -/
def guardOp {α} (d : Bytes) (f : Unit → Bytes × Res α) (held : Bool := false) : Bytes × Res α :=
  if held then f () else   -- inside `multi` the handle is already open: no second `unpack`
  match unpack d with
  | .ok _ => f ()
  | .err x => (d, .err x)
  | .panic => (d, .panic)

def showR {α} (f : α → String) : Res α → String
  | .ok a => s!"ok {f a}"
  | .err x => e x
  | .panic => "panic"

def op (d : Bytes) (toks : List String) (held : Bool := false) : Option (Bytes × String) :=
  match toks with
  | ["alloc", t, len, allow] => do
    let tg ← tag? t
    let len ← len.toNat?
    let (d', r) := guardOp d (fun _ => alloc d tg len (allow = "1")) held
    pure (d', withBuf d' (showR (fun ((lo, hi), rep) => s!"{lo}:{hi}:{rep}") r))
  | ["init", t, s, allow] => do
    let n ← size? s
    let dflt := List.replicate n (UInt8.ofNat (n + 1))
    let tg ← tag? t
    let (d', r) := guardOp d (fun _ => initValue d tg dflt (allow = "1")) held
    pure (d', withBuf d' (showR (fun ((lo, hi), rep) => s!"{lo}:{hi}:{rep}") r))
  | ["realloc", t, len, rep] => do
    let tg ← tag? t
    let len ← len.toNat?
    let rep ← rep.toNat?
    let (d', r) := guardOp d (fun _ => realloc d tg len rep) held
    pure (d', withBuf d' (showR (fun (lo, hi) => s!"{lo}:{hi}") r))
  | ["write", t, rep, v] => do
    let tg ← tag? t
    let rep ← rep.toNat?
    let v ← Hex.toBytes v
    let (d', r) := guardOp d (fun _ => writeValue d tg rep v) held
    pure (d', withBuf d' (showR (fun _ => "()") r))
  | ["typed", t, s, rep, v] => do
    let n ← size? s
    let v ← Hex.toBytes v
    let tg ← tag? t
    let rep ← rep.toNat?
    -- get_value_with_repetition_mut::<Val<D, N>> : the entry must have exactly N bytes
    let (d', r) := guardOp d (fun _ =>
      match getValue d tg rep n with
      | .ok _ => writeValue d tg rep v
      | .err x => (d, .err x)
      | .panic => (d, .panic)) held
    pure (d', withBuf d' (showR (fun _ => "()") r))
  | ["pack", t, rep, v] => do
    let tg ← tag? t
    let rep ← rep.toNat?
    let v ← Hex.toBytes v
    let (d', r) := guardOp d (fun _ => packVarLen d tg rep v) held
    pure (d', withBuf d' (showR (fun _ => "()") r))
  | ["allocpack", t, allow, v] => do
    let tg ← tag? t
    let v ← Hex.toBytes v
    let (d', r) := guardOp d (fun _ => allocAndPack d tg v (allow = "1")) held
    pure (d', withBuf d' (showR (fun rep => s!"{rep}") r))
  | ["get", t, rep] => do
    let tg ← tag? t
    let rep ← rep.toNat?
    let s := match unpack d with
      | .ok _ => (match getBytes d tg rep with
          | .ok (lo, hi) => s!"ok {lo}:{hi}:{Hex.ofBytes ((d.drop lo).take (hi - lo))}"
          | .err x => e x
          | .panic => "panic")
      | .err x => e x
      | .panic => "panic"
    pure (d, withBuf d s)
  | ["discs"] =>
    let s := match unpack d with
      | .ok _ => showR discsStr (getDiscriminators d)
      | .err x => e x
      | .panic => "panic"
    some (d, withBuf d s)
  | ["reopen"] =>
    let s := match unpack d with
      | .ok _ => showR discsStr (getDiscriminators d)
      | .err x => e x
      | .panic => "panic"
    some (d, withBuf d s)
  | _ => none

/-- split the tokens of a `multi` line on "/" -/
def splitOps : List String → List (List String)
  | [] => [[]]
  | t :: ts =>
    match splitOps ts with
    | [] => [[t]]
    | g :: gs => if t = "/" then [] :: g :: gs else (t :: g) :: gs

def stripBuf (s : String) : String := (s.splitOn " buf=").headD s

/-- `O multi a / b / c` — the mutations run on one handle: one `unpack`, then the operations in order
    without a second check (a buffer that opened may, after an entry was written over non-zero
    spare bytes, no longer open from scratch while the handle keeps working) -/
def multi (d : Bytes) (ops : List (List String)) : Option (Bytes × String) :=
  match unpack d with
  | .ok _ => do
    let (d', rs) ← ops.foldlM (fun (acc : Bytes × List String) o => do
      let (d2, s) ← op acc.1 o true
      pure (d2, acc.2 ++ [stripBuf s])) (d, [])
    pure (d', withBuf d' ("multi " ++ ";".intercalate rs))
  | .err x => some (d, withBuf d ("multi " ++ e x))
  | .panic => some (d, withBuf d "multi panic")

def handle (st : St) (toks : List String) : Option (St × String) :=
  match toks with
  | ["tlvq", h, t, rep, sz] => do
    let d ← Hex.toBytes h
    let tg ← tag? t
    let rep ← rep.toNat?
    let b := afterUnpack d (fun _ => rangeStr (getBytes d tg rep))
    let v ← if sz = "-" then some "-" else do
      let n ← size? sz
      pure (afterUnpack d (fun _ => rangeStr (getValue d tg rep n)))
    pure (st, s!"U={views d} B={b} V={v}")
  | ["bigentry", tg, l1, l2] => do
    -- the buffer (up to 16 MiB) is not materialised: headers and ranges follow from the canonical encoding
    -- (`C03_encoding`: type, `toLe 4 length`, value; `C01_refines` for the resize), computed here by the model's own `toLe`
    let k ← tg.toNat?
    let len1 ← l1.toNat?
    let len2 ← l2.toNat?
    let ta ← tag? (toString (2 * (k % 4)))
    let hdr := fun (l : Nat) => Hex.ofBytes (ta ++ Bytes.toLe 4 l)
    if len1 < 2 ^ 32 ∧ len2 < 2 ^ 32 then
      pure (st, s!"ok hdr1={hdr len1} r1=12:{12 + len1} hdr1b={hdr len2} r1b=12:{12 + len2} second={12 + len2 + 12}:b1b2b3 kept=1 tail0=1")
    else none
  | ["bigalloc", _, _] =>
    -- a zeroed buffer of more than 4 GiB cannot be a list here; the answer is the one `C04_unrepresentable_length`
    -- and `C04_alloc_atomic` prove for *every* buffer: not a success, bytes untouched
    pure (st, "err head=" ++ Hex.ofBytes (Bytes.zeros 32))
  | ["bigrealloc", k, _] => do
    -- two small entries at the head of a zeroed buffer of more than 4 GiB, then a resize of the first to 2^32 + extra:
    -- the head is what the model's own alloc / write produce on 64 bytes; the resize fails and leaves it (`C04_realloc_atomic`,
    -- `Tlv.lengthFromUsize` rejects every length ≥ 2^32)
    let k ← k.toNat?
    let ta ← tag? (toString (4 * (k % 2)))
    let tb ← tag? (toString (4 * (k % 2) + 1))
    let d0 := Bytes.zeros 64
    let (d1, _) := alloc d0 ta 4 false
    let (d2, _) := writeValue d1 ta 0 [0xa1, 0xa2, 0xa3, 0xa4]
    let (d3, _) := alloc d2 tb 3 false
    let (d4, _) := writeValue d3 tb 0 [0xb1, 0xb2, 0xb3]
    pure (st, "err head=" ++ Hex.ofBytes d4)
  | ["B", _, "tlv", _, h] => do
    let d ← Hex.toBytes h
    pure (some d, "begin")
  | "O" :: "multi" :: rest =>
    match st with
    | some d => (multi d (splitOps rest)).map (fun (d', s) => (some d', s))
    | none => none
  | "O" :: rest =>
    match st with
    | some d => (op d rest).map (fun (d', s) => (some d', s))
    | none => none
  | ["E"] => match st with
    | some _ => some (none, "end")
    | none => none
  | _ => none

end Driver.TlvD
