import SplModel.Resolution
import SplModel.Ed25519
import Driver.Seeds
import Driver.Tlv

namespace Driver.ResD
open Resolution ExtraMeta Bytes

def pda := Ed25519.pda

def b? (s : String) : Bool := s = "1"

def splitList (s : String) : List String := if s = "-" then [] else s.splitOn ","

def parseMetas (s : String) : Option (List AccountMeta) :=
  (splitList s).mapM (fun m => match m.splitOn ":" with
    | [k, sg, w] => do pure ⟨← Hex.toBytes k, b? sg, b? w⟩
    | _ => none)

def fmtMeta (m : AccountMeta) : String :=
  s!"{Hex.ofBytes m.key}:{if m.signer then 1 else 0}:{if m.writable then 1 else 0}"

def fmtMetas (l : List AccountMeta) : String :=
  if l.isEmpty then "-" else ",".intercalate (l.map fmtMeta)

def parseInfos (s : String) : Option (List Info) :=
  (splitList s).mapM (fun m => match m.splitOn ":" with
    | [k, sg, w, d] => do pure ⟨← Hex.toBytes k, b? sg, b? w, ← Hex.toBytes d⟩
    | _ => none)

def parseAccts (s : String) : Option (List Acct) :=
  (splitList s).mapM (fun m => match m.splitOn ":" with
    | [k, d] => do
      let k ← Hex.toBytes k
      if d = "~" then pure ⟨k, none⟩ else pure ⟨k, some (← Hex.toBytes d)⟩
    | _ => none)

/-- fetch map entries: `key:data`, `key:~` (no account), `key:!` (fetch error) -/
def parseFetch (s : String) : Option (List (Bytes × Res (Option Bytes))) :=
  (splitList s).mapM (fun m => match m.splitOn ":" with
    | [k, d] => do
      let k ← Hex.toBytes k
      if d = "~" then pure (k, .ok none)
      else if d = "!" then pure (k, .err (.custom 0))
      else pure (k, .ok (some (← Hex.toBytes d)))
    | _ => none)

def fetchOf (m : List (Bytes × Res (Option Bytes))) (k : Bytes) : Res (Option Bytes) :=
  match m.find? (fun e => e.1 = k) with
  | some e => e.2
  | none => .ok none

def parseCfgs (s : String) : Option (List Meta) :=
  (splitList s).mapM (fun h => (Hex.toBytes h).map ofBytes)

def fmtCfgs (l : List Meta) : String :=
  if l.isEmpty then "-" else ",".intercalate (l.map (fun m => Hex.ofBytes (toBytes m)))

def errLine (e : Err) : String := s!"err | {e.code}"

def unitRes : Res Unit → String
  | .ok _ => "ok" | .err e => errLine e | .panic => "panic"

abbrev St := Option Bytes

def handle (st : St) (toks : List String) : Option (St × String) :=
  match toks with
  | ["resolve", m, ix, prog, accts] => do
    let m := ofBytes (← Hex.toBytes m)
    let ix ← Hex.toBytes ix
    let prog ← Hex.toBytes prog
    let accts ← parseAccts accts
    let s := match resolve pda m ix prog accts with
      | .ok am => s!"ok {fmtMeta am}" | .err e => errLine e | .panic => "panic"
    pure (st, s)
  | "ctor" :: kind :: rest => do
    let n := rest.length
    let s := b? (rest.getD (n - 2) "0")
    let w := b? (rest.getD (n - 1) "0")
    let r : Res Meta ← match kind, rest with
      | "key", k :: _ => do pure (.ok (newWithPubkey (← Hex.toBytes k) s w))
      | "meta", k :: _ => do pure (.ok (newWithPubkey (← Hex.toBytes k) s w))
      | "info", k :: _ => do pure (.ok (newWithPubkey (← Hex.toBytes k) s w))
      | "seeds", sd :: _ => do pure (newWithSeeds (← Driver.SeedsD.parseSeeds sd) s w)
      | "ext", i :: sd :: _ => do
        pure (newExternalPda (← Driver.SeedsD.u8? i) (← Driver.SeedsD.parseSeeds sd) s w)
      | "kd", k :: _ => do pure (newWithPubkeyData (← Driver.SeedsD.parseKd k) s w)
      | _, _ => none
    let out := match r with
      | .ok m => s!"ok {Hex.ofBytes (toBytes m)}" | .err e => errLine e | .panic => "panic"
    pure (st, out)
  | ["addix", tag, stored, prog, ixd, metas, fetch] => do
    let disc ← Driver.TlvD.tag? tag
    let ix : Instruction := ⟨← Hex.toBytes prog, ← parseMetas metas, ← Hex.toBytes ixd⟩
    let fm ← parseFetch fetch
    let stored ← Hex.toBytes stored
    let s := match addToInstruction pda (fetchOf fm) ix stored disc with
      | .ok ix' => s!"ok {fmtMetas ix'.accounts}"
      | .err e => s!"err left={fmtMetas (addToInstructionT pda (fetchOf fm) ix stored disc).1} | {e.code}"
      | .panic => "panic"
    pure (st, s)
  | [kind, tag, stored, prog, ixd, metas, initial, pool] => do
    if kind ≠ "addcpi" ∧ kind ≠ "both" then none
    let disc ← Driver.TlvD.tag? tag
    let stored ← Hex.toBytes stored
    let ix : Instruction := ⟨← Hex.toBytes prog, ← parseMetas metas, ← Hex.toBytes ixd⟩
    let initial ← parseInfos initial
    let pool ← parseInfos pool
    let cpi := match addToCpi pda ix initial stored disc pool with
      | .ok (ix', infos) =>
        let keys := if infos.isEmpty then "-" else ",".intercalate (infos.map (fun i => Hex.ofBytes i.key))
        s!"ok {fmtMetas ix'.accounts} ; {keys}"
      | .err e =>
        let (m, infos) := (addToCpiT pda ix initial stored disc pool).1
        let keys := if infos.isEmpty then "-" else ",".intercalate (infos.map (fun i => Hex.ofBytes i.key))
        s!"err left={fmtMetas m} ; {keys} | {e.code}"
      | .panic => "panic"
    if kind = "addcpi" then pure (st, cpi)
    else
      -- the fetcher returns the data the infos hold (initial first, then the pool)
      let fm : List (Bytes × Res (Option Bytes)) := (initial ++ pool).map (fun i => (i.key, .ok (some i.data)))
      let off := match addToInstruction pda (fetchOf fm) ix stored disc with
        | .ok ix' => s!"ok {fmtMetas ix'.accounts}"
        | .err e => s!"err left={fmtMetas (addToInstructionT pda (fetchOf fm) ix stored disc).1} | {e.code}"
        | .panic => "panic"
      -- the error codes (fidelity notes) go behind both observations
      let cut (x : String) : String × String := match x.splitOn " | " with
        | [a, b] => (a, b) | _ => (x, "")
      let (om, on) := cut off
      let (cm, cn) := cut cpi
      pure (st, if on.isEmpty ∧ cn.isEmpty then s!"OFF {om} CPI {cm}" else s!"OFF {om} CPI {cm} | {on},{cn}")
  | ["checkc", tag, prog, ixd, infos] => do
    -- configs built from the provided accounts themselves (key and flags), stored with init, validated against those accounts
    let disc ← Driver.TlvD.tag? tag
    let infos ← parseInfos infos
    let cfgs := infos.map (fun i => newWithPubkey i.key i.signer i.writable)
    let n ← match Resolution.sizeOf cfgs.length with | .ok k => some k | _ => none
    let (b', ini) := Resolution.init (Bytes.zeros n) disc cfgs
    let r := checkAccountInfos pda infos (← Hex.toBytes ixd) (← Hex.toBytes prog) b' disc
    let cut (x : String) : String := (x.splitOn " | ").headD x
    pure (st, s!"init={cut (unitRes ini)} check={unitRes r}")
  | ["checkh", tag, stored, newc, prog, ixd, infos] => do
    let disc ← Driver.TlvD.tag? tag
    let (b', up) := Resolution.update (← Hex.toBytes stored) disc (← parseCfgs newc)
    let r := checkAccountInfos pda (← parseInfos infos) (← Hex.toBytes ixd) (← Hex.toBytes prog) b' disc
    let cut (x : String) : String × String := match x.splitOn " | " with
      | [a, b] => (a, b) | _ => (x, "")
    let (um, un) := cut (unitRes up)
    let (cm, cn) := cut (unitRes r)
    pure (st, if un.isEmpty ∧ cn.isEmpty then s!"up={um} check={cm}" else s!"up={um} check={cm} | {un},{cn}")
  | ["check", tag, stored, prog, ixd, infos] => do
    let disc ← Driver.TlvD.tag? tag
    let r := checkAccountInfos pda (← parseInfos infos) (← Hex.toBytes ixd) (← Hex.toBytes prog)
      (← Hex.toBytes stored) disc
    pure (st, unitRes r)
  | ["sizeof", n] => do
    let s := match Resolution.sizeOf (← n.toNat?) with
      | .ok k => s!"ok {k}" | .err e => errLine e | .panic => "panic"
    pure (st, s)
  | ["B", _, "metalist", h] => do pure (some (← Hex.toBytes h), "begin")
  | ["O", "init", tag, cfgs] =>
    match st with
    | some buf => do
      let (b', r) := Resolution.init buf (← Driver.TlvD.tag? tag) (← parseCfgs cfgs)
      pure (some b', s!"{unitRes r} buf={Hex.ofBytes b'}")
    | none => none
  | ["O", "update", tag, cfgs] =>
    match st with
    | some buf => do
      let (b', r) := Resolution.update buf (← Driver.TlvD.tag? tag) (← parseCfgs cfgs)
      pure (some b', s!"{unitRes r} buf={Hex.ofBytes b'}")
    | none => none
  | ["O", "read", tag] =>
    match st with
    | some buf => do
      let s := match readList buf (← Driver.TlvD.tag? tag) with
        | .ok l => s!"ok {fmtCfgs l}" | .err e => errLine e | .panic => "panic"
      pure (st, s)
    | none => none
  | _ => none

end Driver.ResD
