import SplModel.VarLen
import SplModel.Borsh
import Driver.Tlv

namespace Driver.VarLenD
open VarLen Borsh Bytes

def finOf (k n : Nat) : Fin (2 ^ (8 * k)) := ⟨n % 2 ^ (8 * k), Nat.mod_lt _ (Nat.pow_pos (by omega))⟩

def bytesOf (b : Bytes) : Option { b : Bytes // b.length < 2 ^ 32 } :=
  if h : b.length < 2 ^ 32 then some ⟨b, h⟩ else none

def optNat (s : String) : Option (Option Nat) := if s = "~" then some none else s.toNat?.map some

/-- the bpack line: encoded length, whether it fits, the slot after the streaming write, and
    whether decoding the slot gives the value back -/
def bpack {α} (c : Codec α) (v : α) (slot : Nat) : String :=
  let e := packBytes c v
  let fits := e.length ≤ slot
  let buf := e.take slot ++ List.replicate (slot - e.length) 0xEE
  let un := if fits then (match unpackFrom c buf with
      | some v' => if c.enc v' = c.enc v then "ok" else "diff"
      | none => "err") else "-"
  s!"len={packedLen c v} pack={if fits then "ok" else "err"} slot={Hex.ofBytes buf} unpack={un}"

def S1c := pair (uint 1) (pair (uint 8) (pair bytes (pair bytes (option (uint 4)))))
def E1c := sum3 unit (uint 2) (pair bytes (option (uint 1)))
def G1c := pair bytes (uint 4)

abbrev St := Option Account

def e (x : Err) : String := s!"err|{x.code}"

def withData (a : Account) (s : String) : String := s!"{s} len={a.data.length} data={Hex.ofBytes a.data}"

def handle (st : St) (toks : List String) : Option (St × String) :=
  match toks with
  | ["bpack", "S1", a, b, s, v, o, slot] => do
    let o ← optNat o
    let val := (finOf 1 (← a.toNat?), finOf 8 (← b.toNat?), ← bytesOf (← Hex.toBytes s), ← bytesOf (← Hex.toBytes v),
      o.map (finOf 4))
    pure (st, bpack S1c val (← slot.toNat?))
  | ["bpack", "E1", "A", slot] => do pure (st, bpack E1c (.inl ()) (← slot.toNat?))
  | ["bpack", "E1", "B", n, slot] => do pure (st, bpack E1c (.inr (.inl (finOf 2 (← n.toNat?)))) (← slot.toNat?))
  | ["bpack", "E1", "C", x, y, slot] => do
    let y ← optNat y
    pure (st, bpack E1c (.inr (.inr (← bytesOf (← Hex.toBytes x), y.map (finOf 1)))) (← slot.toNat?))
  | ["bpack", "G1", t, n, slot] => do
    pure (st, bpack G1c (← bytesOf (← Hex.toBytes t), finOf 4 (← n.toNat?)) (← slot.toNat?))
  | ["B", _, "acct", n] => do
    let n ← n.toNat?
    pure (some ⟨zeros n, n⟩, "begin")
  | ["O", "allocpack", t, allow, v] =>
    match st with
    | some a => do
      let tg ← Driver.TlvD.tag? t
      let v ← Hex.toBytes v
      let (d', r) := Driver.TlvD.guardOp a.data (fun _ => Tlv.allocAndPack a.data tg v (allow = "1"))
      let a' := { a with data := d' }
      let s := match r with | .ok rep => s!"ok {rep}" | .err x => e x | .panic => "panic"
      pure (some a', withData a' s)
    | none => none
  | ["O", "rpack", t, rep, v] =>
    match st with
    | some a => do
      let (a', r) := reallocAndPack a (← Driver.TlvD.tag? t) (← rep.toNat?) (← Hex.toBytes v)
      let s := match r with | .ok _ => "ok" | .err x => e x | .panic => "panic"
      pure (some a', withData a' s)
    | none => none
  | ["O", "get", t, rep] =>
    match st with
    | some a => do
      let tg ← Driver.TlvD.tag? t
      let rep ← rep.toNat?
      let s := match Tlv.unpack a.data with
        | .ok _ => (match Tlv.getBytes a.data tg rep with
            | .ok (lo, hi) => s!"ok {Hex.ofBytes ((a.data.drop lo).take (hi - lo))}"
            | .err x => e x | .panic => "panic")
        | .err x => e x | .panic => "panic"
      pure (st, withData a s)
    | none => none
  | _ => none

end Driver.VarLenD
