import SplModel.Seeds

namespace Driver.SeedsD
open Seeds

def u8? (s : String) : Option UInt8 := do
  let n ← s.toNat?
  if n < 256 then some (UInt8.ofNat n) else none

def fmtSeed : Seed → String
  | .uninit => "U"
  | .literal b => s!"L:{Hex.ofBytes b}"
  | .instr i l => s!"I:{i.toNat}:{l.toNat}"
  | .acctKey i => s!"K:{i.toNat}"
  | .acctData a d l => s!"D:{a.toNat}:{d.toNat}:{l.toNat}"

def fmtSeeds : List Seed → String
  | [] => "-"
  | xs => ";".intercalate (xs.map fmtSeed)

def parseSeed (t : String) : Option Seed :=
  match t.splitOn ":" with
  | ["U"] => some .uninit
  | ["L", h] => (Hex.toBytes h).map .literal
  | ["I", i, l] => do pure (.instr (← u8? i) (← u8? l))
  | ["K", i] => do pure (.acctKey (← u8? i))
  | ["D", a, d, l] => do pure (.acctData (← u8? a) (← u8? d) (← u8? l))
  | _ => none

def parseSeeds (t : String) : Option (List Seed) :=
  if t = "-" then some [] else (t.splitOn ";").mapM parseSeed

def fmtKd : PubkeyData → String
  | .uninit => "U"
  | .instr i => s!"I:{i.toNat}"
  | .acctData a d => s!"D:{a.toNat}:{d.toNat}"

def parseKd (t : String) : Option PubkeyData :=
  match t.splitOn ":" with
  | ["U"] => some .uninit
  | ["I", i] => do pure (.instr (← u8? i))
  | ["D", a, d] => do pure (.acctData (← u8? a) (← u8? d))
  | _ => none

def resLine {α} (f : α → String) : Res α → String
  | .ok a => s!"ok {f a}"
  | .err e => s!"err | {e.code}"
  | .panic => "panic"

def handle (toks : List String) : Option String :=
  match toks with
  | ["packseeds", s] => do
    let seeds ← parseSeeds s
    pure (resLine Hex.ofBytes (packIntoAddressConfig seeds))
  | ["unpackseeds", h] => do
    let c ← Hex.toBytes h
    pure (resLine fmtSeeds (unpackAddressConfig c))
  | ["packone", s, n] => do
    let seed ← parseSeed s
    let n ← n.toNat?
    pure (resLine Hex.ofBytes (pack seed n))
  | ["unpackone", h] => do
    let b ← Hex.toBytes h
    pure (resLine fmtSeed (unpack b))
  | ["kdpack", k] => do
    let k ← parseKd k
    pure (resLine Hex.ofBytes (kdPackIntoAddressConfig k))
  | ["kdunpack", h] => do
    let b ← Hex.toBytes h
    pure (resLine fmtKd (kdUnpack b))
  | _ => none

end Driver.SeedsD
