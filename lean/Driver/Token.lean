import SplModel.Token
import SplModel.TokenRef

namespace Driver.Tok
open Token TokenRef

def fmtAcct : Res (Option Token.Account) → String
  | .panic => "panic"
  | .err _ => "err"
  | .ok none => "none"
  | .ok (some a) => s!"{Hex.ofBytes a.mint}:{Hex.ofBytes a.owner}:{a.amount}"

def fmtMint : Res (Option Token.Mint) → String
  | .panic => "panic"
  | .err _ => "err"
  | .ok none => "none"
  | .ok (some m) => s!"{m.supply}:{m.decimals.toNat}"

def optKey : Option Bytes → String
  | none => "~"
  | some k => Hex.ofBytes k

def fmtRefAcct : Option RefAccount → String
  | none => "none"
  | some a =>
    let native := match a.isNative with | none => "~" | some n => toString n
    s!"{Hex.ofBytes a.mint}:{Hex.ofBytes a.owner}:{a.amount}:{optKey a.delegate}:{a.state.toNat}:{native}:{a.delegatedAmount}:{optKey a.closeAuthority}"

def fmtRefMint : Option RefMint → String
  | none => "none"
  | some m => s!"{optKey m.mintAuthority}:{m.supply}:{m.decimals.toNat}:{optKey m.freezeAuthority}"

def tok (d p : Bytes) : String :=
  s!"A={fmtAcct (genericAccount d p)} M={fmtMint (genericMint d p)}"

def tokref (d : Bytes) : String :=
  let t := Gen.Token.TOKEN_ID
  let t22 := Gen.Token.TOKEN_2022_ID
  s!"TA={fmtRefAcct (unpackAccount d)} TM={fmtRefMint (unpackMint d)} XA={fmtRefAcct (t22UnpackAccount d)} XM={fmtRefMint (t22UnpackMint d)} GA1={fmtAcct (genericAccount d t)} GM1={fmtMint (genericMint d t)} GA2={fmtAcct (genericAccount d t22)} GM2={fmtMint (genericMint d t22)}"

def fmtOpt {α} (f : α → String) : Res (Option α) → String
  | .panic => "panic"
  | .err _ => "err"
  | .ok none => "~"
  | .ok (some x) => f x

/-- the ten trait-level checked getters: `token::` then `token_2022::` implementors -/
def tokget (d : Bytes) : String :=
  let one (t22 : Bool) :=
    s!"{fmtOpt Hex.ofBytes (getAccountMint t22 d)}:{fmtOpt Hex.ofBytes (getAccountOwner t22 d)}:{fmtOpt toString (getAccountAmount t22 d)}:{fmtOpt toString (getMintSupply t22 d)}:{fmtOpt (fun (b : UInt8) => toString b.toNat) (getMintDecimals t22 d)}"
  s!"T={one false} X={one true}"

/-- a long buffer `(len, first 166 bytes)` → its stand-in; rejected unless `len ≥ 357` and the head is 166 bytes -/
def big (len head : String) : Option Bytes := do
  let n ← len.toNat?
  let h ← Hex.toBytes head
  if 357 ≤ n ∧ h.length = 166 then pure (Token.standIn h) else none

def handle (toks : List String) : Option String :=
  match toks with
  | ["tok", d, p] => do
    let d ← Hex.toBytes d
    let p ← Hex.toBytes p
    pure (tok d p)
  | ["tokconst"] =>
    pure s!"ids={Hex.ofBytes Gen.Token.TOKEN_ID},{Hex.ofBytes Gen.Token.TOKEN_2022_ID} acc={Gen.Token.SPL_TOKEN_ACCOUNT_LENGTH} mint={Gen.Token.SPL_TOKEN_MINT_LENGTH} native={Hex.ofBytes Gen.Token.NATIVE_MINT_ID}:{Hex.ofBytes Gen.Token.NATIVE_MINT_ACCOUNT_DATA}"
  | ["tokget", d] => do
    let d ← Hex.toBytes d
    pure (tokget d)
  | ["tokref", d] => do
    let d ← Hex.toBytes d
    pure (tokref d)
  -- long buffers, given by their length and first 166 bytes (justified by C16/C17_length_frame)
  | ["tokbig", len, head, p] => do
    let h ← big len head
    let p ← Hex.toBytes p
    pure (tok h p)
  | ["tokgetbig", len, head] => do
    let h ← big len head
    pure (tokget h)
  | ["tokrefbig", len, head] => do
    let h ← big len head
    pure (tokref h)
  | _ => none

end Driver.Tok
