"""Per-property configuration of bin/check."""

COMMON_ASSUME = [
    "the Lean model performs the checks and writes of its Rust counterpart in the same order (validated by the correspondence stream, not proved)",
    "debug-profile semantics (overflow checks on), 64-bit little-endian host",
]

from extras import pod_features, macro_lab_c15, macro_lab_c18, macro_lab_c19

PROPS = {
    "C01": {
        "harness_feature": "f_tlv,f_varlen",
        "lean_module": "SplProofs.C01",
        # the second stream is C15's: the account-level variable-length rewrite (realloc_and_pack_*, with repetition numbers) is a
        # resize-and-write of one entry too, and its read-your-writes / isolation clauses are C01's
        "streams": ["C01", "C15"],
        "rule": "stream tlvhist: histories from a zeroed buffer (sizes 0..300, weighted to exact fit and +-1..12 around it) over an adversarial 8-tag palette and value sizes 0/1/3/5(non-zero default)/8/32 and variable lengths: alloc +-repetition, init_value, realloc to 0 / same / exact fit / fit+1 / > u32::MAX, byte and typed writes through the mutable views, var-len pack (streaming packer), alloc_and_pack, lookups (incl. the get_first_* / *_first_* wrappers for repetition 0), get_discriminators, reopen through the three views; the generator steers towards failing operations at every state; plus special cases outside the line protocol's buffers: entries whose length needs the 3rd/4th length byte (up to 16 MiB) and a 4 GiB zeroed buffer for the length-not-representable failure; after every op the raw buffer, returned slice range (pointer arithmetic) and repetition number are compared with the model and with a shadow Vec<(tag, Vec<u8>)> + independent canonical encoder;  non-trivial = history with >= 2 successful mutations on >= 2 entries and a resize/write that is not on the last entry; second stream varlen-account (see C15): account-level rewrites of first/middle/last and repeated entries to the same, a shorter and a longer encoded size",
        "assumptions": COMMON_ASSUME + ["type tags are 8-byte non-zero discriminators", "typed reads/writes use align-1 Pod types"],
    },
    "C03": {
        "harness_feature": "f_tlv,f_varlen",
        "lean_module": "SplProofs.C03",
        # second stream: C15's account histories (the account-level rewrite must leave the canonical layout too)
        "streams": ["C03", "C15"],
        "rule": "stream tlvhist: histories from a zeroed buffer (sizes 0..300, weighted to exact fit and +-1..12 around it) over an adversarial 8-tag palette and value sizes 0/1/3/5(non-zero default)/8/32 and variable lengths: alloc +-repetition, init_value, realloc to 0 / same / exact fit / fit+1 / > u32::MAX, byte and typed writes through the mutable views, var-len pack (streaming packer), alloc_and_pack, lookups (incl. the get_first_* / *_first_* wrappers for repetition 0), get_discriminators, reopen through the three views; the generator steers towards failing operations at every state; plus special cases outside the line protocol's buffers: entries whose length needs the 3rd/4th length byte (up to 16 MiB) and a 4 GiB zeroed buffer for the length-not-representable failure; after every op the raw buffer, returned slice range (pointer arithmetic) and repetition number are compared with the model and with a shadow Vec<(tag, Vec<u8>)> + independent canonical encoder;  raw bytes compared byte-for-byte with an independent encoder of the logical entry list after every step; non-trivial as C01",
        "assumptions": COMMON_ASSUME + ["type tags are 8-byte non-zero discriminators"],
    },
    "C04": {
        "harness_feature": "f_tlv,f_varlen",
        "lean_module": "SplProofs.C04",
        # second stream: C15's account histories (a failing account-level rewrite must leave the account as it was)
        "streams": ["C04", "C15"],
        "rule": "stream tlvhist: histories from a zeroed buffer (sizes 0..300, weighted to exact fit and +-1..12 around it) over an adversarial 8-tag palette and value sizes 0/1/3/5(non-zero default)/8/32 and variable lengths: alloc +-repetition, init_value, realloc to 0 / same / exact fit / fit+1 / > u32::MAX, byte and typed writes through the mutable views, var-len pack (streaming packer), alloc_and_pack, lookups (incl. the get_first_* / *_first_* wrappers for repetition 0), get_discriminators, reopen through the three views; the generator steers towards failing operations at every state; plus special cases outside the line protocol's buffers: entries whose length needs the 3rd/4th length byte (up to 16 MiB) and a 4 GiB zeroed buffer for the length-not-representable failure; after every op the raw buffer, returned slice range (pointer arithmetic) and repetition number are compared with the model and with a shadow Vec<(tag, Vec<u8>)> + independent canonical encoder;  plus histories that start from openable but non-canonical buffers (entries, terminator, garbage); non-trivial = history that reaches a state with >= 1 entry and executes >= 1 failing mutation there",
        "assumptions": COMMON_ASSUME + ["type tags are 8-byte non-zero discriminators"],
    },
    "C02": {
        "harness_feature": "f_tlv",
        "lean_module": "SplProofs.C02",
        "streams": ["C02"],
        "rule": "stream tlvq: zero/random strings of every length 0..13, and structured mutants of valid encodings over an adversarial tag palette (shared 7-byte prefix, leading/trailing zero "
                "bytes, all-0xff): 1..11 trailing zero / non-zero bytes, zero tag followed by garbage, truncation at any position, length u32::MAX, length exactly-the-end / one past, truncated length "
                "field, duplicated entries, single-byte corruption; each opened through the three views and queried by (tag, repetition 0..2) as bytes and as a fixed-size type; returned slice "
                "addresses compared with an independent parser; non-trivial = accepted with >= 1 entry, or rejected after a well-formed first entry",
        "assumptions": COMMON_ASSUME + ["typed reads use align-1 Pod types (the crate's convention)"],
    },
    "C05": {
        "harness_feature": "f_resolve",
        "lean_module": "SplProofs.C05",
        "extra_modules": ["SplProofs.C05Source"],
        "streams": ["C05"],
        "rule": "stream resolve: structured configs of every kind (fixed key; PDA with 0..16 seeds of every kind incl. boundary indices end == len / len+1, 32- and 33-byte slices, forward references; "
                "external-program PDAs with in/out-of-range index; key-from-data at the last valid / first invalid offset) and uniformly random 35-byte configs over all 256 kind bytes and arbitrary flag bytes; "
                "instruction data 0..80 bytes (also 250..300 and 509..520), 0..6 accounts with data None / 0..80 bytes (also 250..300, 509..520); the Lean driver derives the PDA itself (SHA-256 + Ed25519 on-curve test + bump search), compared on the final key; "
                "oracle = independent re-parse of the config bytes + Pubkey::try_find_program_address; plus every constructor; non-trivial = reaches a kind-specific branch",
        "trusted": ["Pubkey::try_find_program_address is a parameter of the theorems; its Lean implementation (Ed25519.pda) is validated against solana-pubkey by the stream, not proved"],
        "assumptions": COMMON_ASSUME,
    },
    "C06": {
        "harness_feature": "f_resolve",
        "lean_module": "SplProofs.C06",
        "streams": ["C06"],
        "rule": "stream privileges: scenarios over a 6-key world (so fixed keys collide with existing metas and extra keys repeat): instructions with 0..5 metas (one scenario in thirty: 253..258 metas) with duplicate keys and mixed flags, stored lists of 0..5 configs of every kind built through the real init (sometimes with one corrupted byte), instruction data 0..80 bytes;  off-chain helper with a fetch map (present / absent accounts) and CPI helper with initial infos mirroring the metas and a shuffled pool; oracle = the four privilege "
                "clauses evaluated on Instruction.accounts; non-trivial = >= 2 appended metas or an appended key that collides with an existing meta",
        "trusted": ["Pubkey::try_find_program_address is a parameter of the theorems (validated executable instance)"],
        "assumptions": COMMON_ASSUME,
    },
    "C07": {
        "harness_feature": "f_resolve",
        "lean_module": "SplProofs.C07",
        "streams": ["C07"],
        "rule": "stream check-infos: scenarios over a 6-key world (so fixed keys collide with existing metas and extra keys repeat): instructions with 0..5 metas (one scenario in thirty: 253..258 metas) with duplicate keys and mixed flags, stored lists of 0..5 configs of every kind built through the real init (sometimes with one corrupted byte), instruction data 0..80 bytes;  accepted account lists (each config resolved against the final list, incl. forward references) and every single-field mutation of them: one key, one signer flag, one "
                "writable flag, one account dropped / inserted / swapped / appended, lists shorter than the config list, malformed stored bytes; oracle = iff-statement re-evaluated with an independent resolver; "
                "non-trivial = stored list with >= 1 config",
        "trusted": ["Pubkey::try_find_program_address is a parameter of the theorems (validated executable instance)"],
        "assumptions": COMMON_ASSUME,
    },
    "C08": {
        "harness_feature": "f_resolve",
        "lean_module": "SplProofs.C08",
        "streams": ["C08"],
        "rule": "stream offchain-vs-cpi: scenarios over a 6-key world (so fixed keys collide with existing metas and extra keys repeat): instructions with 0..5 metas (one scenario in thirty: 253..258 metas) with duplicate keys and mixed flags, stored lists of 0..5 configs of every kind built through the real init (sometimes with one corrupted byte), instruction data 0..80 bytes;  both helpers run on the same scenario (fetcher = the data the infos hold), pool = a random permutation of the world's accounts, sometimes incomplete or with a duplicate; "
                "oracle = both fail or both succeed with identical metas (CPI may additionally fail only when the pool lacks a resolved key), untouched prefix, one meta per config, lockstep infos; non-trivial as C06",
        "trusted": ["Pubkey::try_find_program_address is a parameter of the theorems (validated executable instance)", "the async off-chain helper is driven by a single-poll executor (futures::executor::block_on)"],
        "assumptions": COMMON_ASSUME + ["precondition of the property: initial infos mirror the instruction's metas; the fetcher returns the data the infos hold"],
    },
    "C09": {
        "harness_feature": "f_listview",
        "lean_module": "SplProofs.C09",
        "extra_modules": ["SplProofs.C09Source"],
        "streams": ["C09"],
        "rule": "stream lvhist: histories of init / push / remove(i) / set / sort (3 comparators incl. one that only looks at the first byte, to observe stability) / reopen / bytes_used / "
                "bytes_allocated over 10 element types (incl. size 12 / align 4 and size 24 / align 8) x 6 prefix types (PodU16/32/64/128, the one-byte u8, and the 2-aligned primitive u16 which must always be rejected) at aligned offsets of a 16-aligned arena, capacities 0..6, initial buffers zeroed or garbage, full buffer compared after every op, "
                "shadow Vec oracle; plus the prefix-maximum histories (u8 elements, 16-bit prefix, capacity 65535/65536, length 65534 -> 65535 -> overflow); non-trivial = history with >= 2 successful and >= 1 failing op",
        "assumptions": COMMON_ASSUME + ["capacity < usize::MAX (buffers are smaller than the address space)"],
    },
    "C10": {
        "harness_feature": "f_listview",
        "lean_module": "SplProofs.C10",
        "extra_modules": ["SplProofs.C10Source"],
        "streams": ["C10"],
        "rule": "stream lv: 10 element types ((1,1) (2,2) (3,1) (4,4) (8,8) (16,16) (35,1) zero-sized, and (12,4) (24,8) whose size is a proper multiple of the alignment) x 6 prefix types (16/32/64/128-bit Pod integers, one-byte u8, and the 2-aligned primitive u16 which must always be rejected), buffers placed at start offsets 0..15 of a "
                "16-aligned arena: all-0xff buffers (the prefix type's maximum), every length 0..header+1, random buffers with capacity 0..5, slop bytes, stored length <= cap / cap+1 / "
                "2^64..2^64+2 / 2^128-1; read-only and mutable opening compared, element address range checked against the arena, size_of incl. overflow; non-trivial = buffer at least header-sized",
        "assumptions": COMMON_ASSUME + ["element alignment <= 16 in the stream (the theorem covers every alignment up to 2^29)"],
    },
    "C11": {
        "harness_feature": "f_seeds",
        "lean_module": "SplProofs.C11",
        "extra_modules": ["SplProofs.C11Source"],
        "streams": ["C11"],
        "rule": "stream seeds: every literal length 0..300 (alone and behind another seed, incl. 253-257), every kind at the end of an exactly-32-byte list and one byte over, 0/16/17 seeds, "
                "uninitialised seeds at every position, random lists; Seed::pack into destination slices of wrong sizes; unpack of random, small-alphabet and structured 32-byte arrays "
                "(valid packings with garbage tails / mutated bytes) and of prefixes; key-data configs over both u8 parameters (thorough: exhaustive 65 536 + 256) and byte prefixes; "
                "non-trivial = list of >= 2 seeds or literal >= 30 bytes; for unpack: array whose first byte is a valid kind",
        "assumptions": COMMON_ASSUME,
    },
    "C12": {
        "harness_feature": "f_resolve",
        "lean_module": "SplProofs.C12",
        "streams": ["C12"],
        "rule": "stream metalist: histories of init / update / read over 1..3 instruction discriminators (adversarial tag palette), list lengths 0..7, buffers of the advertised size -1 / exact / +slack, "
                "arbitrary 35-byte configs, malformed starting bytes, init of an existing list, update of a missing list, update of a list that sits before another one; after every op the raw buffer is "
                "compared with the model, every known list is read back and compared, and failed ops must leave the bytes identical; non-trivial = >= 2 discriminators in one account or an update that changes "
                "the list length",
        "assumptions": COMMON_ASSUME + ["lists have fewer than 2^26 configs"],
    },
    "C13": {
        "harness_feature": "f_pod",
        "lean_module": "SplProofs.C13",
        "streams": ["C13"],
        "extra": [pod_features],
        "rule": "stream pod: bool byte / u16 / i16 exhaustively, boundary+random u32/u64/i64/u128 (each compared with to_le_bytes and with the primitive's own "
                "borsh/serde_json/wincode encoding), byte casts and slice casts (immutable and mutable twins) of every length 0..64 for every Pod type (aliasing checked by pointer), by-value and by-reference bool conversions, Borsh/Wincode/Serde round trips, pod_get_packed_len, "
                "usize conversions around every width boundary; non-trivial = value not in {0,1,-1} / non-empty cast input; plus cargo check of spl-pod feature subsets "
                "(quick: none, bytemuck, all; thorough: all 16)",
        "trusted": ["borsh / serde_json / wincode / bytemuck are modelled (expected encoding = little-endian bytes, decimal text, true/false) and validated by the stream"],
        "assumptions": COMMON_ASSUME + ["Pod integer types are align-1 wrappers of [u8; k] (checked by the cast stream at arbitrary addresses)"],
    },
    "C14": {
        "harness_feature": "f_pod",
        "lean_module": "SplProofs.C14",
        "streams": ["C14"],
        "rule": "stream podoption: T = Address (none value, all 256 single-bit patterns, values differing from the none marker only in a late byte, random) and "
                "a 64-bit wrapper with 0 as none; Option, COption, From<T>, as_ref/as_mut/copied/cloned, byte cast, Borsh, Serde through JSON and through bincode (a non-human-readable format; Some(none-value) fed to both deserialisers); "
                "non-trivial = wrapped value differs from the none value",
        "trusted": ["borsh / serde_json encodings of the wrapped value are modelled as the identity wrapper and validated by the stream"],
        "assumptions": COMMON_ASSUME,
    },
    "C18": {
        "harness_feature": "f_disc",
        "lean_module": "SplProofs.C18",
        "streams": ["C18"],
        "extra": [macro_lab_c18],
        "rule": "stream disc: random Unicode strings (all planes, combining marks, controls, whitespace at both ends, quotes, backslashes, empty, up to 4 KiB) rendered to attribute "
                "source text with random valid rendering choices (raw strings with # fences, \\x \\u{…} with underscores/padding, \\n \\t \\0, line continuations); the real "
                "discriminator-syn builder is run in-process on `#[discriminator_hash_input(<literal>)] struct S;` and on an enum, through TryFrom and through its Parse/ToTokens impls (all must agree; an item without the attribute must be rejected), its emitted byte string is compared with new_with_hash_input, with the sha2 "
                "crate and with the model fed the same source text; conversions over all slice lengths 0..32 and boundary/random u64; non-trivial = non-ASCII char, escape or edge whitespace",
        "trusted": ["SHA-256: the Lean implementation is validated against sha2 on every case (not proved)", "syn's LitStr::value is modelled by SplModel/RustLit.lean and validated by the stream"],
        "assumptions": COMMON_ASSUME,
    },
    "C19": {
        "harness_feature": "f_errs",
        "lean_module": "SplProofs.C19",
        "streams": ["C19"],
        "extra": [macro_lab_c19],
        "rule": "stream liberr: every code in [start-3, start+n+3] of TlvError / ListViewError / AccountResolutionError, edge codes and random u32, through TryFrom<u32>, FromPrimitive, "
                "Display, to_str, ProgramError::from; non-trivial = code that maps to a variant (distinct by case line)",
        "trusted": ["thiserror Display of a brace-free #[error(\"…\")] is modelled as the text itself; validated by the stream for the library enums"],
        "assumptions": COMMON_ASSUME,
    },
    "C15": {
        "harness_feature": "f_varlen",
        "lean_module": "SplProofs.C15",
        "streams": ["C15"],
        "extra": [macro_lab_c15],
        "rule": "stream varlen-account: accounts in the runtime's serialized layout built in the harness (original_data_len word, key, owner, lamports, data_len word, data, 10 KiB spare) so that the real "
                "AccountInfo::resize runs; histories of alloc_and_pack (repeated types) then realloc_and_pack_variable_len_with_repetition of first/middle/last entries: same size, to 0, grow by 1..2000, "
                "shrink, grow beyond the 10 KiB limit, missing entries; after every op the full account data is compared with the model and with an independent encoder (other entries byte-identical, "
                "spare tail zero and of constant size, length delta = encoded-size delta). Stream bpack: derived SplBorshVariableLenPack for a struct, a 3-variant enum and a generic struct with inline "
                "bounds, values with Unicode strings / byte vectors / options, slots shorter, exact and longer than the value, compared with borsh::to_vec and the Lean codec; non-trivial = account with "
                ">= 2 entries and a length-changing rewrite of a non-last entry, and every bpack case",
        "trusted": ["AccountInfo::resize (unsafe pointer code) is modelled as truncate / zero-extend with the 10 KiB limit and validated by the stream on real runtime-layout memory",
                    "borsh is modelled by the combinator codecs of SplModel/Borsh.lean and validated by the stream"],
        "assumptions": COMMON_ASSUME + ["type tags are 8-byte non-zero discriminators", "account data is smaller than 2^64 - 1 bytes"],
    },
    "C16": {
        "harness_feature": "f_token",
        "lean_module": "SplProofs.C16",
        # the validity predicates C16's theorems rest on are the ones regenerated from the source for C17
        "extra_modules": ["SplProofs.C17Source"],
        "streams": ["C16"],
        "rule": "stream tokref: states packed by spl-token-interface / spl-token-2022-interface (base, marker+arbitrary tail, real extensions), "
                "padding variants and byte/truncation mutants; a case is non-trivial when the buffer has a layout length (82, >=165) and so "
                "reaches the byte-level predicates; distinct by hash of the case line",
        "trusted": ["reference codecs spl-token-interface 2.0.0 / spl-token-2022-interface 2.0.0 are modelled (SplModel/TokenRef.lean) and validated by the stream, not verified"],
        "assumptions": COMMON_ASSUME + ["Token-2022 acceptance is StateWithExtensions::<S>::unpack (base unpack + account-type byte; no TLV walk, as in the interface crate)"],
    },
    "C17": {
        "harness_feature": "f_token",
        "lean_module": "SplProofs.C17",
        "extra_modules": ["SplProofs.C17Source"],
        "streams": ["C17"],
        "rule": "stream tok: public constants and id helpers vs the regenerated model constants, the native mint's canned data, boundary enumeration of layout lengths x marker bytes x both ids, then random buffers (lengths 0..600 weighted to "
                "82/165/166/355 neighbours, special bytes at 44/45/108/165) x program ids (real, one-bit near misses, random), every case placed at a varying offset 0..7 from an 8-aligned address; non-trivial = "
                "buffer of a layout length (82 or >=165); distinct by hash of the case line",
        "assumptions": COMMON_ASSUME,
    },
}
