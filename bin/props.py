"""Per-property configuration of bin/check."""

COMMON_ASSUME = [
    "the Lean model performs the checks and writes of its Rust counterpart in the same order (validated by the correspondence stream, not proved)",
    "debug-profile semantics (overflow checks on), 64-bit little-endian host",
]

PROPS = {
    "C16": {
        "lean_module": "SplProofs.C16",
        "streams": ["C16"],
        "rule": "stream tokref: states packed by spl-token-interface / spl-token-2022-interface (base, marker+arbitrary tail, real extensions), "
                "padding variants and byte/truncation mutants; a case is non-trivial when the buffer has a layout length (82, >=165) and so "
                "reaches the byte-level predicates; distinct by hash of the case line",
        "trusted": ["reference codecs spl-token-interface 2.0.0 / spl-token-2022-interface 2.0.0 are modelled (SplModel/TokenRef.lean) and validated by the stream, not verified"],
        "assumptions": COMMON_ASSUME + ["Token-2022 acceptance is StateWithExtensions::<S>::unpack (base unpack + account-type byte; no TLV walk, as in the interface crate)"],
    },
    "C17": {
        "lean_module": "SplProofs.C17",
        "streams": ["C17"],
        "rule": "stream tok: boundary enumeration of layout lengths x marker bytes x both ids, then random buffers (lengths 0..600 weighted to "
                "82/165/166/355 neighbours, special bytes at 44/45/108/165) x program ids (real, one-bit near misses, random); non-trivial = "
                "buffer of a layout length (82 or >=165); distinct by hash of the case line",
        "assumptions": COMMON_ASSUME,
    },
}
